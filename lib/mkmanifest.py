#!/usr/bin/env python3
"""Regenerates MANIFEST.json from lib/props.py (claimed checks) and lib/manifest_meta.py."""
import json
import os
import sys

sys.path.insert(0, os.path.dirname(os.path.abspath(__file__)))
import props
import manifest_meta as mm

ALL = ["C%02d" % i for i in range(1, 21)]
checks = []
for pid in ALL:
    if pid not in props.SPECS:
        continue
    meta = props.META[pid]
    checks.append({
        "property_id": pid,
        "quick_cmd": "./check %s quick" % pid,
        "thorough_cmd": "./check %s thorough" % pid,
        "evidence_file": "/verif/evidence/%s.json" % pid,
        "replay_cmd_template": "./check %s quick --replay {path}" % pid,
        "engine": props.SPECS[pid].get("engine", ""),
        "level_claimed": {"category": "proof", "text": meta["text"], "design_ref": meta["design_ref"]},
        "level_note": meta["note"],
        "technique": meta["technique"],
    })
na = [{"property_id": pid, "reason": props.NOT_APPLICABLE.get(pid, "check not built yet in this session (work in progress; claimed once its model, theorems and correspondence engine exist)")}
      for pid in ALL if pid not in props.SPECS]
engines = {}
for pid, s in props.SPECS.items():
    e = s.get("engine")
    if e:
        engines.setdefault(e, []).append(pid)
man = {
    "version": 1,
    "setup_cmd": "./setup.sh",
    "hooks": {
        "guard": "verif",
        "enable": "go build -tags verif (harness module with `replace github.com/blugelabs/bluge => /repo`)",
        "baseline_off_cmd": "cd /repo && GOFLAGS=-mod=mod GOPROXY=off go test -vet=off -count=1 -timeout 25m ./...",
        "source_commits": mm.HOOK_COMMITS,
        "add_only": True,
    },
    "engines": [{"name": e, "path": "harness/engines", "serves_properties": sorted(p), "kind_free_text": props.ENGINE_TEXT.get(e, "")}
                for e, p in sorted(engines.items())],
    "checks": checks,
    "not_applicable": na,
    "notes": mm.NOTES,
}
json.dump(man, open(os.path.join(os.path.dirname(os.path.dirname(os.path.abspath(__file__))), "MANIFEST.json"), "w"), indent=1)
print("MANIFEST.json: %d checks, %d not_applicable" % (len(checks), len(na)))
