"""Per-property configuration of the checks (engine, rules, trusted base)."""

SPECS = {
    "C10": dict(
        engine="numeric",
        level_rule=("cases: direct calls of Float64ToInt64/Int64ToFloat64, NewPrefixCodedInt64, PrefixCoded.Int64, "
                    "ValidPrefixCodedTermBytes, splitInt64Range, termRange.Enumerate, incrementBytes, the numeric analyzer's "
                    "tokens, Interleave/Deinterleave and end-to-end NumericRange queries, on boundary sets (sign change, +-0 "
                    "neighbours, subnormals, powers of two +-1, 4-bit and 7-bit boundaries, int64 extremes, +-Inf ends) plus "
                    "seeded random 64-bit values; a case is non-trivial when the call succeeds on a non-zero input / the "
                    "interval is non-empty / the query matches some but not all documents; distinct = distinct Coq case terms. "
                    "oracle evaluations: order embedding on all boundary pairs x 64 shifts, interval membership of probe values."),
        trust=["numeric_range_exact is stated over index tokens and split ranges; the dictionary (vellum) lookup "
               "`Contains` is a function parameter (dict) of the model"],
        assumptions=["NaN bit patterns are outside the order theorem's reading as numbers (finite values per the property)",
                     "the segment dictionary answers Contains(term) exactly for the indexed terms (checked end to end only)"],
        search_seeds=2,
    ),
}
