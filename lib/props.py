"""Loads the per-property specs from lib/specs/C??.py (one file per property so that
they can be edited independently)."""
import glob
import importlib.util
import os

SPECS, META, ENGINE_TEXT, NOT_APPLICABLE = {}, {}, {}, {}
_d = os.path.join(os.path.dirname(os.path.abspath(__file__)), "specs")
for _p in sorted(glob.glob(os.path.join(_d, "C*.py"))):
    _pid = os.path.basename(_p)[:-3]
    _s = importlib.util.spec_from_file_location("spec_" + _pid, _p)
    _m = importlib.util.module_from_spec(_s)
    _s.loader.exec_module(_m)
    if not os.path.exists(os.path.join(os.path.dirname(_d), "..", "coq", "Props", _pid + ".v")):
        continue  # not claimed until its theorems exist
    if getattr(_m, "NOT_APPLICABLE", None):
        NOT_APPLICABLE[_pid] = _m.NOT_APPLICABLE
        continue
    SPECS[_pid] = _m.SPEC
    META[_pid] = _m.META
    ENGINE_TEXT.update(getattr(_m, "ENGINE_TEXT", {}))
