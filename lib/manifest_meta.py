"""Texts for MANIFEST.json."""

HOOK_COMMITS = []  # filled by `git -C /repo log` at generation time below

import subprocess
try:
    out = subprocess.run(["git", "-C", "/repo", "log", "--format=%H %s"], stdout=subprocess.PIPE, text=True).stdout
    HOOK_COMMITS = [l.split()[0] for l in out.splitlines() if " verif hooks" in l or l.split(" ", 1)[1].startswith("verif hook")]
except Exception:
    pass

NOTES = ("All checks: ./check <id> quick|thorough. Each check regenerates coq/Gen from /repo (T-gen), rebuilds the Coq closure of "
         "Props/<id>.v, scans for forbidden tokens, rebuilds the Go harness against /repo's working tree with -tags verif, runs the "
         "engine and evaluates the generated cases with vm_compute. See DESIGN.md.")

