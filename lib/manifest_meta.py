"""Texts for MANIFEST.json."""

HOOK_COMMITS = []  # filled by `git -C /repo log` at generation time below

import subprocess
try:
    out = subprocess.run(["git", "-C", "/repo", "log", "--format=%H %s"], stdout=subprocess.PIPE, text=True).stdout
    HOOK_COMMITS = [l.split()[0] for l in out.splitlines() if " verif hooks" in l or l.split(" ", 1)[1].startswith("verif hook")]
except Exception:
    pass

NOTES = ("All checks: ./check <id> quick|thorough. Each check regenerates coq/Gen from /repo (T-gen), rebuilds the Coq closure of "
         "Props/<id>.v, scans for forbidden tokens, rebuilds the Go harness against /repo's working tree with -tags verif, runs the "
         "engine and evaluates the generated cases with vm_compute. See DESIGN.md.")

NOT_APPLICABLE = {}

ENGINE_TEXT = {
    "numeric": "direct calls + end-to-end range queries; cases evaluated by Search/NumericCorr.v",
}

META = {
    "C10": dict(
        text=("Theorems in Coq over an executable model of float.go / prefix_coded.go / splitInt64Range / Enumerate cover all 2^64 "
              "values and all intervals; the model is tied to the code on every run by evaluating it (vm_compute) on the "
              "implementation's observed outputs for boundary and random inputs, and by regenerated constants (T-gen)."),
        design_ref="DESIGN.md Part 2 C10",
        note=("Trusted: Coq kernel, goextract, harness. The vellum dictionary is a parameter of the model. Known finding D8 "
              "(Enumerate blow-up on ranges crossing a 7-bit digit boundary) is listed in KNOWN_FINDINGS.json."),
        technique="Coq proof (lia, bit lemmas) + vm_compute correspondence on observed outputs",
    ),
}
