"""C11"""

SPEC = dict(
    engine='proto-c11',
    gen_areas=[],
    corr_targets=['Index/ProtoCorr.vo'],
    level_rule="one case = one complete run of a real writer over the simulated directory (root history + persist/remove operations with file bytes + persister grab + acknowledgements), validated by the monitor of Index/Proto.v, plus crash probes: at chosen operation boundaries (after every persist start/ok, ack, remove; random) the crash image (complete files + a torn variant of every in-flight file: absent, prefix of any length, zero-filled, fully written) is reopened by the real OpenWriter and OpenReader and compared with the model's recover_writer / recover_reader (epoch, content, files left after the open clean-up); non-trivial = at least 2 introductions and at least one probe; oracle evaluations: recovered content is a prefix state containing every acknowledged batch, retention and removal predicates over every prefix of the run. C11 additionally varies the retention count N in 1..3, checks after every event that min(N, commits) loadable snapshots with all their segments exist, that no removed segment was needed, handle open/close pairing, lock release and refusal of a second writer.",
    trust=['segment library contract (ice v1/v2: DocsMatchingTerms returns the positions whose _id is named; Merge concatenates undropped documents and reports the old->new number tables) is not proved: it is the boolean side conditions obs_sound / merge_wf of the monitor, evaluated on every recorded event', 'trace instrumentation in /repo/index (verif_trace.go + 5 added call lines, build tag verif) reports root replacements, introductions, persister grab/ack faithfully', 'Index/SnapshotCodec.v loader model (owned by C12) evaluated on the actual snapshot bytes; roaring (de)serialisation is a lookup table supplied per case', 'the simulated directory (harness/sim) stands for a correct Directory: a persist that returns success leaves exactly the bytes written, a failed one leaves nothing (that is property C13 for the file-system directory)', "operation-boundary crash model of the property text; kernel/file-system durability of fsync'ed data and of directory entries is assumed"],
    assumptions=[],
    search_seeds=2,
    engine_timeout=1500,
)

META = dict(
    text="Theorems (retention, no_needed_removal, policy_inv, pol_commit_spec) for the exact KeepNLatest model and every accepted run; the real deletion policy's removals are validated event by event by the monitor and by the open clean-up comparison of every crash probe.",
    design_ref='DESIGN.md Part 2 C11',
    note="flock semantics and the close/unlink window of Unlock are OS behaviour (modelled by the simulated directory's lock and pinned open files).",
    technique='Coq proof (policy invariant) + monitor on recorded removals + retention oracle over every prefix',
)

ENGINE_TEXT = {'proto-c11': 'retention N in 1..3, handles, lock'}
