"""C17 — BM25 laws and explanation faithfulness."""

SPEC = dict(
    engine="bm25",
    gen_areas=["BM25"],
    corr_targets=["Search/BM25Corr.vo"],
    level_rule=("cases: direct calls of BM25Similarity.Idf / AverageFieldLength / IdfExplainTerm / ComputeNorm / "
                "Scorer.Score / Scorer.Explain, CompositeSumScorer.ScoreComposite / ExplainComposite, ConstantScorer with "
                "boundary statistics (n = 0, 1, N, N+1 (uint64 wrap); N up to 2^64-1 incl. 2^53+-1 and 2^63+1025; f in "
                "{-1, 0, 1 .. 2^20}; dl in {0 .. 2^24+1, max finite float32 pattern, Inf pattern}; avgdl from 2^-40 to 2^60, "
                "docCount = 0, nil statistics; non-finite norms) and end-to-end scores / explanation trees of term, boolean, "
                "match and match-all queries on seeded random corpora, with and without ExplainScores, plus structured corpora (the "
                "same documents with and without a composite field; a sparse field with pending deletions and updates); float64 values are "
                "compared as bit patterns (math.Log through a per-case table whose argument the model re-evaluates bit for "
                "bit). A case is non-trivial when its statistics satisfy the hypotheses of the laws (1 <= n <= N, f >= 1, "
                "consistent lengths) / the tree has more than one term leaf; distinct = distinct Coq case terms. Oracle "
                "evaluations: positivity and finiteness, the four monotonicity / linearity laws on pairs differing in one "
                "statistic (weak inequality always, strict unless the exact real gap is below the float64 forward error, "
                "counted as saturated:*), boost linearity end to end for every public query kind accepting SetBoost (term, fuzzy, "
                "prefix, wildcard, regexp, term/numeric/date range, geo, match with fuzziness/prefix/operator, phrase, "
                "multi-phrase, match-all, nested booleans; exact for 0.5 and 2, 512 ulp for 3), composite = sum x boost, explanation root = score without explanation, every node = "
                "its message's formula parsed and evaluated on its children."),
    trust=[
        "axioms of Coq's real numbers, reported by Print Assumptions under the real-number theorems: "
        "ClassicalDedekindReals.sig_forall_dec, ClassicalDedekindReals.sig_not_dec, "
        "FunctionalExtensionality.functional_extensionality_dep, Classical_Prop.classic (the last through ln)",
        "idf_witness_values only: Coq-Interval with 50-bit software floats, which brings the Uint63 primitives and their "
        "specification axioms (PrimInt63.*, Uint63.*_spec) of the standard library",
        "norm_roundtrip only: Coq's primitive floats and integers (PrimFloat.*, PrimInt63.*) and the standard library's "
        "specification axiom FloatAxioms.Prim2SF_SF2Prim",
        "float_weak_mono, score_is_rounded_real (PrimFloat <-> rounded reals through Flocq's IEEE754.PrimFloat/BinarySingleNaN): "
        "the Reals axioms, Coq's primitive floats and integers (PrimFloat.*, PrimInt63.*) with the standard library's "
        "specification axioms FloatAxioms.{add,sub,mul,div,abs,eqb,ltb,leb,of_uint63}_spec, Prim2SF_valid, SF2Prim_Prim2SF, "
        "Prim2SF_SF2Prim and Uint63.{add,sub,ltb,leb,lsl,lsr,lor,eqb_*,of_to_Z}_spec",
        "explain_root_is_score is stated for every arithmetic (record ops), so it covers binary64 without any float axiom; "
        "Coq's primitive floats are tied to IEEE-754 binary64 by the FloatAxioms specifications (used by float_weak_mono) and to Go's float64 on amd64 "
        "(round to nearest even, no fused multiply-add) only by the bit-exact correspondence cases",
        "math.Log is not modelled: per-case table; the strictness classification of the idf law assumes it is monotone and "
        "accurate to a few ulp",
        "the harness's mirror of the pre-log argument (bm25IdfArgMirror) is re-evaluated bit for bit by the model (CIdf)",
    ],
    assumptions=[
        "laws are proved over the reals for 1 <= n <= N, f >= 1, dl >= 0, avgdl > 0, k1 > 0, 0 <= b <= 1, boost > 0 and "
        "(b < 1 or dl > 0) (the last excludes the division by zero of the length normalisation, where float64 yields +Inf "
        "and the score equals the weight)",
        "in float64 strictness can saturate (equal scores for statistics whose real scores differ by less than the "
        "rounding error); such pairs are counted separately, never reported; the weak inequalities are demanded always",
        "explanation faithfulness of the tf and score nodes, whose code evaluates an algebraically equal form of the "
        "stated formula, is demanded up to 16 ulp of the node's scale in float64 and proved exactly over the reals "
        "(tf_stated_is_computed, explain_nodes_faithful)",
        "field lengths >= 0x7F800001 (float32 NaN bit patterns, > 2.1e9 tokens in one field) are outside the model: "
        "Coq's primitive floats have a single NaN",
    ],
    search_seeds=2,
    engine_timeout=900,
    coqchk_timeout=420,  # Flocq/Interval/Coquelicot under BM25Rnd take more than 50 min to re-check: recorded as not completed
)

META = dict(
    text=("The BM25 laws are Coq theorems over the reals for the exact algebraic form bm25.go evaluates (literals and "
          "explanation messages regenerated from the Go AST on every run); a binary64 model written over Coq's primitive "
          "floats reproduces Idf/Score/Explain/Composite bit for bit on the implementation's observed outputs; explanation "
          "trees are modelled with their message texts, each text is read as a formula and proved equal to the node's value."),
    design_ref="DESIGN.md Part 2 C17, Part 3 D4",
    note=("D4 (idf message stated another formula) was repaired by correcting the message (commit 768aa58); the engine also "
          "found that MatchQuery applied its boost twice (score x c^2, commit e1675c8), that MatchAll/DateRange/GeoBoundingBox "
          "queries ignored their boost (cfbe686) and that phrase queries ignored it (99359f9). All are listed in "
          "findings/C17.json with status fixed; the engine re-reports either divergence should it reappear."),
    technique="Coq proof over R (lra/field/ln lemmas) + PrimFloat model evaluated by vm_compute on observed outputs",
)

ENGINE_TEXT = {"bm25": "direct similarity calls with boundary statistics + end-to-end scores and explanation trees; cases evaluated by Search/BM25Corr.v"}
