"""C01"""

SPEC = dict(
    engine='index-c01',
    gen_areas=[],
    corr_targets=['Index/TraceCorr.vo'],
    level_rule='one case = the recorded root history of one writer run (batch calls/returns, every introduceSegment / introducePersist / introduceMerge with its parameters and the observed new root, reader observations: Count, match-all, lookup by id, stored values) over a simulated, file-system or in-memory directory, ice v1/v2, safe/unsafe, merge options small/default/off; the monitor of Index/Trace.v recomputes every root with the model and rejects any difference; non-trivial = at least 3 introductions and at least one merge or persist swap (or an in-memory directory); distinct = distinct Coq case terms. oracle evaluations: reader content vs the abstract index folded in Go.',
    trust=['segment library contract (ice v1/v2: DocsMatchingTerms returns the positions whose _id is named; Merge concatenates undropped documents and reports the old->new number tables) is not proved: it is the boolean side conditions obs_sound / merge_wf of the monitor, evaluated on every recorded event', 'trace instrumentation in /repo/index (verif_trace.go + 5 added call lines, build tag verif) reports root replacements, introductions, persister grab/ack faithfully'],
    assumptions=[],
    search_seeds=2,
    engine_timeout=1500,
)

META = dict(
    text='Theorems (introduce_refines, history_refines, observables_agree, update_only_unique) hold for every history the monitor accepts; every recorded run of the real writer is checked to be accepted (each root recomputed bit for bit by the model), and the abstract-index predicate is evaluated directly on what readers return.',
    design_ref='DESIGN.md Part 2 C01',
    note="Trusted: the segment library contract as monitor side conditions, the trace instrumentation, the harness. Known finding D6 (one batch naming an id twice) is the property text's own exclusion.",
    technique='Coq proof over an executable model + trace validation (vm_compute monitor) of recorded runs',
)

ENGINE_TEXT = {'index-c01': 'generated batch histories on a real writer; root history validated by Index/Trace.v'}
