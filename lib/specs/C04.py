"""C04"""

SPEC = dict(
    engine='index-c04',
    gen_areas=[],
    corr_targets=['Index/TraceCorr.vo', 'Index/HandlesCorr.vo'],
    level_rule='one case = the recorded root history of one writer run (batch calls/returns, every introduceSegment / introducePersist / introduceMerge with its parameters and the observed new root, reader observations: Count, match-all, lookup by id, stored values) over a simulated, file-system or in-memory directory, ice v1/v2, safe/unsafe, merge options small/default/off; the monitor of Index/Trace.v recomputes every root with the model and rejects any difference; non-trivial = at least 3 introductions and at least one merge or persist swap (or an in-memory directory); distinct = distinct Coq case terms. oracle evaluations: reader content vs the abstract index folded in Go. C04 runs keep up to 4 readers of different ages open across batches, merges, persists, removals and writer Close; each is re-queried after every step (oracle: identical answers, no fault).',
    trust=['segment library contract (ice v1/v2: DocsMatchingTerms returns the positions whose _id is named; Merge concatenates undropped documents and reports the old->new number tables) is not proved: it is the boolean side conditions obs_sound / merge_wf of the monitor, evaluated on every recorded event', 'trace instrumentation in /repo/index (verif_trace.go + 5 added call lines, build tag verif) reports root replacements, introductions, persister grab/ack faithfully'],
    assumptions=[],
    search_seeds=2,
    engine_timeout=1500,
)

META = dict(
    text='Reference-count model (Index/Refs.v: refs_invariant, handles_balanced, cow_roots) proved for every operation sequence; reader_frozen over the trace model; held readers on the real writer are re-queried after every step and must answer exactly as when opened.',
    design_ref='DESIGN.md Part 2 C04',
    note="Partial: memory safety of mmap'ed segments is runtime behaviour; the theorem covers the reference-count discipline, the absence of faults/changes is observed on held readers (simulated, file-system and in-memory directories).",
    technique='Coq proof of the refcount discipline + held-reader differential oracle on recorded runs',
)

ENGINE_TEXT = {'index-c04': 'held readers re-queried after every step'}
