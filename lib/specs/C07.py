"""C07 — every query returns exactly the documents its meaning selects."""

SPEC = dict(
    engine="search",
    gen_areas=["Search", "Numeric"],
    corr_targets=["Search/SearchCorr.vo"],
    level_rule=("cases: (a) CQuery — one generated corpus (vocabulary of 3-6 colliding words, keyword / numeric / datetime / geo "
                "fields, 1-4 segments by batch partitioning with merging switched off, later batches updating and deleting "
                "documents of earlier ones so that deletions are pending) with a batch of generated query trees (depth <= 4, "
                "boolean nodes up to 12 clauses so that slice and heap disjunctions are both taken; corpora whose last structural "
                "change is a merge introduction or a merge followed by one batch; corpora with geo points in boundary cells just "
                "outside a box / circle; term, match, match-phrase, "
                "multi-phrase with slop and placeholders, prefix, wildcard, regexp, fuzzy, term range incl. inverted and "
                "degenerate, numeric range, date range, geo box / distance, match-all / none) and the ids returned by "
                "Reader.Search (AllMatches; TopN with scoring none; AllMatches with locations); the Coq check recomputes them "
                "with the searcher state machines (run) and with the denotation (sem) on the observed layout; (b) CScript — the "
                "searcher of a query obtained through Query.Searcher over the index snapshot and driven by a script of "
                "Next/Advance calls, the numbers returned recomputed step by step; a case is non-trivial when some query of it "
                "matches some but not all live documents; distinct = distinct Coq case terms. oracle evaluations: every search "
                "(AllMatches and TopN) compared with a direct Go evaluator of the documented meaning over the analysed fields "
                "of the live documents of the abstract history; every script step compared with the sorted remaining matches; "
                "thorough adds every assignment of 3 terms to 5 documents in 2 segments x a family of boolean shapes."),
    trust=["the analysed terms and positions of the documents are taken from the implementation's own analysis (Document.Analyze)",
           "segment-level postings lists (ice), roaring bitmaps, vellum dictionaries/automata are parameters of the model: a "
           "segment postings list is the increasing list of its undeleted documents holding the term",
           "regexp / wildcard / fuzzy leaves enter the model as the set of accepted terms computed by the oracle (Go regexp, an "
           "independent Levenshtein); geo leaves as the set of accepted documents (plain float comparison)"],
    assumptions=["fields are single-valued; one token per position (a location is identified by term and position)",
                 "sort.Sort of the conjunction's children by Count() is not modelled: the theorems hold for every order",
                 "numeric / date range leaves rely on C10 (split ranges = value interval) for the agreement of run and sem",
                 "the document-match pool (search/pool.go) is not modelled: matches are values"],
    search_seeds=2,
    engine_timeout=1500,
)

META = dict(
    text=("Executable Gallina models of index/postings.go and of every searcher of search/searcher (term, conjunction, both "
          "disjunctions over a model of container/heap, boolean, phrase + findPhrasePaths, filter, match-all/none) and of "
          "query.go's compilation, with a denotation `sem` of the documented query meaning; theorems relate the state machines "
          "to the denotation: the iterator contract is PROVED node by node (postings leaf, conjunction, slice and heap "
          "disjunction, boolean searcher for Next and Advance) and by induction on the depth for arbitrarily nested trees of "
          "term / match-none leaves and boolean nodes (searcher_spec_tree), giving search_exact and searcher_spec for every "
          "nested boolean query over term clauses with the conjunction push-down off (search_exact_nested_partial, "
          "searcher_spec_nested_partial) and, for flat boolean queries, with the default options; still _partial: phrase, "
          "multi-term, match-all and doc-set leaves, the push-down under nesting; the model is tied to the code on every run by "
          "recomputing the implementation's observed results and Next/Advance traces with vm_compute, and by regenerated "
          "constants (DisjunctionHeapTakeover, clause minima)."),
    design_ref="DESIGN.md Part 2 C07, 3.5",
    note=("Trusted: Coq kernel, goextract, harness. Third-party segment/automaton/geo code enters as parameters. Known findings: "
          "scoring 'none' drops min-should (unadorned disjunction reports Min()=0), fuzzy counts a transposition as one edit, "
          "numeric range enumeration blow-up (C10 D8). Repaired: iterator recycled while in use after a backward Advance, "
          "inverted/degenerate term ranges, FuzzyQuery with fuzziness 0. Proof-level facts about the implementation recorded "
          "in the statements: BooleanSearcher.Advance as a first call skips the first should match (callers start with "
          "Next); advanceIfTrailing advances an optional should searcher below its cursor; a conjunction that ran dry "
          "re-advances finished children, whose postings iterators restart or return left-over postings (sound, not exact)."),
    technique="Coq proof (induction over searcher trees, list/order lemmas) + vm_compute correspondence on observed results and traces + direct Go oracle",
)

ENGINE_TEXT = {"search": "generated corpora x query trees through Reader.Search and through Query.Searcher with Next/Advance scripts; cases evaluated by Search/SearchCorr.v"}
