"""C06"""

SPEC = dict(
    engine='index-c06',
    gen_areas=[],
    corr_targets=['Index/TraceCorr.vo'],
    level_rule='one case = the recorded root history of one writer run (batch calls/returns, every introduceSegment / introducePersist / introduceMerge with its parameters and the observed new root, reader observations: Count, match-all, lookup by id, stored values) over a simulated, file-system or in-memory directory, ice v1/v2, safe/unsafe, merge options small/default/off; the monitor of Index/Trace.v recomputes every root with the model and rejects any difference; non-trivial = at least 3 introductions and at least one merge or persist swap (or an in-memory directory); distinct = distinct Coq case terms. oracle evaluations: reader content vs the abstract index folded in Go. C06 runs hold the persister/merger at chosen directory operations (segment persist, snapshot persist, segment load, remove) while batches with deletes/updates land.',
    trust=['segment library contract (ice v1/v2: DocsMatchingTerms returns the positions whose _id is named; Merge concatenates undropped documents and reports the old->new number tables) is not proved: it is the boolean side conditions obs_sound / merge_wf of the monitor, evaluated on every recorded event', 'trace instrumentation in /repo/index (verif_trace.go + 5 added call lines, build tag verif) reports root replacements, introductions, persister grab/ack faithfully'],
    assumptions=[],
    search_seeds=2,
    engine_timeout=1500,
)

META = dict(
    text='Theorems (merge_intro_preserves, merge_never_panics, persist_swap_preserves, equiv_snapshot_equal, no_dup_no_loss) cover every root, every merge planned on any earlier root and every deletion pattern; recorded runs with batches landing inside merge/persist windows are validated event by event.',
    design_ref='DESIGN.md Part 2 C06',
    note="The merge library's output (documents and number tables) is checked per event by merge_wf, not proved. Phases are reached through directory gates, not exhaustively enumerated.",
    technique='Coq proof (permutation of live documents) + trace validation under gated directory operations',
)

ENGINE_TEXT = {'index-c06': 'gated persister/merger with batches landing in the windows'}
