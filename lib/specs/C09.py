"""C09 — top-N collector, sort order, paging."""

SPEC = dict(
    engine="topn",
    gen_areas=["TopN"],
    corr_targets=["Search/TopNCorr.vo"],
    level_rule=("cases: (a) collector.NewTopNCollector / NewTopNCollectorAfter driven directly through a stub searcher and a "
                "stub doc-value reader on generated match lists (0-60 hits, heavy ties, sort orders of 1-4 components mixing "
                "score / keyword / numeric / date / caller-defined sources, ascending/descending, missing first/last, missing "
                "and multi-valued fields, keys at and beyond the missing-value sentinels) for a grid of (size, skip) around 0, "
                "the store switch, the hit count +-2, negative arguments, search-after keys (taken from hits, random, too short, "
                "too long) and the reverse flag; (b) bluge.TopNSearch (SetFrom / After / Before) against bluge.AllMatches on "
                "in-memory indexes of 0-25 documents in several segments; plus SortOrder.Compare on hand-made matches. One case "
                "= one match list with all its queries; non-trivial = at least two hits and a non-empty order; distinct = "
                "distinct Coq case terms. oracle evaluations: result = [from, from+n) slice of a Go sort.SliceStable of all "
                "matches by the documented order; After/Before pages adjacent; chained After/Before visit every match once in order."),
    trust=["hit lists reach the model as observed: document number, score bits and the doc values the collector was given "
           "(recorded per hit by a recording aggregation in the end-to-end part)"],
    assumptions=["the searcher yields each match once (hit numbers are assigned by the collector and therefore distinct)",
                 "search-after keys have at least as many components as the sort order (otherwise Compare panics; modelled as Panic)"],
    search_seeds=2,
    engine_timeout=900,
)

META = dict(
    text=("Coq theorems over an executable model of collector/topn.go, slice.go, heap.go (container/heap modelled exactly), "
          "sort.go and the TopNSearch front end: the collector returns the [from, from+n) slice of the insertion-sorted "
          "ranking for both stores (independent of the store switch and of the preallocation cap), the pruning bound is sound, "
          "search-after/before pages are adjacent slices and both the After chain and the Before chain cover the ranking. The model is tied to the code on every run by vm_compute on observed results and by "
          "regenerated constants (store switch threshold, sentinel sort keys)."),
    design_ref="DESIGN.md Part 2 C09",
    note=("Trusted: Coq kernel, goextract, harness. Known finding C09-sentinel-collision: present sort keys at/below the low "
          "sentinel (empty keyword) or at/above the high sentinel are mis-placed relative to missing values "
          "(missing_placement_outside_interval_refuted is its Coq witness). Repaired in /repo: SortOrder.Copy was shallow, "
          "Before() reversed the caller's sort order (commit 390d4c0)."),
    technique="Coq proof (insertion-sort specification, container/heap invariant, uniqueness of sorted permutations, chain induction) + vm_compute correspondence",
)

ENGINE_TEXT = {"topn": "collector driven directly + TopNSearch vs AllMatches end to end; cases evaluated by Search/TopNCorr.v"}
