"""C19 — merge plans are well-formed and keep the segment count bounded."""

SPEC = dict(
    engine="plan",
    gen_areas=["Plan"],
    corr_targets=["MergePlan/PlanCorr.vo"],
    level_rule=("cases: mergeplan.Plan on generated segment lists (0 to several thousand segments, live sizes from "
                "negative/0 to beyond MaxSegmentSize, deleted fractions, duplicate sizes, geometric progressions, sizes at "
                "half and at the maximum) x options around the defaults (and degenerate ones for the correspondence only), "
                "with Options.ScoreSegments/CalcBudget wrapping the package defaults and recording every call (CPlanT: plan, "
                "the sequence of scored rosters and the CalcBudget arguments must equal the model's), with a synthetic integer "
                "score for lists of hundreds/thousands (CPlanS), with nil options, and mergeplan.CalcBudget on a grid inside "
                "the exactness domain of the Z/Q model (CBudget); from REAL index.Writer runs (in-memory directory, small "
                "MergePlanOptions, 30 batches of inserts/updates/deletes, the harness waits for persister and merger to be "
                "idle between batches): every plan of the merger (CPlanW: persisted segments of the root the planner saw, "
                "hook log, tasks = merge introductions until the merger's progress event) and every merge introduction "
                "(CApply: root before, merged ids, new id, root after = Plan.apply_task); a case is non-trivial when the plan has at least one task / "
                "the budget is positive; distinct = distinct Coq case terms. oracle evaluations: per Plan call the "
                "well-formedness clauses (tasks inside the input, no segment twice, sum of live sizes <= MaxSegmentSize, no "
                "segment above half of it), termination under a time guard and an iteration bound, the same plan on a second "
                "call; per simulated history (arrivals, deletions, plan executions on sizes) convergence to an empty plan "
                "within #segments+#segments-with-deletions+3 cycles and #mergeable segments <= max(CalcBudget,1) at the end; "
                "CalcBudget <= M*(k+1) for integer growths."),
    trust=["the score function (Options.ScoreSegments, default mergeplan.ScoreSegments with math.Pow) is a parameter of the "
           "model; the harness records the default's value for every roster the planner scores and the model is run with "
           "that table",
           "applying a plan (merge.go/introducer.go) is modelled on sizes only (one task becomes one segment whose size is "
           "the sum of the live sizes, no deletion arriving between planning and introduction); it is tied to a real Writer "
           "by the CApply/CPlanW cases under that quiescence condition (harness/engines/plan_writer.go); the snapshot the "
           "planner saw is identified among the last four roots by the CalcBudget arguments the hook received"],
    assumptions=["segment ids are distinct (documented by mergeplan.Segment.ID); removeSegments' pointer identity is "
                 "modelled as equality of ids",
                 "CalcBudget's float64 arithmetic is modelled over Z/Q: exact for totalSize, tier < 2^40, "
                 "MaxSegmentsPerTier <= 2^10 and dyadic TierGrowth a/2^k with a <= 2^6 (the harness generates only such "
                 "values)",
                 "no int64 overflow in rosterLiveSize+LiveSize(): proved from 0 < MaxSegmentSize <= MaxSegmentSizeLimit; "
                 "the two int64 additions are modelled with wrap64 so degenerate options still correspond",
                 "NaN scores (not produced by the default score on the generated inputs) are not emitted as cases"],
    search_seeds=2,
    engine_timeout=900,
)

META = dict(
    text=("Coq theorems over an executable model of plan/findLiveSizesAndEligibles/removeSegments/CalcBudget/sort.go and of "
          "the merger's plan execution on sizes, for every score function; tied to the code on every run by evaluating the "
          "model (vm_compute) on the implementation's observed plans, scored rosters and budgets, and by the regenerated "
          "default options and MaxSegmentSizeLimit (T-gen)."),
    design_ref="DESIGN.md Part 2 C19",
    note=("Trusted: Coq kernel, goextract, harness. The convergence clause is proved under the hypothesis that no "
          "single-segment delete-free task is planned and refuted without it; the real planner with its default score "
          "plans such tasks forever for some accepted options (findings/C19.json)."),
    technique="Coq proof (lia/nia, permutations, sortedness) + vm_compute correspondence on observed outputs",
)

ENGINE_TEXT = {"plan": "mergeplan.Plan/CalcBudget on generated inputs + simulated merge histories; cases evaluated by MergePlan/PlanCorr.v"}
