"""C12 — snapshot files round-trip and every damaged file is rejected safely."""

SPEC = dict(
    engine="codec",
    gen_areas=["Codec"],
    corr_targets=["Index/SnapshotCodecCorr.vo"],
    level_rule=("cases: generated snapshot values (0..300 segments; ids 0, 1, 127/128, 16383/16384, 2^32, 2^63-1, 2^63, 2^64-1 and "
                "random; type names of 0..5000 characters; versions 0, 1, 2, 2^32-1, random; deleted bitmaps nil, empty-but-non-nil, "
                "1..1000 entries, run containers, a dense container crossing the 4096-byte buffer, many containers; file sizes from 6 "
                "bytes to tens of KB incl. an alignment sweep around 4096) written by the real Snapshot.WriteTo (CEncode: bytes equal "
                "the model's encode) and, for each file: the intact file, every truncation length (all lengths for files <= 200 bytes, "
                "boundary set + sample above), single-bit flips (every bit for files <= 64 bytes; header, trailer, length fields + "
                "sample above), appended tails, a count/length/id field replaced by 2^31, 2^40, 2^63-1, 2^63, 2^64-1, file length, 4097, "
                "100000 and an 11-byte varint, each with the stale and with a recomputed trailer, payload cuts with a recomputed "
                "trailer, short files (0..5 bytes incl. version byte + its CRC) and random bytes; each input goes through the real "
                "loadSnapshot with the mmap and with the file loader (CLoad) or through Snapshot.ReadFrom (CDecode) in a child process "
                "under RLIMIT_AS 3 GiB and a 60 s timeout; plus OpenReader (both loaders) and OpenWriter on a real index directory "
                "holding one intact and one damaged newer snapshot (CLoadDir), and crc32.Update / binary.Uvarint / PutUvarint samples "
                "(CCrc, CUvarint, CPutUvarint). A case is non-trivial when the input has more than 6 bytes (load/decode) or is non-zero; "
                "distinct = distinct Coq case terms. oracle evaluations: per input the property text (intact => same state through both "
                "loaders; damaged without recomputed trailer => error or the same state, never another state; every input => no panic, "
                "no fault/OOM/hang of the process, allocation <= 48 bytes per input byte + 3 MiB), per directory scenario the fallback."),
    trust=["roaring (de)serialisation: a function parameter `rb` of the model; its answers for the blobs met in an input are "
           "supplied per case by running the library (rbtable)",
           "bufio.Reader / io.LimitReader / segment.DataReader semantics as written at the top of Base/Bufio.v; hash/crc32's "
           "slicing-8 and assembly paths equal the table algorithm (sampled by CCrc cases)",
           "the child-process classification (exit status / stderr) of panic, fault, out-of-memory and hang"],
    assumptions=["roaring: ReadFrom(ToBytes(b)) = b (round trip of the library), stated as the hypothesis of roundtrip_bitmaps and as "
                 "del_canonical in roundtrip",
                 "a truncation/extension/bit flip in a file larger than one buffer can still pass a 32-bit checksum by coincidence: "
                 "such a case is covered by accept_sound (it then decodes to a well-formed state whose CRC matches), not by a "
                 "rejection theorem; the engine counts them separately (none observed)",
                 "config.ValidateSnapshotCRC is left at its default (true)"],
    search_seeds=2,
    engine_timeout=2400,
)

META = dict(
    text=("Coq model of WriteTo/recordSegment, ReadFrom/readFromVersion1/readSegmentSnapshot/readVarLenString/readBytes over an exact "
          "model of the part of bufio.Reader they use (4096-byte buffer, Peek at EOF, single-shot Read, io.ReadFull), binary.Uvarint "
          "incl. overflow/short buffer, IEEE CRC-32 (bit-serial + table), loadSnapshot (limit, CRC over pulled bytes, trailer) and the "
          "fallback of OpenReader/OpenWriter. Theorems: round trip for every snapshot value; acceptance soundness; single-bit "
          "sensitivity of the CRC by linearity; short-file rejection with the exact minimum; fallback characterisation; allocation "
          "refuted for the pinned decoder. Tied to the code by T-gen (constants + behaviour flags of the decoder read from the AST) "
          "and by vm_compute correspondence on thousands of damaged files run through the real loaders in child processes."),
    design_ref="DESIGN.md Part 2 C12",
    note=("Defects D2 (use-after-unmap on CRC mismatch) and D3 (unchecked length -> makeslice panic / huge allocation) repaired by fix "
          "commits 16cfde7 and 82c8c19; two further decoder defects found by the model (short last record rejected; short single-shot "
          "read of the version) repaired by be15ab0 and 32e0cf9. Model finding kept: a 5-byte file (version + its CRC) loads as the "
          "empty snapshot."),
    technique="Coq proof (lia, list/stream lemmas, xor linearity) + vm_compute correspondence + child-process fault observation",
)

ENGINE_TEXT = {"codec": "generated snapshots through WriteTo; damaged variants through loadSnapshot (mmap + file loader) / ReadFrom in child processes; OpenReader/OpenWriter fallback on a real index"}
