"""C15 — Writer and Reader are safe for concurrent use and Close terminates."""

SPEC = dict(
    engine="conc",
    race=True,                      # the harness is built with -race (CGO) for this property
    gen_areas=["Conc"],
    corr_targets=["Conc/ConcCorr.vo"],
    level_rule=("oracle evaluations: one race-detector verdict per scenario (a scenario = one child process running a "
                "real Writer under GORACE=halt_on_error with seeded schedule perturbation injected in a wrapping "
                "Directory / SegmentPlugin / EventCallback: 2-8 batching goroutines with disjoint id spaces, reader "
                "acquisition, 2-4 goroutines searching one shared reader incl. scored and unadorned boolean must/should "
                "of term queries, stored-field loads, Writer.Stats/MemoryUsed reached through Event.Chill, a reader held "
                "across Close, Close after every caller returned at a random delay or exactly while the introducer "
                "applies a persist introduction, fs and in-memory directories, ice v1/v2, safe and unsafe batches, small "
                "merge plans, persister nap / catch-up settings), one Close-terminates verdict (90 s guard), one verdict per open-reader segment check (no reader that is open — acquired by 12 goroutines doing only Reader()+Close against unsafe single-document batches in the `lifetime` scenarios — contains a segment whose directory handle was released; no handle released twice; no released segment used), and one "
                "verdict per acknowledged batch after re-opening the index (content = state after a prefix of each "
                "batcher's batches containing all acknowledged ones). cases: the recorded control-point event sequence "
                "(directory operations and EventCallback kinds of the persister, merger and closer goroutines) of each "
                "`trace` scenario, which must be a path of the Coq skeleton (accepts_trace, ending in the final state "
                "when Close returned); a case is non-trivial when the run contained at least one merge introduction and "
                "two persist rounds; distinct = distinct event sequences."),
    trust=["tools/goextract specs_conc.go: the lexical lock analysis (locks held on every path to an access inside one "
           "function body, closures start with no lock), the freshness analysis of locals, the static call graph by "
           "package-local type inference, the select-site table",
           "coq/Conc/Roles.v: the hand-written role table and guard assignment (validated against the generated call "
           "graph by roles_consistent, and at run time by the race detector)",
           "the Go race detector and the goroutine-role detection of the harness (function names on the stack)",
           "the skeleton of coq/Conc/Skeleton.v is tied to the code by sites_match and trace inclusion, not by a "
           "refinement proof"],
    assumptions=["table_covers: every plain access of the real program to a tabulated field is described by a row of the "
                 "generated table (hypothesis of writer_fields_race_free_partial)",
                 "publication safety: a reference to a Snapshot / Writer / policy object reaches another goroutine only "
                 "through a synchronising operation after its initialisation (root pointer under rootLock, channels, go)",
                 "Go's select chooses uniformly among ready cases: an enabled closeCh alternative is declined only finitely "
                 "often with probability 1 (hypothesis declines_finitely of close_terminates_partial)",
                 "directory operations, segment-library calls and user callbacks invoked by the loops return",
                 "no application goroutine is inside Batch or Reader() when Close begins (property text)"],
    search_seeds=1,
    engine_timeout=2400,
)

META = dict(
    text=("Three tiers. (a) A generic thread system with reader/writer locks, atomic cells and a private-then-published "
          "phase per cell is proved race free under the lock discipline (lockset_sound; the lexical locksets are shown to "
          "agree with the real lock state). (b) goextract regenerates from index/*.go the table of every access to the "
          "fields of Writer, Snapshot, closeOnLastRefCounter, KeepNLatestDeletionPolicy and Stats with the locks lexically "
          "held, sync/atomic use and freshness, the static call graph and the go statements; Coq checks every row against "
          "a hand-written role table and guard assignment (discipline_holds) and instantiates lockset_sound. (c) The "
          "control skeleton of introducerLoop / persisterLoop / mergerLoop / Close is explored exhaustively inside Coq "
          "(10341 states): no deadlock, the waits without closeCh alternative are answered by their partner, and after "
          "Close every run that declines closeCh only finitely often terminates; the skeleton's blocking points are "
          "matched against the regenerated select-site table (sites_match). The runtime side is engine conc: the real "
          "writer under the race detector with perturbed schedules, Close timeout, reopen check, trace inclusion."),
    design_ref="DESIGN.md Part 2 C15, 3.5 (close_terminates)",
    note=("PARTIAL. Proved: the lock discipline of the tabulated struct fields (under the trusted lexical lock analysis and "
          "role table) and deadlock-freedom / fair termination of the control skeleton. NOT proved, only observed by the "
          "race detector under perturbed schedules: race freedom of memory not reached through the tabulated fields (slice "
          "elements, maps such as persistIntroduction.persisted, roaring bitmaps, ice/vellum internals) and everything that "
          "depends on the Go memory model; the correspondence skeleton <-> code is sites_match plus trace inclusion of "
          "recorded runs. Two defects were found and repaired by fix: commits (findings/C15.json): Writer.Stats copied the "
          "counters plainly (found by discipline_holds, replayed with the race detector), and prepareIntroducePersist "
          "returned on closeCh after the introducer had accepted the request (found while building the skeleton, replayed "
          "by the targeted scenario `pipclose`: data race on the segment map and a segment unmapped while owned by the "
          "new root)."),
    technique="Coq proof (lockset invariant; reflection over a BFS-computed state space) + T-gen tables + race detector",
)

ENGINE_TEXT = {"conc": "real Writer under -race in child processes, seeded perturbation through Directory/plugin/EventCallback; "
                       "race / close-hang / acked-lost oracles; recorded traces checked by Conc/ConcCorr.v"}
