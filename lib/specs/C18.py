"""C18 — analysis is total, deterministic and offset-correct on any bytes."""

SPEC = dict(
    engine="analysis",
    gen_areas=["Analysis"],
    corr_targets=["Analysis/AnalysisCorr.vo"],
    level_rule=("cases: (a) exactly modelled components (character/letter/whitespace/single tokenizers; length, truncate, stop, "
                "unique, keyword, lowercase, n-gram, edge n-gram, reverse, apostrophe, elision, shingle, camel-case, dictionary-compound, "
                "CJK bigram, CJK width, English possessive filters and the ASCII-folding and ZWNJ char filters over their parameter "
                "ranges; the simple and keyword analyzers; analysis.TokenFrequency; Document.Analyze) — the observed output is "
                "recomputed by the Coq model (rune classes, unicode.ToLower, TokenMap lookups tabulated per case); (b) every one of "
                "the 24 bundled analyzers run stage by stage, every other bundled tokenizer / token filter / char filter called "
                "directly, random chains of 2-4 bundled filters and fixed chains replaying the repaired offset defects — the recorded stage input and output go through the Coq contract checker (tok_ok, pure_tok, "
                "preservation). Inputs: script-aware generators (Latin languages, Greek, Cyrillic, Arabic, Persian, Sorani, "
                "Devanagari, CJK incl. half/full width forms), raw bytes, truncated runes, broken encodings spliced into valid text, "
                "apostrophes/elisions, markup/web shapes, empty and tiny strings, long tokens. A case is non-trivial when the "
                "component produced at least one token / changed the stream; distinct = distinct Coq case terms. Oracle "
                "evaluations: no panic / no hang per call, offsets and increments per stage, pure-tokenizer slice equality, "
                "determinism (two runs, stored field value unchanged), TokenFrequency clauses, MatchQuery(AND) round trip on a "
                "one-document index; per-language exhaustive sweep: every word of 1..6 letters over the 7 letters most used by the "
                "language package's rule code (read from the Go source at run time) through each stemmer/normaliser filter, the words "
                "up to 5 letters through the bundled analyzer, plus mutations of the words of the package's test tables and stop-word "
                "list (~5.5 million direct calls per run: no panic, offsets/increments, determinism on a sample); pattern-bearing text: "
                "strings synthesised (regexp/syntax) to match the regexp sources read from analysis/tokenizer and analysis/char, "
                "embedded between case-length-changing runes / invalid bytes, for every regexp-driven component; "
                "TokenFrequencies.MergeAll and composite fields: merged map and every source map after the merge compared with the "
                "model (CMerge), sources unchanged / merged = sum checked on Document.Analyze with a composite field; retained-result-after-reuse: for "
                "every analyzer / tokenizer / filter / char-filter instance a result kept from a completed call must not change when the "
                "same instance runs on other text (incl. two fields and two documents sharing one analyzer instance)."),
    trust=["the goextract section that turns the switch of foldToASCII and the kana tables of cjk_width.go into Coq lists",
           "unicode tables (IsLetter, IsSpace, IsLower, IsUpper, IsNumber, ToLower, Mn/Me/Mc) and TokenMap contents are parameters of the model, tabulated by the "
           "harness per case", "Base/UTF8.v models unicode/utf8 (Go standard library)"],
    assumptions=["components that are not modelled exactly (unicode/web/regexp/exception tokenizers, snowball and light stemmers, "
                 "language normalisers, unicode normalise, html/regexp char filters) meet "
                 "the contract on the generated inputs only (checked, not proved)",
                 "token offsets and position sums stay far below 2^63 (no integer wrap modelled)",
                 "tokens of one stream own disjoint regions of the analysed buffer (true of every bundled tokenizer)"],
    search_seeds=2,
    engine_timeout=900,
)

META = dict(
    text=("Coq theorems over executable models of analysis/type.go, freq.go, the character and single-token tokenizers and twelve "
          "token filters (later extended by camel case, dictionary compound, CJK bigram/width, possessive, ASCII folding, ZWNJ — the code repaired by the fix commits is inside the model): contracts compose along any pipeline, the modelled components are total and keep offsets within the text "
          "the tokenizer saw and increments non-negative on every byte string, TokenFrequency records running-sum positions, and "
          "a text's own analysis always matches it. The models are tied to the code on every run by vm_compute on observed "
          "outputs; all 24 bundled analyzers and every other component are run stage by stage through the verified contract "
          "checker, with determinism and a MatchQuery round trip checked on the implementation."),
    design_ref="DESIGN.md Part 2 C18",
    note=("Partial: totality/determinism/contract of the components that are not modelled (third-party stemmers, segmenter, regexp, "
          "language tables) are checked on generated inputs, not proved for all byte strings."),
    technique="Coq proof (structural induction, lia) + vm_compute correspondence and contract checking on recorded pipeline stages",
)

ENGINE_TEXT = {"analysis": "stage-by-stage runs of all bundled analyzers/components; cases evaluated by Analysis/AnalysisCorr.v"}
