"""C13 — the file-system directory reports success only for durable, exact files."""

SPEC = dict(
    engine="fsdir",
    gen_areas=["FsDir"],
    corr_targets=["Index/FsDirCorr.vo"],
    level_rule=("cases: one real FileSystemDirectory.Persist call each, in a scratch directory under work/, with a scripted "
                "io.WriterTo: item kinds (.snp, .seg) x sizes (0, 1, 4095, 4096, 4097, 3 buffers; thorough adds 2, 4094, 8191..8193, "
                "5 buffers + 1, 70000) x prior file (absent, half, size-1, equal, size+1, size+5000, one buffer) x chunkings x first "
                "failure (none; writer error after k bytes for k in {0, 1, size/2, size-1, size, 4095, 4096}; cancellation through "
                "closeCh after j chunks; failing Truncate / Sync (the file handed out for that call is a pipe) / Close / open (a reader "
                "holds the shared lock, or injected)); observed = returned error + bytes under the item's name (CPersist), the system "
                "calls on the item in a child process under strace projected to open/flock/ftruncate/write/fsync/close/unlink "
                "(CTrace), and file names (CName). A case is non-trivial when the item or the prior file is non-empty; distinct = "
                "distinct Coq case terms. oracle evaluations: per call the property text itself (success => exact bytes; error => "
                "nothing under the name, or an untouched file when the open failed) and, per traced successful call, an fsync on the "
                "item after its last write and before the return."),
    trust=["OS semantics of open/flock/ftruncate/write/fsync/close/unlink as stated at the top of Index/FsDir.v; that fsync(2) "
           "makes data durable is kernel behaviour", "strace's rendering of the system calls of the child harness process"],
    assumptions=["os.Remove in the cleanup path succeeds (its error is ignored by the code); durability of the directory entry "
                 "itself (Directory.Sync) belongs to C02",
                 "the writer handed to Persist sends its chunks in order and returns an error iff it stops early or is cancelled"],
    search_seeds=2,
    engine_timeout=1500,
)

META = dict(
    text=("Coq theorems about an interpreter of Persist whose step list, error handling, cleanup closure and open flags are "
          "re-read from index/directory_fs.go by T-gen on every run: success implies exact content for every prior file state "
          "(proved after the repair of D1, refuted for the pinned step list), success implies fsync after the last write, every "
          "failure point leaves nothing under the name. The interpreter is tied to the code by running the real Persist over the "
          "whole scenario product and comparing result, bytes and the strace-projected system-call sequence."),
    design_ref="DESIGN.md Part 2 C13",
    note=("Partial: durability given fsync is OS behaviour (trusted). Defect D1 (no truncation) repaired by fix commit ad18e1f; "
          "the refuted twin persist_exact_refuted_without_truncate keeps the witness."),
    technique="Coq proof by computation over the AST-derived step list + vm_compute correspondence + strace projection",
)

ENGINE_TEXT = {"fsdir": "scripted WriterTo x prior states x failure points on the real Persist; strace projection in a child"}
