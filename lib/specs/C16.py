"""C16 — aggregations are exact over the whole match set."""

SPEC = dict(
    engine="aggs",
    gen_areas=["TopN"],
    corr_targets=["Search/AggsCorr.vo"],
    level_rule=("cases: one case = one match list (stub searcher + stub doc-value reader, 0-40 hits; or an in-memory index of "
                "0-15 documents in several segments with a MatchAll / match query) x one aggregation tree (1-5 top-level "
                "aggregations: count, sum, min, max, max-from, avg, weighted avg over field / score / missing-replacement / "
                "filtered sources; terms with size 0..100, numeric ranges incl. +-Inf bounds, date ranges incl. open ends, each "
                "with 0-2 nested metrics; cardinality and quantiles through recording sources) x 7 collector settings "
                "(AllMatches; TopNSearch / TopNCollector with n in {0,1,..,switch+1,count+2}, from, After, Before, reverse; sort "
                "orders sharing fields with the aggregations every sixth list); sketch metrics also nested in buckets; aggregation objects "
                "reused across two searches; 35 shard-split Bucket.Merge sequences (2-3 shards, every intermediate result read back); "
                "6 bluge.MultiSearch runs over 2-3 indexes. Every value read back (metric bits, bucket names "
                "in returned order, counts, nested metrics, Other(), values handed to the sketches) is validated against the "
                "model state. non-trivial = at least one match; distinct = distinct Coq case terms. oracle evaluations: every "
                "aggregation of every run compared with direct counting over the generator's own record of the matched "
                "documents (cardinality against axiomhq/hyperloglog fed directly; quantiles within [min,max] and monotone)."),
    trust=["hyperloglog and t-digest are not modelled: the model state of a sketch calculator is the list of values inserted, "
           "observed through recording value sources",
           "sort.Sort inside TermsCalculator.Finish is not modelled as an algorithm: the returned bucket order is checked to be "
           "a descending-by-count top-size selection of the model's buckets",
           "exact rational arithmetic in the model equals the float64 arithmetic of the implementation when no operation "
           "rounds (generated values are small integers and dyadic fractions; quotients are compared within relative 2^-53)"],
    assumptions=["float sums/products of the generated values are exact (no rounding)",
                 "a document's doc values are the set of its distinct terms per field (ice)"],
    search_seeds=2,
    engine_timeout=900,
)

META = dict(
    text=("Coq theorems over an executable model of search/aggregations.go and search/aggregations/*.go joined to the collector "
          "model of C09: the root bucket is fed every hit before paging/pruning, so the aggregation state equals that of the "
          "complete match list for every n, from, sort, After/Before; count, sum, min, max, avg, weighted avg, terms and range "
          "bucket contents are characterised against direct definitions over the matched documents' values; Bucket.Merge and the "
          "calculators' Merge are modelled and merge_exact is proved per calculator (sum, count, min, max, avg, weighted avg, "
          "ranges, untrimmed terms, sketches as concatenation of their inputs), with the trimmed-terms case refuted by a witness. "
          "Tied to the code on every run by vm_compute validation of every value read back from the implementation, including "
          "shard-by-shard Bucket.Merge sequences and bluge.MultiSearch over 2-3 indexes."),
    design_ref="DESIGN.md Part 2 C16",
    note=("Trusted: Coq kernel, goextract, harness. Sketches (hyperloglog, t-digest) are parameters: the theorems say what is "
          "fed to them (and, for Merge, assume smerge (sketch a) (sketch b) = sketch (a ++ b)). Known: merging trimmed terms "
          "lists is approximate (C16-merge-terms-trimmed), t-digest ulp non-monotonicity (C16-quantile-ulp). Two defects found by this check were repaired in /repo (duplicate doc-value loading; range "
          "aggregations not reporting nested fields)."),
    technique="Coq proof (structural induction over aggregation trees, exact rationals) + vm_compute correspondence",
)

ENGINE_TEXT = {"aggs": "collectors driven directly + TopNSearch/AllMatches end to end; cases evaluated by Search/AggsCorr.v"}
