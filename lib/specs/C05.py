"""C05"""

SPEC = dict(
    engine='index-c05',
    gen_areas=[],
    corr_targets=['Index/TraceCorr.vo'],
    level_rule='one case = the recorded root history of one writer run (batch calls/returns, every introduceSegment / introducePersist / introduceMerge with its parameters and the observed new root, reader observations: Count, match-all, lookup by id, stored values) over a simulated, file-system or in-memory directory, ice v1/v2, safe/unsafe, merge options small/default/off; the monitor of Index/Trace.v recomputes every root with the model and rejects any difference; non-trivial = at least 3 introductions and at least one merge or persist swap (or an in-memory directory); distinct = distinct Coq case terms. oracle evaluations: reader content vs the abstract index folded in Go. C05 runs use 2..8 goroutines over 2..4 ids and readers taken right after Batch returns; real-time order and prefix inclusion are decided on the recorded history.',
    trust=['segment library contract (ice v1/v2: DocsMatchingTerms returns the positions whose _id is named; Merge concatenates undropped documents and reports the old->new number tables) is not proved: it is the boolean side conditions obs_sound / merge_wf of the monitor, evaluated on every recorded event', 'trace instrumentation in /repo/index (verif_trace.go + 5 added call lines, build tag verif) reports root replacements, introductions, persister grab/ack faithfully'],
    assumptions=[],
    search_seeds=2,
    engine_timeout=1500,
)

META = dict(
    text='Theorems (introductions_linearize, stale_prepare_harmless, reader_is_prefix) hold for every accepted history: introduction order is a linearization respecting real time (calls/returns are monitor events); concurrent runs of the real writer are recorded and validated.',
    design_ref='DESIGN.md Part 2 C05',
    note='Goroutine scheduling is not controlled exhaustively: interleavings come from 2..8 free-running goroutines with seeded jitter; each recorded history is decided by the verified monitor (its acceptance implies linearizability by theorem).',
    technique='Coq proof (linearization by introduction order) + monitor on recorded concurrent histories',
)

ENGINE_TEXT = {'index-c05': 'concurrent writers/readers; history decided by the monitor'}
