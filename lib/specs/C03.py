"""C03"""

SPEC = dict(
    engine='proto-c03',
    gen_areas=[],
    corr_targets=['Index/ProtoCorr.vo'],
    level_rule="one case = one complete run of a real writer over the simulated directory (root history + persist/remove operations with file bytes + persister grab + acknowledgements), validated by the monitor of Index/Proto.v, plus crash probes: at chosen operation boundaries (after every persist start/ok, ack, remove; random) the crash image (complete files + a torn variant of every in-flight file: absent, prefix of any length, zero-filled, fully written) is reopened by the real OpenWriter and OpenReader and compared with the model's recover_writer / recover_reader (epoch, content, files left after the open clean-up); non-trivial = at least 2 introductions and at least one probe; oracle evaluations: recovered content is a prefix state containing every acknowledged batch, retention and removal predicates over every prefix of the run. C03 chains 2..4 rounds: crash, recover with the real OpenWriter on the image, continue the history, crash again.",
    trust=['segment library contract (ice v1/v2: DocsMatchingTerms returns the positions whose _id is named; Merge concatenates undropped documents and reports the old->new number tables) is not proved: it is the boolean side conditions obs_sound / merge_wf of the monitor, evaluated on every recorded event', 'trace instrumentation in /repo/index (verif_trace.go + 5 added call lines, build tag verif) reports root replacements, introductions, persister grab/ack faithfully', 'Index/SnapshotCodec.v loader model (owned by C12) evaluated on the actual snapshot bytes; roaring (de)serialisation is a lookup table supplied per case', 'the simulated directory (harness/sim) stands for a correct Directory: a persist that returns success leaves exactly the bytes written, a failed one leaves nothing (that is property C13 for the file-system directory)', "operation-boundary crash model of the property text; kernel/file-system durability of fsync'ed data and of directory entries is assumed"],
    assumptions=[],
    search_seeds=2,
    engine_timeout=1500,
)

META = dict(
    text='Theorems (recover_succeeds, recover_prefix, recover_then_invariant/rounds_compose, torn_rejected) for every accepted run and every torn variant; multi-round crash/recover/continue sequences are executed on the real code and validated.',
    design_ref='DESIGN.md Part 2 C03',
    note='As C02; the torn variants explored per in-flight file are sampled (all classes, random prefix lengths), the theorem covers all of them under no_collision.',
    technique='Coq proof (recovery yields a prefix state; invariant re-established) + multi-round crash/recover differential runs',
)

ENGINE_TEXT = {'proto-c03': 'multi-round crash/recover/continue'}
