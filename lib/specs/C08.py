"""C08 — search answers depend only on the logical documents, not the layout."""

SPEC = dict(
    engine="layout",
    gen_areas=["Search", "Numeric"],
    corr_targets=["Search/LayoutCorr.vo"],
    level_rule=("cases: per generated corpus (3-11 live documents, text / keyword / numeric / datetime / geo fields, histories "
                "with updates and deletions; one corpus whose documents are all deleted again) the observed layouts of 13 builds "
                "of the same logical content — the history as generated, the live set in one batch, one document per batch, a "
                "random partition, history and live set under forced merging, a file-system directory closed and reopened, "
                "Reader.Backup + OpenReader on the copy (directories under /verif/work), OfflineWriter with a random batch "
                "size, segment version 2, DisableOptimize* switches, scoring none, and the documents partitioned over 2-3 "
                "indexes searched with MultiSearch — with generated queries and the single answer; the Coq check recomputes "
                "the ids on every layout with the searcher state machines (under the build's options) and the denotation, and "
                "checks that all layouts have the same logical content; a case is non-trivial when some query matches some "
                "but not all documents. oracle evaluations: every (build, query): match set, stored fields of every match, "
                "order under the sort by _id, count / min / max / terms aggregations against the direct evaluator over the "
                "logical documents; scores bit for bit between builds without merged segments and without pending deletions."),
    trust=["segment formats (ice v1/v2), the merger and the snapshot files are not modelled: a build enters the model as its "
           "observed layout (segments, document numbers, deleted sets)",
           "the score is a function of the summed statistics, the term frequency and the field length (C17)"],
    assumptions=["run-level layout independence is the composition of the denotation-level theorems with C07's search_exact",
                 "TotalDocumentCount is layout dependent (a segment without the field reports 0) and is not read by BM25"],
    search_seeds=2,
    engine_timeout=1500,
)

META = dict(
    text=("Theorems over the searcher model of C07: the denotation, the order under a distinguishing sort, order-insensitive "
          "aggregations, the summed collection statistics / document frequencies (no pending deletions) and MultiSearch over a "
          "partition depend only on the multiset of live documents; the model is tied to the code on every run by recomputing, "
          "on the observed layouts of about 20 differently built indexes per corpus (merged-then-fresh layered builds, offline "
          "writer builds with batch counts around its merge fan-in), the ids every build returned. layout_independent_matches "
          "is proved for arbitrarily nested boolean queries over term clauses (push-down off) and for flat ones with and "
          "without the push-down (_partial: the leaves C07 does not cover yet)."),
    design_ref="DESIGN.md Part 2 C08",
    note=("Known findings: scores differ after merges (ice rewrites the field-length statistic; property text), scoring 'none' "
          "drops min-should (score_mode_none_same_set is refuted, witness replayed), the offline writer cannot build the empty "
          "index, a never-written file-system index cannot be opened."),
    technique="Coq proof (permutation / sorting lemmas over the C07 model) + vm_compute correspondence on observed layouts + direct Go oracle",
)

ENGINE_TEXT = {"layout": "the same corpus built by about 20 recipes, every build against one oracle answer; cases evaluated by Search/LayoutCorr.v"}
