"""C10 — numeric encoding / range decomposition."""

SPEC = dict(
    engine="numeric",
    gen_areas=["Numeric"],
    corr_targets=["Search/NumericCorr.vo"],
    level_rule=("cases: direct calls of Float64ToInt64/Int64ToFloat64, NewPrefixCodedInt64, PrefixCoded.Int64, "
                "ValidPrefixCodedTermBytes, splitInt64Range, termRange.Enumerate, incrementBytes, the numeric / datetime / "
                "geo-point analyzers' tokens (with multiplicities), Interleave/Deinterleave (random and Morton-hash halves) and "
                "end-to-end NumericRange and DateRange queries and sorted match-all searches, on boundary sets (sign change, +-0 "
                "neighbours, subnormals, powers of two +-1, 4-bit and 7-bit boundaries, int64 extremes, +-Inf ends, the two "
                "instants whose float image is an infinity) plus "
                "seeded random 64-bit values; a case is non-trivial when the call succeeds on a non-zero input / the "
                "interval is non-empty / the query matches some but not all documents; distinct = distinct Coq case terms. "
                "oracle evaluations: order embedding on all boundary pairs x 64 shifts (and geo hashes x shifts 0,9,..,63), "
                "interval membership of probe values, interval membership of every document for every range query, "
                "float order of every sorted result list."),
    trust=["split_exact / numeric_range_exact / date_range_exact are stated over index tokens and split ranges "
           "(declarative in_trange matching); the dictionary (vellum) lookup `Contains` is a function parameter (dict) "
           "of the model and of enumerate_spec",
           "no library axiom: every theorem of Props/C10.v prints `Closed under the global context` "
           "(stdlib ZArith/Lia/List only; no Flocq / FloatAxioms import)",
           "float_lt is the sign/magnitude order on the 64-bit pattern (exponent and mantissa fields compared as one "
           "63-bit number); its agreement with IEEE-754 `<` on finite non-zero values is the standard layout fact, "
           "checked on the implementation by the engine's all-pairs order oracle (Go `<` on float64), not proved in Coq"],
    assumptions=["NaN bit patterns are outside the order theorem's reading as numbers (finite values per the property); "
                 "the theorems hold for them in the sign/magnitude order",
                 "the segment dictionary answers Contains(term) exactly for the indexed terms (checked end to end only)",
                 "Go passes float64 NaN payloads through calls unchanged on amd64 (DateRangeQuery sends int64 nanoseconds "
                 "through float64); checked by the CF2I / CDateQ cases"],
    search_seeds=2,
    engine_timeout=900,
)

META = dict(
    text=("Theorems in Coq over an executable model of float.go / prefix_coded.go / splitInt64Range / Enumerate cover all 2^64 "
          "values and all intervals; the model is tied to the code on every run by evaluating it (vm_compute) on the "
          "implementation's observed outputs for boundary and random inputs, and by regenerated constants (T-gen)."),
    design_ref="DESIGN.md Part 2 C10",
    note=("Trusted: Coq kernel, goextract, harness. The vellum dictionary is a parameter of the model. Known finding D8 "
          "(Enumerate blow-up on ranges crossing a 7-bit digit boundary) is listed in KNOWN_FINDINGS.json; two date-range "
          "findings (end points aliasing +-Inf; extreme instants with exclusive/open ends) in findings/C10.json."),
    technique="Coq proof (lia, bit lemmas, block-number loop invariant for splitInt64Range, verified symbolic bit evaluator for Interleave) + vm_compute correspondence on observed outputs",
)

ENGINE_TEXT = {"numeric": "direct calls + end-to-end numeric/date range queries and sorted searches; cases evaluated by Search/NumericCorr.v"}
