"""C10 — numeric encoding / range decomposition."""

SPEC = dict(
    engine="numeric",
    gen_areas=["Numeric"],
    corr_targets=["Search/NumericCorr.vo"],
    level_rule=("cases: direct calls of Float64ToInt64/Int64ToFloat64, NewPrefixCodedInt64, PrefixCoded.Int64, "
                "ValidPrefixCodedTermBytes, splitInt64Range, termRange.Enumerate, incrementBytes, the numeric analyzer's "
                "tokens, Interleave/Deinterleave and end-to-end NumericRange queries, on boundary sets (sign change, +-0 "
                "neighbours, subnormals, powers of two +-1, 4-bit and 7-bit boundaries, int64 extremes, +-Inf ends) plus "
                "seeded random 64-bit values; a case is non-trivial when the call succeeds on a non-zero input / the "
                "interval is non-empty / the query matches some but not all documents; distinct = distinct Coq case terms. "
                "oracle evaluations: order embedding on all boundary pairs x 64 shifts, interval membership of probe values."),
    trust=["numeric_range_exact is stated over index tokens and split ranges; the dictionary (vellum) lookup "
           "`Contains` is a function parameter (dict) of the model"],
    assumptions=["NaN bit patterns are outside the order theorem's reading as numbers (finite values per the property)",
                 "the segment dictionary answers Contains(term) exactly for the indexed terms (checked end to end only)"],
    search_seeds=2,
    engine_timeout=900,
)

META = dict(
    text=("Theorems in Coq over an executable model of float.go / prefix_coded.go / splitInt64Range / Enumerate cover all 2^64 "
          "values and all intervals; the model is tied to the code on every run by evaluating it (vm_compute) on the "
          "implementation's observed outputs for boundary and random inputs, and by regenerated constants (T-gen)."),
    design_ref="DESIGN.md Part 2 C10",
    note=("Trusted: Coq kernel, goextract, harness. The vellum dictionary is a parameter of the model. Known finding D8 "
          "(Enumerate blow-up on ranges crossing a 7-bit digit boundary) is listed in KNOWN_FINDINGS.json."),
    technique="Coq proof (lia, bit lemmas) + vm_compute correspondence on observed outputs",
)

ENGINE_TEXT = {"numeric": "direct calls + end-to-end range queries; cases evaluated by Search/NumericCorr.v"}
