"""C14"""

SPEC = dict(
    engine='proto-c14',
    gen_areas=[],
    corr_targets=['Index/ProtoCorr.vo'],
    level_rule="one case = one complete run of a real writer over the simulated directory (root history + persist/remove operations with file bytes + persister grab + acknowledgements), validated by the monitor of Index/Proto.v, plus crash probes: at chosen operation boundaries (after every persist start/ok, ack, remove; random) the crash image (complete files + a torn variant of every in-flight file: absent, prefix of any length, zero-filled, fully written) is reopened by the real OpenWriter and OpenReader and compared with the model's recover_writer / recover_reader (epoch, content, files left after the open clean-up); non-trivial = at least 2 introductions and at least one probe; oracle evaluations: recovered content is a prefix state containing every acknowledged batch, retention and removal predicates over every prefix of the run. C14 injects faults (persist of segment/snapshot failing before any byte, after a partial write, after the full write; load; remove), transient and sticky, then clears them and requires the next acknowledgement without reopening.",
    trust=['segment library contract (ice v1/v2: DocsMatchingTerms returns the positions whose _id is named; Merge concatenates undropped documents and reports the old->new number tables) is not proved: it is the boolean side conditions obs_sound / merge_wf of the monitor, evaluated on every recorded event', 'trace instrumentation in /repo/index (verif_trace.go + 5 added call lines, build tag verif) reports root replacements, introductions, persister grab/ack faithfully', 'Index/SnapshotCodec.v loader model (owned by C12) evaluated on the actual snapshot bytes; roaring (de)serialisation is a lookup table supplied per case', 'the simulated directory (harness/sim) stands for a correct Directory: a persist that returns success leaves exactly the bytes written, a failed one leaves nothing (that is property C13 for the file-system directory)', "operation-boundary crash model of the property text; kernel/file-system durability of fsync'ed data and of directory entries is assumed"],
    assumptions=[],
    search_seeds=2,
    engine_timeout=1500,
)

META = dict(
    text='Theorems (fault_contained, no_partial_item, retry_covers_all, crash_props_with_faults) for accepted runs containing fault events; fault plans are executed on the real writer, the runs validated, and crash probes taken on the resulting traces.',
    design_ref='DESIGN.md Part 2 C14',
    note="Partial: 'does not hang' is observed (scenario timeout, Close must return); the theorem side is containment and retry coverage. Faults are injected at the Directory interface.",
    technique='Coq proof (faults leave the invariant intact) + fault-injection runs validated by the monitor + crash probes',
)

ENGINE_TEXT = {'proto-c14': 'fault injection at the Directory interface'}
