"""C20 — highlighted fragments are faithful to the stored text."""

SPEC = dict(
    engine="highlight",
    gen_areas=["Highlight"],
    corr_targets=["Search/HighlightCorr.vo"],
    level_rule=("cases: every call into search/highlight runs in a child process (re-exec), so a panic / crash / hang is a "
                "result class. (1) utf8 primitives DecodeRune/DecodeLastRune/RuneCount/Valid/EncodeRune on valid, truncated, "
                "overlong, surrogate and random byte strings; (2) BestFragments on (stored text, Locations) of REAL searches "
                "(in-memory index, analyzers standard/simple/web/keyword/en/fr/cjk + a shingle analyzer, MatchQuery, "
                "IncludeLocations, TopN 10 returning several hits, planted groups of 3-8 documents with 1-6 occurrences of one word) with "
                "fragment sizes 1..300, num -1..4, HTML and ANSI, EVERY hit highlighted and its Locations compared with the occurrences of "
                "the query terms recomputed from its own stored text; (3) generated valid texts "
                "(latin with accents, CJK, emoji, combining marks, U+FFFD, HTML specials, the separator itself) with "
                "well-formed locations incl. overlapping/nested/unsorted ones; (4) adversarial locations (negative, inverted, "
                "beyond the text, 2^40) and invalid UTF-8 texts; (5) Fragment, MergeOverlapping, Format, Score and "
                "OrderTermLocations called directly with explicit lists. A BestFragments case is emitted when the order of "
                "the locations is determined (equal Start implies equal End); non-trivial = the output contains a marked "
                "span / a fragment / a merge happened; distinct = distinct Coq case terms. oracle evaluations: no panic on "
                "every call; for valid texts with in-range locations the clauses of the property on the returned strings "
                "(strip -> contiguous piece of the text, marked spans = one location or a run of overlapping ones, pieces "
                "pairwise disjoint, count <= num, best fragment contains a location when one fits the fragment size)."),
    trust=["html.EscapeString is modelled as the byte-wise replacement of & ' < > \" (checked by the Format cases)",
           "Go's sort.Sort in OrderTermLocations is modelled by a stable insertion sort: equal to it whenever locations with "
           "equal Start are equal (the emission condition of BestFragments cases); container/heap is Base/GoHeap.v",
           "unicode/utf8 is modelled in Base/UTF8.v and compared on every run (CUtf8/CEncode cases)"],
    assumptions=["Term and Pos of a location do not influence BestFragments (not part of the model)",
                 "locations are values (a nil *search.Location inside a TermLocationMap is outside the property)",
                 "fragment size >= 0 (NewSimpleFragmenterSized with a negative size and no locations slices orig[0:negative])",
                 "strip for the ANSI formatter assumes the text contains no ESC byte (nothing is escaped by that formatter)"],
    search_seeds=2,
    engine_timeout=900,
)

META = dict(
    text=("Coq theorems over an executable model of the simple highlighter (fragmenter window arithmetic over a UTF-8 model, "
          "scorer, container/heap queue, overlap selection, MergeOverlapping, HTML/ANSI formatters): totality on all inputs "
          "(no panic), count, disjointness, strip = orig[Start:End], marked spans = locations or runs, best fragment has a "
          "match. The model is tied to the code on every run by evaluating it (vm_compute) on the implementation's observed "
          "outputs for real-search and adversarial inputs, and by regenerated constants (T-gen: tags, colours, separator)."),
    design_ref="DESIGN.md Part 2 C20, Part 3 D5",
    note=("Three defects found and repaired by fix: commits (799b84b out-of-range locations panic = D5, 1bc04a0 U+FFFD in a "
          "valid text drops every fragment, 0996d48 nested location shrinks the merged span); each is re-detected by the "
          "engine when reverted (docs/C20.md)."),
    technique="Coq proof (lia, list/heap invariants, UTF-8 backward-decoding lemma) + vm_compute correspondence on observed outputs",
)

ENGINE_TEXT = {"highlight": "BestFragments/Fragment/Format/MergeOverlapping in a child process on real-search and adversarial "
                            "locations; cases evaluated by Search/HighlightCorr.v; property clauses checked on the returned strings"}
