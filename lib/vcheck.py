#!/usr/bin/env python3
"""Common driver for the per-property checks (see DESIGN.md 1.4/1.5).

Steps of one check:
  1. T-gen: tools/goextract re-reads /repo and regenerates coq/Gen/*.v
  2. proof build: make the closure of Props/<id>.v, recompile Props/<id>.v capturing
     the Print Assumptions output (obligations / discharged are read from the build)
  3. forbidden-token scan of the whole Coq development
  4. correspondence: build the Go harness from /repo's working tree (-tags verif), run
     the property's engine, evaluate the generated cases_<k>.v with vm_compute
  5. decide, write evidence/<id>.json, print VIOLATION / KNOWN-FINDING lines
"""
import fcntl
import glob
import json
import os
import re
import shutil
import subprocess
import sys
import time

VERIF = os.path.dirname(os.path.dirname(os.path.abspath(__file__)))
REPO = os.environ.get("VERIF_REPO", "/repo")
COQ = os.path.join(VERIF, "coq")
BIN = os.path.join(VERIF, "bin")
WORK = os.path.join(VERIF, "work")

GOENV = dict(os.environ, GOFLAGS="-mod=mod", GOPROXY="off", GOSUMDB="off", GOTOOLCHAIN="local",
             CGO_ENABLED=os.environ.get("CGO_ENABLED", "0"))

FORBIDDEN = [r"\bAdmitted\b", r"\badmit\b", r"\bAxiom\b", r"\bAxioms\b", r"\bParameter\b", r"\bParameters\b",
             r"\bConjecture\b", r"Unset\s+Guard", r"bypass_check", r"Admit\s+Obligations",
             r"type-in-type", r"impredicative-set", r"Unset\s+Positivity", r"Unset\s+Universe"]


class Lock:
    def __init__(self, name):
        os.makedirs(WORK, exist_ok=True)
        self.path = os.path.join(WORK, name + ".lock")

    def __enter__(self):
        self.f = open(self.path, "w")
        fcntl.flock(self.f, fcntl.LOCK_EX)
        return self

    def __exit__(self, *a):
        fcntl.flock(self.f, fcntl.LOCK_UN)
        self.f.close()


def run(cmd, cwd=None, env=None, timeout=None, capture=True):
    t0 = time.time()
    try:
        p = subprocess.run(cmd, cwd=cwd, env=env, timeout=timeout, stdout=subprocess.PIPE if capture else None,
                           stderr=subprocess.STDOUT if capture else None, text=True, errors="replace")
        return p.returncode, (p.stdout or ""), time.time() - t0
    except subprocess.TimeoutExpired as e:
        out = e.stdout or ""
        if isinstance(out, bytes):
            out = out.decode("utf-8", "replace")
        return 124, out + "\n[timeout after %ss]" % timeout, time.time() - t0


# ---------------------------------------------------------------- T-gen

def build_tools():
    """Build goextract (does not depend on /repo)."""
    os.makedirs(BIN, exist_ok=True)
    with Lock("tools"):
        rc, out, _ = run(["go", "build", "-o", os.path.join(BIN, "goextract"), "."],
                         cwd=os.path.join(VERIF, "tools", "goextract"), env=GOENV, timeout=600)
    return rc, out


def tgen(areas=None):
    """Regenerate coq/Gen/*.v from /repo. Returns (ok, message); only errors of the
    given areas (Gen/Params<area>.v files the property depends on) count."""
    rc, out = build_tools()   # always: specs files may have changed (the Go build cache makes this cheap)
    if rc != 0:
        return False, "goextract build failed:\n" + out
    with Lock("coq"):
        rc, out, _ = run([os.path.join(BIN, "goextract"), REPO, os.path.join(COQ, "Gen")], timeout=120)
    if rc == 0:
        return True, out
    if rc == 2 and areas is not None:
        mine = [l for l in out.splitlines() if any(("[%s]" % a) in l for a in areas)]
        if not mine:
            return True, out
        return False, "\n".join(mine)
    return False, out


# ---------------------------------------------------------------- Coq build

def coq_project():
    """(Re)write _CoqProject and the coq_makefile Makefile when the file set changed."""
    files = sorted(os.path.relpath(p, COQ) for p in glob.glob(os.path.join(COQ, "**", "*.v"), recursive=True))
    content = "-Q . Bluge\n-arg -w -arg -notation-overridden,-deprecated-hint-without-locality,-deprecated-instance-without-locality,-ambiguous-paths\n" + "\n".join(files) + "\n"
    cp = os.path.join(COQ, "_CoqProject")
    old = open(cp).read() if os.path.exists(cp) else ""
    if old != content or not os.path.exists(os.path.join(COQ, "Makefile")):
        open(cp, "w").write(content)
        rc, out, _ = run(["coq_makefile", "-f", "_CoqProject", "-o", "Makefile"], cwd=COQ, timeout=120)
        if rc != 0:
            raise RuntimeError("coq_makefile failed: " + out)


def theorem_names(props_file):
    src = open(props_file).read()
    src = re.sub(r"\(\*.*?\*\)", "", src, flags=re.S)
    return re.findall(r"^\s*(?:Theorem|Example)\s+([A-Za-z0-9_']+)", src, flags=re.M)


def coq_build(prop_id, clean=False, timeout=3000, extra_targets=()):
    """Build Props/<id>.vo (full .vo build of its closure). Returns dict."""
    res = {"ok": False, "obligations": 0, "discharged": 0, "axioms": [], "log": "", "failed_at": None, "theorems": []}
    props_v = os.path.join(COQ, "Props", prop_id + ".v")
    names = theorem_names(props_v)
    res["obligations"] = len(names)
    res["theorems"] = names
    with Lock("coq"):
        coq_project()
        if clean:
            run(["make", "clean"], cwd=COQ, timeout=300)
        vo = os.path.join(COQ, "Props", prop_id + ".vo")
        for ext in (".vo", ".glob", ".vok", ".vos"):
            p = os.path.join(COQ, "Props", prop_id + ext)
            if os.path.exists(p):
                os.remove(p)
        rc, out, wall = run(["make", "-j16", "Props/%s.vo" % prop_id] + list(extra_targets), cwd=COQ, timeout=timeout)
    res["log"] = out[-20000:]
    res["wall_s"] = wall
    # Print Assumptions output: one block per theorem, in order
    blocks = re.findall(r"(Closed under the global context|Axioms:\n(?:.+\n?)*?)(?=\n\S|\Z)", out)
    closed = out.count("Closed under the global context")
    ax_blocks = re.findall(r"Axioms:\n((?:(?!Closed under|Axioms:|make|COQC|File ).*\n?)*)", out)
    axioms = set()
    for b in ax_blocks:
        for m in re.finditer(r"^([A-Za-z_][A-Za-z0-9_.']*)\s*:", b, flags=re.M):
            axioms.add(m.group(1))
    res["axioms"] = sorted(axioms)
    res["discharged"] = min(closed + len(ax_blocks), len(names)) if rc == 0 else min(closed + len(ax_blocks), max(len(names) - 1, 0))
    if rc == 0 and os.path.exists(vo):
        res["ok"] = True
        if closed + len(ax_blocks) < len(names):
            # every theorem must be followed by Print Assumptions
            res["ok"] = False
            res["failed_at"] = "Props/%s.v: %d theorems but %d Print Assumptions outputs" % (prop_id, len(names), closed + len(ax_blocks))
    else:
        m = re.search(r'File "([^"]+)", line (\d+)', out)
        if m:
            res["failed_at"] = "%s:%s" % (os.path.relpath(os.path.join(COQ, m.group(1)), COQ) if not os.path.isabs(m.group(1)) else os.path.relpath(m.group(1), COQ), m.group(2))
            # name the lemma enclosing that line
            try:
                fp = m.group(1) if os.path.isabs(m.group(1)) else os.path.join(COQ, m.group(1))
                lines = open(fp).read().split("\n")
                for i in range(int(m.group(2)) - 1, -1, -1):
                    mm = re.match(r"\s*(Theorem|Lemma|Corollary|Example|Definition|Fixpoint|Fact|Proposition)\s+([A-Za-z0-9_']+)", lines[i])
                    if mm:
                        res["failed_at"] += " (%s %s)" % (mm.group(1), mm.group(2))
                        break
            except Exception:
                pass
        else:
            res["failed_at"] = "make exit %d" % rc
    return res


def forbidden_scan():
    """Scan all .v files for forbidden tokens and top-level Variable/Hypothesis."""
    hits = []
    for p in sorted(glob.glob(os.path.join(COQ, "**", "*.v"), recursive=True)):
        src = open(p).read()
        nocom = re.sub(r"\(\*.*?\*\)", lambda m: re.sub(r"[^\n]", " ", m.group(0)), src, flags=re.S)
        for pat in FORBIDDEN:
            for m in re.finditer(pat, nocom):
                hits.append("%s:%d: %s" % (os.path.relpath(p, COQ), nocom.count("\n", 0, m.start()) + 1, m.group(0)))
        depth = 0
        for i, line in enumerate(nocom.split("\n")):
            if re.match(r"\s*Section\s+\w+", line):
                depth += 1
            elif re.match(r"\s*End\s+\w+\s*\.", line) and depth > 0:
                depth -= 1
            elif depth == 0 and re.match(r"\s*(Variable|Variables|Hypothesis|Hypotheses|Context)\b", line):
                hits.append("%s:%d: top-level %s" % (os.path.relpath(p, COQ), i + 1, line.strip()[:40]))
    return hits


# ---------------------------------------------------------------- harness

def build_harness(race=False):
    os.makedirs(BIN, exist_ok=True)
    hdir = os.path.join(VERIF, "harness")
    with Lock("harness"):
        # module replace points at REPO; go.sum copied from the repo (offline)
        gomod = open(os.path.join(hdir, "go.mod")).read()
        want = re.sub(r"(replace github.com/blugelabs/bluge => ).*", r"\g<1>" + REPO, gomod)
        if want != gomod:
            open(os.path.join(hdir, "go.mod"), "w").write(want)
        shutil.copy(os.path.join(REPO, "go.sum"), os.path.join(hdir, "go.sum"))
        name = "harness-race" if race else "harness"
        cmd = ["go", "build", "-tags", "verif", "-o", os.path.join(BIN, name)]
        env = dict(GOENV)
        if race:
            cmd.insert(2, "-race")
            env["CGO_ENABLED"] = "1"
        rc, out, wall = run(cmd + ["."], cwd=hdir, env=env, timeout=1200)
    return rc, out, wall


def run_engine(engine, outdir, seed, tier, extra=None, timeout=1800, race=False):
    if os.path.isdir(outdir):
        shutil.rmtree(outdir)
    os.makedirs(outdir)
    cmd = [os.path.join(BIN, "harness-race" if race else "harness"), engine, "-seed", str(seed), "-tier", tier, "-out", outdir] + (extra or [])
    rc, out, wall = run(cmd, timeout=timeout, env=dict(GOENV, VERIF_REPO=REPO, VERIF_DIR=VERIF))
    return rc, out, wall


def eval_shards(outdir, timeout=3000):
    """Compile every cases_<k>.v with coqc in parallel; return (mismatch indices, errors, n_shards)."""
    shards = sorted(glob.glob(os.path.join(outdir, "cases_*.v")), key=lambda p: int(re.search(r"cases_(\d+)\.v", p).group(1)))
    if not shards:
        return [], ["no shards written"], 0
    stats = json.load(open(os.path.join(outdir, "stats.json")))
    size = stats.get("shard_size", 1)
    procs = []
    errors = []
    mism = []
    diag = []
    maxpar = 16
    pending = list(shards)
    running = []
    t0 = time.time()

    def reap(block):
        nonlocal running
        still = []
        for (p, sh, fo) in running:
            if p.poll() is None and not block:
                still.append((p, sh, fo))
                continue
            try:
                p.wait(timeout=max(1, timeout - (time.time() - t0)))
            except subprocess.TimeoutExpired:
                p.kill()
                errors.append("%s: coqc timeout" % os.path.basename(sh))
                fo.close()
                continue
            fo.close()
            out = open(sh + ".out").read()
            k = int(re.search(r"cases_(\d+)\.v", sh).group(1))
            m = re.search(r"M\s*=\s*(\[.*?\])\s*:\s*list nat", out, flags=re.S)
            if p.returncode != 0 or not m:
                errors.append("%s: %s" % (os.path.basename(sh), out.strip()[-600:]))
                continue
            for n in re.findall(r"(\d+)%nat|(\d+)", m.group(1)):
                v = int(n[0] or n[1])
                mism.append(k * size + v)
            mr = re.search(r"R\s*=\s*(\[.*?\])\s*:\s*list", out, flags=re.S)
            if mr and mr.group(1).strip() != "[]":
                # (case index within the shard, position of the first rejected event / probe)
                diag.append("shard %d (cases %d..): first rejections %s" % (k, k * size, re.sub(r"\s+", " ", mr.group(1))[:400]))
        running = still

    while pending or running:
        while pending and len(running) < maxpar:
            sh = pending.pop(0)
            fo = open(sh + ".out", "w")
            p = subprocess.Popen(["coqc", "-Q", COQ, "Bluge", "-w", "none", os.path.basename(sh)], cwd=outdir, stdout=fo, stderr=subprocess.STDOUT)
            running.append((p, sh, fo))
        time.sleep(0.05)
        reap(block=False)
        if time.time() - t0 > timeout:
            for (p, sh, fo) in running:
                p.kill()
                errors.append("%s: coqc timeout" % os.path.basename(sh))
            break
    # clean compiled artefacts of shards
    for ext in ("*.vo", "*.vok", "*.vos", "*.glob", ".*.aux"):
        for f in glob.glob(os.path.join(outdir, ext)):
            try:
                os.remove(f)
            except OSError:
                pass
    eval_shards.last_diag = diag
    return sorted(mism), errors, len(shards)


def load_cases(outdir, idxs):
    want = set(idxs)
    got = {}
    with open(os.path.join(outdir, "cases.jsonl")) as f:
        for i, line in enumerate(f):
            if i in want:
                got[i] = json.loads(line)
    return got


def load_oracle(outdir):
    p = os.path.join(outdir, "oracle.jsonl")
    if not os.path.exists(p):
        return []
    return [json.loads(l) for l in open(p) if l.strip()]


# ---------------------------------------------------------------- findings / evidence

def known_findings(prop_id):
    p = os.path.join(VERIF, "KNOWN_FINDINGS.json")
    items = []
    if os.path.exists(p):
        items += json.load(open(p)).get("findings", [])
    for q in sorted(glob.glob(os.path.join(VERIF, "findings", "*.json"))):
        try:
            items += json.load(open(q))
        except Exception as e:  # a malformed file must not silence anything
            print("warning: cannot read %s: %s" % (q, e))
    return [f for f in items if f.get("property") == prop_id and f.get("status", "known") == "known"]


def write_replay(prop_id, payload):
    d = os.path.join(VERIF, "replays")
    os.makedirs(d, exist_ok=True)
    path = os.path.join(d, "%s-%d.json" % (prop_id, int(time.time() * 1000) % 10**10))
    json.dump(payload, open(path, "w"), indent=1, default=str)
    return path


def write_evidence(prop_id, ev):
    d = os.path.join(VERIF, "evidence")
    os.makedirs(d, exist_ok=True)
    json.dump(ev, open(os.path.join(d, prop_id + ".json"), "w"), indent=1, default=str)


BASE_TRUST = [
    "Coq 8.16.1 kernel (coqc; vm_compute used for case evaluation and finite sweeps; native_compute not used)",
    "tools/goextract (T-gen translator: constants/literals/tables read from the Go AST)",
    "Go harness generators, recording wrappers and canonicalisation (verif/harness), Python driver (lib/vcheck.py)",
    "printing of observed values as Coq terms (harness/cq) and parsing of coqc output",
]


def standard_check(prop_id, tier, seed, spec):
    """spec: dict(engine=..., extra=[...], level_rule=..., trust=[...], assumptions=[...],
                 search_seeds=int, race=bool, engine_timeout=int)"""
    # one run of a given property at a time (the work directory is per property)
    with Lock("check-" + prop_id):
        return _standard_check(prop_id, tier, seed, spec)


def _standard_check(prop_id, tier, seed, spec):
    t0 = time.time()
    thorough = tier == "thorough"
    violations = []      # (kind, detail dict)
    notes = []

    ok, msg = tgen(spec.get("gen_areas"))
    tgen_broken = None
    if not ok:
        tgen_broken = msg.strip()
        notes.append("T-gen failed: " + tgen_broken)

    cb = coq_build(prop_id, clean=False, timeout=3300, extra_targets=spec.get("corr_targets", ()))
    forb = forbidden_scan()
    coqchk_out = None
    if thorough and cb["ok"] and not os.environ.get("VERIF_SKIP_COQCHK"):
        with Lock("coq"):
            rc, out, w = run(["coqchk", "-silent", "-o", "-Q", ".", "Bluge", "Bluge.Props." + prop_id], cwd=COQ,
                             timeout=spec.get("coqchk_timeout", 900))
        coqchk_out = {"rc": rc, "wall_s": round(w, 1), "tail": out[-3000:]}
        if rc == 124:
            # the independent re-check did not finish in its time slot (the libraries under the real-number
            # developments take very long to re-check): recorded as not completed, it is not a failed proof —
            # the proofs were accepted by coqc's kernel in the full .vo build above
            coqchk_out["completed"] = False
        elif rc != 0:
            cb["ok"] = False
            cb["failed_at"] = "coqchk: " + out[-400:]
        else:
            coqchk_out["completed"] = True

    rc, out, hb_wall = build_harness(race=spec.get("race", False))
    harness_broken = None
    stats, mism, errors, oracle, nshards = {}, [], [], [], 0
    outdir = os.path.join(WORK, prop_id)
    seeds_run = []
    if rc != 0:
        harness_broken = out[-3000:]
    else:
        def one(seed_k, sub):
            od = outdir if sub == 0 else outdir + "_s%d" % sub
            rc2, out2, _ = run_engine(spec["engine"], od, seed_k, tier, spec.get("extra"), timeout=spec.get("engine_timeout", 2400) * (3 if thorough else 1), race=spec.get("race", False))
            if rc2 != 0:
                return od, None, [], ["engine exit %d: %s" % (rc2, out2[-2500:])], [], 0
            st = json.load(open(os.path.join(od, "stats.json")))
            mm, ee, ns = eval_shards(od)
            return od, st, mm, ee, load_oracle(od), ns
        od, stats, mism, errors, oracle, nshards = one(seed, 0)
        seeds_run.append(seed)
        stats = stats or {}

    # ---- decide
    known = known_findings(prop_id)
    known_keys = {k["key"]: k for k in known}
    unknown_oracle = [o for o in oracle if o.get("key") not in known_keys]
    known_hit = {}
    for o in oracle:
        if o.get("key") in known_keys:
            known_hit.setdefault(o["key"], o)

    broken = []
    if tgen_broken:
        broken.append({"what": "T-gen (translator) no longer resolves", "detail": tgen_broken})
    if not cb["ok"]:
        broken.append({"what": "proof obligation no longer checks", "detail": cb["failed_at"], "log_tail": cb["log"][-1500:]})
    if forb:
        broken.append({"what": "forbidden token in the Coq development", "detail": forb[:10]})
    if harness_broken:
        broken.append({"what": "harness does not build against /repo", "detail": harness_broken})
    if errors:
        broken.append({"what": "correspondence run failed", "detail": errors[:5]})
    if mism:
        cases = load_cases(outdir, mism[:20])
        broken.append({"what": "correspondence: model and implementation disagree", "count": len(mism),
                       "cases": [cases[i] for i in sorted(cases)],
                       "monitor_diagnosis": getattr(eval_shards, "last_diag", [])[:10]})

    replay = None
    vio_line = None
    if unknown_oracle:
        replay = write_replay(prop_id, {"property": prop_id, "kind": "property predicate fails on the implementation",
                                        "seed": seed, "tier": tier, "failing": unknown_oracle[:10], "broken": broken,
                                        "replay_cmd": "./check %s %s --seed %d" % (prop_id, tier, seed)})
        vio_line = "VIOLATION property=%s replay=%s" % (prop_id, replay)
    elif broken:
        # search for a failing input with further seeds (model and implementation)
        found = None
        if not harness_broken:
            n_extra = spec.get("search_seeds", 2) * (3 if thorough else 1)
            for k in range(1, n_extra + 1):
                od2 = outdir + "_s%d" % k
                rc2, out2, _ = run_engine(spec["engine"], od2, seed + 1000 * k, tier, spec.get("extra"), timeout=spec.get("engine_timeout", 2400) * (3 if thorough else 1), race=spec.get("race", False))
                seeds_run.append(seed + 1000 * k)
                if rc2 == 0:
                    o2 = [o for o in load_oracle(od2) if o.get("key") not in known_keys]
                    if o2:
                        found = {"seed": seed + 1000 * k, "failing": o2[:10]}
                        break
                shutil.rmtree(od2, ignore_errors=True)
        payload = {"property": prop_id, "seed": seed, "tier": tier, "broken": broken, "searched_seeds": seeds_run}
        if found:
            payload["kind"] = "property predicate fails on the implementation (found by search after a broken proof/correspondence)"
            payload.update(found)
            replay = write_replay(prop_id, payload)
            vio_line = "VIOLATION property=%s replay=%s" % (prop_id, replay)
        else:
            payload["kind"] = "proof or correspondence no longer checks; no failing input found"
            replay = write_replay(prop_id, payload)
            vio_line = "VIOLATION property=%s replay=%s no-failing-input-found" % (prop_id, replay)

    for o in unknown_oracle[:6]:
        print("ORACLE-FAIL property=%s key=%s reason=%s input=%s" % (prop_id, o.get("key"), str(o.get("reason"))[:300], json.dumps(o.get("input"), default=str)[:300]))
    for b in broken[:4]:
        print("BROKEN property=%s what=%s detail=%s" % (prop_id, b.get("what"), str(b.get("detail") or b.get("monitor_diagnosis") or "")[:400]))
    for key, o in sorted(known_hit.items()):
        print("KNOWN-FINDING: property=%s %s: %s" % (prop_id, key, known_keys[key].get("what", o.get("reason", ""))))

    wall = time.time() - t0
    trusted = list(BASE_TRUST) + list(spec.get("trust", []))
    trusted.append("axioms reported by Print Assumptions under the theorems of Props/%s.v: %s" %
                   (prop_id, ", ".join(cb["axioms"]) if cb["axioms"] else "none (closed under the global context)"))
    samples = list(stats.get("samples") or [])[:6] if stats else []
    if not samples:
        samples = [{"theorems": cb["theorems"][:5]}]
    ev = {
        "property_id": prop_id, "tier": tier, "seed": seed, "level": "proof",
        "coverage": {
            "obligations": cb["obligations"], "discharged": cb["discharged"],
            "checker_cmd": "make -C coq Props/%s.vo (coqc 8.16.1, full .vo build)%s" % (prop_id, "; coqchk -silent -o Bluge.Props.%s" % prop_id if coqchk_out else ""),
            "trusted_base": trusted,
            "theorems": cb["theorems"],
            "axioms": cb["axioms"],
            "proof_build_wall_s": round(cb.get("wall_s", 0), 1),
            "coqchk": coqchk_out,
            "evaluations": int(stats.get("cases", 0)) + int(stats.get("oracle_evaluations", 0)),
            "correspondence_cases": int(stats.get("cases", 0)),
            "correspondence_mismatches": len(mism),
            "oracle_evaluations": int(stats.get("oracle_evaluations", 0)),
            "oracle_failures": len(oracle),
            "known_findings_reproduced": sorted(known_hit.keys()),
            "distinct_nontrivial": int(stats.get("distinct_nontrivial", 0)),
            "rule": spec.get("level_rule", ""),
            "samples": samples,
            "traces_validated_against_impl": int(stats.get("traces_validated", stats.get("cases", 0))),
            "input_distribution": stats.get("distribution", {}),
            "shards": nshards,
            "forbidden_token_hits": forb,
            "broken": broken,
            "notes": notes,
        },
        "assumptions": list(spec.get("assumptions", [])),
        "wall_s": round(wall, 1),
        "violations": 1 if vio_line else 0,
    }
    write_evidence(prop_id, ev)
    print("check %s %s: obligations=%d discharged=%d cases=%d mismatches=%d oracle_evals=%d oracle_failures=%d known=%d wall=%.0fs" % (
        prop_id, tier, cb["obligations"], cb["discharged"], int(stats.get("cases", 0)), len(mism),
        int(stats.get("oracle_evaluations", 0)), len(oracle), len(known_hit), wall))
    if vio_line:
        print(vio_line)
        return 1
    return 0
