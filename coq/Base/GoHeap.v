(* Base/GoHeap.v — Go's container/heap (heap.go: Init, Push, Pop, Remove, Fix, up, down)
   modelled exactly over a list (the backing slice) and a `less i j` comparison on elements.
   The interface methods Swap/Push/Pop of the usual slice-backed implementations are inlined:
   Push appends, Pop removes the last element.  No proofs here (see Base/GoHeapProofs.v). *)
From Coq Require Import List Arith Bool.
Import ListNotations.

Section Heap.
  Context {A : Type}.
  Variable less : A -> A -> bool.   (* h.Less(i, j) evaluated on the elements at i and j *)
  Variable dflt : A.                (* never observed: all indices are in range *)

  Definition get (h : list A) (i : nat) : A := nth i h dflt.

  Fixpoint set_nth (h : list A) (i : nat) (x : A) : list A :=
    match h, i with
    | [], _ => []
    | _ :: t, O => x :: t
    | y :: t, S i' => y :: set_nth t i' x
    end.

  Definition swap (h : list A) (i j : nat) : list A :=
    let a := get h i in let b := get h j in set_nth (set_nth h i b) j a.

  (* func up(h, j): for { i := (j-1)/2; if i == j || !h.Less(j, i) { break }; h.Swap(i, j); j = i } *)
  Fixpoint up_fuel (fuel : nat) (h : list A) (j : nat) : list A :=
    match fuel with
    | O => h
    | S f =>
        let i := (j - 1) / 2 in
        if (i =? j) || negb (less (get h j) (get h i)) then h
        else up_fuel f (swap h i j) i
    end.
  Definition up (h : list A) (j : nat) : list A := up_fuel (S j) h j.

  (* func down(h, i0, n) bool *)
  Fixpoint down_fuel (fuel : nat) (h : list A) (i n : nat) : list A * nat :=
    match fuel with
    | O => (h, i)
    | S f =>
        let j1 := 2 * i + 1 in
        if n <=? j1 then (h, i)
        else
          let j2 := j1 + 1 in
          let j := if (j2 <? n) && less (get h j2) (get h j1) then j2 else j1 in
          if negb (less (get h j) (get h i)) then (h, i)
          else down_fuel f (swap h i j) j n
    end.
  (* returns the heap and whether the element moved (i > i0) *)
  Definition down (h : list A) (i0 n : nat) : list A * bool :=
    let '(h', i) := down_fuel (S n) h i0 n in (h', i0 <? i).

  (* heap.Init: for i := n/2 - 1; i >= 0; i-- { down(h, i, n) } *)
  Fixpoint init_from (k : nat) (h : list A) (n : nat) : list A :=
    match k with
    | O => h
    | S k' => init_from k' (fst (down h k' n)) n
    end.
  Definition heap_init (h : list A) : list A := let n := length h in init_from (n / 2) h n.

  (* heap.Push: h.Push(x); up(h, h.Len()-1) *)
  Definition heap_push (h : list A) (x : A) : list A := up (h ++ [x]) (length h).

  (* heap.Pop: n := h.Len()-1; h.Swap(0, n); down(h, 0, n); return h.Pop() *)
  Definition heap_pop (h : list A) : option (A * list A) :=
    match h with
    | [] => None
    | _ =>
        let n := length h - 1 in
        let h1 := swap h 0 n in
        let h2 := fst (down h1 0 n) in
        Some (get h2 n, firstn n h2)
    end.

  (* heap.Fix(h, i): if !down(h, i, h.Len()) { up(h, i) } *)
  Definition heap_fix (h : list A) (i : nat) : list A :=
    let '(h', moved) := down h i (length h) in
    if moved then h' else up h' i.

  (* heap.Remove(h, i) *)
  Definition heap_remove (h : list A) (i : nat) : option (A * list A) :=
    match h with
    | [] => None
    | _ =>
        let n := length h - 1 in
        let h1 := if n =? i then h
                  else let hs := swap h i n in
                       let '(hd, moved) := down hs i n in
                       if moved then hd else up hd i in
        Some (get h1 n, firstn n h1)
    end.
End Heap.
