(* Base/Int64.v — Go's fixed-width integer arithmetic on unbounded Z.
   int64 values are Z in [-2^63, 2^63); uint64 values are Z in [0, 2^64).
   Every operation that can wrap in Go is written with an explicit wrap. *)
From Coq Require Import ZArith Lia List Bool.
From Coq Require Import ZifyBool.
Open Scope Z_scope.

Definition two63 : Z := 9223372036854775808.
Definition two64 : Z := 18446744073709551616.
Definition max_int64 : Z := 9223372036854775807.
Definition min_int64 : Z := -9223372036854775808.

Lemma two63_eq : two63 = 2 ^ 63. Proof. reflexivity. Qed.
Lemma two64_eq : two64 = 2 ^ 64. Proof. reflexivity. Qed.

Definition in_int64 (z : Z) : Prop := min_int64 <= z <= max_int64.
Definition in_uint64 (z : Z) : Prop := 0 <= z < two64.
Definition in_int64b (z : Z) : bool := (min_int64 <=? z) && (z <=? max_int64).
Definition in_uint64b (z : Z) : bool := (0 <=? z) && (z <? two64).

(* int64(x): two's-complement truncation of any integer to 64 bits, signed *)
Definition wrap64 (z : Z) : Z := (z + two63) mod two64 - two63.
(* uint64(x) *)
Definition uwrap64 (z : Z) : Z := z mod two64.

Lemma wrap64_range z : in_int64 (wrap64 z).
Proof. unfold in_int64, wrap64, min_int64, max_int64, two63, two64.
  pose proof (Z.mod_pos_bound (z + 9223372036854775808) 18446744073709551616). lia. Qed.

Lemma wrap64_id z : in_int64 z -> wrap64 z = z.
Proof. unfold in_int64, wrap64, min_int64, max_int64, two63, two64. intros H.
  rewrite Z.mod_small; lia. Qed.

Lemma uwrap64_range z : in_uint64 (uwrap64 z).
Proof. unfold in_uint64, uwrap64, two64. apply Z.mod_pos_bound. lia. Qed.

Lemma uwrap64_id z : in_uint64 z -> uwrap64 z = z.
Proof. unfold in_uint64, uwrap64. intros. apply Z.mod_small; lia. Qed.

Lemma wrap64_uwrap64 z : in_uint64 z -> uwrap64 (wrap64 z) = z.
Proof. unfold in_uint64, uwrap64, wrap64, two63, two64. intros H.
  destruct (Z_lt_ge_dec z 9223372036854775808).
  - rewrite (Z.mod_small (z + _)) by lia. rewrite Z.mod_small; lia.
  - replace (z + 9223372036854775808) with ((z - 9223372036854775808) + 1 * 18446744073709551616) by lia.
    rewrite Z.mod_add by lia. rewrite (Z.mod_small (z - _)) by lia.
    replace (z - 9223372036854775808 - 9223372036854775808) with (z + (-1) * 18446744073709551616) by lia.
    rewrite Z.mod_add by lia. apply Z.mod_small; lia. Qed.

Lemma uwrap64_wrap64 z : in_int64 z -> wrap64 (uwrap64 z) = z.
Proof. unfold in_int64, uwrap64, wrap64, min_int64, max_int64, two63, two64. intros H.
  destruct (Z_lt_ge_dec z 0).
  - replace z with ((z + 18446744073709551616) + (-1) * 18446744073709551616) at 1 by lia.
    rewrite Z.mod_add by lia. rewrite (Z.mod_small (z + _)) by lia.
    replace (z + 18446744073709551616 + 9223372036854775808) with ((z + 9223372036854775808) + 1 * 18446744073709551616) by lia.
    rewrite Z.mod_add by lia. rewrite Z.mod_small; lia.
  - rewrite (Z.mod_small z) by lia. rewrite Z.mod_small; lia. Qed.

(* Go shifts: count >= width gives 0 for <<, and for unsigned >>. *)
Definition shl64 (x : Z) (s : Z) : Z := if s <? 64 then wrap64 (Z.shiftl x s) else 0.
Definition ushr64 (x : Z) (s : Z) : Z := if s <? 64 then Z.shiftr x s else 0. (* x : uint64 *)

(* ---- bit-level facts used by the codecs ---- *)

Lemma land_ones_mod x n : 0 <= n -> Z.land x (Z.ones n) = x mod 2 ^ n.
Proof. intros. apply Z.land_ones; assumption. Qed.

Lemma ones_63 : Z.ones 63 = max_int64. Proof. reflexivity. Qed.

Lemma lxor_assoc' a b c : Z.lxor a (Z.lxor b c) = Z.lxor (Z.lxor a b) c.
Proof. symmetry. apply Z.lxor_assoc. Qed.

Lemma land_small_high x : 0 <= x < two63 -> Z.land x (- two63) = 0.
Proof.
  intros H. apply Z.bits_inj'. intros n Hn. rewrite Z.land_spec, Z.bits_0.
  destruct (Z_lt_ge_dec n 63).
  - replace (- two63) with (Z.shiftl (-1) 63) by reflexivity.
    rewrite Z.shiftl_spec_low by lia. apply andb_false_r.
  - rewrite (Z.bits_above_log2 x n); [reflexivity| lia |].
    destruct (Z.eq_dec x 0) as [->|Hx]; [simpl; lia|].
    assert (Z.log2 x < 63); [|lia].
    apply Z.log2_lt_pow2; [lia|]. unfold two63 in H. lia.
Qed.

Lemma lxor_max_neg s : min_int64 <= s < 0 -> Z.lxor s max_int64 = - s - two63 - 1.
Proof.
  intros H.
  replace max_int64 with (Z.lxor (-1) (- two63)) by reflexivity.
  rewrite lxor_assoc'. rewrite Z.lxor_m1_r. rewrite <- Z.add_nocarry_lxor.
  - unfold Z.lnot, Z.pred. lia.
  - apply land_small_high. unfold Z.lnot, Z.pred, min_int64, two63 in *. lia.
Qed.

Lemma lxor_max_nonneg s : 0 <= s <= max_int64 -> Z.lxor s max_int64 = max_int64 - s.
Proof.
  intros H.
  assert (E : Z.lxor s max_int64 = Z.lxor s (Z.lxor (-1) (- two63))) by reflexivity.
  rewrite E; clear E.
  rewrite lxor_assoc'. rewrite Z.lxor_m1_r.
  (* lnot s = -s-1 is negative, in [-2^63, -1]; xor with -2^63 clears the high bits *)
  unfold Z.lnot, Z.pred.
  replace (- s + -1) with ((two63 - 1 - s) + (- two63)) by (unfold two63; lia).
  rewrite Z.add_nocarry_lxor by (apply land_small_high; unfold max_int64, two63 in *; lia).
  rewrite <- lxor_assoc'. rewrite Z.lxor_nilpotent, Z.lxor_0_r.
  unfold two63, max_int64. lia.
Qed.

(* uint64(in) ^ 0x8000000000000000 on the unsigned image of an int64 = in + 2^63 *)
Lemma lxor_signbit_u u : 0 <= u < two64 ->
  Z.lxor u two63 = if u <? two63 then u + two63 else u - two63.
Proof.
  intros H. destruct (Z.ltb_spec u two63).
  - rewrite Z.add_nocarry_lxor; [reflexivity|].
    apply Z.bits_inj'. intros n Hn. rewrite Z.land_spec, Z.bits_0.
    destruct (Z.eq_dec n 63) as [->|Hne].
    + rewrite (Z.bits_above_log2 u 63); [reflexivity|lia|].
      destruct (Z.eq_dec u 0) as [->|Hu]; [simpl; lia|].
      apply Z.log2_lt_pow2; [lia|]. unfold two63 in *; lia.
    + replace two63 with (2 ^ 63) by reflexivity. rewrite Z.pow2_bits_false by lia.
      apply andb_false_r.
  - (* u = (u - 2^63) + 2^63 with disjoint bits *)
    set (x := u - two63). assert (Hx : 0 <= x < two63) by (unfold x, two63, two64 in *; lia).
    replace u with (x + two63) by (unfold x; lia).
    assert (Hl : Z.land x two63 = 0).
    { apply Z.bits_inj'. intros n Hn. rewrite Z.land_spec, Z.bits_0.
      destruct (Z.eq_dec n 63) as [->|Hne].
      + rewrite (Z.bits_above_log2 x 63); [reflexivity|lia|].
        destruct (Z.eq_dec x 0) as [->|Hu]; [simpl; lia|].
        apply Z.log2_lt_pow2; [lia|]. unfold two63 in *; lia.
      + replace two63 with (2 ^ 63) by reflexivity. rewrite Z.pow2_bits_false by lia.
        apply andb_false_r. }
    rewrite (Z.add_nocarry_lxor x two63 Hl). rewrite <- lxor_assoc'.
    rewrite Z.lxor_nilpotent, Z.lxor_0_r. lia.
Qed.
