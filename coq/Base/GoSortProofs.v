(* Base/GoSortProofs.v — facts about Base/GoSort.v: lawful three-way comparisons, insertion sort
   is a sorted permutation, a strictly sorted permutation is unique, prefix (top-k) lemmas. *)
From Coq Require Import ZArith List Bool Arith Lia Permutation Sorted.
From Coq Require Import ZifyBool.
From Bluge Require Import Base.GoSort.
Import ListNotations.
Open Scope Z_scope.

Section Lawful.
  Context {A : Type}.
  Variable cmp : A -> A -> Z.

  (* what Go's Compare functions satisfy: sign antisymmetry, congruence of the tie class, and
     transitivity of "sorts before" *)
  Record lawful : Prop := {
    law_antisym : forall a b, cmp b a = - cmp a b;
    law_eq_cong : forall a b, cmp a b = 0 -> forall x, cmp a x = cmp b x;
    law_trans : forall a b c, cmp a b < 0 -> cmp b c < 0 -> cmp a c < 0
  }.

  Hypothesis L : lawful.

  Lemma law_refl a : cmp a a = 0.
  Proof. pose proof (law_antisym L a a). lia. Qed.

  Lemma law_eq_cong_r a b : cmp a b = 0 -> forall x, cmp x a = cmp x b.
  Proof.
    intros H x. rewrite (law_antisym L a x), (law_antisym L b x).
    rewrite (law_eq_cong L a b H x). reflexivity.
  Qed.

  Lemma law_le_trans a b c : cmp a b <= 0 -> cmp b c <= 0 -> cmp a c <= 0.
  Proof.
    intros Hab Hbc.
    destruct (Z.eq_dec (cmp a b) 0) as [E|NE].
    - rewrite (law_eq_cong L a b E c). exact Hbc.
    - destruct (Z.eq_dec (cmp b c) 0) as [E2|NE2].
      + rewrite <- (law_eq_cong_r b c E2 a). exact Hab.
      + pose proof (law_trans L a b c). lia.
  Qed.

  Lemma law_lt_le_trans a b c : cmp a b < 0 -> cmp b c <= 0 -> cmp a c < 0.
  Proof.
    intros Hab Hbc.
    destruct (Z.eq_dec (cmp b c) 0) as [E2|NE2].
    - rewrite <- (law_eq_cong_r b c E2 a). exact Hab.
    - apply (law_trans L a b c); lia.
  Qed.

  Lemma law_le_lt_trans a b c : cmp a b <= 0 -> cmp b c < 0 -> cmp a c < 0.
  Proof.
    intros Hab Hbc.
    destruct (Z.eq_dec (cmp a b) 0) as [E|NE].
    - rewrite (law_eq_cong L a b E c). exact Hbc.
    - apply (law_trans L a b c); lia.
  Qed.

  Definition le (a b : A) : Prop := cmp a b <= 0.

  (* ---------- insertion sort ---------- *)

  Lemma insert_perm x l : Permutation (insert cmp x l) (x :: l).
  Proof.
    induction l as [|h t IH]; cbn [insert]; [reflexivity|].
    destruct (cle cmp x h); [reflexivity|].
    rewrite IH. apply perm_swap.
  Qed.

  Lemma insert_length x l : length (insert cmp x l) = S (length l).
  Proof. apply (Permutation_length (insert_perm x l)). Qed.

  Lemma insert_in x l y : In y (insert cmp x l) <-> y = x \/ In y l.
  Proof.
    split; intro H.
    - apply (Permutation_in _ (insert_perm x l)) in H. destruct H; auto.
    - apply (Permutation_in _ (Permutation_sym (insert_perm x l))). destruct H; [left; auto | right; auto].
  Qed.

  Lemma insert_sorted x l : StronglySorted le l -> StronglySorted le (insert cmp x l).
  Proof.
    induction l as [|h t IH]; intro S; cbn [insert].
    - constructor; constructor.
    - inversion S as [|? ? St Hall]; subst.
      unfold cle. destruct (cmp x h <=? 0) eqn:E.
      + constructor; [exact S|]. constructor; [unfold le; lia|].
        apply Forall_forall. intros y Hy. rewrite Forall_forall in Hall.
        apply (law_le_trans x h y); [lia | apply Hall; exact Hy].
      + constructor; [apply IH; exact St|].
        apply Forall_forall. intros y Hy. apply insert_in in Hy. destruct Hy as [->|Hy].
        * unfold le. pose proof (law_antisym L x h). lia.
        * rewrite Forall_forall in Hall. apply Hall; exact Hy.
  Qed.

  Lemma isort_acc_perm l : forall acc, Permutation (fold_left (fun a x => insert cmp x a) l acc) (l ++ acc).
  Proof.
    induction l as [|x l IH]; intro acc; cbn [fold_left app]; [reflexivity|].
    rewrite IH. rewrite insert_perm. apply Permutation_sym, Permutation_middle.
  Qed.

  Lemma isort_perm l : Permutation (isort cmp l) l.
  Proof. unfold isort. rewrite isort_acc_perm, app_nil_r. reflexivity. Qed.

  Lemma isort_length l : length (isort cmp l) = length l.
  Proof. apply (Permutation_length (isort_perm l)). Qed.

  Lemma isort_acc_sorted l : forall acc, StronglySorted le acc ->
    StronglySorted le (fold_left (fun a x => insert cmp x a) l acc).
  Proof.
    induction l as [|x l IH]; intros acc S; cbn [fold_left]; [exact S|].
    apply IH, insert_sorted, S.
  Qed.

  Lemma isort_sorted l : StronglySorted le (isort cmp l).
  Proof. apply isort_acc_sorted. constructor. Qed.

  Lemma isort_snoc l x : isort cmp (l ++ [x]) = insert cmp x (isort cmp l).
  Proof. unfold isort. rewrite fold_left_app. reflexivity. Qed.

  Lemma isort_in l y : In y (isort cmp l) <-> In y l.
  Proof.
    split; intro H.
    - apply (Permutation_in _ (isort_perm l)); exact H.
    - apply (Permutation_in _ (Permutation_sym (isort_perm l))); exact H.
  Qed.

  (* ---------- uniqueness of the strictly sorted permutation ---------- *)

  (* the comparison separates the elements of l *)
  Definition separates (l : list A) : Prop := forall a b, In a l -> In b l -> cmp a b = 0 -> a = b.

  Lemma separates_perm l l' : Permutation l l' -> separates l -> separates l'.
  Proof.
    intros P S a b Ha Hb. apply S; apply (Permutation_in _ (Permutation_sym P)); assumption.
  Qed.

  Lemma separates_tail x l : separates (x :: l) -> separates l.
  Proof. intros S a b Ha Hb. apply S; right; assumption. Qed.

  Lemma sorted_perm_unique l1 : forall l2,
    StronglySorted le l1 -> StronglySorted le l2 -> Permutation l1 l2 -> separates l1 -> l1 = l2.
  Proof.
    induction l1 as [|x t IH]; intros l2 S1 S2 P Sep.
    - apply Permutation_nil in P. subst. reflexivity.
    - destruct l2 as [|y t2]; [apply Permutation_sym, Permutation_nil in P; discriminate|].
      inversion S1 as [|? ? St1 H1]; subst. inversion S2 as [|? ? St2 H2]; subst.
      rewrite Forall_forall in H1, H2.
      assert (Hxy : x = y).
      { assert (Hy : In y (x :: t)) by (apply (Permutation_in _ (Permutation_sym P)); left; reflexivity).
        assert (Hx : In x (y :: t2)) by (apply (Permutation_in _ P); left; reflexivity).
        destruct Hy as [E|Hy]; [exact E|]. destruct Hx as [E|Hx]; [symmetry; exact E|].
        apply Sep; [left; reflexivity | right; exact Hy|].
        pose proof (H1 y Hy) as A1. pose proof (H2 x Hx) as A2. unfold le in *.
        pose proof (law_antisym L x y). lia. }
      subst y. f_equal. apply IH; try assumption.
      + apply Permutation_cons_inv with x. exact P.
      + apply separates_tail with x. exact Sep.
  Qed.

  (* the fold_right view of the same sort *)
  Lemma isort_cons x l : separates (x :: l) -> isort cmp (x :: l) = insert cmp x (isort cmp l).
  Proof.
    intro Sep. apply sorted_perm_unique.
    - apply isort_sorted.
    - apply insert_sorted, isort_sorted.
    - rewrite isort_perm, insert_perm, isort_perm. reflexivity.
    - apply separates_perm with (x :: l); [apply Permutation_sym, isort_perm | exact Sep].
  Qed.

  (* ---------- prefixes ---------- *)

  (* the first k of a sorted list after one more insertion only depends on its first k *)
  Lemma firstn_cons_firstn k (h : A) t : firstn k (h :: t) = firstn k (h :: firstn k t).
  Proof.
    destruct k as [|k']; [reflexivity|].
    change (firstn (S k') (h :: t)) with (h :: firstn k' t).
    change (firstn (S k') (h :: firstn (S k') t)) with (h :: firstn k' (firstn (S k') t)).
    rewrite firstn_firstn. f_equal. f_equal. lia.
  Qed.

  Lemma firstn_insert k : forall x l, firstn k (insert cmp x l) = firstn k (insert cmp x (firstn k l)).
  Proof.
    induction k as [|k IH]; intros x l; [reflexivity|].
    destruct l as [|h t]; [reflexivity|].
    cbn [insert firstn]. destruct (cle cmp x h).
    - change (firstn (S k) (x :: h :: t)) with (x :: firstn k (h :: t)).
      change (firstn (S k) (x :: h :: firstn k t)) with (x :: firstn k (h :: firstn k t)).
      f_equal. apply firstn_cons_firstn.
    - cbn [firstn]. f_equal. apply IH.
  Qed.

  Lemma insert_app_le x l1 : forall y l2, cmp x y <= 0 ->
    insert cmp x (l1 ++ y :: l2) = insert cmp x l1 ++ y :: l2.
  Proof.
    induction l1 as [|h t IH]; intros y l2 H; cbn [insert app].
    - unfold cle. destruct (cmp x y <=? 0) eqn:E; [reflexivity | lia].
    - destruct (cle cmp x h); [reflexivity|]. cbn [app]. f_equal. apply IH. exact H.
  Qed.

  (* an element sorting after position k leaves the first k+1 untouched *)
  Lemma insert_beyond x l1 : forall y l2, StronglySorted le (l1 ++ y :: l2) -> 0 < cmp x y ->
    insert cmp x (l1 ++ y :: l2) = l1 ++ y :: insert cmp x l2.
  Proof.
    induction l1 as [|h t IH]; intros y l2 S H; cbn [insert app].
    - unfold cle. destruct (cmp x y <=? 0) eqn:E; [lia | reflexivity].
    - cbn [app] in S. inversion S as [|? ? St Hall]; subst.
      rewrite Forall_forall in Hall.
      assert (Hhy : cmp h y <= 0) by (apply Hall, in_or_app; right; left; reflexivity).
      unfold cle. destruct (cmp x h <=? 0) eqn:E.
      + exfalso. pose proof (law_le_trans x h y ltac:(lia) Hhy). lia.
      + f_equal. apply IH; assumption.
  Qed.

  Lemma sorted_app_inv l1 l2 : StronglySorted le (l1 ++ l2) ->
    StronglySorted le l1 /\ StronglySorted le l2 /\ (forall a b, In a l1 -> In b l2 -> cmp a b <= 0).
  Proof.
    induction l1 as [|h t IH]; cbn [app]; intro S.
    - split; [constructor|]. split; [exact S|]. intros a b [].
    - inversion S as [|? ? St Hall]; subst. destruct (IH St) as (S1 & S2 & H12).
      rewrite Forall_forall in Hall. split.
      + constructor; [exact S1|]. apply Forall_forall. intros y Hy. apply Hall, in_or_app. left. exact Hy.
      + split; [exact S2|]. intros a b [<-|Ha] Hb.
        * apply Hall, in_or_app. right. exact Hb.
        * apply H12; assumption.
  Qed.

  Lemma last_in (l : list A) d : l <> [] -> In (last l d) l.
  Proof.
    induction l as [|h t IH]; intro N; [contradiction|].
    destruct t as [|h2 t2]; [left; reflexivity|].
    right. apply IH. discriminate.
  Qed.

  (* the last element of a sorted list is a maximum *)
  Lemma sorted_last_max l d : StronglySorted le l -> forall y, In y l -> cmp y (last l d) <= 0.
  Proof.
    induction l as [|h t IH]; intros S y Hy; [destruct Hy|].
    inversion S as [|? ? St Hall]; subst. rewrite Forall_forall in Hall.
    destruct t as [|h2 t2].
    - destruct Hy as [<-|[]]. cbn [last]. rewrite law_refl. lia.
    - change (last (h :: h2 :: t2) d) with (last (h2 :: t2) d).
      destruct Hy as [<-|Hy].
      + apply Hall. apply last_in. discriminate.
      + apply IH; assumption.
  Qed.
  (* ---------- maintaining the best k of a growing ranking ---------- *)

  Definition fresh (x : A) (l : list A) : Prop := forall y, In y l -> cmp x y <> 0.

  (* the step both collector stores implement: insert, and hand back the last when over capacity *)
  Definition abs_add (k : nat) (x : A) (l : list A) : list A * option A :=
    let l' := insert cmp x l in
    if (k <? length l')%nat then (removelast l', Some (last l' x)) else (l', None).

  Lemma nth_error_last (l : list A) d k : length l = S k -> nth_error l k = Some (last l d).
  Proof.
    intro H. destruct (@exists_last _ l) as (l' & a & ->); [destruct l; [discriminate | discriminate]|].
    rewrite last_last. rewrite app_length in H. cbn in H.
    rewrite nth_error_app2 by lia. replace (k - length l')%nat with 0%nat by lia. reflexivity.
  Qed.

  Lemma removelast_firstn_S (l : list A) k : length l = S k -> removelast l = firstn k l.
  Proof. intro H. rewrite removelast_firstn_len, H. reflexivity. Qed.

  (* x sorts after the element at position k: the first k+1 are untouched *)
  Lemma topk_beyond k x l lo : StronglySorted le l -> nth_error l k = Some lo -> 0 < cmp x lo ->
    firstn k (insert cmp x l) = firstn k l /\ nth_error (insert cmp x l) k = Some lo.
  Proof.
    intros Hs N H. destruct (nth_error_split l k N) as (l1 & l2 & -> & Hl).
    rewrite (insert_beyond x l1 lo l2 Hs H).
    rewrite !firstn_app, Hl, Nat.sub_diag. cbn [firstn]. rewrite !app_nil_r.
    split; [reflexivity|]. rewrite nth_error_app2 by lia. rewrite Hl, Nat.sub_diag. reflexivity.
  Qed.

  (* otherwise the new best k and the new element at position k come from the old best k *)
  Lemma topk_within k x l : StronglySorted le l ->
    (forall lo, nth_error l k = Some lo -> cmp x lo < 0) ->
    firstn k (insert cmp x l) = fst (abs_add k x (firstn k l)) /\
    nth_error (insert cmp x l) k =
      match snd (abs_add k x (firstn k l)) with
      | Some r => Some r
      | None => None
      end.
  Proof.
    intros Hs H. unfold abs_add. rewrite insert_length.
    destruct (Nat.lt_ge_cases (length l) k) as [Hlt|Hge].
    - (* the ranking is shorter than k *)
      rewrite (firstn_all2 l) by lia.
      replace (k <? S (length l))%nat with false by (symmetry; apply Nat.ltb_ge; lia). cbn [fst snd].
      split; [apply firstn_all2; rewrite insert_length; lia|].
      apply nth_error_None. rewrite insert_length. lia.
    - assert (Hfl : length (firstn k l) = k) by (apply firstn_length_le; exact Hge).
      rewrite Hfl. replace (k <? S k)%nat with true by (symmetry; apply Nat.ltb_lt; lia). cbn [fst snd].
      assert (Hil : length (insert cmp x (firstn k l)) = S k) by (rewrite insert_length, Hfl; reflexivity).
      split.
      + rewrite firstn_insert. symmetry. apply removelast_firstn_S. exact Hil.
      + destruct (nth_error l k) as [lo|] eqn:N.
        * destruct (nth_error_split l k N) as (l1 & l2 & -> & Hl).
          rewrite firstn_app, Hl, Nat.sub_diag. cbn [firstn]. rewrite app_nil_r.
          rewrite firstn_all2 by lia.
          rewrite (insert_app_le x l1 lo l2) by (pose proof (H lo eq_refl); lia).
          assert (Hi1 : length (insert cmp x l1) = S k) by (rewrite insert_length; lia).
          rewrite nth_error_app1 by lia. apply nth_error_last. exact Hi1.
        * apply nth_error_None in N. assert (length l = k) by lia.
          rewrite (firstn_all2 l) by lia. apply nth_error_last. rewrite insert_length. lia.
  Qed.

  (* what is handed back sorts before the old element at position k *)
  Lemma abs_add_removed_lt k x l lo rest : StronglySorted le (l ++ lo :: rest) -> length l = k ->
    cmp x lo < 0 -> (forall y, In y l -> cmp y lo <> 0) ->
    forall r, snd (abs_add k x l) = Some r -> cmp r lo < 0.
  Proof.
    intros Hs Hl Hx Hne r. unfold abs_add. rewrite insert_length, Hl.
    replace (k <? S k)%nat with true by (symmetry; apply Nat.ltb_lt; lia). cbn [snd].
    intro E. injection E as <-.
    assert (Hin : In (last (insert cmp x l) x) (insert cmp x l)).
    { apply last_in. intro F. apply (f_equal (@length A)) in F. rewrite insert_length in F. discriminate. }
    apply insert_in in Hin. destruct Hin as [->|Hin]; [exact Hx|].
    destruct (sorted_app_inv l (lo :: rest) Hs) as (_ & _ & H12).
    pose proof (H12 _ lo Hin (or_introl eq_refl)). pose proof (Hne _ Hin). lia.
  Qed.

  (* a fresh element is placed by scanning from the end exactly where insert puts it *)
  Lemma fresh_insert_snoc x l y : StronglySorted le (l ++ [y]) -> fresh x (l ++ [y]) ->
    insert cmp x (l ++ [y]) = if 0 <=? cmp x y then l ++ [y; x] else insert cmp x l ++ [y].
  Proof.
    intros Hs F. destruct (0 <=? cmp x y) eqn:E.
    - assert (Hy : In y (l ++ [y])) by (apply in_or_app; right; left; reflexivity).
      assert (0 < cmp x y) by (pose proof (F y Hy); lia).
      rewrite (insert_beyond x l y [] Hs H). reflexivity.
    - apply insert_app_le. lia.
  Qed.
End Lawful.

(* ---------- combinators preserving lawfulness ---------- *)

Lemma lawful_neg {A} (c : A -> A -> Z) : lawful c -> lawful (fun a b => - c a b).
Proof.
  intros [H1 H2 H3]. constructor.
  - intros a b. rewrite (H1 a b). reflexivity.
  - intros a b E x. rewrite (H2 a b ltac:(lia) x). reflexivity.
  - intros a b d Hab Hbd.
    pose proof (H1 a b). pose proof (H1 b d). pose proof (H1 a d).
    pose proof (H3 d b a ltac:(lia) ltac:(lia)). lia.
Qed.

Lemma lawful_on {A B} (f : B -> A) (c : A -> A -> Z) : lawful c -> lawful (fun a b => c (f a) (f b)).
Proof.
  intros [H1 H2 H3]. constructor.
  - intros a b. apply H1.
  - intros a b E x. apply H2. exact E.
  - intros a b d. apply H3.
Qed.

(* lexicographic product: first c1, ties decided by c2 *)
Lemma lawful_lex {A} (c1 c2 : A -> A -> Z) : lawful c1 -> lawful c2 ->
  lawful (fun a b => if c1 a b =? 0 then c2 a b else c1 a b).
Proof.
  intros L1 L2. constructor.
  - intros a b. rewrite (law_antisym _ L1 a b).
    destruct (c1 a b =? 0) eqn:E.
    + replace (- c1 a b =? 0) with true by lia. apply (law_antisym _ L2).
    + replace (- c1 a b =? 0) with false by lia. reflexivity.
  - intros a b E x. destruct (c1 a b =? 0) eqn:E1.
    + rewrite (law_eq_cong _ L1 a b ltac:(lia) x).
      destruct (c1 b x =? 0); [apply (law_eq_cong _ L2); exact E | reflexivity].
    + lia.
  - intros a b d Hab Hbd.
    destruct (c1 a b =? 0) eqn:E1; destruct (c1 b d =? 0) eqn:E2.
    + rewrite (law_eq_cong _ L1 a b ltac:(lia) d). rewrite E2.
      apply (law_trans _ L2 a b d); assumption.
    + rewrite (law_eq_cong _ L1 a b ltac:(lia) d). rewrite E2. exact Hbd.
    + rewrite <- (law_eq_cong_r _ L1 b d ltac:(lia) a). rewrite E1. exact Hab.
    + pose proof (law_trans _ L1 a b d Hab Hbd). replace (c1 a d =? 0) with false by lia. exact H.
Qed.
