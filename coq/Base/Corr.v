(* Base/Corr.v — helpers shared by the correspondence modules: decidable equality on
   the observable types and the index list of failing cases. *)
From Coq Require Import ZArith List Bool.
Import ListNotations.
Open Scope Z_scope.

Fixpoint zlist_eqb (a b : list Z) : bool :=
  match a, b with
  | [], [] => true
  | x :: a', y :: b' => (x =? y) && zlist_eqb a' b'
  | _, _ => false
  end.

Fixpoint list_eqb {A} (eqb : A -> A -> bool) (a b : list A) : bool :=
  match a, b with
  | [], [] => true
  | x :: a', y :: b' => eqb x y && list_eqb eqb a' b'
  | _, _ => false
  end.

Definition option_eqb {A} (eqb : A -> A -> bool) (a b : option A) : bool :=
  match a, b with
  | None, None => true
  | Some x, Some y => eqb x y
  | _, _ => false
  end.

Definition pair_eqb {A B} (ea : A -> A -> bool) (eb : B -> B -> bool) (a b : A * B) : bool :=
  ea (fst a) (fst b) && eb (snd a) (snd b).

Definition zzlist_eqb := list_eqb zlist_eqb.

(* indices (from 0) of the cases whose check returns false *)
Fixpoint failing_from {A} (check : A -> bool) (n : nat) (l : list A) : list nat :=
  match l with
  | [] => []
  | c :: t => if check c then failing_from check (S n) t else n :: failing_from check (S n) t
  end.
Definition failing {A} (check : A -> bool) (l : list A) : list nat := failing_from check 0%nat l.
