(* Base/UvarintProofs.v — binary.Uvarint reads back what binary.PutUvarint wrote, for every
   uint64, whatever follows in the buffer; bounds on the byte count Uvarint reports. *)
From Coq Require Import ZArith List Bool Lia.
From Coq Require Import ZifyBool.
From Bluge Require Import Base.Uvarint Base.Bufio.
Import ListNotations.
Open Scope Z_scope.
Ltac Zify.zify_post_hook ::= Z.div_mod_to_equations.

Lemma pow128_S f : 128 ^ Z.of_nat (S f) = 128 * 128 ^ Z.of_nat f.
Proof. rewrite Nat2Z.inj_succ, Z.pow_succ_r by lia. reflexivity. Qed.

Lemma pow2_7S i : 0 <= i -> 2 ^ (7 * (i + 1)) = 128 * 2 ^ (7 * i).
Proof.
  intros Hi. replace (7 * (i + 1)) with (7 + 7 * i) by lia.
  rewrite Z.pow_add_r by lia. reflexivity.
Qed.

Lemma put_uvarint_aux_len f x : 1 <= zlen (put_uvarint_aux f x) <= Z.of_nat f + 1.
Proof.
  revert x. induction f as [|f IH]; intros x.
  - simpl. unfold zlen. simpl. lia.
  - simpl. destruct (128 <=? x).
    + specialize (IH (x / 128)). unfold zlen in *. simpl length. lia.
    + unfold zlen. simpl. lia.
Qed.

Lemma put_uvarint_len x : 1 <= zlen (put_uvarint x) <= 10.
Proof. unfold put_uvarint. pose proof (put_uvarint_aux_len 9 x). lia. Qed.

Lemma put_uvarint_aux_bytes f : forall x, 0 <= x < 128 ^ Z.of_nat (S f) -> bytes_ok (put_uvarint_aux f x) = true.
Proof.
  induction f as [|f IH]; intros x Hx.
  - simpl. unfold is_byte. change (128 ^ Z.of_nat 1) with 128 in Hx. lia.
  - simpl. destruct (128 <=? x) eqn:E.
    + simpl. rewrite IH.
      * unfold is_byte. lia.
      * rewrite pow128_S in Hx. lia.
    + simpl. unfold is_byte. lia.
Qed.

Lemma put_uvarint_bytes x : 0 <= x < 18446744073709551616 -> bytes_ok (put_uvarint x) = true.
Proof.
  intros Hx. unfold put_uvarint. apply put_uvarint_aux_bytes.
  change (128 ^ Z.of_nat 10) with 1180591620717411303424. lia.
Qed.

(* the general statement: writing x with fuel f at byte index i *)
Lemma uvarint_put_aux : forall f x i acc tail,
  0 <= x < 128 ^ Z.of_nat (S f) -> 0 <= i -> i + Z.of_nat f <= 9 ->
  (i + Z.of_nat f = 9 -> x < 2 * 128 ^ Z.of_nat f) ->
  uvarint_aux (put_uvarint_aux f x ++ tail) i acc =
  (acc + x * 2 ^ (7 * i), i + zlen (put_uvarint_aux f x)).
Proof.
  induction f as [|f IH]; intros x i acc tail Hx Hi Hif Htop.
  - change (128 ^ Z.of_nat 1) with 128 in Hx.
    cbn [put_uvarint_aux app uvarint_aux]. unfold max_varint_len64. change (10 - 1) with 9.
    replace (i =? 10) with false by lia.
    replace (x <? 128) with true by lia.
    assert (Hc : (i =? 9) && (1 <? x) = false).
    { destruct (i =? 9) eqn:E; [|reflexivity]. cbn [andb].
      assert (i = 9) by lia. change (128 ^ Z.of_nat 0) with 1 in Htop. lia. }
    rewrite Hc. unfold zlen. cbn [length]. reflexivity.
  - cbn [put_uvarint_aux]. destruct (128 <=? x) eqn:E.
    + cbn [app uvarint_aux]. unfold max_varint_len64.
      replace (i =? 10) with false by lia.
      replace (x mod 128 + 128 <? 128) with false by lia.
      rewrite pow128_S in Hx.
      rewrite IH.
      * f_equal.
        -- rewrite pow2_7S by lia. replace (x mod 128 + 128 - 128) with (x mod 128) by lia.
           assert (Hdm : x = 128 * (x / 128) + x mod 128) by (apply Z.div_mod; lia).
           set (q := x / 128) in *. set (r := x mod 128) in *. set (p := 2 ^ (7 * i)). rewrite Hdm. ring.
        -- unfold zlen. cbn [length]. lia.
      * lia.
      * lia.
      * lia.
      * intros H9. rewrite pow128_S in Htop. assert (H : i + Z.of_nat (S f) = 9) by lia. specialize (Htop H). lia.
    + cbn [app uvarint_aux]. unfold max_varint_len64. change (10 - 1) with 9.
      replace (i =? 10) with false by lia.
      replace (x <? 128) with true by lia.
      replace (i =? 9) with false by lia. cbn [andb].
      unfold zlen. cbn [length]. reflexivity.
Qed.

(* binary.Uvarint(PutUvarint(x) ++ anything) = (x, len) for every uint64 x *)
Theorem uvarint_put : forall x tail, 0 <= x < 18446744073709551616 ->
  uvarint (put_uvarint x ++ tail) = (x, zlen (put_uvarint x)).
Proof.
  intros x tail Hx. unfold uvarint, put_uvarint.
  rewrite uvarint_put_aux.
  - f_equal; lia.
  - change (128 ^ Z.of_nat 10) with 1180591620717411303424. lia.
  - lia.
  - simpl. lia.
  - intros _. change (128 ^ Z.of_nat 9) with 9223372036854775808. lia.
Qed.

(* Uvarint only looks at the first ten bytes *)
Lemma uvarint_aux_firstn : forall buf i x, 0 <= i <= 10 ->
  uvarint_aux buf i x = uvarint_aux (ztake (11 - i) buf) i x.
Proof.
  induction buf as [|b t IH]; intros i x Hi.
  - unfold ztake. rewrite firstn_nil. reflexivity.
  - unfold ztake. destruct (Z.to_nat (11 - i)) eqn:E; [lia|].
    simpl. unfold max_varint_len64.
    destruct (i =? 10) eqn:E10; [reflexivity|].
    destruct (b <? 128); [reflexivity|].
    rewrite IH by lia. unfold ztake. replace (Z.to_nat (11 - (i + 1))) with n by lia. reflexivity.
Qed.

(* what Uvarint reports as the number of bytes: never more than the buffer holds *)
Lemma uvarint_aux_n : forall buf i x v n, 0 <= i <= 10 ->
  uvarint_aux buf i x = (v, n) -> n <= i + zlen buf /\ (0 < n -> i < n) /\ (n < 0 -> -11 <= n).
Proof.
  induction buf as [|b t IH]; intros i x v n Hi H.
  - simpl in H. inversion H; subst. unfold zlen. simpl. lia.
  - cbn [uvarint_aux] in H. unfold max_varint_len64 in H. change (10 - 1) with 9 in H.
    assert (Hl : zlen (b :: t) = zlen t + 1) by (unfold zlen; simpl length; lia).
    destruct (i =? 10) eqn:E10.
    { inversion H; subst. pose proof (Zle_0_nat (length t)). unfold zlen in *. lia. }
    destruct (b <? 128).
    + destruct ((i =? 9) && (1 <? b)) eqn:E9.
      * inversion H; subst. unfold zlen in *. lia.
      * inversion H; subst. unfold zlen in *. lia.
    + apply IH in H; [|lia]. lia.
Qed.

Lemma uvarint_n buf v n : uvarint buf = (v, n) -> n <= zlen buf /\ -11 <= n.
Proof.
  unfold uvarint. intros H. apply uvarint_aux_n in H; [|lia]. lia.
Qed.
