(* Base/Res.v — result type shared by all models: a Go function either returns,
   panics (slice bounds, makeslice, explicit panic) or, for loops modelled with
   fuel, runs out of fuel.  Theorems exclude Panic/OutOfFuel explicitly. *)
From Coq Require Import List.
Import ListNotations.

Inductive res (A : Type) : Type :=
| Ok (a : A)
| Err (code : nat)      (* a Go error value; small enum per model *)
| Panic (code : nat)    (* a Go run-time panic *)
| OutOfFuel.
Arguments Ok {A} a.
Arguments Err {A} code.
Arguments Panic {A} code.
Arguments OutOfFuel {A}.

Definition rbind {A B} (r : res A) (f : A -> res B) : res B :=
  match r with
  | Ok a => f a
  | Err c => Err c
  | Panic c => Panic c
  | OutOfFuel => OutOfFuel
  end.

Definition rmap {A B} (f : A -> B) (r : res A) : res B := rbind r (fun a => Ok (f a)).

Definition is_ok {A} (r : res A) : bool := match r with Ok _ => true | _ => false end.

Notation "x <- r ;; k" := (rbind r (fun x => k)) (at level 61, r at next level, right associativity).

Fixpoint rmapM {A B} (f : A -> res B) (l : list A) : res (list B) :=
  match l with
  | [] => Ok []
  | a :: t => b <- f a ;; bs <- rmapM f t ;; Ok (b :: bs)
  end.
