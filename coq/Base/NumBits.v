(* Base/NumBits.v — bit-operation / wrap-around lemmas used by the C10 proofs
   (Search/Numeric*.v).  Z.land / Z.ldiff / Z.lor with a shifted mask are turned into
   div / mod arithmetic; int64 wrap is handled through congruence modulo 2^64. *)
From Coq Require Import ZArith Lia List Bool.
From Coq Require Import ZifyBool.
From Bluge Require Import Base.Int64.
Import ListNotations.
Open Scope Z_scope.

(* ---------- wrap as congruence ---------- *)

Lemma wrap64_congr z r k : in_int64 r -> z = r + k * two64 -> wrap64 z = r.
Proof.
  intros Hr ->. unfold wrap64.
  replace (r + k * two64 + two63) with ((r + two63) + k * two64) by ring.
  rewrite Z.mod_add by (unfold two64; lia).
  unfold in_int64, min_int64, max_int64, two63, two64 in *. rewrite Z.mod_small; lia.
Qed.

Lemma uwrap64_congr z r k : in_uint64 r -> z = r + k * two64 -> uwrap64 z = r.
Proof.
  intros Hr ->. unfold uwrap64. rewrite Z.mod_add by (unfold two64; lia).
  unfold in_uint64 in Hr. apply Z.mod_small; lia.
Qed.

Lemma wrap64_decomp z : exists k, wrap64 z = z + k * two64.
Proof.
  unfold wrap64. exists (- ((z + two63) / two64)).
  pose proof (Z.div_mod (z + two63) two64 ltac:(unfold two64; lia)). lia.
Qed.

Lemma uwrap64_decomp z : exists k, uwrap64 z = z + k * two64.
Proof.
  unfold uwrap64. exists (- (z / two64)).
  pose proof (Z.div_mod z two64 ltac:(unfold two64; lia)). lia.
Qed.

Lemma wrap64_eqm a b k : a = b + k * two64 -> wrap64 a = wrap64 b.
Proof.
  intros ->. destruct (wrap64_decomp b) as [j Hj].
  apply wrap64_congr with (k := k - j); [apply wrap64_range | lia].
Qed.

(* uint64(int64 v) ^ 0x8000000000000000 = v + 2^63 *)
Lemma sortable_of_int64 v : in_int64 v -> Z.lxor (uwrap64 v) two63 = v + two63.
Proof.
  intros Hv. unfold in_int64, min_int64, max_int64 in Hv.
  assert (Hu : uwrap64 v = if v <? 0 then v + two64 else v).
  { destruct (Z.ltb_spec v 0).
    - apply uwrap64_congr with (k := -1); unfold in_uint64, two64; lia.
    - apply uwrap64_id. unfold in_uint64, two64; lia. }
  rewrite lxor_signbit_u by (rewrite Hu; destruct (Z.ltb_spec v 0); unfold two64; lia).
  rewrite Hu. unfold two63, two64.
  destruct (Z.ltb_spec v 0); [destruct (Z.ltb_spec (v + 18446744073709551616) 9223372036854775808)
                             | destruct (Z.ltb_spec v 9223372036854775808)]; lia.
Qed.

(* int64(u ^ 0x8000000000000000) for a uint64 u = u - 2^63 *)
Lemma unsortable_of_uint64 u : in_uint64 u -> wrap64 (Z.lxor u two63) = u - two63.
Proof.
  intros Hu. unfold in_uint64 in Hu. rewrite lxor_signbit_u by assumption.
  unfold two63, two64 in *.
  destruct (Z.ltb_spec u 9223372036854775808).
  - apply wrap64_congr with (k := 1); unfold in_int64, min_int64, max_int64, two64; lia.
  - apply wrap64_id. unfold in_int64, min_int64, max_int64; lia.
Qed.

(* ---------- masks ---------- *)

Lemma land_shifted_ones x s k : 0 <= s -> 0 <= k ->
  Z.land x (Z.shiftl (Z.ones k) s) = Z.shiftl (Z.land (Z.shiftr x s) (Z.ones k)) s.
Proof.
  intros Hs Hk. apply Z.bits_inj'. intros n Hn. rewrite Z.land_spec.
  destruct (Z.ltb_spec n s) as [Hlt|Hge].
  - rewrite !Z.shiftl_spec_low by lia. apply andb_false_r.
  - rewrite !Z.shiftl_spec_high by lia. rewrite Z.land_spec, Z.shiftr_spec by lia.
    replace (n - s + s) with n by lia. reflexivity.
Qed.

(* x & (((1<<k)-1) << s)  =  ((x / 2^s) mod 2^k) * 2^s *)
Lemma land_mask_arith x s k : 0 <= s -> 0 <= k ->
  Z.land x ((2 ^ k - 1) * 2 ^ s) = ((x / 2 ^ s) mod 2 ^ k) * 2 ^ s.
Proof.
  intros Hs Hk.
  replace ((2 ^ k - 1) * 2 ^ s) with (Z.shiftl (Z.ones k) s)
    by (rewrite Z.shiftl_mul_pow2, Z.ones_equiv by lia; lia).
  rewrite land_shifted_ones by lia.
  rewrite Z.shiftl_mul_pow2, Z.land_ones, Z.shiftr_div_pow2 by lia. reflexivity.
Qed.

Lemma ldiff_land_disjoint x m : Z.land (Z.ldiff x m) (Z.land x m) = 0.
Proof.
  apply Z.bits_inj'. intros n Hn. rewrite !Z.land_spec, Z.ldiff_spec, Z.bits_0.
  destruct (Z.testbit x n), (Z.testbit m n); reflexivity.
Qed.

(* x &^ m = x - (x & m) *)
Lemma ldiff_sub_land x m : Z.ldiff x m = x - Z.land x m.
Proof.
  assert (H : Z.ldiff x m + Z.land x m = x); [|lia].
  rewrite Z.add_nocarry_lxor by apply ldiff_land_disjoint.
  rewrite Z.lxor_lor by apply ldiff_land_disjoint.
  apply Z.lor_ldiff_and.
Qed.

(* x | m = x + m - (x & m) *)
Lemma lor_add_land x m : Z.lor x m = x + m - Z.land x m.
Proof.
  assert (Hd : Z.land (Z.ldiff x m) m = 0).
  { apply Z.bits_inj'. intros n Hn. rewrite Z.land_spec, Z.ldiff_spec, Z.bits_0.
    destruct (Z.testbit x n), (Z.testbit m n); reflexivity. }
  assert (H : Z.lor x m = Z.ldiff x m + m).
  { rewrite Z.add_nocarry_lxor by exact Hd. rewrite Z.lxor_lor by exact Hd.
    apply Z.bits_inj'. intros n Hn. rewrite !Z.lor_spec, Z.ldiff_spec.
    destruct (Z.testbit x n), (Z.testbit m n); reflexivity. }
  rewrite H, ldiff_sub_land. lia.
Qed.

(* y | ((1<<s)-1) = y + (2^s - 1) - y mod 2^s : sets the low s bits *)
Lemma lor_ones_arith y s : 0 <= s -> Z.lor y (Z.ones s) = y + (2 ^ s - 1) - y mod 2 ^ s.
Proof.
  intros Hs. rewrite lor_add_land, Z.land_ones by lia. rewrite Z.ones_equiv. lia.
Qed.

Lemma lor_ones_div y s : 0 <= s -> Z.lor y (Z.ones s) / 2 ^ s = y / 2 ^ s.
Proof.
  intros Hs. rewrite lor_ones_arith by lia.
  assert (Hp : 0 < 2 ^ s) by (apply Z.pow_pos_nonneg; lia).
  pose proof (Z.div_mod y (2 ^ s) ltac:(lia)) as E.
  pose proof (Z.mod_pos_bound y (2 ^ s) Hp) as B.
  replace (y + (2 ^ s - 1) - y mod 2 ^ s) with ((2 ^ s - 1) + (y / 2 ^ s) * 2 ^ s) by lia.
  rewrite Z.div_add by lia. rewrite Z.div_small by lia. lia.
Qed.

Lemma lor_ones_range y s : 0 <= s <= 63 -> in_int64 y -> in_int64 (Z.lor y (Z.ones s)).
Proof.
  intros Hs Hy. rewrite lor_ones_arith by lia.
  assert (Hp : 0 < 2 ^ s) by (apply Z.pow_pos_nonneg; lia).
  pose proof (Z.div_mod y (2 ^ s) ltac:(lia)) as E.
  pose proof (Z.mod_pos_bound y (2 ^ s) Hp) as B.
  (* y + 2^s-1 - y mod 2^s = 2^s * (y/2^s + 1) - 1 <= 2^63 - 1 because y/2^s < 2^(63-s) *)
  assert (Hq : 2 ^ 63 = 2 ^ s * 2 ^ (63 - s)) by (rewrite <- Z.pow_add_r by lia; f_equal; lia).
  unfold in_int64, min_int64, max_int64 in *.
  assert (Hlt : y / 2 ^ s < 2 ^ (63 - s)).
  { apply Z.div_lt_upper_bound; [lia|]. rewrite <- Hq. lia. }
  split; [lia|].
  assert (2 ^ s * (y / 2 ^ s + 1) <= 2 ^ s * 2 ^ (63 - s)) by (apply Z.mul_le_mono_nonneg_l; lia).
  lia.
Qed.

(* y has its low k bits clear and 0 <= d < 2^k : y | d = y + d *)
Lemma lor_add_low y d k : 0 <= k -> y mod 2 ^ k = 0 -> 0 <= d < 2 ^ k -> Z.lor y d = y + d.
Proof.
  intros Hk Hy Hd.
  assert (Hl : Z.land y d = 0).
  { apply Z.bits_inj'. intros n Hn. rewrite Z.land_spec, Z.bits_0.
    destruct (Z.ltb_spec n k).
    - rewrite <- (Z.mod_pow2_bits_low y k n) by lia. rewrite Hy, Z.bits_0. reflexivity.
    - rewrite <- (Z.mod_small d (2 ^ k)) by lia. rewrite Z.mod_pow2_bits_high by lia.
      apply andb_false_r. }
  rewrite Z.add_nocarry_lxor by exact Hl. symmetry. apply Z.lxor_lor. exact Hl.
Qed.

(* ---------- powers of two ---------- *)

Lemma pow2_pos s : 0 <= s -> 0 < 2 ^ s.
Proof. intros. apply Z.pow_pos_nonneg; lia. Qed.

Lemma pow2_split a b : 0 <= a -> 0 <= b -> 2 ^ (a + b) = 2 ^ a * 2 ^ b.
Proof. intros. apply Z.pow_add_r; lia. Qed.

Lemma pow2_64_split s : 0 <= s <= 64 -> two64 = 2 ^ s * 2 ^ (64 - s).
Proof. intros. rewrite two64_eq, <- Z.pow_add_r by lia. f_equal. lia. Qed.

Lemma pow2_63_split s : 0 <= s <= 63 -> two63 = 2 ^ s * 2 ^ (63 - s).
Proof. intros. rewrite two63_eq, <- Z.pow_add_r by lia. f_equal. lia. Qed.

(* floor division of a shifted value: (v + 2^63) / 2^s = v / 2^s + 2^(63-s) *)
Lemma div_add_two63 v s : 0 <= s <= 63 -> (v + two63) / 2 ^ s = v / 2 ^ s + 2 ^ (63 - s).
Proof.
  intros Hs. rewrite (pow2_63_split s Hs).
  replace (v + 2 ^ s * 2 ^ (63 - s)) with (v + 2 ^ (63 - s) * 2 ^ s) by ring.
  apply Z.div_add. pose proof (pow2_pos s). lia.
Qed.

(* ---------- big-endian digit strings in base B ---------- *)

Fixpoint valB (B : Z) (l : list Z) : Z :=
  match l with
  | [] => 0
  | d :: t => d * B ^ Z.of_nat (length t) + valB B t
  end.

Definition digitsB (B : Z) (l : list Z) : Prop := Forall (fun d => 0 <= d < B) l.

Lemma valB_bound B l : 0 < B -> digitsB B l -> 0 <= valB B l < B ^ Z.of_nat (length l).
Proof.
  intros HB. induction 1 as [|d t Hd Ht IH]; cbn [valB length].
  - rewrite Z.pow_0_r. lia.
  - rewrite Nat2Z.inj_succ, Z.pow_succ_r by lia.
    assert (0 < B ^ Z.of_nat (length t)) by (apply Z.pow_pos_nonneg; lia). nia.
Qed.

Lemma valB_app B a b : 0 < B -> valB B (a ++ b) = valB B a * B ^ Z.of_nat (length b) + valB B b.
Proof.
  intros HB. induction a as [|d t IH]; cbn [valB app length]; [lia|].
  rewrite IH, app_length, Nat2Z.inj_add. rewrite Z.pow_add_r by lia. ring.
Qed.

(* equal-length digit strings are equal when their values are *)
Lemma valB_inj B a b : 0 < B -> digitsB B a -> digitsB B b -> length a = length b ->
  valB B a = valB B b -> a = b.
Proof.
  intros HB Ha. revert b. induction Ha as [|x a' Hx Ha' IH]; intros b Hb Hl Hv.
  - destruct b; [reflexivity|discriminate].
  - destruct b as [|y b']; [discriminate|]. inversion Hb as [|? ? Hy Hb']; subst.
    cbn [length] in Hl. injection Hl as Hl. cbn [valB] in Hv. rewrite <- Hl in Hv.
    pose proof (valB_bound B a' HB Ha') as Ba. pose proof (valB_bound B b' HB Hb') as Bb.
    rewrite <- Hl in Bb.
    assert (x = y) by nia. subst y.
    f_equal. apply IH; [assumption|assumption|lia].
Qed.
