(* Base/UTF8Proofs.v — facts about the utf8 model of Base/UTF8.v:
   width bounds of DecodeRune / DecodeLastRune, DecodeRune depends only on the bytes it consumes,
   DecodeLastRune undoes DecodeRune (backward decoding finds the rune that a forward step decoded),
   EncodeRune/DecodeRune round trip. *)
From Coq Require Import ZArith List Bool Lia Arith.
From Coq Require Import ZifyBool.
From Bluge Require Import Base.UTF8.
Import ListNotations.
Open Scope Z_scope.

Ltac case_ifs :=
  repeat match goal with
         | |- context [if ?c then _ else _] => destruct c eqn:?
         end.

(* ---- DecodeRune ---- *)

Lemma lead_size_cases p0 : lead_size p0 = 0%nat \/ lead_size p0 = 2%nat \/ lead_size p0 = 3%nat \/ lead_size p0 = 4%nat.
Proof. unfold lead_size. case_ifs; auto. Qed.

Lemma decode_rune_nil : decode_rune [] = (rune_error, 0%nat).
Proof. reflexivity. Qed.

Lemma decode_rune_size p : p <> [] ->
  (1 <= snd (decode_rune p) <= 4)%nat /\ (snd (decode_rune p) <= length p)%nat.
Proof.
  intros Hp. destruct p as [|p0 t]; [congruence|]. unfold decode_rune.
  destruct (p0 <? rune_self); [simpl; lia|].
  destruct (lead_size_cases p0) as [H|[H|[H|H]]]; rewrite H.
  - simpl; lia.
  - destruct t as [|b1 t1]; [simpl; lia|]. case_ifs; simpl; lia.
  - destruct t as [|b1 [|b2 t2]]; try (simpl; lia). case_ifs; simpl; lia.
  - destruct t as [|b1 [|b2 [|b3 t3]]]; try (simpl; lia). case_ifs; simpl; lia.
Qed.

Lemma decode_rune_size_pos p : p <> [] -> (1 <= snd (decode_rune p))%nat.
Proof. intros H. apply decode_rune_size in H. lia. Qed.

Lemma decode_rune_size_le p : (snd (decode_rune p) <= length p)%nat.
Proof. destruct p; [simpl; lia|]. apply decode_rune_size. congruence. Qed.

Lemma decode_rune_size_le4 p : (snd (decode_rune p) <= 4)%nat.
Proof. destruct p; [simpl; lia|]. apply decode_rune_size. congruence. Qed.

(* a decoding that is not (RuneError, <=1) *)
Definition good (d : Z * nat) : Prop := ~ (fst d = rune_error /\ (snd d <= 1)%nat).

(* DecodeRune looks only at the bytes it consumes *)
Lemma decode_rune_firstn p q :
  good (decode_rune p) ->
  decode_rune (firstn (snd (decode_rune p)) p ++ q) = decode_rune p.
Proof.
  unfold good. intros Hg. destruct p as [|p0 t]; [simpl in Hg; exfalso; apply Hg; split; [reflexivity|lia]|].
  unfold decode_rune in *.
  destruct (p0 <? rune_self) eqn:E0.
  { simpl. rewrite E0. reflexivity. }
  destruct (lead_size_cases p0) as [H|[H|[H|H]]]; rewrite H in *.
  - exfalso; apply Hg; simpl; split; [reflexivity|lia].
  - destruct t as [|b1 t1]; [exfalso; apply Hg; simpl; split; [reflexivity|lia]|].
    destruct ((b1 <? accept_lo p0) || (accept_hi p0 <? b1)) eqn:E1.
    + exfalso; apply Hg; simpl; split; [reflexivity|lia].
    + simpl. rewrite E0, H, E1. reflexivity.
  - destruct t as [|b1 [|b2 t2]]; try (exfalso; apply Hg; simpl; split; [reflexivity|lia]).
    destruct ((b1 <? accept_lo p0) || (accept_hi p0 <? b1)) eqn:E1;
      [exfalso; apply Hg; simpl; split; [reflexivity|lia]|].
    destruct (negb (is_cont b2)) eqn:E2; [exfalso; apply Hg; simpl; split; [reflexivity|lia]|].
    simpl. rewrite E0, H, E1, E2. reflexivity.
  - destruct t as [|b1 [|b2 [|b3 t3]]]; try (exfalso; apply Hg; simpl; split; [reflexivity|lia]).
    destruct ((b1 <? accept_lo p0) || (accept_hi p0 <? b1)) eqn:E1;
      [exfalso; apply Hg; simpl; split; [reflexivity|lia]|].
    destruct (negb (is_cont b2)) eqn:E2; [exfalso; apply Hg; simpl; split; [reflexivity|lia]|].
    destruct (negb (is_cont b3)) eqn:E3; [exfalso; apply Hg; simpl; split; [reflexivity|lia]|].
    simpl. rewrite E0, H, E1, E2, E3. reflexivity.
Qed.

(* shape of a good decoding: the consumed bytes are ASCII, or a lead followed by continuation bytes *)
Inductive enc_shape : list Z -> Prop :=
| es1 b : b < rune_self -> enc_shape [b]
| es2 p0 b1 : rune_self <= p0 -> rune_start p0 = true -> is_cont b1 = true -> enc_shape [p0; b1]
| es3 p0 b1 b2 : rune_self <= p0 -> rune_start p0 = true -> is_cont b1 = true -> is_cont b2 = true -> enc_shape [p0; b1; b2]
| es4 p0 b1 b2 b3 : rune_self <= p0 -> rune_start p0 = true -> is_cont b1 = true -> is_cont b2 = true -> is_cont b3 = true ->
                    enc_shape [p0; b1; b2; b3].

Lemma accept_is_cont p0 b1 : (b1 <? accept_lo p0) || (accept_hi p0 <? b1) = false -> is_cont b1 = true.
Proof. unfold accept_lo, accept_hi, is_cont. case_ifs; lia. Qed.

Lemma lead_is_start p0 : (p0 <? rune_self) = false -> lead_size p0 <> 0%nat -> rune_start p0 = true.
Proof. unfold lead_size, rune_start, is_cont, rune_self. case_ifs; try congruence; intros; lia. Qed.

Lemma decode_rune_shape p : good (decode_rune p) -> enc_shape (firstn (snd (decode_rune p)) p).
Proof.
  unfold good. intros Hg. destruct p as [|p0 t]; [simpl in Hg; exfalso; apply Hg; split; [reflexivity|lia]|].
  unfold decode_rune in *.
  destruct (p0 <? rune_self) eqn:E0.
  { simpl. apply es1. lia. }
  assert (Hs : lead_size p0 <> 0%nat -> rune_start p0 = true) by (apply lead_is_start; assumption).
  assert (H0 : rune_self <= p0) by lia.
  destruct (lead_size_cases p0) as [H|[H|[H|H]]]; rewrite H in *.
  - exfalso; apply Hg; simpl; split; [reflexivity|lia].
  - destruct t as [|b1 t1]; [exfalso; apply Hg; simpl; split; [reflexivity|lia]|].
    destruct ((b1 <? accept_lo p0) || (accept_hi p0 <? b1)) eqn:E1.
    + exfalso; apply Hg; simpl; split; [reflexivity|lia].
    + simpl. apply es2; auto. eapply accept_is_cont; eauto.
  - destruct t as [|b1 [|b2 t2]]; try (exfalso; apply Hg; simpl; split; [reflexivity|lia]).
    destruct ((b1 <? accept_lo p0) || (accept_hi p0 <? b1)) eqn:E1;
      [exfalso; apply Hg; simpl; split; [reflexivity|lia]|].
    destruct (negb (is_cont b2)) eqn:E2; [exfalso; apply Hg; simpl; split; [reflexivity|lia]|].
    simpl. apply es3; auto. eapply accept_is_cont; eauto. destruct (is_cont b2); simpl in E2; congruence.
  - destruct t as [|b1 [|b2 [|b3 t3]]]; try (exfalso; apply Hg; simpl; split; [reflexivity|lia]).
    destruct ((b1 <? accept_lo p0) || (accept_hi p0 <? b1)) eqn:E1;
      [exfalso; apply Hg; simpl; split; [reflexivity|lia]|].
    destruct (negb (is_cont b2)) eqn:E2; [exfalso; apply Hg; simpl; split; [reflexivity|lia]|].
    destruct (negb (is_cont b3)) eqn:E3; [exfalso; apply Hg; simpl; split; [reflexivity|lia]|].
    simpl. apply es4; auto. eapply accept_is_cont; eauto.
    destruct (is_cont b2); simpl in E2; congruence. destruct (is_cont b3); simpl in E3; congruence.
Qed.

(* a good decoding of exactly the bytes e does not change when bytes follow *)
Lemma decode_rune_app e q :
  good (decode_rune e) -> snd (decode_rune e) = length e -> decode_rune (e ++ q) = decode_rune e.
Proof.
  intros Hg Hl. pose proof (decode_rune_firstn e q Hg) as H. rewrite Hl, firstn_all in H. exact H.
Qed.

(* ---- DecodeLastRune ---- *)

Lemma skipn_length_le {A} k (l : list A) : (length (skipn k l) <= length l)%nat.
Proof. rewrite skipn_length. lia. Qed.

Lemma scan_back_le i t j : scan_back i t = Some j -> (j <= i)%nat.
Proof.
  revert j. induction i as [|i IH]; intros j; simpl.
  - destruct (rune_start (nth 0 t 0)); intros H; inversion H; lia.
  - destruct (rune_start (nth (S i) t 0)); intros H; [inversion H; lia|]. apply IH in H. lia.
Qed.

Lemma decode_last_rune_size p : p <> [] ->
  (1 <= snd (decode_last_rune p) <= 4)%nat /\ (snd (decode_last_rune p) <= length p)%nat.
Proof.
  intros Hp. unfold decode_last_rune.
  destruct (length p) as [|n'] eqn:Hn; [destruct p; simpl in Hn; congruence|].
  destruct (nth (S n' - 1) p 0 <? rune_self); [simpl; lia|].
  set (tl4 := skipn (S n' - utf_max) p).
  assert (Hm : (length tl4 <= 4)%nat /\ (length tl4 <= S n')%nat /\ (1 <= length tl4)%nat).
  { unfold tl4. rewrite skipn_length, Hn. unfold utf_max. lia. }
  set (st := match length tl4 with
             | S (S m2) => match scan_back m2 tl4 with
                           | Some i => Some i
                           | None => if (utf_max <? S n')%nat then None else Some 0%nat
                           end
             | _ => Some 0%nat
             end).
  assert (Hst : forall i, st = Some i -> (i < length tl4)%nat).
  { unfold st. intros i. destruct (length tl4) as [|[|m2]] eqn:Hl; try lia.
    - intros H; inversion H; lia.
    - destruct (scan_back m2 tl4) eqn:Hs.
      + intros H; inversion H; subst. apply scan_back_le in Hs. lia.
      + destruct (utf_max <? S n')%nat; intros H; inversion H; lia. }
  destruct st as [i|] eqn:Est; [|simpl; lia].
  specialize (Hst i eq_refl).
  destruct (decode_rune (skipn i tl4)) as [r size] eqn:Hd.
  destruct (i + size =? length tl4)%nat eqn:Heq; [|simpl; lia].
  simpl. apply Nat.eqb_eq in Heq.
  assert (Hne : skipn i tl4 <> []).
  { intros Hnil. apply (f_equal (@length Z)) in Hnil. rewrite skipn_length in Hnil. simpl in Hnil. lia. }
  pose proof (decode_rune_size_pos _ Hne) as H1. rewrite Hd in H1. simpl in H1. lia.
Qed.

Lemma decode_last_rune_nil : decode_last_rune [] = (rune_error, 0%nat).
Proof. reflexivity. Qed.

Lemma scan_back_found back p0 cs j :
  rune_start p0 = true -> (j <= length cs)%nat -> Forall (fun b => is_cont b = true) (firstn j cs) ->
  scan_back (length back + j) (back ++ p0 :: cs) = Some (length back).
Proof.
  intros Hs. induction j as [|j IH]; intros Hj Hc.
  - rewrite Nat.add_0_r. destruct (length back) eqn:Hl; simpl.
    + destruct back; simpl in Hl; [|congruence]. simpl. rewrite Hs. reflexivity.
    + rewrite <- Hl. rewrite app_nth2 by lia. rewrite Nat.sub_diag. simpl. rewrite Hs. reflexivity.
  - replace (length back + S j)%nat with (S (length back + j)) by lia. simpl.
    rewrite app_nth2 by lia. replace (S (length back + j) - length back)%nat with (S j) by lia. simpl.
    assert (Hn : is_cont (nth j cs 0) = true).
    { rewrite Forall_forall in Hc. apply Hc.
      replace (nth j cs 0) with (nth j (firstn (S j) cs) 0).
      - apply nth_In. rewrite firstn_length. lia.
      - clear -Hj. revert cs Hj. induction j; intros [|c cs] Hj; simpl in *; try lia; auto.
        apply IHj. lia. }
    unfold rune_start at 1. rewrite Hn. simpl. apply IH; [lia|].
    rewrite Forall_forall in *. intros x Hx. apply Hc.
    clear -Hx. revert cs Hx. induction j; intros [|c cs] Hx; simpl in *; auto. destruct Hx; auto.
Qed.

Lemma skipn_app_tail {A} (a b : list A) k : (length b <= k)%nat ->
  skipn (length (a ++ b) - k) (a ++ b) = skipn (length a - (k - length b)) a ++ b.
Proof.
  intros Hk. rewrite app_length. rewrite skipn_app.
  replace (length a + length b - k)%nat with (length a - (k - length b))%nat by lia.
  replace (length a - (k - length b) - length a)%nat with 0%nat by lia. reflexivity.
Qed.

(* DecodeLastRune finds the rune whose encoding ends the slice, whatever precedes it *)
Lemma decode_last_rune_app pre e :
  enc_shape e -> good (decode_rune e) -> snd (decode_rune e) = length e ->
  decode_last_rune (pre ++ e) = decode_rune e.
Proof.
  intros Hshape Hg Hl.
  assert (He4 : (1 <= length e <= 4)%nat) by (inversion Hshape; simpl; lia).
  unfold decode_last_rune.
  destruct (length (pre ++ e)) as [|n'] eqn:Hn; [rewrite app_length in Hn; lia|].
  assert (Hlast : nth (S n' - 1) (pre ++ e) 0 = last e 0).
  { rewrite app_nth2 by (rewrite app_length in Hn; lia).
    rewrite app_length in Hn. replace (S n' - 1 - length pre)%nat with (length e - 1)%nat by lia.
    clear -He4. destruct e as [|a [|b [|c [|d [|x y]]]]]; simpl in *; try lia; reflexivity. }
  rewrite Hlast.
  inversion Hshape as [b Hb|p0 b1 H0 Hs H1|p0 b1 b2 H0 Hs H1 H2|p0 b1 b2 b3 H0 Hs H1 H2 H3]; subst e.
  - cbn [last]. assert (Hbb : (b <? rune_self) = true) by lia. rewrite Hbb. unfold decode_rune. rewrite Hbb. reflexivity.
  - (* two bytes *)
    assert (Hc : (last [p0; b1] 0 <? rune_self) = false) by (simpl; unfold is_cont, rune_self in *; lia).
    rewrite Hc. rewrite <- Hn. unfold utf_max. rewrite (skipn_app_tail pre [p0; b1] 4) by (simpl; lia).
    set (back := skipn (length pre - (4 - length [p0; b1])) pre).
    assert (Hb : (length back <= 2)%nat) by (unfold back; rewrite skipn_length; simpl; lia).
    rewrite app_length. simpl length.
    replace (length back + 2)%nat with (S (S (length back + 0))) by lia.
    rewrite (scan_back_found back p0 [b1] 0 Hs) by (simpl; auto; lia).
    rewrite skipn_app, skipn_all, Nat.sub_diag. simpl skipn. simpl app.
    destruct (decode_rune [p0; b1]) as [r size] eqn:Hd. simpl in Hl. subst size.
    replace (length back + 2 =? S (S (length back + 0)))%nat with true by (symmetry; apply Nat.eqb_eq; lia).
    reflexivity.
  - assert (Hc : (last [p0; b1; b2] 0 <? rune_self) = false) by (simpl; unfold is_cont, rune_self in *; lia).
    rewrite Hc. rewrite <- Hn. unfold utf_max. rewrite (skipn_app_tail pre [p0; b1; b2] 4) by (simpl; lia).
    set (back := skipn (length pre - (4 - length [p0; b1; b2])) pre).
    rewrite app_length. simpl length.
    replace (length back + 3)%nat with (S (S (length back + 1))) by lia.
    rewrite (scan_back_found back p0 [b1; b2] 1 Hs) by (simpl; auto; lia).
    rewrite skipn_app, skipn_all, Nat.sub_diag. simpl skipn. simpl app.
    destruct (decode_rune [p0; b1; b2]) as [r size] eqn:Hd. simpl in Hl. subst size.
    replace (length back + 3 =? S (S (length back + 1)))%nat with true by (symmetry; apply Nat.eqb_eq; lia).
    reflexivity.
  - assert (Hc : (last [p0; b1; b2; b3] 0 <? rune_self) = false) by (simpl; unfold is_cont, rune_self in *; lia).
    rewrite Hc. rewrite <- Hn. unfold utf_max. rewrite (skipn_app_tail pre [p0; b1; b2; b3] 4) by (simpl; lia).
    set (back := skipn (length pre - (4 - length [p0; b1; b2; b3])) pre).
    rewrite app_length. simpl length.
    replace (length back + 4)%nat with (S (S (length back + 2))) by lia.
    rewrite (scan_back_found back p0 [b1; b2; b3] 2 Hs) by (simpl; auto; lia).
    rewrite skipn_app, skipn_all, Nat.sub_diag. simpl skipn. simpl app.
    destruct (decode_rune [p0; b1; b2; b3]) as [r size] eqn:Hd. simpl in Hl. subst size.
    replace (length back + 4 =? S (S (length back + 2)))%nat with true by (symmetry; apply Nat.eqb_eq; lia).
    reflexivity.
Qed.

Lemma skipn_last_one (p : list Z) : p <> [] -> skipn (length p - 1) p = [nth (length p - 1) p 0].
Proof.
  induction p as [|a p IH]; [congruence|]. intros _. destruct p as [|b p'].
  - reflexivity.
  - simpl length. replace (S (S (length p')) - 1)%nat with (S (length (b :: p') - 1)) by (simpl; lia).
    rewrite skipn_cons. rewrite IH by congruence. reflexivity.
Qed.

Lemma skipn_skipn' {A} x y (l : list A) : skipn x (skipn y l) = skipn (x + y) l.
Proof.
  revert l. induction y as [|y IH]; intros l.
  - rewrite Nat.add_0_r. reflexivity.
  - destruct l as [|a l]; [rewrite !skipn_nil; reflexivity|].
    replace (x + S y)%nat with (S (x + y)) by lia. simpl. apply IH.
Qed.

(* what DecodeLastRune returns (when it is not the error answer) is the forward decoding of the
   last `size` bytes *)
Lemma decode_last_rune_sound p :
  good (decode_last_rune p) ->
  (snd (decode_last_rune p) <= length p)%nat /\
  decode_rune (skipn (length p - snd (decode_last_rune p)) p) = decode_last_rune p.
Proof.
  intros Hg. destruct p as [|a0 p0] eqn:Ep.
  { exfalso. apply Hg. simpl. split; [reflexivity|lia]. }
  rewrite <- Ep in *. assert (Hne : p <> []) by (subst; congruence). clear Ep.
  split; [apply decode_last_rune_size; exact Hne|].
  revert Hg. unfold decode_last_rune.
  destruct (length p) as [|n'] eqn:Hn; [destruct p; simpl in Hn; congruence|].
  destruct (nth (S n' - 1) p 0 <? rune_self) eqn:Hlast.
  { intros _. cbn [snd]. rewrite <- Hn. rewrite skipn_last_one by exact Hne. rewrite Hn.
    unfold decode_rune. rewrite Hlast. reflexivity. }
  set (tl4 := skipn (S n' - utf_max) p).
  assert (Hm : length tl4 = (S n' - (S n' - 4))%nat) by (unfold tl4, utf_max; rewrite skipn_length, Hn; reflexivity).
  match goal with |- context [match ?s with Some _ => _ | None => _ end] => set (st := s) end.
  destruct st as [i|] eqn:Est.
  2:{ intros Hg. exfalso. apply Hg. simpl. split; [reflexivity|lia]. }
  destruct (decode_rune (skipn i tl4)) as [r size] eqn:Hd.
  destruct (i + size =? length tl4)%nat eqn:Heq.
  2:{ intros Hg. exfalso. apply Hg. simpl. split; [reflexivity|lia]. }
  intros _. cbn [snd]. apply Nat.eqb_eq in Heq.
  unfold tl4 in Hd. rewrite skipn_skipn' in Hd. unfold utf_max in Hd.
  replace (S n' - size)%nat with (i + (S n' - 4))%nat by lia. exact Hd.
Qed.

(* ---- EncodeRune / DecodeRune round trip ---- *)
#[local] Ltac Zify.zify_post_hook ::= Z.div_mod_to_equations.

Lemma decode_encode_rune r q : valid_rune r = true ->
  decode_rune (encode_rune r ++ q) = (r, length (encode_rune r)).
Proof.
  intros Hv. unfold encode_rune. rewrite Hv. cbn [negb].
  unfold valid_rune, surrogate_min, surrogate_max, max_rune in Hv.
  destruct (r <? 128) eqn:E1.
  { cbn [app length]. unfold decode_rune, rune_self. rewrite E1. reflexivity. }
  destruct (r <? 2048) eqn:E2.
  { cbn [app length]. unfold decode_rune, rune_self.
    replace (192 + r / 64 <? 128) with false by lia.
    assert (Hl : lead_size (192 + r / 64) = 2%nat) by (unfold lead_size; case_ifs; lia). rewrite Hl.
    replace ((128 + r mod 64 <? accept_lo (192 + r / 64)) || (accept_hi (192 + r / 64) <? 128 + r mod 64)) with false
      by (unfold accept_lo, accept_hi; case_ifs; lia).
    f_equal. lia. }
  destruct (r <? 65536) eqn:E3.
  { cbn [app length]. unfold decode_rune, rune_self.
    replace (224 + r / 4096 <? 128) with false by lia.
    assert (Hl : lead_size (224 + r / 4096) = 3%nat) by (unfold lead_size; case_ifs; lia). rewrite Hl.
    replace ((128 + (r / 64) mod 64 <? accept_lo (224 + r / 4096)) || (accept_hi (224 + r / 4096) <? 128 + (r / 64) mod 64)) with false
      by (unfold accept_lo, accept_hi; case_ifs; lia).
    replace (negb (is_cont (128 + r mod 64))) with false by (unfold is_cont; lia).
    f_equal. lia. }
  cbn [app length]. unfold decode_rune, rune_self.
  replace (240 + r / 262144 <? 128) with false by lia.
  assert (Hl : lead_size (240 + r / 262144) = 4%nat) by (unfold lead_size; case_ifs; lia). rewrite Hl.
  replace ((128 + (r / 4096) mod 64 <? accept_lo (240 + r / 262144)) || (accept_hi (240 + r / 262144) <? 128 + (r / 4096) mod 64)) with false
    by (unfold accept_lo, accept_hi; case_ifs; lia).
  replace (negb (is_cont (128 + (r / 64) mod 64))) with false by (unfold is_cont; lia).
  replace (negb (is_cont (128 + r mod 64))) with false by (unfold is_cont; lia).
  f_equal. lia.
Qed.

Lemma encode_rune_length r : (1 <= length (encode_rune r) <= 4)%nat.
Proof. unfold encode_rune. case_ifs; simpl; lia. Qed.

(* the encoding of a valid rune is a good decoding of exactly its bytes *)
Lemma encode_rune_good r : valid_rune r = true -> good (decode_rune (encode_rune r)).
Proof.
  intros Hv. pose proof (decode_encode_rune r [] Hv) as H. rewrite app_nil_r in H. rewrite H.
  unfold good. cbn [fst snd]. intros [H1 H2]. subst r.
  unfold encode_rune in H2. rewrite Hv in H2. simpl in H2. lia.
Qed.
