(* Base/CRC32Proofs.v — facts about the IEEE CRC-32 model (Base/CRC32.v):
   the register update is linear over xor; the zero-message step has a trivial kernel on 32-bit
   states; hence inverting any single bit of any message changes the checksum.  Also: the table
   form equals the bit-serial form (256-entry sweep by vm_compute, lifted with forallb_forall). *)
From Coq Require Import ZArith List Bool Lia.
From Coq Require Import ZifyBool.
From Bluge Require Import Base.CRC32.
Import ListNotations.
Open Scope Z_scope.
Ltac Zify.zify_post_hook ::= Z.div_mod_to_equations.

Definition two32 : Z := 4294967296.
Definition in32 (x : Z) : Prop := 0 <= x < two32.

(* ---- xor algebra ---- *)
Lemma lxor_cancel_l a b c : Z.lxor a b = Z.lxor a c -> b = c.
Proof.
  intros H.
  rewrite <- (Z.lxor_0_l b), <- (Z.lxor_0_l c), <- (Z.lxor_nilpotent a).
  rewrite !Z.lxor_assoc. rewrite H. reflexivity.
Qed.

Lemma lxor_swap4 a b c d : Z.lxor (Z.lxor a b) (Z.lxor c d) = Z.lxor (Z.lxor a c) (Z.lxor b d).
Proof.
  rewrite !Z.lxor_assoc. f_equal. rewrite <- !Z.lxor_assoc. f_equal. apply Z.lxor_comm.
Qed.

Lemma lxor_range a b : in32 a -> in32 b -> in32 (Z.lxor a b).
Proof.
  unfold in32, two32. intros [Ha0 Ha] [Hb0 Hb].
  split; [apply Z.lxor_nonneg; tauto|].
  destruct (Z.eq_dec (Z.lxor a b) 0) as [->|Hne]; [lia|].
  assert (Hpos : 0 < Z.lxor a b) by (assert (0 <= Z.lxor a b) by (apply Z.lxor_nonneg; tauto); lia).
  apply Z.log2_lt_pow2 with (b := 32) in Hpos as Hiff. change (2 ^ 32) with 4294967296 in Hiff.
  apply Hiff.
  pose proof (Z.log2_lxor a b Ha0 Hb0) as Hl.
  assert (Z.log2 a < 32).
  { destruct (Z.eq_dec a 0) as [->|]; [simpl; lia|]. apply Z.log2_lt_pow2; [lia|]. change (2 ^ 32) with 4294967296. lia. }
  assert (Z.log2 b < 32).
  { destruct (Z.eq_dec b 0) as [->|]; [simpl; lia|]. apply Z.log2_lt_pow2; [lia|]. change (2 ^ 32) with 4294967296. lia. }
  lia.
Qed.

(* ---- one bit ---- *)
Lemma odd_lxor a b : Z.odd (Z.lxor a b) = xorb (Z.odd a) (Z.odd b).
Proof. rewrite <- !Z.bit0_odd. apply Z.lxor_spec. Qed.

Lemma step1_lxor a b : crc_step1 (Z.lxor a b) = Z.lxor (crc_step1 a) (crc_step1 b).
Proof.
  unfold crc_step1. rewrite odd_lxor, Z.shiftr_lxor.
  destruct (Z.odd a), (Z.odd b); simpl.
  - rewrite lxor_swap4. rewrite Z.lxor_nilpotent, Z.lxor_0_r. reflexivity.
  - rewrite !Z.lxor_assoc. f_equal. apply Z.lxor_comm.
  - rewrite !Z.lxor_assoc. reflexivity.
  - reflexivity.
Qed.

Lemma step1_0 : crc_step1 0 = 0. Proof. reflexivity. Qed.

Lemma step1_range x : in32 x -> in32 (crc_step1 x).
Proof.
  intros Hx. unfold crc_step1.
  assert (Hs : in32 (Z.shiftr x 1)).
  { unfold in32, two32 in *. rewrite Z.shiftr_div_pow2 by lia. change (2 ^ 1) with 2. lia. }
  destruct (Z.odd x); [|exact Hs].
  apply lxor_range; [exact Hs|]. unfold in32, two32, crc_poly. lia.
Qed.

Lemma step1_kernel x : in32 x -> crc_step1 x = 0 -> x = 0.
Proof.
  unfold in32, two32, crc_step1. intros Hx H.
  assert (Hd : Z.shiftr x 1 = x / 2) by (rewrite Z.shiftr_div_pow2 by lia; reflexivity).
  destruct (Z.odd x) eqn:Ho.
  - apply Z.lxor_eq in H. rewrite Hd in H. unfold crc_poly in H. lia.
  - rewrite Hd in H.
    assert (He : Z.even x = true) by (rewrite <- Z.negb_odd, Ho; reflexivity).
    apply Z.even_spec in He. destruct He as [k Hk]. lia.
Qed.

(* ---- eight bits ---- *)
Lemma step8_lxor a b : crc_step8 (Z.lxor a b) = Z.lxor (crc_step8 a) (crc_step8 b).
Proof. unfold crc_step8. rewrite !step1_lxor. reflexivity. Qed.

Lemma step8_range x : in32 x -> in32 (crc_step8 x).
Proof. intros H. unfold crc_step8. do 8 apply step1_range. exact H. Qed.

Lemma step8_kernel x : in32 x -> crc_step8 x = 0 -> x = 0.
Proof.
  intros Hx H. unfold crc_step8 in H.
  repeat (match type of H with crc_step1 ?y = 0 =>
            apply step1_kernel in H; [|repeat apply step1_range; exact Hx] end).
  exact H.
Qed.

(* ---- messages ---- *)
Lemma crc_byte_lxor_state x e b : crc_byte (Z.lxor x e) b = Z.lxor (crc_byte x b) (crc_byte e 0).
Proof.
  unfold crc_byte. rewrite Z.lxor_0_r. rewrite <- step8_lxor. f_equal.
  rewrite !Z.lxor_assoc. f_equal. apply Z.lxor_comm.
Qed.

Lemma crc_raw_lxor_state t : forall x e,
  crc_raw (Z.lxor x e) t = Z.lxor (crc_raw x t) (crc_raw e (repeat 0 (length t))).
Proof.
  induction t as [|b t IH]; intros x e; simpl; [reflexivity|].
  rewrite crc_byte_lxor_state. apply IH.
Qed.

Lemma crc_raw_flip : forall m i j c, (i < length m)%nat ->
  crc_raw c (flip_bit m i j) =
  Z.lxor (crc_raw c m) (crc_raw (crc_step8 (2 ^ j)) (repeat 0 (length m - i - 1))).
Proof.
  induction m as [|b t IH]; intros i j c Hi; simpl in Hi; [lia|].
  destruct i as [|i'].
  - simpl flip_bit. simpl crc_raw.
    assert (E : crc_byte c (Z.lxor b (2 ^ j)) = Z.lxor (crc_byte c b) (crc_step8 (2 ^ j))).
    { unfold crc_byte. rewrite <- step8_lxor. f_equal. symmetry. apply Z.lxor_assoc. }
    rewrite E. rewrite crc_raw_lxor_state.
    replace (length t - 0)%nat with (length t) by lia. reflexivity.
  - simpl flip_bit. simpl crc_raw. rewrite IH by lia. reflexivity.
Qed.

Lemma crc_raw_zeros_kernel : forall k e, in32 e -> crc_raw e (repeat 0 k) = 0 -> e = 0.
Proof.
  induction k as [|k IH]; intros e He H; simpl in H; [exact H|].
  unfold crc_byte in H. rewrite Z.lxor_0_r in H.
  apply IH in H; [|apply step8_range; exact He].
  apply step8_kernel in H; assumption.
Qed.

Lemma pow2_in32 j : 0 <= j < 8 -> in32 (2 ^ j) /\ 2 ^ j <> 0.
Proof.
  intros Hj. assert (Hc : j = 0 \/ j = 1 \/ j = 2 \/ j = 3 \/ j = 4 \/ j = 5 \/ j = 6 \/ j = 7) by lia.
  unfold in32, two32.
  destruct Hc as [->|[->|[->|[->|[->|[->|[->| ->]]]]]]]; simpl; lia.
Qed.

(* inverting any single bit of any message changes crc32.Update, whatever the starting value *)
Theorem crc32_update_single_bit : forall crc m i j,
  (i < length m)%nat -> 0 <= j < 8 ->
  crc32_update crc (flip_bit m i j) <> crc32_update crc m.
Proof.
  intros crc m i j Hi Hj Heq. unfold crc32_update in Heq.
  rewrite crc_raw_flip in Heq by exact Hi.
  set (A := crc_raw (Z.lxor crc mask32) m) in *.
  set (D := crc_raw (crc_step8 (2 ^ j)) (repeat 0 (length m - i - 1))) in *.
  assert (HD : D = 0).
  { rewrite Z.lxor_assoc in Heq. rewrite (Z.lxor_comm D mask32) in Heq. rewrite <- Z.lxor_assoc in Heq.
    rewrite <- (Z.lxor_0_r (Z.lxor A mask32)) in Heq at 2.
    apply lxor_cancel_l in Heq. exact Heq. }
  destruct (pow2_in32 j Hj) as [Hr Hnz].
  unfold D in HD. apply crc_raw_zeros_kernel in HD; [|apply step8_range; exact Hr].
  apply step8_kernel in HD; [|exact Hr]. contradiction.
Qed.

Corollary crc32_single_bit : forall m i j,
  (i < length m)%nat -> 0 <= j < 8 -> crc32 (flip_bit m i j) <> crc32 m.
Proof. intros. apply crc32_update_single_bit; assumption. Qed.

(* ---- range of the register / of the checksum ---- *)
Lemma crc_byte_range c b : in32 c -> 0 <= b < 256 -> in32 (crc_byte c b).
Proof.
  intros Hc Hb. unfold crc_byte. apply step8_range. apply lxor_range; [exact Hc|].
  unfold in32, two32. lia.
Qed.

Lemma crc_raw_range : forall m c, in32 c -> Forall (fun b => 0 <= b < 256) m -> in32 (crc_raw c m).
Proof.
  induction m as [|b t IH]; intros c Hc Hm; simpl; [exact Hc|].
  inversion Hm; subst. apply IH; [apply crc_byte_range; assumption|assumption].
Qed.

Lemma crc32_range m : Forall (fun b => 0 <= b < 256) m -> in32 (crc32 m).
Proof.
  intros Hm. unfold crc32, crc32_update.
  apply lxor_range; [|unfold in32, two32, mask32; lia].
  apply crc_raw_range; [|exact Hm]. simpl. unfold in32, two32, mask32. lia.
Qed.

(* ---- the published head of the IEEE table ---- *)
Example crc_table_head_ok : firstn 8 crc_table = crc_table_head.
Proof. vm_compute. reflexivity. Qed.

Example crc32_check_value : crc32 [49; 50; 51; 52; 53; 54; 55; 56; 57] = 3421780262.  (* "123456789" -> 0xcbf43926 *)
Proof. vm_compute. reflexivity. Qed.

(* ---- the table form equals the bit-serial form ---- *)

Lemma step1_double y : 0 <= y -> crc_step1 (2 * y) = y.
Proof.
  intros Hy. unfold crc_step1.
  assert (Ho : Z.odd (2 * y) = false) by (rewrite Z.odd_mul; reflexivity).
  rewrite Ho.
  rewrite Z.shiftr_div_pow2 by lia. change (2 ^ 1) with 2.
  rewrite Z.mul_comm. apply Z.div_mul. lia.
Qed.

Lemma step8_shift h : 0 <= h -> crc_step8 (h * 256) = h.
Proof.
  intros Hh. unfold crc_step8.
  replace (h * 256) with (2 * (2 * (2 * (2 * (2 * (2 * (2 * (2 * h)))))))) by lia.
  repeat (rewrite step1_double by lia). reflexivity.
Qed.

Lemma split_low_high x : 0 <= x -> x = Z.lxor (x mod 256) (x / 256 * 256).
Proof.
  intros Hx. rewrite <- Z.add_nocarry_lxor.
  - pose proof (Z.div_mod x 256 ltac:(lia)). lia.
  - apply Z.bits_inj'. intros n Hn. rewrite Z.land_spec, Z.bits_0.
    destruct (Z_lt_ge_dec n 8).
    + change 256 with (2 ^ 8). rewrite Z.mul_pow2_bits_low by lia. apply andb_false_r.
    + change 256 with (2 ^ 8). rewrite Z.mod_pow2_bits_high by lia. reflexivity.
Qed.

Lemma step8_split x : 0 <= x -> crc_step8 x = Z.lxor (crc_step8 (x mod 256)) (x / 256).
Proof.
  intros Hx. rewrite (split_low_high x Hx) at 1. rewrite step8_lxor.
  rewrite step8_shift by (apply Z.div_pos; lia). reflexivity.
Qed.

(* the 256-entry sweep: every table entry is the 8-step register started from its index *)
Lemma table_sweep :
  forallb (fun k => nth k crc_table 0 =? crc_step8 (Z.of_nat k)) (seq 0 256) = true.
Proof. vm_compute. reflexivity. Qed.

Lemma table_entry m : 0 <= m < 256 -> nth (Z.to_nat m) crc_table 0 = crc_step8 m.
Proof.
  intros Hm. pose proof table_sweep as H. rewrite forallb_forall in H.
  specialize (H (Z.to_nat m)). rewrite Z2Nat.id in H by lia.
  apply Z.eqb_eq. apply H. apply in_seq. lia.
Qed.

Theorem crc_byte_tab_eq c b : 0 <= c -> 0 <= b < 256 -> crc_byte_tab c b = crc_byte c b.
Proof.
  intros Hc Hb. unfold crc_byte_tab, crc_byte.
  assert (Hx : 0 <= Z.lxor c b) by (apply Z.lxor_nonneg; lia).
  rewrite (step8_split (Z.lxor c b) Hx).
  change 255 with (Z.ones 8). rewrite Z.land_ones by lia. change (2 ^ 8) with 256.
  rewrite table_entry by (apply Z.mod_pos_bound; lia).
  f_equal.
  assert (Hd : Z.lxor c b / 256 = Z.shiftr (Z.lxor c b) 8) by (rewrite Z.shiftr_div_pow2 by lia; reflexivity).
  rewrite Hd. rewrite Z.shiftr_lxor.
  assert (Hb8 : Z.shiftr b 8 = 0).
  { rewrite Z.shiftr_div_pow2 by lia. change (2 ^ 8) with 256. apply Z.div_small. lia. }
  rewrite Hb8, Z.lxor_0_r. reflexivity.
Qed.

Lemma crc_raw_tab_eq : forall m c, in32 c -> Forall (fun b => 0 <= b < 256) m -> crc_raw_tab c m = crc_raw c m.
Proof.
  induction m as [|b t IH]; intros c Hc Hm; simpl; [reflexivity|].
  inversion Hm; subst.
  rewrite crc_byte_tab_eq by (unfold in32 in Hc; lia).
  apply IH; [apply crc_byte_range; assumption|assumption].
Qed.

(* Go's table-driven update (simpleUpdate) computes the bit-serial CRC-32 *)
Theorem crc32_update_tab_eq crc p : in32 crc -> Forall (fun b => 0 <= b < 256) p ->
  crc32_update_tab crc p = crc32_update crc p.
Proof.
  intros Hc Hp. unfold crc32_update_tab, crc32_update. f_equal.
  apply crc_raw_tab_eq; [|exact Hp].
  apply lxor_range; [exact Hc|]. unfold in32, two32, mask32. lia.
Qed.
