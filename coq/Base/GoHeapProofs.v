(* Base/GoHeapProofs.v — facts about the container/heap model Base/GoHeap.v:
   up / down restore the heap order, Push and Pop preserve it and the multiset of elements,
   Pop returns a minimum (no element is `less` than it); Init establishes the order on any slice,
   Fix repairs it after one element was replaced (fix_pre / set_nth_fix_pre), Remove takes out the
   element at a position; each keeps the multiset (init_correct, fix_correct, remove_correct;
   down_correct_from is down on a subtree, down_noop / up_fuel_get_above are the frame lemmas).
   `less` is a strict weak order
   (irreflexive, transitive, with transitive incomparability-or-greater), which every Less
   derived from a total three-way comparison satisfies. *)
From Coq Require Import ZArith List Arith Bool Lia ZifyNat Permutation FinFun PeanoNat.
From Bluge Require Import Base.GoHeap.
Import ListNotations.

Ltac Zify.zify_post_hook ::= Z.div_mod_to_equations.

Section HeapFacts.
  Context {A : Type}.
  Variable less : A -> A -> bool.
  Variable dflt : A.

  Hypothesis less_irrefl : forall a, less a a = false.
  Hypothesis less_trans : forall a b c, less a b = true -> less b c = true -> less a c = true.
  Hypothesis nless_trans : forall a b c, less a b = false -> less b c = false -> less a c = false.

  Lemma less_asym a b : less a b = true -> less b a = false.
  Proof.
    intro H. destruct (less b a) eqn:E; [|reflexivity].
    rewrite <- (less_irrefl a). symmetry. apply (less_trans a b a); assumption.
  Qed.

  Notation get := (get dflt).
  Notation swap := (swap dflt).

  (* ---------- list access ---------- *)

  Lemma set_nth_length (h : list A) : forall i x, length (set_nth h i x) = length h.
  Proof. induction h as [|y t IH]; intros [|i] x; cbn; auto. Qed.

  Lemma get_set_nth (h : list A) : forall i x k, i < length h ->
    get (set_nth h i x) k = if k =? i then x else get h k.
  Proof.
    unfold GoHeap.get. induction h as [|y t IH]; intros [|i] x [|k] L; cbn in *; try lia; try reflexivity.
    apply IH. lia.
  Qed.

  Lemma swap_length h i j : length (swap h i j) = length h.
  Proof. unfold GoHeap.swap. rewrite !set_nth_length. reflexivity. Qed.

  Lemma get_swap h i j k : i < length h -> j < length h ->
    get (swap h i j) k = if k =? j then get h i else if k =? i then get h j else get h k.
  Proof.
    intros Li Lj. unfold GoHeap.swap. rewrite get_set_nth by (rewrite set_nth_length; exact Lj).
    destruct (k =? j); [reflexivity|]. apply get_set_nth. exact Li.
  Qed.

  Lemma swap_perm h i j : i < length h -> j < length h -> Permutation h (swap h i j).
  Proof.
    intros Li Lj. apply (Permutation_nth h (swap h i j) dflt). split; [apply swap_length|].
    exists (fun k => if k =? j then i else if k =? i then j else k). repeat split.
    - intros x Hx. destruct (x =? j); [exact Li|]. destruct (x =? i); [exact Lj | exact Hx].
    - intros x y Hx Hy.
      destruct (x =? j) eqn:E1; destruct (y =? j) eqn:E2;
      destruct (x =? i) eqn:E3; destruct (y =? i) eqn:E4;
      apply Nat.eqb_eq in E1 || apply Nat.eqb_neq in E1;
      apply Nat.eqb_eq in E2 || apply Nat.eqb_neq in E2;
      apply Nat.eqb_eq in E3 || apply Nat.eqb_neq in E3;
      apply Nat.eqb_eq in E4 || apply Nat.eqb_neq in E4; lia.
    - intros x Hx. pose proof (get_swap h i j x Li Lj) as G. unfold GoHeap.get in G. rewrite G.
      destruct (x =? j); [reflexivity|]. destruct (x =? i); reflexivity.
  Qed.

  (* ---------- the heap order on the first n positions ---------- *)

  Definition parent (j : nat) : nat := (j - 1) / 2.

  Definition ok_at (h : list A) (k : nat) : Prop := less (get h k) (get h (parent k)) = false.

  Definition heap_ok_n (h : list A) (n : nat) : Prop := forall k, 0 < k < n -> ok_at h k.
  Definition heap_ok (h : list A) : Prop := heap_ok_n h (length h).

  (* every position respects the order except possibly j against its parent; the children of j
     already respect the parent of j *)
  Definition up_inv (h : list A) (n j : nat) : Prop :=
    (forall k, 0 < k < n -> k <> j -> ok_at h k) /\
    (forall k, 0 < k < n -> parent k = j -> 0 < j -> less (get h k) (get h (parent j)) = false).

  Lemma up_correct fuel : forall h j n, j < fuel -> j < n -> n <= length h -> up_inv h n j ->
    heap_ok_n (up_fuel less dflt fuel h j) n /\ length (up_fuel less dflt fuel h j) = length h /\
    Permutation h (up_fuel less dflt fuel h j).
  Proof.
    induction fuel as [|f IH]; intros h j n Hf Hj Hn [I1 I2]; [lia|].
    cbn [up_fuel]. fold (parent j).
    destruct (parent j =? j) eqn:Eij; cbn [orb].
    - apply Nat.eqb_eq in Eij. assert (j = 0) by (unfold parent in Eij; lia). subst j.
      split; [|split; [reflexivity | apply Permutation_refl]].
      intros k Hk. apply I1; lia.
    - apply Nat.eqb_neq in Eij.
      assert (Hp : parent j < j) by (unfold parent in *; lia).
      destruct (less (get h j) (get h (parent j))) eqn:El; cbn [negb].
      + (* swap and continue at the parent *)
        set (i := parent j) in *.
        assert (Li : i < length h) by lia. assert (Lj : j < length h) by lia.
        destruct (IH (swap h i j) i n) as (K1 & K2 & K3); try lia.
        * rewrite swap_length. lia.
        * split.
          -- intros k Hk Hki. unfold ok_at. rewrite !get_swap by assumption.
             destruct (k =? j) eqn:Ekj.
             ++ apply Nat.eqb_eq in Ekj. subst k. fold i.
                replace (i =? j) with false by (symmetry; apply Nat.eqb_neq; lia).
                rewrite Nat.eqb_refl. apply less_asym. exact El.
             ++ apply Nat.eqb_neq in Ekj.
                replace (k =? i) with false by (symmetry; apply Nat.eqb_neq; lia).
                destruct (parent k =? j) eqn:Epj.
                ** apply Nat.eqb_eq in Epj. apply (I2 k Hk Epj). lia.
                ** destruct (parent k =? i) eqn:Epi.
                   --- apply Nat.eqb_eq in Epi.
                       pose proof (I1 k Hk Ekj) as O. unfold ok_at in O. rewrite Epi in O.
                       destruct (less (get h k) (get h j)) eqn:E; [|reflexivity].
                       rewrite (less_trans _ _ _ E El) in O. discriminate.
                   --- apply (I1 k Hk Ekj).
          -- intros k Hk Epk Hi0. rewrite !get_swap by assumption.
             assert (Hpi : parent i < i) by (unfold parent; lia).
             replace (parent i =? j) with false by (symmetry; apply Nat.eqb_neq; lia).
             replace (parent i =? i) with false by (symmetry; apply Nat.eqb_neq; lia).
             assert (Oi : ok_at h i) by (apply I1; lia).
             destruct (k =? j) eqn:Ekj; [exact Oi|].
             apply Nat.eqb_neq in Ekj.
             replace (k =? i) with false by (symmetry; apply Nat.eqb_neq; unfold parent in Epk; lia).
             pose proof (I1 k Hk Ekj) as O. unfold ok_at in O. rewrite Epk in O.
             apply (nless_trans _ _ _ O Oi).
        * split; [exact K1|]. split; [rewrite K2; apply swap_length|].
          apply Permutation_trans with (swap h i j); [apply swap_perm; assumption | exact K3].
      + split; [|split; [reflexivity | apply Permutation_refl]].
        intros k Hk. destruct (Nat.eq_dec k j) as [->|N]; [exact El | apply I1; assumption].
  Qed.

  (* every position respects the order except possibly the children of i against i; the children
     of i already respect the parent of i *)
  Definition down_inv (h : list A) (n i : nat) : Prop :=
    (forall k, 0 < k < n -> parent k <> i -> ok_at h k) /\
    (forall k, 0 < k < n -> parent k = i -> 0 < i -> less (get h k) (get h (parent i)) = false).

  Lemma down_correct fuel : forall h i n, n - i < fuel -> i < n -> n <= length h -> down_inv h n i ->
    let r := fst (down_fuel less dflt fuel h i n) in
    heap_ok_n r n /\ length r = length h /\ Permutation h r /\ (forall k, n <= k -> get r k = get h k).
  Proof.
    induction fuel as [|f IH]; intros h i n Hf Hi Hn [I1 I2]; [lia|].
    cbn [down_fuel].
    destruct (n <=? 2 * i + 1) eqn:Eleaf.
    - apply Nat.leb_le in Eleaf. cbn [fst].
      split; [|split; [reflexivity | split; [apply Permutation_refl | reflexivity]]].
      intros k Hk. apply I1; [exact Hk|]. unfold parent. lia.
    - apply Nat.leb_gt in Eleaf.
      set (j1 := 2 * i + 1) in *. set (j2 := j1 + 1).
      set (j := if (j2 <? n) && less (get h j2) (get h j1) then j2 else j1).
      assert (Hj : j = j1 \/ (j = j2 /\ j2 < n /\ less (get h j2) (get h j1) = true)).
      { unfold j. destruct (j2 <? n) eqn:E2; cbn [andb]; [|left; reflexivity].
        destruct (less (get h j2) (get h j1)) eqn:E; [right; split; [reflexivity | split; [apply Nat.ltb_lt; exact E2 | reflexivity]] | left; reflexivity]. }
      assert (Hjn : j < n) by (destruct Hj as [->|(-> & ? & _)]; lia).
      assert (Hpj : parent j = i) by (unfold parent, j2, j1 in *; destruct Hj as [->|(-> & _)]; lia).
      assert (Hij : i < j) by (unfold j2, j1 in *; destruct Hj as [->|(-> & _)]; lia).
      (* the other child, if any, does not sort before the chosen one *)
      assert (Hsib : forall k, 0 < k < n -> parent k = i -> k <> j -> less (get h k) (get h j) = false).
      { intros k Hk Epk Nkj.
        assert (Hk12 : k = j1 \/ k = j2) by (unfold parent, j2, j1 in *; lia).
        destruct Hj as [Ej|(Ej & L2 & El2)].
        - assert (k = j2) by lia. subst k. rewrite Ej. unfold j in Ej.
          replace (j2 <? n) with true in Ej by (symmetry; apply Nat.ltb_lt; lia). cbn [andb] in Ej.
          destruct (less (get h j2) (get h j1)) eqn:E; [unfold j2 in Ej; lia | reflexivity].
        - assert (k = j1) by lia. subst k. rewrite Ej. apply less_asym. exact El2. }
      destruct (less (get h j) (get h i)) eqn:El; cbn [negb].
      + assert (Li : i < length h) by lia. assert (Lj : j < length h) by lia.
        assert (Nij : i <> j) by lia.
        destruct (IH (swap h i j) j n) as (K1 & K2 & K3 & K4); try lia.
        * rewrite swap_length. lia.
        * split.
          -- intros k Hk Npk. unfold ok_at. rewrite !get_swap by assumption.
             destruct (k =? j) eqn:Ekj.
             ++ apply Nat.eqb_eq in Ekj. subst k. rewrite Hpj.
                replace (i =? j) with false by (symmetry; apply Nat.eqb_neq; lia).
                rewrite Nat.eqb_refl. apply less_asym. exact El.
             ++ apply Nat.eqb_neq in Ekj.
                replace (parent k =? j) with false by (symmetry; apply Nat.eqb_neq; lia).
                destruct (k =? i) eqn:Eki.
                ** apply Nat.eqb_eq in Eki. subst k.
                   assert (Hpi : parent i < i) by (unfold parent; lia).
                   replace (parent i =? i) with false by (symmetry; apply Nat.eqb_neq; lia).
                   apply (I2 j); [lia | exact Hpj | lia].
                ** destruct (parent k =? i) eqn:Epi.
                   --- apply Nat.eqb_eq in Epi. apply Hsib; assumption.
                   --- apply Nat.eqb_neq in Epi. apply (I1 k Hk Epi).
          -- intros k Hk Epk _. rewrite !get_swap by assumption. rewrite Hpj.
             replace (i =? j) with false by (symmetry; apply Nat.eqb_neq; lia).
             rewrite Nat.eqb_refl.
             assert (Nk : k <> j /\ k <> i) by (unfold parent in *; lia).
             replace (k =? j) with false by (symmetry; apply Nat.eqb_neq; lia).
             replace (k =? i) with false by (symmetry; apply Nat.eqb_neq; lia).
             assert (O : ok_at h k) by (apply I1; [exact Hk | lia]).
             unfold ok_at in O. rewrite Epk in O. exact O.
        * split; [exact K1|]. split; [rewrite K2; apply swap_length|].
          split; [apply Permutation_trans with (swap h i j); [apply swap_perm; assumption | exact K3]|].
          intros k Hk. rewrite K4 by exact Hk. rewrite get_swap by assumption.
          replace (k =? j) with false by (symmetry; apply Nat.eqb_neq; lia).
          replace (k =? i) with false by (symmetry; apply Nat.eqb_neq; lia). reflexivity.
      + cbn [fst].
        split; [|split; [reflexivity | split; [apply Permutation_refl | reflexivity]]].
        intros k Hk. destruct (Nat.eq_dec (parent k) i) as [Epk|Npk]; [|apply I1; assumption].
        unfold ok_at. rewrite Epk.
        destruct (Nat.eq_dec k j) as [->|Nkj]; [exact El|].
        apply (nless_trans _ (get h j)); [apply Hsib; assumption | exact El].
  Qed.

  (* ---------- the root is a minimum ---------- *)

  Lemma root_min h n : heap_ok_n h n -> forall k, k < n -> less (get h k) (get h 0) = false.
  Proof.
    intros O k. induction k as [k IH] using (well_founded_induction lt_wf). intro Hk.
    destruct (Nat.eq_dec k 0) as [->|N]; [apply less_irrefl|].
    assert (Hp : parent k < k) by (unfold parent; lia).
    apply (nless_trans _ (get h (parent k))); [apply O; lia | apply IH; lia].
  Qed.

  (* ---------- heap.Push ---------- *)

  Lemma get_app_l (h t : list A) k : k < length h -> get (h ++ t) k = get h k.
  Proof. intro L. unfold GoHeap.get. apply app_nth1. exact L. Qed.

  Theorem push_correct h x : heap_ok h ->
    heap_ok (heap_push less dflt h x) /\ Permutation (x :: h) (heap_push less dflt h x) /\
    length (heap_push less dflt h x) = S (length h).
  Proof.
    intro O. unfold heap_push, up.
    destruct (up_correct (S (length h)) (h ++ [x]) (length h) (S (length h))) as (K1 & K2 & K3).
    - lia.
    - lia.
    - rewrite app_length. cbn. lia.
    - split.
      + intros k Hk Nk. unfold ok_at. assert (Hp : parent k < length h) by (unfold parent; lia).
        rewrite !get_app_l by lia. apply O. lia.
      + intros k Hk Epk _. unfold parent in Epk. lia.
    - rewrite app_length in K2. cbn [length] in K2.
      split; [|split].
      + unfold heap_ok. rewrite K2. replace (length h + 1) with (S (length h)) by lia. exact K1.
      + apply Permutation_trans with (h ++ [x]); [|exact K3].
        apply Permutation_cons_append.
      + rewrite K2. lia.
  Qed.

  (* ---------- heap.Pop ---------- *)

  Lemma firstn_get (h : list A) n k : k < n -> get (firstn n h) k = get h k.
  Proof.
    unfold GoHeap.get. revert h k. induction n as [|n IH]; intros h k L; [lia|].
    destruct h as [|y t]; [destruct k; reflexivity|]. destruct k as [|k]; [reflexivity|].
    cbn. apply IH. lia.
  Qed.

  Lemma firstn_snoc_get (h : list A) n : length h = S n -> h = firstn n h ++ [get h n].
  Proof.
    unfold GoHeap.get. revert h. induction n as [|n IH]; intros h L.
    - destruct h as [|y [|z t]]; cbn in *; try lia. reflexivity.
    - destruct h as [|y t]; cbn in L; [lia|]. cbn. f_equal. apply IH. lia.
  Qed.

  Lemma heap_pop_nonempty h : h <> [] ->
    heap_pop less dflt h =
    Some (get (fst (down less dflt (swap h 0 (length h - 1)) 0 (length h - 1))) (length h - 1),
          firstn (length h - 1) (fst (down less dflt (swap h 0 (length h - 1)) 0 (length h - 1)))).
  Proof. destruct h; [contradiction | reflexivity]. Qed.

  Theorem pop_correct h : heap_ok h -> h <> [] ->
    exists x h', heap_pop less dflt h = Some (x, h') /\ heap_ok h' /\ Permutation h (x :: h') /\
                 length h = S (length h') /\ (forall y, In y h -> less y x = false).
  Proof.
    intros O N. rewrite (heap_pop_nonempty h N).
    assert (Hlen : 0 < length h) by (destruct h; [contradiction | cbn; lia]).
    set (n := length h - 1). assert (Hn : length h = S n) by (unfold n; lia).
    clearbody n.
    set (h1 := swap h 0 n).
    assert (L1 : length h1 = length h) by apply swap_length.
    assert (P1 : Permutation h h1) by (apply swap_perm; lia).
    assert (G1 : forall k, get h1 k = if k =? n then get h 0 else if k =? 0 then get h n else get h k)
      by (intro k; apply get_swap; lia).
    unfold down.
    destruct (Nat.eq_dec n 0) as [Z|NZ].
    - (* single element *)
      assert (Hd : down_fuel less dflt (S n) h1 0 n = (h1, 0)) by (rewrite Z; reflexivity).
      rewrite Hd. cbn [fst].
      exists (get h1 n), (firstn n h1). split; [reflexivity|].
      rewrite Z. cbn [firstn]. split; [intros k Hk; cbn in Hk; lia|].
      assert (E1 : h1 = [get h1 0]).
      { rewrite (firstn_snoc_get h1 0) at 1 by lia. reflexivity. }
      split; [rewrite <- E1; exact P1|]. split; [cbn; lia|].
      intros y Hy. apply (Permutation_in _ P1) in Hy. rewrite E1 in Hy. destruct Hy as [<-|[]]. apply less_irrefl.
    - destruct (down_correct (S n) h1 0 n) as (K1 & K2 & K3 & K4); try lia.
      + split.
        * intros k Hk Npk. unfold ok_at. rewrite !G1.
          assert (Hp : parent k < k) by (unfold parent; lia).
          replace (k =? n) with false by (symmetry; apply Nat.eqb_neq; lia).
          replace (k =? 0) with false by (symmetry; apply Nat.eqb_neq; lia).
          replace (parent k =? n) with false by (symmetry; apply Nat.eqb_neq; lia).
          replace (parent k =? 0) with false by (symmetry; apply Nat.eqb_neq; lia).
          apply O. lia.
        * intros k Hk _ F. lia.
      + set (r := fst (down_fuel less dflt (S n) h1 0 n)) in *.
        destruct (down_fuel less dflt (S n) h1 0 n) as [r' ir] eqn:Ed. cbn [fst] in r. subst r.
        cbn [fst].
        exists (get r' n), (firstn n r'). split; [reflexivity|].
        assert (Lr : length r' = S n) by lia.
        assert (Ex : get r' n = get h 0).
        { rewrite K4 by lia. rewrite G1. rewrite Nat.eqb_refl. reflexivity. }
        split; [|split; [|split]].
        * unfold heap_ok. rewrite firstn_length_le by lia. intros k Hk. unfold ok_at.
          assert (Hp : parent k < k) by (unfold parent; lia).
          rewrite !firstn_get by lia. apply K1. exact Hk.
        * apply Permutation_trans with r'; [apply Permutation_trans with h1; assumption|].
          rewrite (firstn_snoc_get r' n Lr) at 1. apply Permutation_sym, Permutation_cons_append.
        * rewrite firstn_length_le by lia. exact Hn.
        * intros y Hy. rewrite Ex.
          destruct (In_nth h y dflt Hy) as (k & Hk & <-).
          apply (root_min h (length h) O k Hk).
  Qed.

  (* ================= additions: Init, Fix, Remove ================= *)

  (* the heap order on the part of the tree whose parents are at or below position lo *)
  Definition heap_from (h : list A) (n lo : nat) : Prop := forall k, 0 < k < n -> lo <= parent k -> ok_at h k.

  Lemma heap_from_0 h n : heap_from h n 0 <-> heap_ok_n h n.
  Proof. split; intros H k Hk; [apply H; [exact Hk | lia] | intros _; apply H; exact Hk]. Qed.

  Definition down_inv_from (h : list A) (n i lo : nat) : Prop :=
    (forall k, 0 < k < n -> lo <= parent k -> parent k <> i -> ok_at h k) /\
    (forall k, 0 < k < n -> parent k = i -> lo <= parent i -> 0 < i -> less (get h k) (get h (parent i)) = false).

  (* down restores the order inside the subtree it works on; down_correct is the case lo = 0 *)
  Lemma down_correct_from fuel : forall h i n lo, n - i < fuel -> i < n -> n <= length h -> lo <= i ->
    down_inv_from h n i lo ->
    let r := fst (down_fuel less dflt fuel h i n) in
    heap_from r n lo /\ length r = length h /\ Permutation h r /\ (forall k, n <= k -> get r k = get h k) /\
    (forall k, k < i -> get r k = get h k).
  Proof.
    induction fuel as [|f IH]; intros h i n lo Hf Hi Hn Hlo [I1 I2]; [lia|].
    cbn [down_fuel].
    destruct (n <=? 2 * i + 1) eqn:Eleaf.
    - apply Nat.leb_le in Eleaf. cbn [fst].
      split; [|split; [reflexivity | split; [apply Permutation_refl | split; reflexivity]]].
      intros k Hk Hl. apply I1; [exact Hk | exact Hl |]. unfold parent. lia.
    - apply Nat.leb_gt in Eleaf.
      set (j1 := 2 * i + 1) in *. set (j2 := j1 + 1).
      set (j := if (j2 <? n) && less (get h j2) (get h j1) then j2 else j1).
      assert (Hj : j = j1 \/ (j = j2 /\ j2 < n /\ less (get h j2) (get h j1) = true)).
      { unfold j. destruct (j2 <? n) eqn:E2; cbn [andb]; [|left; reflexivity].
        destruct (less (get h j2) (get h j1)) eqn:E; [right; split; [reflexivity | split; [apply Nat.ltb_lt; exact E2 | reflexivity]] | left; reflexivity]. }
      assert (Hjn : j < n) by (destruct Hj as [->|(-> & ? & _)]; lia).
      assert (Hpj : parent j = i) by (unfold parent, j2, j1 in *; destruct Hj as [->|(-> & _)]; lia).
      assert (Hij : i < j) by (unfold j2, j1 in *; destruct Hj as [->|(-> & _)]; lia).
      assert (Hsib : forall k, 0 < k < n -> parent k = i -> k <> j -> less (get h k) (get h j) = false).
      { intros k Hk Epk Nkj.
        assert (Hk12 : k = j1 \/ k = j2) by (unfold parent, j2, j1 in *; lia).
        destruct Hj as [Ej|(Ej & L2 & El2)].
        - assert (k = j2) by lia. subst k. rewrite Ej. unfold j in Ej.
          replace (j2 <? n) with true in Ej by (symmetry; apply Nat.ltb_lt; lia). cbn [andb] in Ej.
          destruct (less (get h j2) (get h j1)) eqn:E; [unfold j2 in Ej; lia | reflexivity].
        - assert (k = j1) by lia. subst k. rewrite Ej. apply less_asym. exact El2. }
      destruct (less (get h j) (get h i)) eqn:El; cbn [negb].
      + assert (Li : i < length h) by lia. assert (Lj : j < length h) by lia.
        assert (Nij : i <> j) by lia.
        destruct (IH (swap h i j) j n lo) as (K1 & K2 & K3 & K4 & K5); try lia.
        * rewrite swap_length. lia.
        * split.
          -- intros k Hk Hl Npk. unfold ok_at. rewrite !get_swap by assumption.
             destruct (k =? j) eqn:Ekj.
             ++ apply Nat.eqb_eq in Ekj. subst k. rewrite Hpj.
                replace (i =? j) with false by (symmetry; apply Nat.eqb_neq; lia).
                rewrite Nat.eqb_refl. apply less_asym. exact El.
             ++ apply Nat.eqb_neq in Ekj.
                replace (parent k =? j) with false by (symmetry; apply Nat.eqb_neq; lia).
                destruct (k =? i) eqn:Eki.
                ** apply Nat.eqb_eq in Eki. subst k.
                   assert (Hpi : parent i < i) by (unfold parent; lia).
                   replace (parent i =? i) with false by (symmetry; apply Nat.eqb_neq; lia).
                   apply (I2 j); [lia | exact Hpj | exact Hl | lia].
                ** destruct (parent k =? i) eqn:Epi.
                   --- apply Nat.eqb_eq in Epi. apply Hsib; assumption.
                   --- apply Nat.eqb_neq in Epi. apply (I1 k Hk Hl Epi).
          -- intros k Hk Epk _ _. rewrite !get_swap by assumption. rewrite Hpj.
             replace (i =? j) with false by (symmetry; apply Nat.eqb_neq; lia).
             rewrite Nat.eqb_refl.
             assert (Nk : k <> j /\ k <> i) by (unfold parent in *; lia).
             replace (k =? j) with false by (symmetry; apply Nat.eqb_neq; lia).
             replace (k =? i) with false by (symmetry; apply Nat.eqb_neq; lia).
             assert (O : ok_at h k) by (apply I1; [exact Hk | lia | lia]).
             unfold ok_at in O. rewrite Epk in O. exact O.
        * split; [exact K1|]. split; [rewrite K2; apply swap_length|].
          split; [apply Permutation_trans with (swap h i j); [apply swap_perm; assumption | exact K3]|].
          split.
          -- intros k Hk. rewrite K4 by exact Hk. rewrite get_swap by assumption.
             replace (k =? j) with false by (symmetry; apply Nat.eqb_neq; lia).
             replace (k =? i) with false by (symmetry; apply Nat.eqb_neq; lia). reflexivity.
          -- intros k Hk. rewrite K5 by lia. rewrite get_swap by assumption.
             replace (k =? j) with false by (symmetry; apply Nat.eqb_neq; lia).
             replace (k =? i) with false by (symmetry; apply Nat.eqb_neq; lia). reflexivity.
      + cbn [fst].
        split; [|split; [reflexivity | split; [apply Permutation_refl | split; reflexivity]]].
        intros k Hk Hl. destruct (Nat.eq_dec (parent k) i) as [Epk|Npk]; [|apply I1; assumption].
        unfold ok_at. rewrite Epk.
        destruct (Nat.eq_dec k j) as [->|Nkj]; [exact El|].
        apply (nless_trans _ (get h j)); [apply Hsib; assumption | exact El].
  Qed.

  (* ---------- heap.Init ---------- *)

  Lemma init_from_correct k : forall h n, n <= length h -> k <= n -> heap_from h n k ->
    let r := init_from less dflt k h n in
    heap_ok_n r n /\ length r = length h /\ Permutation h r /\ (forall j, n <= j -> get r j = get h j).
  Proof.
    induction k as [|k IH]; intros h n Hn Hk Hf.
    - cbn [init_from]. split; [apply heap_from_0; exact Hf|]. split; [reflexivity|]. split; [apply Permutation_refl | reflexivity].
    - cbn [init_from]. unfold down.
      destruct (down_correct_from (S n) h k n k) as (K1 & K2 & K3 & K4 & _); try lia.
      + split.
        * intros j Hj Hl Np. apply Hf; [exact Hj | lia].
        * intros j Hj Epj Hl H0. exfalso. unfold parent in Hl. lia.
      + destruct (down_fuel less dflt (S n) h k n) as [h' i'] eqn:Ed. cbn [fst] in *.
        destruct (IH h' n) as (J1 & J2 & J3 & J4); try lia.
        * exact K1.
        * split; [exact J1|]. split; [lia|]. split; [apply Permutation_trans with h'; assumption|].
          intros j Hj. rewrite J4 by exact Hj. apply K4. exact Hj.
  Qed.

  (* heap.Init establishes the heap order on any slice and keeps its elements *)
  Theorem init_correct h : heap_ok (heap_init less dflt h) /\ Permutation h (heap_init less dflt h) /\
    length (heap_init less dflt h) = length h.
  Proof.
    unfold heap_init.
    destruct (init_from_correct (length h / 2) h (length h)) as (K1 & K2 & K3 & _).
    - lia.
    - apply Nat.div_le_upper_bound; lia.
    - intros k Hk Hl. exfalso. unfold parent in Hl.
      pose proof (Nat.div_mod (length h) 2 ltac:(lia)). pose proof (Nat.mod_upper_bound (length h) 2 ltac:(lia)).
      pose proof (Nat.div_mod (k - 1) 2 ltac:(lia)). pose proof (Nat.mod_upper_bound (k - 1) 2 ltac:(lia)). lia.
    - split; [unfold heap_ok; rewrite K2; exact K1|]. split; [exact K3 | exact K2].
  Qed.

  (* ---------- heap.Fix ---------- *)

  (* down leaves the heap alone when no child sorts before position i *)
  Lemma down_noop fuel h i n : 0 < fuel ->
    (forall k, 0 < k < n -> parent k = i -> less (get h k) (get h i) = false) ->
    down_fuel less dflt fuel h i n = (h, i).
  Proof.
    intros Hf Hc. destruct fuel as [|f]; [lia|]. cbn [down_fuel].
    destruct (n <=? 2 * i + 1) eqn:Eleaf; [reflexivity|]. apply Nat.leb_gt in Eleaf.
    set (j1 := 2 * i + 1) in *. set (j2 := j1 + 1).
    set (j := if (j2 <? n) && less (get h j2) (get h j1) then j2 else j1).
    assert (Hjn : 0 < j < n /\ parent j = i).
    { unfold j. destruct (j2 <? n) eqn:E2; cbn [andb].
      - apply Nat.ltb_lt in E2. destruct (less (get h j2) (get h j1)); unfold parent, j2, j1 in *; lia.
      - unfold parent, j1 in *. lia. }
    rewrite (Hc j (proj1 Hjn) (proj2 Hjn)). reflexivity.
  Qed.

  Lemma up_fuel_get_above fuel : forall h j k, j < length h -> j < k -> get (up_fuel less dflt fuel h j) k = get h k.
  Proof.
    induction fuel as [|f IH]; intros h j k Lj Hk; [reflexivity|].
    cbn [up_fuel]. fold (parent j).
    destruct ((parent j =? j) || negb (less (get h j) (get h (parent j)))); [reflexivity|].
    assert (Hp : parent j <= j) by (unfold parent; lia).
    rewrite IH; [|rewrite swap_length; lia | lia].
    rewrite get_swap by lia.
    replace (k =? j) with false by (symmetry; apply Nat.eqb_neq; lia).
    replace (k =? parent j) with false by (symmetry; apply Nat.eqb_neq; lia). reflexivity.
  Qed.

  (* the position i was changed arbitrarily in a heap: every relation not involving i holds, and
     the children of i respect the parent of i (as they did before the change) *)
  Definition fix_pre (h : list A) (n i : nat) : Prop :=
    (forall k, 0 < k < n -> k <> i -> parent k <> i -> ok_at h k) /\
    (forall k, 0 < k < n -> parent k = i -> 0 < i -> less (get h k) (get h (parent i)) = false).

  (* the body of heap.Fix / heap.Remove on the first n positions: if !down(h, i, n) { up(h, i) } *)
  Lemma fix_n_correct h i n : i < n -> n <= length h -> fix_pre h n i ->
    let r := (let '(h', moved) := down less dflt h i n in if moved then h' else up less dflt h' i) in
    heap_ok_n r n /\ length r = length h /\ Permutation h r /\ (forall k, n <= k -> get r k = get h k).
  Proof.
    intros Hi Hn [F1 F2]. unfold down, up.
    destruct (less (get h i) (get h (parent i)) && (0 <? i)) eqn:Eok.
    - (* the new element sorts before its parent: no child sorts before it, down is a no-op, up repairs *)
      apply andb_true_iff in Eok. destruct Eok as [El E0]. apply Nat.ltb_lt in E0.
      assert (Hc : forall k, 0 < k < n -> parent k = i -> less (get h k) (get h i) = false).
      { intros k Hk Epk. destruct (less (get h k) (get h i)) eqn:E; [|reflexivity].
        rewrite <- (F2 k Hk Epk E0). symmetry. apply (less_trans _ _ _ E El). }
      rewrite (down_noop (S n) h i n ltac:(lia) Hc). rewrite Nat.ltb_irrefl.
      destruct (up_correct (S i) h i n) as (K1 & K2 & K3); try lia.
      + split.
        * intros k Hk Nk. destruct (Nat.eq_dec (parent k) i) as [Epk|Npk]; [unfold ok_at; rewrite Epk; apply Hc; assumption | apply F1; assumption].
        * exact F2.
      + split; [exact K1|]. split; [exact K2|]. split; [exact K3|].
        intros k Hk. apply up_fuel_get_above; lia.
    - (* the new element respects its parent: down works on a valid down_inv; up is then a no-op or harmless *)
      assert (Oi : 0 < i -> ok_at h i).
      { intro E0. unfold ok_at. destruct (less (get h i) (get h (parent i))) eqn:E; [|reflexivity].
        replace (0 <? i) with true in Eok by (symmetry; apply Nat.ltb_lt; exact E0). discriminate. }
      destruct (down_correct (S n) h i n) as (K1 & K2 & K3 & K4); try lia.
      + split.
        * intros k Hk Npk. destruct (Nat.eq_dec k i) as [->|Nk]; [apply Oi; lia | apply F1; assumption].
        * exact F2.
      + destruct (down_fuel less dflt (S n) h i n) as [h' i'] eqn:Ed. cbn [fst] in *.
        destruct (i <? i'); [split; [exact K1|]; split; [exact K2|]; split; [exact K3 | exact K4]|].
        destruct (up_correct (S i) h' i n) as (J1 & J2 & J3); try lia.
        * split.
          -- intros k Hk _. apply K1. exact Hk.
          -- intros k Hk Epk E0.
             assert (Hp : parent i < i) by (unfold parent; lia).
             apply (nless_trans _ (get h' i)).
             ++ pose proof (K1 k Hk) as O. unfold ok_at in O. rewrite Epk in O. exact O.
             ++ apply (K1 i). lia.
        * split; [exact J1|]. split; [lia|]. split; [apply Permutation_trans with h'; assumption|].
          intros k Hk. rewrite up_fuel_get_above by lia. apply K4. exact Hk.
  Qed.

  (* heap.Fix(h, i) after h[i] was replaced: the result is a heap with the same elements *)
  Theorem fix_correct h i : i < length h -> fix_pre h (length h) i ->
    heap_ok (heap_fix less dflt h i) /\ Permutation h (heap_fix less dflt h i) /\
    length (heap_fix less dflt h i) = length h.
  Proof.
    intros Hi F. unfold heap_fix.
    destruct (fix_n_correct h i (length h) Hi (le_n _) F) as (K1 & K2 & K3 & _).
    split; [unfold heap_ok; rewrite K2; exact K1|]. split; [exact K3 | exact K2].
  Qed.

  (* replacing one element of a heap satisfies fix_pre at that position *)
  Lemma set_nth_fix_pre h i x : heap_ok h -> i < length h -> fix_pre (set_nth h i x) (length h) i.
  Proof.
    intros O Hi. split.
    - intros k Hk Nk Np. unfold ok_at. rewrite !get_set_nth by exact Hi.
      replace (k =? i) with false by (symmetry; apply Nat.eqb_neq; lia).
      replace (parent k =? i) with false by (symmetry; apply Nat.eqb_neq; lia). apply O. exact Hk.
    - intros k Hk Epk E0. rewrite !get_set_nth by exact Hi.
      assert (Hp : parent i < i) by (unfold parent; lia).
      replace (k =? i) with false by (symmetry; apply Nat.eqb_neq; unfold parent in *; lia).
      replace (parent i =? i) with false by (symmetry; apply Nat.eqb_neq; lia).
      apply (nless_trans _ (get h i)).
      + pose proof (O k Hk) as Ok. unfold ok_at in Ok. rewrite Epk in Ok. exact Ok.
      + apply (O i). lia.
  Qed.

  (* ---------- heap.Remove ---------- *)

  Lemma heap_ok_firstn h n : heap_ok h -> n <= length h -> heap_ok (firstn n h).
  Proof.
    intros O Hn. unfold heap_ok. rewrite firstn_length_le by exact Hn. intros k Hk. unfold ok_at.
    assert (Hp : parent k < k) by (unfold parent; lia).
    rewrite !firstn_get by lia. apply O. lia.
  Qed.

  Lemma heap_remove_nonempty h i : h <> [] ->
    heap_remove less dflt h i =
    Some (let n := length h - 1 in
          let h1 := if n =? i then h
                    else let hs := swap h i n in
                         let '(hd, moved) := down less dflt hs i n in
                         if moved then hd else up less dflt hd i in
          (get h1 n, firstn n h1)).
  Proof. destruct h; [contradiction | reflexivity]. Qed.

  Theorem remove_correct h i : heap_ok h -> i < length h ->
    exists h', heap_remove less dflt h i = Some (get h i, h') /\ heap_ok h' /\
               Permutation h (get h i :: h') /\ length h = S (length h').
  Proof.
    intros O Hi. assert (Nh : h <> []) by (intro E; rewrite E in Hi; cbn in Hi; lia).
    rewrite (heap_remove_nonempty h i Nh). cbv zeta.
    set (n := length h - 1). assert (Hn : length h = S n) by (unfold n; lia). clearbody n.
    destruct (n =? i) eqn:Eni.
    - apply Nat.eqb_eq in Eni. subst i. exists (firstn n h). split; [reflexivity|].
      split; [apply heap_ok_firstn; [exact O | lia]|].
      split; [|rewrite firstn_length_le by lia; exact Hn].
      rewrite (firstn_snoc_get h n Hn) at 1. apply Permutation_sym, Permutation_cons_append.
    - apply Nat.eqb_neq in Eni. assert (Hin : i < n) by lia.
      set (hs := swap h i n).
      assert (Ls : length hs = length h) by apply swap_length.
      assert (Gs : forall k, get hs k = if k =? n then get h i else if k =? i then get h n else get h k)
        by (intro k; apply get_swap; lia).
      destruct (fix_n_correct hs i n Hin ltac:(lia)) as (K1 & K2 & K3 & K4).
      + split.
        * intros k Hk Nk Np. unfold ok_at. rewrite !Gs.
          assert (Hp : parent k < k) by (unfold parent; lia).
          replace (k =? n) with false by (symmetry; apply Nat.eqb_neq; lia).
          replace (k =? i) with false by (symmetry; apply Nat.eqb_neq; lia).
          replace (parent k =? n) with false by (symmetry; apply Nat.eqb_neq; lia).
          replace (parent k =? i) with false by (symmetry; apply Nat.eqb_neq; lia).
          apply O. lia.
        * intros k Hk Epk E0. rewrite !Gs.
          assert (Hp : parent i < i) by (unfold parent; lia).
          replace (k =? n) with false by (symmetry; apply Nat.eqb_neq; lia).
          replace (k =? i) with false by (symmetry; apply Nat.eqb_neq; unfold parent in *; lia).
          replace (parent i =? n) with false by (symmetry; apply Nat.eqb_neq; lia).
          replace (parent i =? i) with false by (symmetry; apply Nat.eqb_neq; lia).
          apply (nless_trans _ (get h i)).
          -- pose proof (O k ltac:(lia)) as Ok. unfold ok_at in Ok. rewrite Epk in Ok. exact Ok.
          -- apply (O i). lia.
      + set (r := let '(h', moved) := down less dflt hs i n in if moved then h' else up less dflt h' i) in *.
        exists (firstn n r).
        assert (Ex : get r n = get h i) by (rewrite K4 by lia; rewrite Gs, Nat.eqb_refl; reflexivity).
        rewrite Ex. split; [reflexivity|].
        assert (Lr : length r = S n) by lia.
        split; [|split].
        * unfold heap_ok. rewrite firstn_length_le by lia. intros k Hk. unfold ok_at.
          assert (Hp : parent k < k) by (unfold parent; lia).
          rewrite !firstn_get by lia. apply K1. exact Hk.
        * apply Permutation_trans with r; [apply Permutation_trans with hs; [apply swap_perm; lia | exact K3]|].
          rewrite (firstn_snoc_get r n Lr) at 1. rewrite Ex. apply Permutation_sym, Permutation_cons_append.
        * rewrite firstn_length_le by lia. exact Hn.
  Qed.

  (* heap.Init on the empty heap (newStoreHeap) *)
  Lemma init_nil : heap_init less dflt [] = [] /\ heap_ok [].
  Proof. split; [reflexivity | intros k Hk; cbn in Hk; lia]. Qed.
End HeapFacts.
