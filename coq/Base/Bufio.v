(* Base/Bufio.v — the part of bufio.Reader (Go 1.23 src/bufio/bufio.go) that the snapshot
   decoder uses, over a byte list: Peek (tolerating a short result at EOF), Discard,
   single-shot Read, and io.ReadFull on top of Read (src/io/io.go ReadAtLeast).

   The reader below the bufio.Reader is, in loadSnapshot (index/writer.go:465-471),
   countHashReader(io.LimitReader(segment.DataReader)).  All three hand out
   min(len(p), remaining) bytes with a nil error and (0, io.EOF) once nothing remains; they never
   return a short non-empty read followed by more data, and never another error.  That is the
   behaviour modelled for the underlying reader (`und` below); file read errors are outside this
   model (property C14).

   State: br_buf = bytes sitting in the 4096-byte buffer (b.buf[b.r:b.w]); br_rest = bytes the
   underlying reader has not handed out yet.  Everything not in br_rest has been pulled through
   the underlying reader (and therefore hashed by countHashReader).  bufio's fill() slides the
   buffered bytes to the front before reading, so the free space is always 4096 - buffered; the
   sticky b.err is always consumed (readErr) before any of the calls below returns, so it is
   not part of the state.  No proofs here (Base/BufioProofs.v). *)
From Coq Require Import ZArith List Bool.
From Bluge Require Import Base.Res.
Import ListNotations.
Open Scope Z_scope.

Definition bufsize : Z := 4096.           (* bufio.defaultBufSize *)

Definition err_eof : nat := 1%nat.              (* io.EOF *)
Definition err_unexpected_eof : nat := 2%nat.   (* io.ErrUnexpectedEOF *)
Definition err_negative_count : nat := 3%nat.   (* bufio.ErrNegativeCount *)

Record breader := { br_buf : list Z; br_rest : list Z }.

Definition br_init (src : list Z) : breader := {| br_buf := []; br_rest := src |}.
Definition zlen {A} (l : list A) : Z := Z.of_nat (length l).
Definition buffered (r : breader) : Z := zlen (br_buf r).             (* b.Buffered() *)
Definition stream (r : breader) : list Z := br_buf r ++ br_rest r.   (* what is still to be read *)
Definition ztake {A} (n : Z) (l : list A) : list A := firstn (Z.to_nat n) l.
Definition zdrop {A} (n : Z) (l : list A) : list A := skipn (Z.to_nat n) l.

(* b.fill(): one read of the underlying reader into the free space; true = it returned io.EOF.
   bufio.go:100-124 *)
Definition fill (r : breader) : breader * bool :=
  match br_rest r with
  | [] => (r, true)
  | _ => let space := bufsize - buffered r in
         ({| br_buf := br_buf r ++ ztake space (br_rest r); br_rest := zdrop space (br_rest r) |}, false)
  end.

(* b.Peek(n) for 0 <= n <= 4096 (bufio.go:139-165): fill while fewer than n bytes are buffered
   and no error; with the underlying reader above that is at most one productive fill followed
   by the fill that meets EOF.  Result: (bytes, err == io.EOF, reader). *)
Definition peek (n : Z) (r : breader) : list Z * bool * breader :=
  if n <=? buffered r then (ztake n (br_buf r), false, r)
  else let '(r1, _) := fill r in
       if n <=? buffered r1 then (ztake n (br_buf r1), false, r1)
       else (br_buf r1, true, r1).

(* b.Discard(n) (bufio.go:171-198).  fuel bounds the fill loop. *)
Fixpoint discard_loop (fuel : nat) (n remain : Z) (r : breader) : res (Z * breader) :=
  match fuel with
  | O => OutOfFuel
  | S f =>
      let '(r1, eof) := if buffered r =? 0 then fill r else (r, false) in
      let skip := Z.min (buffered r1) remain in
      let r2 := {| br_buf := zdrop skip (br_buf r1); br_rest := br_rest r1 |} in
      if remain - skip =? 0 then Ok (n, r2)
      else if eof then Err err_eof
      else discard_loop f n (remain - skip) r2
  end.
Definition discard (n : Z) (r : breader) : res (Z * breader) :=
  if n <? 0 then Err err_negative_count
  else if n =? 0 then Ok (0, r)
  else discard_loop (S (Z.to_nat n)) n n r.

(* b.Read(p) with len(p) = k (bufio.go:213-258): one copy from the buffer, or — buffer empty —
   one read of the underlying reader (directly into p when k >= 4096, else into the buffer).
   Result: (bytes read, err == io.EOF, reader); never a short read *and* an error. *)
Definition bread (k : Z) (r : breader) : list Z * bool * breader :=
  if k <=? 0 then ([], false, r)
  else match br_buf r with
       | [] =>
           match br_rest r with
           | [] => ([], true, r)
           | rest =>
               if bufsize <=? k then
                 (ztake k rest, false, {| br_buf := []; br_rest := zdrop k rest |})
               else
                 let b1 := ztake bufsize rest in
                 (ztake k b1, false, {| br_buf := zdrop k b1; br_rest := zdrop bufsize rest |})
           end
       | buf => (ztake k buf, false, {| br_buf := zdrop k buf; br_rest := br_rest r |})
       end.

(* io.ReadFull(br, p) with len(p) = k: Read until k bytes or an error; io.EOF after some bytes
   becomes io.ErrUnexpectedEOF (io.go ReadAtLeast).  At most three Reads are needed (buffer,
   one underlying read, the read that meets EOF). *)
Fixpoint read_full_aux (fuel : nat) (k : Z) (acc : list Z) (r : breader) : res (list Z * breader) :=
  if k <=? zlen acc then Ok (acc, r)
  else match fuel with
       | O => OutOfFuel
       | S f =>
           let '(bs, eof, r1) := bread (k - zlen acc) r in
           if eof then (match acc with [] => Err err_eof | _ => Err err_unexpected_eof end)
           else read_full_aux f k (acc ++ bs) r1
       end.
Definition read_full (k : Z) (r : breader) : res (list Z * breader) := read_full_aux 4 k [] r.
