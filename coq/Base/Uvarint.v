(* Base/Uvarint.v — encoding/binary PutUvarint / Uvarint as the snapshot codec uses them
   (Go 1.23 src/encoding/binary/varint.go).  No proofs here (Base/UvarintProofs live in
   Index/SnapshotCodecProofs.v, section "uvarint").

   func PutUvarint(buf []byte, x uint64) int {
       i := 0
       for x >= 0x80 { buf[i] = byte(x) | 0x80; x >>= 7; i++ }
       buf[i] = byte(x)
       return i + 1 }

   func Uvarint(buf []byte) (uint64, int) {
       var x uint64; var s uint
       for i, b := range buf {
           if i == MaxVarintLen64 { return 0, -(i + 1) }            // overflow
           if b < 0x80 {
               if i == MaxVarintLen64-1 && b > 1 { return 0, -(i + 1) } // overflow
               return x | uint64(b)<<s, i + 1 }
           x |= uint64(b&0x7f) << s
           s += 7 }
       return 0, 0 }                                                 // buffer too small
*)
From Coq Require Import ZArith List Bool.
Import ListNotations.
Open Scope Z_scope.

Definition max_varint_len64 : Z := 10.

(* byte(x) | 0x80 = x mod 128 + 128 ; x >>= 7 = x / 128.  A uint64 needs at most 10 bytes:
   the fuel 9 is never exhausted for x < 2^64 (put_uvarint_length in the proofs). *)
Fixpoint put_uvarint_aux (fuel : nat) (x : Z) : list Z :=
  match fuel with
  | O => [x]
  | S f => if 128 <=? x then (x mod 128 + 128) :: put_uvarint_aux f (x / 128) else [x]
  end.
Definition put_uvarint (x : Z) : list Z := put_uvarint_aux 9 x.

(* i = index of the byte being looked at, x = value accumulated so far (always < 2^(7 i),
   so `|` is `+`), returns (value, n).  uint64(b&0x7f) << s wraps for s = 63, but on that
   path (a tenth continuation byte) the accumulated value is never returned. *)
Fixpoint uvarint_aux (buf : list Z) (i : Z) (x : Z) : Z * Z :=
  match buf with
  | [] => (0, 0)
  | b :: t =>
      if i =? max_varint_len64 then (0, - (i + 1))
      else if b <? 128 then
        (if (i =? max_varint_len64 - 1) && (1 <? b) then (0, - (i + 1))
         else (x + b * 2 ^ (7 * i), i + 1))
      else uvarint_aux t (i + 1) (x + (b - 128) * 2 ^ (7 * i))
  end.
Definition uvarint (buf : list Z) : Z * Z := uvarint_aux buf 0 0.

(* binary.BigEndian.PutUint32 / Uint32 *)
Definition put_be32 (v : Z) : list Z :=
  [ (v / 16777216) mod 256; (v / 65536) mod 256; (v / 256) mod 256; v mod 256 ].
Definition be32 (b : list Z) : Z :=
  match b with
  | [b0; b1; b2; b3] => b0 * 16777216 + b1 * 65536 + b2 * 256 + b3
  | _ => 0
  end.

Definition is_byte (b : Z) : bool := (0 <=? b) && (b <? 256).
Definition bytes_ok (l : list Z) : bool := forallb is_byte l.
