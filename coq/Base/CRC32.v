(* Base/CRC32.v — IEEE CRC-32 as hash/crc32 computes it (crc32.Update(crc, crc32.IEEETable, p),
   index/count.go:41,71).  Two forms: the bit-serial definition (reflected polynomial
   0xedb88320, one shift per message bit) and the byte-table form that Go's generic
   implementation uses (src/hash/crc32/crc32_generic.go simpleUpdate):

       crc = ^crc
       for _, v := range p { crc = tab[byte(crc)^v] ^ (crc >> 8) }
       return ^crc

   with tab[i] = the bit-serial register after 8 steps started from i (simpleMakeTable).
   The slicing-by-8 and the amd64/arm64 assembly paths are defined by Go to return the same
   value; that part is trusted and sampled by the correspondence engine (CCrc cases).
   No proofs here; Base/CRC32Proofs.v has them. *)
From Coq Require Import ZArith List.
Import ListNotations.
Open Scope Z_scope.

Definition crc_poly : Z := 3988292384.      (* 0xedb88320 *)
Definition mask32 : Z := 4294967295.        (* 0xffffffff *)

(* one message bit: shift right, conditionally subtract the polynomial *)
Definition crc_step1 (c : Z) : Z :=
  if Z.odd c then Z.lxor (Z.shiftr c 1) crc_poly else Z.shiftr c 1.

Definition crc_step8 (c : Z) : Z :=
  crc_step1 (crc_step1 (crc_step1 (crc_step1 (crc_step1 (crc_step1 (crc_step1 (crc_step1 c))))))).

(* one message byte, bit-serial: xor the byte into the low bits, 8 steps *)
Definition crc_byte (c b : Z) : Z := crc_step8 (Z.lxor c b).

(* register update over a message (no complement) *)
Fixpoint crc_raw (c : Z) (m : list Z) : Z :=
  match m with
  | [] => c
  | b :: t => crc_raw (crc_byte c b) t
  end.

(* crc32.Update(crc, IEEETable, p) *)
Definition crc32_update (crc : Z) (p : list Z) : Z :=
  Z.lxor (crc_raw (Z.lxor crc mask32) p) mask32.

(* crc32.ChecksumIEEE(p) = Update(0, IEEETable, p) *)
Definition crc32 (p : list Z) : Z := crc32_update 0 p.

(* ---- table form ---- *)
Definition crc_table : list Z := map (fun i => crc_step8 (Z.of_nat i)) (seq 0 256).

Definition crc_byte_tab (c b : Z) : Z :=
  Z.lxor (nth (Z.to_nat (Z.land (Z.lxor c b) 255)) crc_table 0) (Z.shiftr c 8).

Fixpoint crc_raw_tab (c : Z) (m : list Z) : Z :=
  match m with
  | [] => c
  | b :: t => crc_raw_tab (crc_byte_tab c b) t
  end.

Definition crc32_update_tab (crc : Z) (p : list Z) : Z :=
  Z.lxor (crc_raw_tab (Z.lxor crc mask32) p) mask32.

(* the first entries of Go's IEEETable, as published (used as an anchor Example) *)
Definition crc_table_head : list Z :=
  [0; 1996959894; 3993919788; 2567524794; 124634137; 1886057615; 3915621685; 2657392035].

(* flipping bit j (0..7) of byte i of a message *)
Fixpoint flip_bit (m : list Z) (i : nat) (j : Z) : list Z :=
  match m, i with
  | [], _ => []
  | b :: t, O => Z.lxor b (2 ^ j) :: t
  | b :: t, S i' => b :: flip_bit t i' j
  end.
