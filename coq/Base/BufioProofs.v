(* Base/BufioProofs.v — stream-level specifications of the bufio.Reader model (Base/Bufio.v):
   what Peek / Discard / Read / io.ReadFull return in terms of the bytes still to be read
   (`stream`), for a reader whose buffer holds at most 4096 bytes (`wf`). *)
From Coq Require Import ZArith List Bool Lia.
From Coq Require Import ZifyBool.
From Bluge Require Import Base.Res Base.Bufio.
Import ListNotations.
Open Scope Z_scope.

Definition wf (r : breader) : Prop := buffered r <= bufsize.

Lemma wf_init src : wf (br_init src).
Proof. unfold wf, buffered, br_init, zlen, bufsize. simpl. lia. Qed.

Lemma stream_init src : stream (br_init src) = src.
Proof. reflexivity. Qed.
Lemma stream_mk b r : stream {| br_buf := b; br_rest := r |} = b ++ r.
Proof. reflexivity. Qed.

(* ---- list helpers over Z indices ---- *)
Lemma zlen_app {A} (a b : list A) : zlen (a ++ b) = zlen a + zlen b.
Proof. unfold zlen. rewrite app_length. lia. Qed.
Lemma zlen_nonneg {A} (l : list A) : 0 <= zlen l.
Proof. unfold zlen. lia. Qed.
Lemma zlen_nil_iff {A} (l : list A) : zlen l = 0 <-> l = [].
Proof. unfold zlen. destruct l; simpl; split; intros H; try reflexivity; try discriminate; lia. Qed.
Lemma zlen_ztake {A} n (l : list A) : 0 <= n -> zlen (ztake n l) = Z.min n (zlen l).
Proof. intros. unfold zlen, ztake. rewrite firstn_length. lia. Qed.
Lemma zlen_zdrop {A} n (l : list A) : 0 <= n -> zlen (zdrop n l) = Z.max 0 (zlen l - n).
Proof. intros. unfold zlen, zdrop. rewrite skipn_length. lia. Qed.
Lemma ztake_zdrop {A} n (l : list A) : ztake n l ++ zdrop n l = l.
Proof. unfold ztake, zdrop. apply firstn_skipn. Qed.
Lemma ztake_all {A} n (l : list A) : zlen l <= n -> ztake n l = l.
Proof. intros. unfold ztake, zlen in *. apply firstn_all2. lia. Qed.
Lemma zdrop_all {A} n (l : list A) : zlen l <= n -> zdrop n l = [].
Proof. intros. unfold zdrop, zlen in *. apply skipn_all2. lia. Qed.
Lemma ztake_nonpos {A} n (l : list A) : n <= 0 -> ztake n l = [].
Proof. intros. unfold ztake. replace (Z.to_nat n) with 0%nat by lia. reflexivity. Qed.
Lemma zdrop_nonpos {A} n (l : list A) : n <= 0 -> zdrop n l = l.
Proof. intros. unfold zdrop. replace (Z.to_nat n) with 0%nat by lia. reflexivity. Qed.
Lemma ztake_app_l {A} n (a b : list A) : n <= zlen a -> ztake n (a ++ b) = ztake n a.
Proof.
  intros. unfold ztake, zlen in *. rewrite firstn_app.
  replace (Z.to_nat n - length a)%nat with 0%nat by lia. simpl. apply app_nil_r.
Qed.
Lemma ztake_app_r {A} n (a b : list A) : zlen a <= n -> ztake n (a ++ b) = a ++ ztake (n - zlen a) b.
Proof.
  intros. unfold ztake, zlen in *. rewrite firstn_app. rewrite firstn_all2 by lia.
  f_equal. f_equal. lia.
Qed.
Lemma zdrop_app_l {A} n (a b : list A) : 0 <= n <= zlen a -> zdrop n (a ++ b) = zdrop n a ++ b.
Proof.
  intros. unfold zdrop, zlen in *. rewrite skipn_app.
  replace (Z.to_nat n - length a)%nat with 0%nat by lia. reflexivity.
Qed.
Lemma zdrop_app_r {A} n (a b : list A) : zlen a <= n -> zdrop n (a ++ b) = zdrop (n - zlen a) b.
Proof.
  intros. unfold zdrop, zlen in *. rewrite skipn_app. rewrite skipn_all2 by lia.
  simpl. f_equal. lia.
Qed.
Lemma zdrop_app_exact {A} (a b : list A) : zdrop (zlen a) (a ++ b) = b.
Proof. rewrite zdrop_app_r by lia. replace (zlen a - zlen a) with 0 by lia. apply zdrop_nonpos. lia. Qed.
Lemma ztake_app_exact {A} (a b : list A) : ztake (zlen a) (a ++ b) = a.
Proof. rewrite ztake_app_l by lia. apply ztake_all. lia. Qed.
Lemma skipn_skipn' {A} : forall (y x : nat) (l : list A), skipn x (skipn y l) = skipn (y + x) l.
Proof.
  induction y as [|y IH]; intros x l; [reflexivity|].
  destruct l as [|a l]; [rewrite !skipn_nil; reflexivity|]. simpl. apply IH.
Qed.
Lemma zdrop_zdrop {A} n m (l : list A) : 0 <= n -> 0 <= m -> zdrop n (zdrop m l) = zdrop (m + n) l.
Proof.
  intros. unfold zdrop. rewrite skipn_skipn'. f_equal. lia.
Qed.
Lemma ztake_min {A} n (l : list A) : ztake (Z.min n (zlen l)) l = ztake n l.
Proof.
  destruct (Z_le_gt_dec n (zlen l)).
  - replace (Z.min n (zlen l)) with n by lia. reflexivity.
  - replace (Z.min n (zlen l)) with (zlen l) by lia. rewrite !ztake_all by lia. reflexivity.
Qed.
Lemma zdrop_min {A} n (l : list A) : zdrop (Z.min n (zlen l)) l = zdrop n l.
Proof.
  destruct (Z_le_gt_dec n (zlen l)).
  - replace (Z.min n (zlen l)) with n by lia. reflexivity.
  - replace (Z.min n (zlen l)) with (zlen l) by lia. rewrite !zdrop_all by lia. reflexivity.
Qed.
Lemma firstn_firstn_skipn {A} : forall (a b : nat) (l : list A),
  firstn a l ++ firstn b (skipn a l) = firstn (a + b) l.
Proof.
  induction a as [|a IH]; intros b l; [reflexivity|].
  destruct l as [|x l]; [simpl; rewrite firstn_nil; reflexivity|]. simpl. f_equal. apply IH.
Qed.
Lemma ztake_ztake_app {A} n m (l : list A) : 0 <= n -> 0 <= m ->
  ztake n l ++ ztake m (zdrop n l) = ztake (n + m) l.
Proof.
  intros. unfold ztake, zdrop. rewrite firstn_firstn_skipn. f_equal. lia.
Qed.

(* ---- Peek ---- *)
Lemma fill_spec r : wf r ->
  let '(r1, eof) := fill r in
  stream r1 = stream r /\ wf r1 /\ br_buf r = ztake (buffered r) (br_buf r1) /\
  (eof = true -> br_rest r = [] /\ r1 = r) /\
  (eof = false -> buffered r1 = Z.min bufsize (zlen (stream r)) \/ buffered r >= bufsize) /\
  zlen (br_rest r1) <= zlen (br_rest r).
Proof.
  intros Hwf. unfold fill. destruct (br_rest r) as [|x rest] eqn:Er.
  - repeat split; try reflexivity; try assumption; try discriminate.
    + unfold buffered. symmetry. apply ztake_all. lia.
    + rewrite Er. lia.
  - unfold wf, buffered in *. set (space := bufsize - zlen (br_buf r)).
    assert (Hsp : 0 <= space) by (unfold space; lia).
    rewrite ?stream_mk; cbn [br_buf br_rest].
    repeat split.
    + unfold stream. rewrite Er. rewrite <- app_assoc. rewrite ztake_zdrop. reflexivity.
    + rewrite zlen_app, zlen_ztake by lia. unfold space. lia.
    + rewrite ztake_app_l by lia. symmetry. apply ztake_all. lia.
    + discriminate.
    + discriminate.
    + intros _. left. rewrite zlen_app, zlen_ztake by lia. unfold stream. rewrite Er, zlen_app. unfold space. lia.
    + rewrite zlen_zdrop by lia. pose proof (zlen_nonneg (x :: rest)). lia.
Qed.

Lemma peek_spec n r : wf r -> 0 <= n <= bufsize ->
  let '(pk, eof, r1) := peek n r in
  stream r1 = stream r /\ wf r1 /\ zlen pk <= buffered r1 /\
  zlen (br_rest r1) <= zlen (br_rest r) /\
  (eof = false -> pk = ztake n (stream r) /\ n <= zlen (stream r)) /\
  (eof = true -> pk = stream r /\ zlen (stream r) < n /\ br_rest r1 = []).
Proof.
  intros Hwf Hn. unfold peek.
  destruct (n <=? buffered r) eqn:E.
  - repeat split; try assumption; try discriminate; try lia.
    + rewrite zlen_ztake by lia. unfold buffered in *. lia.
    + unfold stream. rewrite ztake_app_l by (unfold buffered in E; lia). reflexivity.
    + unfold stream. rewrite zlen_app. unfold buffered in E. pose proof (zlen_nonneg (br_rest r)). lia.
  - pose proof (fill_spec r Hwf) as Hf. destruct (fill r) as [r1 eof1].
    destruct Hf as (Hs & Hw1 & Hpre & Heof & Hne & Hrest).
    destruct (n <=? buffered r1) eqn:E1.
    + repeat split; try assumption; try discriminate.
      * rewrite zlen_ztake by lia. lia.
      * rewrite <- Hs. unfold stream. rewrite ztake_app_l by (unfold buffered in E1; lia). reflexivity.
      * rewrite <- Hs. unfold stream. rewrite zlen_app. unfold buffered in E1. pose proof (zlen_nonneg (br_rest r1)). lia.
    + (* still short: everything has been pulled *)
      assert (Hall : br_rest r1 = []).
      { destruct eof1.
        - destruct (Heof eq_refl) as [Hr ->]. exact Hr.
        - destruct (Hne eq_refl) as [Hb|Hb]; [|unfold wf in Hwf; lia].
          apply zlen_nil_iff. rewrite <- Hs in Hb. unfold stream in Hb. rewrite zlen_app in Hb.
          unfold buffered in *. pose proof (zlen_nonneg (br_rest r1)). lia. }
      repeat split; try assumption; try discriminate.
      * unfold buffered. lia.
      * rewrite <- Hs. unfold stream. rewrite Hall, app_nil_r. reflexivity.
      * rewrite <- Hs. unfold stream. rewrite Hall, app_nil_r. unfold buffered in E1. lia.
Qed.

(* ---- Discard within the buffer ---- *)
Lemma discard_spec n r : wf r -> 0 <= n <= buffered r ->
  exists r1, discard n r = Ok (n, r1) /\ stream r1 = zdrop n (stream r) /\ wf r1 /\
             br_rest r1 = br_rest r.
Proof.
  intros Hwf Hn. unfold discard.
  replace (n <? 0) with false by lia.
  destruct (n =? 0) eqn:E0.
  - exists r. assert (n = 0) by lia. subst. rewrite zdrop_nonpos by lia. repeat split; try assumption; reflexivity.
  - cbn [discard_loop].
    replace (buffered r =? 0) with false by lia.
    replace (Z.min (buffered r) n) with n by lia.
    replace (n - n =? 0) with true by lia.
    eexists. split; [reflexivity|]. rewrite ?stream_mk; cbn [br_buf br_rest].
    repeat split.
    + unfold stream. rewrite zdrop_app_l by (unfold buffered in Hn; lia). reflexivity.
    + unfold wf, buffered in *. cbn [br_buf]. rewrite zlen_zdrop by lia. lia.
Qed.

Lemma discard_neg n r : n < 0 -> discard n r = Err err_negative_count.
Proof. intros. unfold discard. replace (n <? 0) with true by lia. reflexivity. Qed.

(* ---- Read ---- *)
Lemma bread_spec k r : wf r -> 0 < k ->
  let '(bs, eof, r1) := bread k r in
  (eof = true -> bs = [] /\ stream r = [] /\ r1 = r) /\
  (eof = false ->
     bs = ztake (zlen bs) (stream r) /\ stream r1 = zdrop (zlen bs) (stream r) /\
     0 < zlen bs <= k /\ wf r1 /\ zlen (br_rest r1) <= zlen (br_rest r) /\
     (zlen bs < k -> br_buf r1 = []) /\ (zlen bs < k -> br_buf r = [] -> br_rest r1 = [])).
Proof.
  intros Hwf Hk. unfold bread.
  replace (k <=? 0) with false by lia.
  destruct (br_buf r) as [|b0 buf] eqn:Eb.
  - destruct (br_rest r) as [|x0 rest] eqn:Er.
    + split; [|discriminate]. intros _. unfold stream. rewrite Eb, Er. auto.
    + set (R := x0 :: rest) in *.
      assert (HR : 0 < zlen R) by (unfold R, zlen; simpl length; lia).
      assert (Hst : stream r = R) by (unfold stream; rewrite Eb, Er; reflexivity).
      destruct (bufsize <=? k) eqn:Ek.
      * split; [discriminate|]. intros _. rewrite ?stream_mk; cbn [br_buf br_rest app]. rewrite Hst.
        rewrite zlen_ztake by lia.
        split; [rewrite ztake_min; reflexivity|].
        split; [rewrite zdrop_min; reflexivity|].
        split; [lia|].
        split; [unfold wf, buffered, bufsize; cbn [br_buf]; unfold zlen; simpl; lia|].
        split; [rewrite zlen_zdrop by lia; lia|].
        split; [reflexivity|]. intros Hlt _. apply zdrop_all. lia.
      * split; [discriminate|]. intros _. rewrite ?stream_mk; cbn [br_buf br_rest]. rewrite Hst.
        set (b1 := ztake bufsize R).
        assert (Hbs : bufsize = 4096) by reflexivity.
        assert (Hb1 : zlen b1 = Z.min bufsize (zlen R)) by (unfold b1; apply zlen_ztake; lia).
        assert (Hbs' : ztake k b1 = ztake k R).
        { destruct (Z_le_gt_dec (zlen R) bufsize).
          - unfold b1. rewrite (ztake_all bufsize R) by lia. reflexivity.
          - unfold b1. rewrite <- (ztake_zdrop bufsize R) at 2. rewrite ztake_app_l; [reflexivity|].
            rewrite zlen_ztake by lia. lia. }
        rewrite zlen_ztake by lia. rewrite Hb1.
        assert (Hmin : Z.min k (Z.min bufsize (zlen R)) = Z.min k (zlen R)) by lia.
        rewrite Hmin.
        split; [rewrite Hbs'; rewrite ztake_min; reflexivity|].
        split.
        { rewrite zdrop_min.
          destruct (Z_le_gt_dec k (Z.min bufsize (zlen R))) as [Hle|Hgt].
          - unfold b1. rewrite <- (ztake_zdrop bufsize R) at 3.
            rewrite zdrop_app_l; [reflexivity|]. rewrite zlen_ztake by lia. lia.
          - rewrite (zdrop_all k b1) by lia. rewrite (zdrop_all bufsize R) by lia.
            rewrite zdrop_all by lia. reflexivity. }
        split; [lia|].
        split; [unfold wf, buffered; cbn [br_buf]; rewrite zlen_zdrop by lia; lia|].
        split; [rewrite zlen_zdrop by lia; lia|].
        split; [intros Hlt; apply zdrop_all; lia|]. intros Hlt _. apply zdrop_all. lia.
  - set (B := b0 :: buf) in *.
    assert (HB : 0 < zlen B) by (unfold B, zlen; simpl length; lia).
    split; [discriminate|]. intros _. rewrite ?stream_mk; cbn [br_buf br_rest].
    assert (Hst : stream r = B ++ br_rest r) by (unfold stream; rewrite Eb; reflexivity).
    rewrite Hst. rewrite zlen_ztake by lia.
    assert (Hm : Z.min k (zlen B) <= zlen B) by lia.
    split; [rewrite ztake_app_l by lia; rewrite ztake_min; reflexivity|].
    split; [rewrite zdrop_app_l by lia; rewrite zdrop_min; reflexivity|].
    split; [lia|].
    split; [unfold wf, buffered in *; cbn [br_buf]; rewrite Eb in Hwf; fold B in Hwf; rewrite zlen_zdrop by lia; lia|].
    split; [lia|].
    split; [intros Hlt; apply zdrop_all; lia|]. intros _ Hnil. discriminate.
Qed.

(* ---- io.ReadFull ---- *)
Definition need (r : breader) : nat :=
  match br_buf r, br_rest r with
  | [], [] => 1%nat
  | [], _ => 2%nat
  | _, _ => 3%nat
  end.

Lemma read_full_aux_spec : forall fuel k acc r,
  wf r -> zlen acc <= k -> (need r <= fuel)%nat ->
  (k <= zlen (acc ++ stream r) ->
     exists r1, read_full_aux fuel k acc r = Ok (ztake k (acc ++ stream r), r1) /\
                stream r1 = zdrop k (acc ++ stream r) /\ wf r1 /\ zlen (br_rest r1) <= zlen (br_rest r)) /\
  (zlen (acc ++ stream r) < k -> exists c, read_full_aux fuel k acc r = Err c).
Proof.
  induction fuel as [|fuel IH]; intros k acc r Hwf Hacc Hneed.
  - unfold need in Hneed. destruct (br_buf r), (br_rest r); lia.
  - cbn [read_full_aux].
    destruct (k <=? zlen acc) eqn:Ek.
    + assert (Hk : zlen acc = k) by lia.
      split.
      * intros _. exists r. rewrite <- Hk. rewrite ztake_app_exact, zdrop_app_exact. repeat split; try assumption; lia.
      * rewrite zlen_app. pose proof (zlen_nonneg (stream r)). lia.
    + pose proof (bread_spec (k - zlen acc) r Hwf ltac:(lia)) as Hb.
      destruct (bread (k - zlen acc) r) as [[bs eof] r1].
      destruct Hb as [Heof Hne].
      destruct eof.
      * destruct (Heof eq_refl) as (-> & Hs & ->).
        split.
        -- rewrite Hs, app_nil_r. lia.
        -- intros _. destruct acc; eexists; reflexivity.
      * destruct (Hne eq_refl) as (Hbs & Hs1 & Hlen & Hw1 & Hrest & Hshort1 & Hshort2).
        assert (Hsr : stream r = bs ++ stream r1).
        { rewrite Hs1. rewrite <- (ztake_zdrop (zlen bs) (stream r)) at 1. rewrite <- Hbs. reflexivity. }
        assert (Hsplit : acc ++ stream r = (acc ++ bs) ++ stream r1).
        { rewrite Hsr. apply app_assoc. }
        destruct (Z_le_gt_dec (k - zlen acc) (zlen bs)) as [Hfull|Hshort].
        -- (* complete: the next call returns at its first test *)
           assert (Hk : zlen (acc ++ bs) = k) by (rewrite zlen_app; lia).
           assert (E : read_full_aux fuel k (acc ++ bs) r1 = Ok (acc ++ bs, r1)).
           { destruct fuel; cbn [read_full_aux]; replace (k <=? zlen (acc ++ bs)) with true by lia; reflexivity. }
           rewrite E. rewrite Hsplit. rewrite <- Hk. rewrite ztake_app_exact, zdrop_app_exact.
           split.
           ++ intros _. exists r1. repeat split; try assumption.
           ++ rewrite zlen_app. pose proof (zlen_nonneg (stream r1)). lia.
        -- (* short: the reader has moved to a lower stage *)
           assert (Hn1 : (need r1 <= fuel)%nat).
           { specialize (Hshort1 ltac:(lia)). unfold need in *. rewrite Hshort1.
             destruct (br_buf r) eqn:Eb.
             - rewrite (Hshort2 ltac:(lia) eq_refl). destruct (br_rest r) eqn:Er; [|lia].
               exfalso. assert (Hnil : stream r = []) by (unfold stream; rewrite Eb, Er; reflexivity).
               rewrite Hnil in Hbs. unfold ztake in Hbs. rewrite firstn_nil in Hbs. subst bs.
               unfold zlen in Hlen. simpl in Hlen. lia.
             - destruct (br_rest r1); lia. }
           specialize (IH k (acc ++ bs) r1 Hw1 ltac:(rewrite zlen_app; lia) Hn1).
           rewrite Hsplit. destruct IH as [IHok IHerr].
           split.
           ++ intros Hge. destruct (IHok Hge) as (r2 & E2 & Hs2 & Hw2 & Hr2).
              exists r2. repeat split; try assumption. lia.
           ++ exact IHerr.
Qed.

Lemma read_full_spec k r : wf r -> 0 <= k ->
  (k <= zlen (stream r) ->
     exists r1, read_full k r = Ok (ztake k (stream r), r1) /\ stream r1 = zdrop k (stream r) /\ wf r1 /\
                zlen (br_rest r1) <= zlen (br_rest r)) /\
  (zlen (stream r) < k -> exists c, read_full k r = Err c).
Proof.
  intros Hwf Hk. unfold read_full.
  assert (Hneed : (need r <= 4)%nat) by (unfold need; destruct (br_buf r), (br_rest r); lia).
  pose proof (read_full_aux_spec 4 k [] r Hwf ltac:(unfold zlen; simpl; lia) Hneed) as H.
  simpl app in H. exact H.
Qed.
