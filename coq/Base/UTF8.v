(* Base/UTF8.v — Go's unicode/utf8 on byte lists (bytes = Z in [0,256), runes = Z).
   Modelled after go/src/unicode/utf8/utf8.go: DecodeRune, DecodeLastRune, RuneCount, Valid,
   EncodeRune, RuneLen, RuneStart, ValidRune.  An invalid or short sequence decodes to
   (RuneError = U+FFFD, width 1); the empty input to (RuneError, 0).
   Bit operations of the Go source are written arithmetically (p0 & 0x1F = p0 - 0xC0 for a
   2-byte lead, b & 0x3F = b - 0x80 for a continuation byte, `|` of disjoint fields = +).
   No proofs here (see Base/UTF8Proofs.v).

   INTERFACE (stable, imported read-only by other areas):
     rune_error rune_self utf_max max_rune : Z
     rune_start : Z -> bool                      utf8.RuneStart
     decode_rune : list Z -> Z * nat             utf8.DecodeRune
     decode_last_rune : list Z -> Z * nat        utf8.DecodeLastRune
     encode_rune : Z -> list Z                   utf8.EncodeRune / AppendRune
     rune_len : Z -> Z                           utf8.RuneLen (-1 when not encodable)
     valid_rune : Z -> bool                      utf8.ValidRune
     valid_utf8 : list Z -> bool                 utf8.Valid
     rune_count : list Z -> nat                  utf8.RuneCount
     decode_all : list Z -> list (Z * nat)       the `for i, r := range string(p)` walk
     runes : list Z -> list Z                    []rune(string(p))
     encode_runes : list Z -> list Z             string([]rune)
     bytes_ok : list Z -> bool                   every element in [0,256)            *)
From Coq Require Import ZArith List Bool.
Import ListNotations.
Open Scope Z_scope.

Definition rune_error : Z := 65533.      (* utf8.RuneError = '�' *)
Definition rune_self : Z := 128.         (* utf8.RuneSelf *)
Definition utf_max : nat := 4.           (* utf8.UTFMax *)
Definition max_rune : Z := 1114111.      (* utf8.MaxRune = '\U0010FFFF' *)
Definition surrogate_min : Z := 55296.   (* 0xD800 *)
Definition surrogate_max : Z := 57343.   (* 0xDFFF *)

Definition byte_ok (b : Z) : bool := (0 <=? b) && (b <? 256).
Definition bytes_ok (p : list Z) : bool := forallb byte_ok p.

(* continuation byte: locb = 0x80 <= b <= hicb = 0xBF *)
Definition is_cont (b : Z) : bool := (128 <=? b) && (b <=? 191).

(* utf8.RuneStart: b&0xC0 != 0x80 *)
Definition rune_start (b : Z) : bool := negb (is_cont b).

(* first[p0]: number of bytes announced by a lead byte (0 = xx: invalid lead) *)
Definition lead_size (p0 : Z) : nat :=
  if p0 <? 194 then 0            (* 0x80..0xC1: xx (ASCII is handled before) *)
  else if p0 <? 224 then 2       (* 0xC2..0xDF: s1 *)
  else if p0 <? 240 then 3       (* 0xE0..0xEF: s2 s3 s4 *)
  else if p0 <? 245 then 4       (* 0xF0..0xF4: s5 s6 s7 *)
  else 0.                        (* 0xF5..0xFF: xx *)

(* acceptRanges[first[p0]>>4]: allowed range of the second byte *)
Definition accept_lo (p0 : Z) : Z := if p0 =? 224 then 160 else if p0 =? 240 then 144 else 128.
Definition accept_hi (p0 : Z) : Z := if p0 =? 237 then 159 else if p0 =? 244 then 143 else 191.

(* utf8.DecodeRune (utf8.go:151-205) *)
Definition decode_rune (p : list Z) : Z * nat :=
  match p with
  | [] => (rune_error, 0%nat)
  | p0 :: t =>
      if p0 <? rune_self then (p0, 1%nat)
      else
        match lead_size p0, t with
        | 2%nat, b1 :: _ =>
            if (b1 <? accept_lo p0) || (accept_hi p0 <? b1) then (rune_error, 1%nat)
            else ((p0 - 192) * 64 + (b1 - 128), 2%nat)
        | 3%nat, b1 :: b2 :: _ =>
            if (b1 <? accept_lo p0) || (accept_hi p0 <? b1) then (rune_error, 1%nat)
            else if negb (is_cont b2) then (rune_error, 1%nat)
            else ((p0 - 224) * 4096 + (b1 - 128) * 64 + (b2 - 128), 3%nat)
        | 4%nat, b1 :: b2 :: b3 :: _ =>
            if (b1 <? accept_lo p0) || (accept_hi p0 <? b1) then (rune_error, 1%nat)
            else if negb (is_cont b2) then (rune_error, 1%nat)
            else if negb (is_cont b3) then (rune_error, 1%nat)
            else ((p0 - 240) * 262144 + (b1 - 128) * 4096 + (b2 - 128) * 64 + (b3 - 128), 4%nat)
        | _, _ => (rune_error, 1%nat)   (* invalid lead byte, or n < sz *)
        end
  end.

(* scan downwards from index i for a byte with RuneStart *)
Fixpoint scan_back (i : nat) (t : list Z) : option nat :=
  if rune_start (nth i t 0) then Some i
  else match i with
       | O => None
       | S i' => scan_back i' t
       end.

(* utf8.DecodeLastRune (utf8.go:247-281).  Only the last UTFMax bytes are looked at (lim);
   when none of them but the last... is a rune start, Go decodes from lim-1 (or 0) and the
   width test `start+size != end` decides. *)
Definition decode_last_rune (p : list Z) : Z * nat :=
  let n := length p in
  match n with
  | O => (rune_error, 0%nat)
  | _ =>
      let last := nth (n - 1) p 0 in
      if last <? rune_self then (last, 1%nat)
      else
        let tl4 := skipn (n - utf_max) p in        (* p[lim:end], lim = max 0 (end-4) *)
        let m := length tl4 in
        let start :=
          match m with
          | S (S m2) =>                             (* for start = end-2; start >= lim; start-- *)
              match scan_back m2 tl4 with
              | Some i => Some i
              | None => if (utf_max <? n)%nat then None else Some 0%nat
              end
          | _ => Some 0%nat                         (* end = 1: start = -1 -> 0 *)
          end in
        match start with
        | None => (rune_error, 1%nat)               (* start = end-5: five bytes never decode to width 5 *)
        | Some i =>
            let '(r, size) := decode_rune (skipn i tl4) in
            if (i + size =? m)%nat then (r, size) else (rune_error, 1%nat)
        end
  end.

(* utf8.ValidRune *)
Definition valid_rune (r : Z) : bool :=
  ((0 <=? r) && (r <? surrogate_min)) || ((surrogate_max <? r) && (r <=? max_rune)).

(* utf8.RuneLen *)
Definition rune_len (r : Z) : Z :=
  if r <? 0 then -1
  else if r <? 128 then 1
  else if r <? 2048 then 2
  else if (surrogate_min <=? r) && (r <=? surrogate_max) then -1
  else if r <? 65536 then 3
  else if r <=? max_rune then 4
  else -1.

(* utf8.EncodeRune / AppendRune: invalid runes are written as RuneError *)
Definition encode_rune (r : Z) : list Z :=
  if negb (valid_rune r) then [239; 191; 189]
  else if r <? 128 then [r]
  else if r <? 2048 then [192 + r / 64; 128 + r mod 64]
  else if r <? 65536 then [224 + r / 4096; 128 + (r / 64) mod 64; 128 + r mod 64]
  else [240 + r / 262144; 128 + (r / 4096) mod 64; 128 + (r / 64) mod 64; 128 + r mod 64].

(* the walk of `for len(p) > 0 { r, size := DecodeRune(p); p = p[size:] }`; fuel = length *)
Fixpoint decode_all_fuel (fuel : nat) (p : list Z) : list (Z * nat) :=
  match fuel, p with
  | S f, _ :: _ => let d := decode_rune p in d :: decode_all_fuel f (skipn (snd d) p)
  | _, _ => []
  end.
Definition decode_all (p : list Z) : list (Z * nat) := decode_all_fuel (length p) p.

Definition runes (p : list Z) : list Z := map fst (decode_all p).
Definition encode_runes (rs : list Z) : list Z := flat_map encode_rune rs.

(* utf8.RuneCount: invalid bytes count as one rune of width 1 *)
Fixpoint rune_count_fuel (fuel : nat) (p : list Z) : nat :=
  match fuel, p with
  | S f, _ :: _ => S (rune_count_fuel f (skipn (snd (decode_rune p)) p))
  | _, _ => O
  end.
Definition rune_count (p : list Z) : nat := rune_count_fuel (length p) p.

(* utf8.Valid: no position decodes to (RuneError, 1) *)
Fixpoint valid_utf8_fuel (fuel : nat) (p : list Z) : bool :=
  match fuel, p with
  | S f, _ :: _ =>
      let '(r, size) := decode_rune p in
      if (r =? rune_error) && (size =? 1)%nat then false else valid_utf8_fuel f (skipn size p)
  | _, _ => true
  end.
Definition valid_utf8 (p : list Z) : bool := valid_utf8_fuel (length p) p.
