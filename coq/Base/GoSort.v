(* Base/GoSort.v — sorting specification helpers shared by the collector (C09) and the
   aggregation (C16) models: a three-way comparison `cmp : A -> A -> Z` (negative / zero /
   positive as Go's Compare functions), insertion sort as the *specification* of "the full
   ranking", a boolean sortedness checker and a boolean multiset (permutation) checker.
   Definitions only; the facts are in Base/GoSortProofs.v. *)
From Coq Require Import ZArith List Bool.
Import ListNotations.
Open Scope Z_scope.

Section Sorting.
  Context {A : Type}.
  Variable cmp : A -> A -> Z.

  Definition cle (a b : A) : bool := cmp a b <=? 0.
  Definition clt (a b : A) : bool := cmp a b <? 0.

  (* insert before the first element that is not smaller *)
  Fixpoint insert (x : A) (l : list A) : list A :=
    match l with
    | [] => [x]
    | h :: t => if cle x h then x :: l else h :: insert x t
    end.

  (* the specification order: fold from the left so that equal elements keep input order *)
  Definition isort (l : list A) : list A := fold_left (fun acc x => insert x acc) l [].

  Fixpoint sortedb (l : list A) : bool :=
    match l with
    | [] => true
    | h :: t => match t with
                | [] => true
                | h2 :: _ => cle h h2 && sortedb t
                end
    end.

  (* strictly increasing *)
  Fixpoint ssortedb (l : list A) : bool :=
    match l with
    | [] => true
    | h :: t => match t with
                | [] => true
                | h2 :: _ => clt h h2 && ssortedb t
                end
    end.

  Definition lastn (n : nat) (l : list A) : list A := skipn (length l - n) l.
End Sorting.

(* multiset equality through a decidable equality *)
Section Multiset.
  Context {A : Type}.
  Variable eqb : A -> A -> bool.

  Fixpoint remove1 (x : A) (l : list A) : option (list A) :=
    match l with
    | [] => None
    | h :: t => if eqb x h then Some t
                else match remove1 x t with
                     | Some t' => Some (h :: t')
                     | None => None
                     end
    end.

  Fixpoint permb (a b : list A) : bool :=
    match a with
    | [] => match b with [] => true | _ => false end
    | x :: a' => match remove1 x b with
                 | Some b' => permb a' b'
                 | None => false
                 end
    end.
End Multiset.
