(* Index/ProtoProofsEx.v — concrete accepted runs (vm_compute): the hypotheses of the theorems of
   Index/ProtoProofsThm.v are satisfiable, and recovery gives what they say.
   Snapshot files are the real encodings (Index/SnapshotCodec.v encode) of their segment lists. *)
From Coq Require Import ZArith List Bool Lia.
From Bluge Require Import Base.Res Base.Corr Index.Model Index.Trace Index.Proto Index.ProtoCorr
  Index.ProtoProofsPol Index.ProtoProofsInv Index.ProtoProofsRec Index.ProtoProofsThm.
From Bluge Require Index.SnapshotCodec.
Import ListNotations.
Open Scope Z_scope.

(* a writer opened on an empty directory *)
Definition st_fresh (n : Z) : pstate :=
  {| ps_t := init_state; ps_epoch_n := [(0, O)]; ps_segdocs := []; ps_disk := disk_empty;
     ps_pol := pol_init n; ps_base := []; ps_safe := []; ps_acked := []; ps_faulted := false; ps_grabbed := None |}.

Lemma fresh_start_ok : forall table n, 1 <= n -> start_ok table n (st_fresh n).
Proof.
  intros table n Hn. unfold start_ok. simpl.
  split; [exact Hn|]. split; [reflexivity|]. split; [reflexivity|]. split; [reflexivity|]. split; [|split; [reflexivity|]].
  - constructor; simpl; try reflexivity; try constructor; intros; contradiction.
  - left. auto.
Qed.

Definition ex_seg (id : Z) : SnapshotCodec.seg :=
  {| SnapshotCodec.sg_id := id; SnapshotCodec.sg_type := [105; 99; 101]; SnapshotCodec.sg_ver := 1; SnapshotCodec.sg_del := [] |}.
Definition ex_bytes1 : list Z := Eval vm_compute in SnapshotCodec.encode {| SnapshotCodec.sn_segs := [ex_seg 1] |}.
Definition ex_bytes2 : list Z := Eval vm_compute in SnapshotCodec.encode {| SnapshotCodec.sn_segs := [ex_seg 1; ex_seg 2] |}.

Definition ex_b1 : batch := {| b_docs := [(1, 10)]; b_ids := [1] |}.
Definition ex_b2 : batch := {| b_docs := [(2, 20)]; b_ids := [2] |}.
Definition ex_s1 : segsnap := {| ss_id := 1; ss_docs := [(1, 10)]; ss_del := []; ss_persisted := false |}.
Definition ex_s2 : segsnap := {| ss_id := 2; ss_docs := [(2, 20)]; ss_del := []; ss_persisted := false |}.
Definition ex_r1 : snapshot := {| sn_epoch := 1; sn_segs := [ex_s1] |}.
Definition ex_r2 : snapshot := {| sn_epoch := 2; sn_segs := [ex_s1; ex_s2] |}.

(* two safe batches; the first is persisted (segment, then snapshot) and acknowledged; the second
   snapshot is being written when the machine dies *)
Definition ex_run : list pevent :=
  [ PI (ECall 1); PI (EIntro 1 ex_b1 [] 1 ex_r1); PSafe 1; PGrab 1 1;
    PPersistStart false 1 [] []; PPersistOk false 1;
    PPersistStart true 1 ex_bytes1 [(1, [])]; PPersistOk true 1; PAck 1 true;
    PI (ECall 2); PI (EIntro 2 ex_b2 [] 2 ex_r2); PSafe 2; PGrab 2 1;
    PPersistStart false 2 [] []; PPersistOk false 2;
    PPersistStart true 2 ex_bytes2 [(1, []); (2, [])] ].

Definition run_state (table : list (list Z)) (st0 : pstate) (evs : list pevent) : pstate :=
  match paccept_run table st0 evs with Some st => st | None => st0 end.

Definition ex_st : pstate := Eval vm_compute in run_state [] (st_fresh 1) ex_run.

Ltac vm := vm_compute; reflexivity.

Lemma ack_durable_example_proof :
    start_ok [] 1 (st_fresh 1) /\ paccept_run [] (st_fresh 1) ex_run = Some ex_st /\
    In (PAck 1 true) ex_run /\ n_intro ex_st = 2%nat /\ length (d_fly (ps_disk ex_st)) = 1%nat /\
    (* the second snapshot torn after 5 bytes: the first one is recovered, with batch 1 *)
    no_collision [] (d_fly (ps_disk ex_st)) [TPrefix 5] = true /\
    (exists r, recover_writer [] 1 (crash_image (ps_disk ex_st) [TPrefix 5]) = RecOk r /\ r_epoch r = 1 /\
               segs_content (ps_segdocs ex_st) (r_segs r) = Some [(1, 10)] /\ content_at ex_st 1 = [(1, 10)]) /\
    recover_reader [] (crash_image (ps_disk ex_st) [TPrefix 5]) = Some (Some (1, [(1, [])])) /\
    (* zero-filled, or absent: the same *)
    no_collision [] (d_fly (ps_disk ex_st)) [TZeros] = true /\
    recover_reader [] (crash_image (ps_disk ex_st) [TZeros]) = Some (Some (1, [(1, [])])) /\
    recover_reader [] (crash_image (ps_disk ex_st) [TAbsent]) = Some (Some (1, [(1, [])])) /\
    (* every byte written: the second one is recovered, with both batches *)
    (exists r, recover_writer [] 1 (crash_image (ps_disk ex_st) [TFull]) = RecOk r /\ r_epoch r = 2 /\
               segs_content (ps_segdocs ex_st) (r_segs r) = Some [(1, 10); (2, 20)] /\
               content_at ex_st 2 = [(1, 10); (2, 20)]).
Proof.
  split; [apply fresh_start_ok; lia|]. split; [vm|]. split; [vm_compute; tauto|].
  split; [vm|]. split; [vm|]. split; [vm|].
  split; [eexists; split; [vm|]; split; [vm|]; split; vm|].
  split; [vm|]. split; [vm|]. split; [vm|]. split; [vm|].
  eexists; split; [vm|]; split; [vm|]; split; vm.
Qed.

(* C14: the persist of the first batch fails; its Batch call returns the error; the retry with the
   second batch persists both segments; the acknowledgement of batch 2 makes batch 1 durable as well *)
Definition ex_fault_run : list pevent :=
  [ PI (ECall 1); PI (EIntro 1 ex_b1 [] 1 ex_r1); PSafe 1; PGrab 1 1;
    PPersistStart false 1 [] []; PPersistErr false 1; PAck 1 false;
    PI (ECall 2); PI (EIntro 2 ex_b2 [] 2 ex_r2); PSafe 2; PGrab 2 1;
    PPersistStart false 1 [] []; PPersistOk false 1;
    PPersistStart false 2 [] []; PPersistOk false 2;
    PPersistStart true 2 ex_bytes2 [(1, []); (2, [])]; PFault; PPersistOk true 2; PAck 2 true;
    PRemoveErr true 1 ].

Definition ex_fault_st : pstate := Eval vm_compute in run_state [] (st_fresh 2) (firstn 19 ex_fault_run).

Lemma fault_example_proof :
    start_ok [] 2 (st_fresh 2) /\
    paccept_run [] (st_fresh 2) (firstn 19 ex_fault_run) = Some ex_fault_st /\
    In (PAck 1 false) ex_fault_run /\ In (PPersistErr false 1) ex_fault_run /\ In PFault ex_fault_run /\
    ps_faulted ex_fault_st = true /\
    pos_of 1 (t_keys (ps_t ex_fault_st)) = Some O /\ pos_of 2 (t_keys (ps_t ex_fault_st)) = Some 1%nat /\
    no_collision [] (d_fly (ps_disk ex_fault_st)) [] = true /\
    (exists r, recover_writer [] 2 (crash_image (ps_disk ex_fault_st) []) = RecOk r /\ r_epoch r = 2 /\
               segs_content (ps_segdocs ex_fault_st) (r_segs r) = Some [(1, 10); (2, 20)] /\
               content_at ex_fault_st 2 = [(1, 10); (2, 20)]) /\
    (* the last event asks for the removal of an epoch that is not deletable: rejected *)
    paccept_run [] (st_fresh 2) ex_fault_run = None.
Proof.
  split; [apply fresh_start_ok; lia|]. split; [vm|].
  split; [vm_compute; tauto|]. split; [vm_compute; tauto|]. split; [vm_compute; tauto|].
  split; [vm|]. split; [vm|]. split; [vm|]. split; [vm|].
  split; [eexists; split; [vm|]; split; [vm|]; split; vm|]. vm.
Qed.

(* the added monitor conditions reject what they are meant to reject *)
Lemma monitor_rejects_proof :
  (* a second snapshot write while one is in flight *)
  paccept_run [] (st_fresh 1) (ex_run ++ [PPersistStart true 2 ex_bytes2 [(1, []); (2, [])]]) = None /\
  (* a segment rewritten while the snapshot being written names it *)
  paccept_run [] (st_fresh 1) (ex_run ++ [PPersistStart false 2 [] []]) = None /\
  (* an acknowledgement before the snapshot is complete *)
  paccept_run [] (st_fresh 1) (ex_run ++ [PAck 2 true]) = None /\
  (* a load in a writer opened on an empty directory *)
  paccept_run [] (st_fresh 1) [PI (ELoad ex_r1)] = None /\
  (* the removal of a segment the complete snapshot names *)
  paccept_run [] (st_fresh 1) (firstn 9 ex_run ++ [PRemoveOk false 1]) = None.
Proof. split; [vm|]. split; [vm|]. split; [vm|]. split; vm. Qed.

(* an observation (inside the property text of C03, which promises success only once a snapshot was
   completed): when the very first snapshot write of a fresh directory is torn, the directory holds a
   snapshot file that does not load and nothing else: OpenWriter refuses it ("existing snapshots found,
   but none could be loaded"), OpenReader finds nothing.  Absent or fully written: fine. *)
Definition ex_first_st : pstate := Eval vm_compute in run_state [] (st_fresh 1) (firstn 7 ex_run).

Lemma first_snapshot_torn_proof :
  paccept_run [] (st_fresh 1) (firstn 7 ex_run) = Some ex_first_st /\
  d_snp (ps_disk ex_first_st) = [] /\ length (d_fly (ps_disk ex_first_st)) = 1%nat /\
  no_collision [] (d_fly (ps_disk ex_first_st)) [TPrefix 7] = true /\
  recover_writer [] 1 (crash_image (ps_disk ex_first_st) [TPrefix 7]) = RecFail /\
  recover_reader [] (crash_image (ps_disk ex_first_st) [TPrefix 7]) = Some None /\
  recover_writer [] 1 (crash_image (ps_disk ex_first_st) [TZeros]) = RecFail /\
  (exists s, recover_writer [] 1 (crash_image (ps_disk ex_first_st) [TAbsent]) = RecFresh s) /\
  (exists r, recover_writer [] 1 (crash_image (ps_disk ex_first_st) [TFull]) = RecOk r /\ r_epoch r = 1).
Proof.
  split; [vm|]. split; [vm|]. split; [vm|]. split; [vm|]. split; [vm|]. split; [vm|]. split; [vm|].
  split; [eexists; vm | eexists; split; vm].
Qed.
