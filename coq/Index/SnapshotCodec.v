(* Index/SnapshotCodec.v — the snapshot file codec of index/snapshot.go and the loader of
   index/writer.go, over byte lists (bytes = Z in [0,256)).  No proofs here
   (Index/SnapshotCodecProofs.v).

   File layout (WriteTo, snapshot.go:450-495): uvarint format version, uvarint number of
   segments, per segment (recordSegment, 497-554): uvarint len + type string, 4-byte big-endian
   version, uvarint id, uvarint len + roaring bytes of the deleted bitmap (len 0 when there is
   none); then the big-endian CRC-32 (IEEE) of everything before it.  The epoch is *not* in the
   file: it is the file name (directory_fs.go fileName, "%012x" + kind).

   Roaring bitmaps are opaque here: a segment carries the serialised bytes of its deleted
   bitmap ([] = nil bitmap).  The decoder calls roaring's ReadFrom on the bytes it read; that
   library call is the function parameter `rb`:
       rb bytes = None        ReadFrom returned an error
       rb bytes = Some []     ReadFrom succeeded and the bitmap IsEmpty (normalised to nil, :686)
       rb bytes = Some c      ReadFrom succeeded; c = the bitmap's own serialisation (ToBytes)
*)
From Coq Require Import ZArith List Bool.
From Bluge Require Import Base.Int64 Base.Res Base.Corr Base.Uvarint Base.CRC32 Base.Bufio Gen.ParamsCodec.
Import ListNotations.
Open Scope Z_scope.

Record seg := { sg_id : Z; sg_type : list Z; sg_ver : Z; sg_del : list Z }.
Record snapshot := { sn_segs : list seg }.

(* error codes of this model (besides Base/Bufio's 1..3) *)
Definition err_version : nat := 4%nat.      (* "unsupportred snapshot format version" *)
Definition err_roaring : nat := 5%nat.      (* deletedBitmap.ReadFrom failed *)
Definition err_crc : nat := 6%nat.          (* "CRC mismatch loading snapshot" *)
Definition panic_makeslice : nat := 1%nat.  (* makeslice: len out of range *)
Definition panic_bounds : nat := 2%nat.     (* slice bounds out of range *)

(* ------------------------------------------------------------------ encoder *)

(* writeVarLenString, snapshot.go:556-570 *)
Definition write_varlen_string (s : list Z) : list Z := put_uvarint (zlen s) ++ s.

(* recordSegment, snapshot.go:497-554.  deleted == nil writes PutUvarint(0); a non-nil bitmap
   writes its length and bytes (never empty: roaring always writes a header). *)
Definition record_segment (g : seg) : list Z :=
  write_varlen_string (sg_type g) ++ put_be32 (sg_ver g) ++ put_uvarint (sg_id g) ++
  put_uvarint (zlen (sg_del g)) ++ sg_del g.

(* everything WriteTo sends through the hashing writer before the trailer *)
Definition encode_payload (s : snapshot) : list Z :=
  put_uvarint snapshot_format_version ++ put_uvarint (zlen (sn_segs s)) ++
  flat_map record_segment (sn_segs s).

(* WriteTo: payload, then intBuf[:crcWidth] after BigEndian.PutUint32(intBuf, chw.Sum32()) *)
Definition encode (s : snapshot) : list Z :=
  let p := encode_payload s in p ++ ztake crc_width (put_be32 (crc32 p)).

(* ------------------------------------------------------------------ decoder *)

(* behaviour flags read from the source by T-gen (tools/goextract/specs_codec.go) *)
Record cflags := {
  f_trust_len : bool;     (* lengths from the file are passed to make() unchecked (D3) *)
  f_strict_peek : bool;   (* readVarLenString treats a short Peek (io.EOF) as an error *)
  f_single_read : bool }. (* the 4 version bytes are read with one bufio Read *)
Definition gen_flags : cflags :=
  {| f_trust_len := 0 <? codec_unguarded_len_makes;
     f_strict_peek := 0 <? codec_strict_peeks;
     f_single_read := 0 <? codec_single_reads |}.
Definition fixed_flags : cflags := {| f_trust_len := false; f_strict_peek := false; f_single_read := false |}.
Definition pinned_flags : cflags := {| f_trust_len := true; f_strict_peek := true; f_single_read := true |}.

(* A decoding step threads the allocation meter: the sum of the sizes requested from make()
   (recorded before the read that fills the slice). *)
Definition M (A : Type) : Type := Z -> res A * Z.
Definition mret {A} (x : A) : M A := fun a => (Ok x, a).
Definition mfail {A} (c : nat) : M A := fun a => (Err c, a).
Definition mpanic {A} (c : nat) : M A := fun a => (Panic c, a).
Definition moof {A} : M A := fun a => (OutOfFuel, a).
Definition malloc (n : Z) : M unit := fun a => (Ok tt, a + n).
Definition mbind {A B} (m : M A) (f : A -> M B) : M B :=
  fun a => match m a with
           | (Ok x, a') => f x a'
           | (Err c, a') => (Err c, a')
           | (Panic c, a') => (Panic c, a')
           | (OutOfFuel, a') => (OutOfFuel, a')
           end.
Definition mlift {A} (r : res A) : M A := fun a => (r, a).
Notation "x <-- m ;;; k" := (mbind m (fun x => k)) (at level 61, m at next level, right associativity).
Notation "' p <-- m ;;; k" := (mbind m (fun x => let 'p := x in k))
  (at level 61, p pattern, m at next level, right associativity).

(* largest len for which make([]byte, len) does not panic on linux/amd64 (runtime maxAlloc) *)
Definition max_alloc : Z := 281474976710656.

(* br.Peek(binary.MaxVarintLen64) + binary.Uvarint at the sites that accept io.EOF
   (snapshot.go:577-583, 600-606, 646-651, 661-666): value, n, reader *)
Definition peek_uvarint (r : breader) : Z * Z * breader :=
  let '(pk, _, r1) := peek max_varint_len64 r in
  let '(v, n) := uvarint pk in (v, n, r1).

Definition mdiscard (n : Z) (r : breader) : M breader :=
  mlift (rmap snd (discard n r)).

(* readBytes, snapshot.go:721-737: grow by at most maxUnverifiedAlloc, fill with io.ReadFull *)
Fixpoint read_bytes_aux (fuel : nat) (n : Z) (acc : list Z) (r : breader) : M (list Z * breader) :=
  if n <=? zlen acc then mret (acc, r)
  else match fuel with
       | O => moof
       | S f =>
           let want := Z.min (n - zlen acc) codec_read_chunk in
           _ <-- malloc want ;;;
           '(bs, r1) <-- mlift (read_full want r) ;;;
           read_bytes_aux f n (acc ++ bs) r1
       end.
Definition read_bytes (n : Z) (r : breader) : M (list Z * breader) :=
  read_bytes_aux (S (length (stream r))) n [] r.

(* the pinned tree's  make([]byte, strLen); r.Read(strBytes)  (d6b63ac snapshot.go:707-712):
   a single-shot read; bytes not delivered stay zero *)
Definition read_string_legacy (n : Z) (r : breader) : M (list Z * breader) :=
  _ <-- malloc n ;;;
  if max_alloc <? n then mpanic panic_makeslice
  else let '(bs, eof, r1) := bread n r in
       if eof then mfail err_eof
       else mret (bs ++ repeat 0 (Z.to_nat (n - zlen bs)), r1).

(* the pinned tree's  make([]byte, int(delLen)); io.ReadFull(br, deletedBytes)  (:673-679) *)
Definition read_deleted_legacy (n : Z) (r : breader) : M (list Z * breader) :=
  let len := wrap64 n in                       (* int(delLen) *)
  _ <-- malloc (Z.max len 0) ;;;
  if (len <? 0) || (max_alloc <? len) then mpanic panic_makeslice
  else mlift (read_full len r).

(* readVarLenString, snapshot.go:695-713 *)
Definition read_varlen_string (fl : cflags) (r : breader) : M (list Z * breader) :=
  let '(pk, eof, r1) := peek max_varint_len64 r in
  if f_strict_peek fl && eof then mfail err_eof
  else
    let '(strLen, n) := uvarint pk in
    r2 <-- mdiscard n r1 ;;;
    if f_trust_len fl then read_string_legacy strLen r2 else read_bytes strLen r2.

(* readSegmentSnapshot, snapshot.go:624-693 *)
Definition read_segment (fl : cflags) (rb : list Z -> option (list Z)) (r : breader) : M (seg * breader) :=
  '(typ, r1) <-- read_varlen_string fl r ;;;
  _ <-- malloc 4 ;;;                                         (* verBuf := make([]byte, 4) *)
  '(vb, r2) <-- (if f_single_read fl then
                   let '(bs, eof, r2) := bread 4 r1 in
                   if eof then mfail err_eof else mret (bs ++ repeat 0 (Z.to_nat (4 - zlen bs)), r2)
                 else mlift (read_full 4 r1)) ;;;
  let ver := be32 vb in
  let '(id, n, r3) := peek_uvarint r2 in
  r4 <-- mdiscard n r3 ;;;
  let '(delLen, n2, r5) := peek_uvarint r4 in
  r6 <-- mdiscard n2 r5 ;;;
  if 0 <? delLen then
    '(db, r7) <-- (if f_trust_len fl then read_deleted_legacy delLen r6 else read_bytes delLen r6) ;;;
    match rb db with
    | None => mfail err_roaring
    | Some c => mret ({| sg_id := id; sg_type := typ; sg_ver := ver; sg_del := c |}, r7)
    end
  else mret ({| sg_id := id; sg_type := typ; sg_ver := ver; sg_del := [] |}, r6).

(* the loop of readFromVersion1, snapshot.go:609-618: for j := 0; j < int(numSegments); j++.
   `todo` = int(numSegments) - j.  Every iteration that does not fail consumes input, so the
   fuel S (length stream) is never exhausted (decode_total). *)
Fixpoint read_segments (fuel : nat) (fl : cflags) (rb : list Z -> option (list Z)) (todo : Z)
         (acc : list seg) (r : breader) : M (list seg * breader) :=
  if todo <=? 0 then mret (rev acc, r)
  else match fuel with
       | O => moof
       | S f =>
           '(g, r1) <-- read_segment fl rb r ;;;
           read_segments f fl rb (todo - 1) (g :: acc) r1
       end.

(* readFromVersion1, snapshot.go:596-622 *)
Definition read_v1 (fl : cflags) (rb : list Z -> option (list Z)) (r : breader) : M (list seg * breader) :=
  let '(num, n, r1) := peek_uvarint r in
  r2 <-- mdiscard n r1 ;;;
  read_segments (S (length (stream r2))) fl rb (wrap64 num) [] r2.

(* ReadFrom, snapshot.go:572-594; bufio.NewReader allocates its 4096-byte buffer *)
Definition decode_reader (fl : cflags) (rb : list Z -> option (list Z)) (r : breader) : M (snapshot * breader) :=
  _ <-- malloc bufsize ;;;
  let '(ver, n, r1) := peek_uvarint r in
  r2 <-- mdiscard n r1 ;;;
  if ver =? snapshot_format_version1 then
    '(gs, r3) <-- read_v1 fl rb r2 ;;;
    mret ({| sn_segs := gs |}, r3)
  else mfail err_version.

Definition decode_with (fl : cflags) (rb : list Z -> option (list Z)) (b : list Z) : res snapshot * Z :=
  match decode_reader fl rb (br_init b) 0 with
  | (Ok (s, _), a) => (Ok s, a)
  | (Err c, a) => (Err c, a)
  | (Panic c, a) => (Panic c, a)
  | (OutOfFuel, a) => (OutOfFuel, a)
  end.

(* Snapshot.ReadFrom on a byte string, as the current source behaves *)
Definition decode (rb : list Z -> option (list Z)) (b : list Z) : res snapshot :=
  fst (decode_with gen_flags rb b).

(* ------------------------------------------------------------------ loader *)

(* loadSnapshot, writer.go:452-505 (with config.ValidateSnapshotCRC, the default).
   The reader is limited to Len()-crcWidth bytes (a negative limit reads nothing); the CRC is
   that of the bytes the bufio.Reader actually pulled; the trailer is data[Len()-crcWidth:Len()]. *)
Definition payload_of (file : list Z) : list Z := ztake (zlen file - crc_width) file.
Definition trailer_of (file : list Z) : list Z := zdrop (zlen file - crc_width) file.

Definition load_with (fl : cflags) (rb : list Z -> option (list Z)) (file : list Z) : res snapshot * Z :=
  let payload := payload_of file in
  match decode_reader fl rb (br_init payload) 0 with
  | (Ok (s, r), a) =>
      if zlen file <? crc_width then (Panic panic_bounds, a)     (* data.Read(negative, ...) *)
      else
        let pulled := ztake (zlen payload - zlen (br_rest r)) payload in
        let computed := put_be32 (crc32 pulled) in               (* make([]byte, crcWidth) + PutUint32 *)
        if zlist_eqb computed (trailer_of file) then (Ok s, a + crc_width) else (Err err_crc, a + crc_width)
  | (Err c, a) => (Err c, a)
  | (Panic c, a) => (Panic c, a)
  | (OutOfFuel, a) => (OutOfFuel, a)
  end.

Definition load (rb : list Z -> option (list Z)) (file : list Z) : res snapshot := fst (load_with gen_flags rb file).
Definition load_alloc (rb : list Z -> option (list Z)) (file : list Z) : Z := snd (load_with gen_flags rb file).

(* Fallback.  `files` = the snapshot items of the directory as Directory.List returns them:
   (epoch, content) in descending epoch order.
   OpenReader (writer.go:436-450) takes the first that loads; loadSnapshots (writer.go:136-175)
   walks from the oldest to the newest and keeps the last that loads. *)
Fixpoint load_dir_reader (rb : list Z -> option (list Z)) (files : list (Z * list Z)) : option (Z * snapshot) :=
  match files with
  | [] => None
  | (e, f) :: t => match load rb f with
                   | Ok s => Some (e, s)
                   | _ => load_dir_reader rb t
                   end
  end.

Definition load_dir_writer (rb : list Z -> option (list Z)) (files : list (Z * list Z)) : option (Z * snapshot) :=
  fold_left (fun acc ef => match load rb (snd ef) with
                           | Ok s => Some (fst ef, s)
                           | _ => acc
                           end) (rev files) None.

(* ------------------------------------------------------------------ well-formed values *)

Definition seg_ok (g : seg) : bool :=
  (0 <=? sg_id g) && (sg_id g <? two64) && (0 <=? sg_ver g) && (sg_ver g <? 4294967296) &&
  bytes_ok (sg_type g) && bytes_ok (sg_del g).
Definition snapshot_ok (s : snapshot) : bool := forallb seg_ok (sn_segs s).

(* the deleted bytes of a segment are what roaring itself writes for a non-empty bitmap *)
Definition del_canonical (rb : list Z -> option (list Z)) (g : seg) : Prop :=
  sg_del g = [] \/ rb (sg_del g) = Some (sg_del g).

Definition seg_eqb (a b : seg) : bool :=
  (sg_id a =? sg_id b) && zlist_eqb (sg_type a) (sg_type b) && (sg_ver a =? sg_ver b) &&
  zlist_eqb (sg_del a) (sg_del b).
Definition snapshot_eqb (a b : snapshot) : bool := list_eqb seg_eqb (sn_segs a) (sn_segs b).
