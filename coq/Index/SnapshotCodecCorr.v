(* Index/SnapshotCodecCorr.v — correspondence cases for the codec engine.  Each case carries
   what the implementation did (WriteTo bytes, ReadFrom / loadSnapshot / OpenReader result
   class and decoded segments, crc32.Update, binary.Uvarint / PutUvarint); check recomputes
   it with the model.  Inputs are given as a base byte string plus a damage description, so
   that the shards stay small (the base files are defined once in the shard prelude). *)
From Coq Require Import ZArith List Bool.
From Bluge Require Import Base.Int64 Base.Res Base.Corr Base.Uvarint Base.CRC32 Base.Bufio
  Gen.ParamsCodec Index.SnapshotCodec.
Import ListNotations.
Open Scope Z_scope.

(* base files are written as 8 bytes per numeral (big-endian) to keep the shard prelude small *)
Definition unpack8_one (n : Z) : list Z :=
  [ (n / 72057594037927936) mod 256; (n / 281474976710656) mod 256; (n / 1099511627776) mod 256;
    (n / 4294967296) mod 256; (n / 16777216) mod 256; (n / 65536) mod 256; (n / 256) mod 256; n mod 256 ].
Definition unpack8 (len : Z) (l : list Z) : list Z := ztake len (flat_map unpack8_one l).

Inductive src :=
| SBytes (b : list Z)
| STrunc (x : src) (n : Z)                    (* the first n bytes *)
| SFlip (x : src) (i j : Z)                   (* bit j of byte i inverted *)
| SAppend (x : src) (tail : list Z)
| SSplice (x : src) (pos del : Z) (ins : list Z)   (* del bytes at pos replaced by ins *)
| SRecrc (x : src).                           (* last 4 bytes replaced by the CRC-32 of the rest *)

Fixpoint bytes_of (x : src) : list Z :=
  match x with
  | SBytes b => b
  | STrunc x n => ztake n (bytes_of x)
  | SFlip x i j => flip_bit (bytes_of x) (Z.to_nat i) j
  | SAppend x t => bytes_of x ++ t
  | SSplice x pos del ins => let b := bytes_of x in ztake pos b ++ ins ++ zdrop (pos + del) b
  | SRecrc x => let b := bytes_of x in
                let p := ztake (zlen b - 4) b in p ++ put_be32 (crc32 p)
  end.

(* What roaring answered for the blobs that can be met in this input.  A blob is named by its
   position in the input itself (KSub) or literally (KBytes); the answer is an error, an empty
   bitmap, the blob itself (roaring's own serialisation is byte-identical) or another
   serialisation. *)
Definition zsub (b : list Z) (pos len : Z) : list Z := ztake len (zdrop pos b).
Inductive rbkey := KSub (pos len : Z) | KBytes (b : list Z).
Inductive rbans := AErr | AEmpty | ASame | ACanon (c : list Z).
Definition rbtable := list (rbkey * rbans).
Fixpoint rb_lookup (file : list Z) (t : rbtable) (blob : list Z) : option (list Z) :=
  match t with
  | [] => None
  | (k, a) :: r =>
      let kb := match k with KSub p l => zsub file p l | KBytes b => b end in
      if zlist_eqb kb blob then
        match a with AErr => None | AEmpty => Some [] | ASame => Some blob | ACanon c => Some c end
      else rb_lookup file r blob
  end.

Inductive obs :=
| OOk (segs : list seg)
| OErr
| OPanic.

Definition obs_match (r : res snapshot) (o : obs) : bool :=
  match r, o with
  | Ok s, OOk gs => snapshot_eqb s {| sn_segs := gs |}
  | Err _, OErr => true
  | Panic _, OPanic => true
  | _, _ => false
  end.

Inductive ccase :=
| CEncode (s : snapshot) (out : list Z)                    (* Snapshot.WriteTo *)
| CDecode (x : src) (t : rbtable) (o : obs)                (* Snapshot.ReadFrom on the bytes *)
| CLoad (x : src) (t : rbtable) (o : obs)                  (* loadSnapshot, mmap and file loader *)
| CLoadDir (files : list (Z * src)) (t : rbtable) (o : option (Z * list seg))  (* OpenReader / OpenWriter pick *)
| CCrc (x : src) (c : Z)                                   (* crc32.Update(0, IEEETable, b) *)
| CUvarint (buf : list Z) (v n : Z)                        (* binary.Uvarint *)
| CPutUvarint (x : Z) (out : list Z).                      (* binary.PutUvarint *)

Definition pick_match (r : option (Z * snapshot)) (o : option (Z * list seg)) : bool :=
  match r, o with
  | None, None => true
  | Some (e, s), Some (e', gs) => (e =? e') && snapshot_eqb s {| sn_segs := gs |}
  | _, _ => false
  end.

Definition check (c : ccase) : bool :=
  match c with
  | CEncode s out => zlist_eqb (encode s) out
  | CDecode x t o => let b := bytes_of x in obs_match (decode (rb_lookup b t) b) o
  | CLoad x t o => let b := bytes_of x in obs_match (load (rb_lookup b t) b) o
  | CLoadDir files t o =>
      let fs := map (fun ef => (fst ef, bytes_of (snd ef))) files in
      pick_match (load_dir_reader (rb_lookup [] t) fs) o && pick_match (load_dir_writer (rb_lookup [] t) fs) o
  | CCrc x c => let b := bytes_of x in (crc32 b =? c) && (crc32_update_tab 0 b =? c)
  | CUvarint buf v n => let '(v', n') := uvarint buf in (v' =? v) && (n' =? n)
  | CPutUvarint x out => zlist_eqb (put_uvarint x) out
  end.

Definition mismatches (l : list ccase) : list nat := failing check l.
