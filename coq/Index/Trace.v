(* Index/Trace.v — the monitor for recorded root histories of a writer (C01, C05, C06).
   The implementation (built with -tags verif) reports every root replacement together with
   what caused it; `accept_ev` recomputes the new root with the model of Index/Model.v from the
   previous root and the event's parameters, compares it with the observed root, and checks the
   side conditions under which the theorems of Index/ModelProofs.v apply (obsoletes are sound,
   the merge event is well formed and compatible with the current root).  No proofs here. *)
From Coq Require Import ZArith List Bool.
From Bluge Require Import Base.Res Index.Model.
Import ListNotations.
Open Scope Z_scope.

(* ---------- decidable equality of snapshots ---------- *)
Definition seg_eqb (a b : segsnap) : bool :=
  (ss_id a =? ss_id b) && docs_eqb (ss_docs a) (ss_docs b) && list_eqbZ (ss_del a) (ss_del b) &&
  Bool.eqb (ss_persisted a) (ss_persisted b).
Fixpoint segs_eqb (a b : list segsnap) : bool :=
  match a, b with
  | [], [] => true
  | x :: a', y :: b' => seg_eqb x y && segs_eqb a' b'
  | _, _ => false
  end.
Definition snap_eqb (a b : snapshot) : bool := (sn_epoch a =? sn_epoch b) && segs_eqb (sn_segs a) (sn_segs b).

Definition seg_ids (sn : snapshot) : list Z := map ss_id (sn_segs sn).
Fixpoint nodupZ (l : list Z) : bool :=
  match l with
  | [] => true
  | x :: t => negb (zmem x t) && nodupZ t
  end.
Definition find_seg (sn : snapshot) (id : Z) : option segsnap :=
  find (fun s => ss_id s =? id) (sn_segs sn).
Definition zsubset (a b : list Z) : bool := forallb (fun x => zmem x b) a.

(* every root: deleted sets canonical and in range, distinct segment ids, every segment has a live doc *)
Definition root_ok (sn : snapshot) : bool :=
  snap_wf sn && nodupZ (seg_ids sn) && forallb (fun s => 0 <? seg_count s) (sn_segs sn).

(* ---------- side conditions ---------- *)

(* obsoletes precomputed by prepareSegment against a possibly older root: for every segment of the
   current root that has an entry, the entry is what DocsMatchingTerms yields on that (immutable) segment *)
Definition obs_sound (root : snapshot) (b : batch) (obs : list (Z * list Z)) : bool :=
  forallb (fun s => match lookup (ss_id s) obs with
                    | None => true
                    | Some d => list_eqbZ (znorm d) (znorm (docs_matching (ss_docs s) (b_ids b)))
                    end) (sn_segs root).

(* the merge was planned on an earlier root: each merged segment is either still in the root with the
   same documents and a deleted set that only grew, or gone *)
Definition merge_compat (root : snapshot) (m : merge_ev) (olddocs : list (Z * list doc)) : bool :=
  nodupZ (map fst (m_old m)) &&
  negb (zmem (m_id m) (seg_ids root)) &&
  forallb (fun p =>
    match lookup (fst p) olddocs with
    | None => false
    | Some docs =>
        forallb (fun n => (0 <=? n) && (n <? Z.of_nat (length docs)))
                (match snd p with Some d0 => d0 | None => [] end) &&
        match find_seg root (fst p) with
        | None => match snd p with Some _ => true | None => false end   (* nil entry of a vanished segment: nil dereference in Go *)
        | Some s =>
            docs_eqb (ss_docs s) docs &&
            match snd p with
            | Some d0 => zsubset d0 (ss_del s)
            | None => seg_count s <=? 0
            end
        end
    end) (m_old m).

(* ---------- events ---------- *)

Record observation := {
  o_epoch : Z;
  o_count : Z;                         (* Reader.Count() *)
  o_matchall : list (Z * doc);         (* match-all hits: (global document number, (id, val)) in hit order *)
  o_lookups : list (Z * list doc)      (* per id of the universe: the documents a term query on _id returns *)
}.

Inductive ievent :=
| ECall (k : Z)                        (* a Batch call with key k starts *)
| ERet (k : Z) (ok : bool)             (* it returns (ok = nil error) *)
| EIntro (k : Z) (b : batch) (obs : list (Z * list Z)) (newid : Z) (root' : snapshot)
| EPersistSwap (ids : list Z) (root' : snapshot)
| EMerge (m : merge_ev) (olddocs : list (Z * list doc)) (root' : snapshot) (skipped : bool)
| ELoad (root' : snapshot)
| EObserve (o : observation).

Record tstate := {
  t_root : snapshot;
  t_A : list doc;                      (* the abstract index: apply_batch folded over the batches so far *)
  t_batches : list batch;              (* introduction order *)
  t_keys : list Z;                     (* keys of the introduced batches, same order *)
  t_called : list Z;                   (* calls started *)
  t_returned : list Z                  (* calls returned *)
}.

Definition init_state : tstate :=
  {| t_root := {| sn_epoch := 0; sn_segs := [] |}; t_A := []; t_batches := [];
     t_keys := []; t_called := []; t_returned := [] |}.

Definition with_root (st : tstate) (r : snapshot) : tstate :=
  {| t_root := r; t_A := t_A st; t_batches := t_batches st; t_keys := t_keys st;
     t_called := t_called st; t_returned := t_returned st |}.

Fixpoint gdocs_eqb (a b : list (Z * doc)) : bool :=
  match a, b with
  | [], [] => true
  | (n, d) :: a', (n', d') :: b' => (n =? n') && doc_eqb d d' && gdocs_eqb a' b'
  | _, _ => false
  end.

(* multiset equality of document lists through insertion sort on (id, val) *)
Definition doc_leb (a b : doc) : bool := (fst a <? fst b) || ((fst a =? fst b) && (snd a <=? snd b)).
Fixpoint doc_insert (d : doc) (l : list doc) : list doc :=
  match l with
  | [] => [d]
  | h :: t => if doc_leb d h then d :: l else h :: doc_insert d t
  end.
Definition doc_sort (l : list doc) : list doc := fold_right doc_insert [] l.
Definition same_docs (a b : list doc) : bool := docs_eqb (doc_sort a) (doc_sort b).

Definition accept_ev (st : tstate) (ev : ievent) : option tstate :=
  let root := t_root st in
  match ev with
  | ECall k =>
      if negb (zmem k (t_called st))
      then Some {| t_root := root; t_A := t_A st; t_batches := t_batches st; t_keys := t_keys st;
                   t_called := t_called st ++ [k]; t_returned := t_returned st |}
      else None
  | ERet k ok =>
      (* a call returns after it started, once; a successful return comes after the introduction *)
      if zmem k (t_called st) && negb (zmem k (t_returned st)) && (negb ok || zmem k (t_keys st))
      then Some {| t_root := root; t_A := t_A st; t_batches := t_batches st; t_keys := t_keys st;
                   t_called := t_called st; t_returned := t_returned st ++ [k] |}
      else None
  | EIntro k b obs newid root' =>
      let r := introduce_segment root b obs newid (sn_epoch root') in
      if (sn_epoch root <? sn_epoch root') && obs_sound root b obs && negb (zmem newid (seg_ids root))
         && snap_eqb r root' && root_ok root'
         && zmem k (t_called st) && negb (zmem k (t_returned st)) && negb (zmem k (t_keys st))
      then Some {| t_root := root'; t_A := apply_batch (t_A st) b; t_batches := t_batches st ++ [b];
                   t_keys := t_keys st ++ [k]; t_called := t_called st; t_returned := t_returned st |}
      else None
  | EPersistSwap ids root' =>
      let r := introduce_persist root ids (sn_epoch root') in
      if (sn_epoch root <? sn_epoch root') && snap_eqb r root' && root_ok root'
      then Some (with_root st root')
      else None
  | EMerge m olddocs root' skipped =>
      if (sn_epoch root <? sn_epoch root') && merge_wf m olddocs && merge_compat root m olddocs
      then match introduce_merge root m olddocs (sn_epoch root') with
           | Ok (r, sk) =>
               if snap_eqb r root' && Bool.eqb sk skipped && root_ok root'
               then Some (with_root st root')
               else None
           | _ => None
           end
      else None
  | ELoad root' =>
      (* a writer opened on an existing directory: only allowed as the first event *)
      match sn_segs root, t_batches st with
      | [], [] => if root_ok root'
                  then Some {| t_root := root'; t_A := abs root'; t_batches := []; t_keys := [];
                               t_called := t_called st; t_returned := t_returned st |}
                  else None
      | _, _ => None
      end
  | EObserve o =>
      if (o_epoch o =? sn_epoch root) && (o_count o =? snap_count root) &&
         gdocs_eqb (o_matchall o) (match_all root) &&
         forallb (fun p => same_docs (snd p) (lookup_id root (fst p))) (o_lookups o) &&
         same_docs (map snd (o_matchall o)) (t_A st)
      then Some st else None
  end.

Fixpoint accept_run (st : tstate) (evs : list ievent) : option tstate :=
  match evs with
  | [] => Some st
  | e :: t => match accept_ev st e with Some st' => accept_run st' t | None => None end
  end.

(* index of the first rejected event, for replay reports *)
Fixpoint first_reject (st : tstate) (evs : list ievent) (n : nat) : option nat :=
  match evs with
  | [] => None
  | e :: t => match accept_ev st e with Some st' => first_reject st' t (S n) | None => Some n end
  end.
