(* Index/Model.v — M-IDX: executable model of the segment-level index state and of the
   three root transitions of index/introducer.go (introduceSegment, introducePersist,
   introduceMerge with segmentMerge.ProcessSegmentNow of index/merge.go), together with the
   abstract index (apply_batch).  No proofs in this file.

   doc        = (id, val): the external identifier (`_id` term) and a value that stands for
                the rest of the document (the harness gives every document version its own val)
   segment    = list doc, document number = position; immutable
   deleted    = list of document numbers (roaring bitmap); canonical form = strictly increasing
   The segment library's behaviour is modelled by `docs_matching` (DocsMatchingTerms returns
   exactly the positions whose id is named) and by the well-formedness predicate of merge
   events (`merge_wf`): both are checked against the implementation on every recorded trace. *)
From Coq Require Import ZArith List Bool.
From Bluge Require Import Base.Res.
Import ListNotations.
Open Scope Z_scope.

Definition doc := (Z * Z)%type.
Definition doc_id (d : doc) : Z := fst d.

Record segsnap := {
  ss_id : Z;
  ss_docs : list doc;
  ss_del : list Z;          (* deleted document numbers; [] = nil bitmap *)
  ss_persisted : bool
}.

Record snapshot := { sn_epoch : Z; sn_segs : list segsnap }.

Record batch := { b_docs : list doc; b_ids : list Z }.

(* ---------- sets of document numbers as lists ---------- *)

Definition zmem (x : Z) (l : list Z) : bool := existsb (Z.eqb x) l.

Fixpoint zinsert (x : Z) (l : list Z) : list Z :=
  match l with
  | [] => [x]
  | y :: t => if x <? y then x :: l else if x =? y then l else y :: zinsert x t
  end.
(* canonical form: strictly increasing *)
Definition znorm (l : list Z) : list Z := fold_right zinsert [] l.
Definition zunion (a b : list Z) : list Z := znorm (a ++ b).
Definition zdiff (a b : list Z) : list Z := filter (fun x => negb (zmem x b)) a.

(* ---------- segments ---------- *)

Fixpoint index_from (n : Z) {A} (l : list A) : list (Z * A) :=
  match l with
  | [] => []
  | a :: t => (n, a) :: index_from (n + 1) t
  end.
Definition indexed {A} (l : list A) : list (Z * A) := index_from 0 l.

(* live documents of a segment, in document-number order *)
Definition live_at (docs : list doc) (del : list Z) : list doc :=
  map snd (filter (fun p => negb (zmem (fst p) del)) (indexed docs)).
Definition live (s : segsnap) : list doc := live_at (ss_docs s) (ss_del s).

(* segmentSnapshot.Count(): segment.Count() - deleted.GetCardinality() *)
Definition seg_count (s : segsnap) : Z := Z.of_nat (length (ss_docs s)) - Z.of_nat (length (ss_del s)).

(* the abstract content of a snapshot: live documents in segment order *)
Definition abs (sn : snapshot) : list doc := flat_map live (sn_segs sn).

(* DocsMatchingTerms(idTerms): positions whose `_id` is one of the terms *)
Definition docs_matching (docs : list doc) (ids : list Z) : list Z :=
  map fst (filter (fun p => zmem (doc_id (snd p)) ids) (indexed docs)).

(* ---------- the abstract index ---------- *)

(* each batch first removes every live document whose id it names, then adds its documents *)
Definition apply_batch (A : list doc) (b : batch) : list doc :=
  filter (fun d => negb (zmem (doc_id d) (b_ids b))) A ++ b_docs b.

Definition apply_batches (bs : list batch) : list doc := fold_left apply_batch bs [].

(* ---------- introduceSegment (index/introducer.go:84-179) ---------- *)

Fixpoint lookup {A} (k : Z) (l : list (Z * A)) : option A :=
  match l with
  | [] => None
  | (k', v) :: t => if k =? k' then Some v else lookup k t
  end.

(* per root segment: delta from next.obsoletes if present, else recomputed; deleted := Or;
   the segment is kept only when LiveSize() > 0 *)
Definition introduce_one (b : batch) (obs : list (Z * list Z)) (s : segsnap) : option segsnap :=
  let delta := match lookup (ss_id s) obs with
               | Some d => d
               | None => docs_matching (ss_docs s) (b_ids b)
               end in
  let del' := zunion (ss_del s) delta in
  let s' := {| ss_id := ss_id s; ss_docs := ss_docs s; ss_del := del'; ss_persisted := ss_persisted s |} in
  if 0 <? seg_count s' then Some s' else None.

Fixpoint filter_map {A B} (f : A -> option B) (l : list A) : list B :=
  match l with
  | [] => []
  | a :: t => match f a with Some b => b :: filter_map f t | None => filter_map f t end
  end.

Definition introduce_segment (root : snapshot) (b : batch) (obs : list (Z * list Z)) (newid epoch : Z) : snapshot :=
  let kept := filter_map (introduce_one b obs) (sn_segs root) in
  let added := match b_docs b with
               | [] => []     (* next.data == nil *)
               | ds => [{| ss_id := newid; ss_docs := ds; ss_del := []; ss_persisted := false |}]
               end in
  {| sn_epoch := epoch; sn_segs := kept ++ added |}.

(* ---------- introducePersist (index/introducer.go:181-236) ---------- *)

(* segments named in persist.persisted are replaced by their loaded copies; deleted sets,
   order and offsets are those of the current root *)
Definition introduce_persist (root : snapshot) (ids : list Z) (epoch : Z) : snapshot :=
  {| sn_epoch := epoch;
     sn_segs := map (fun s => if zmem (ss_id s) ids
                              then {| ss_id := ss_id s; ss_docs := ss_docs s; ss_del := ss_del s; ss_persisted := true |}
                              else s) (sn_segs root) |}.

(* ---------- merges (index/merge.go, index/introducer.go:238-333) ---------- *)

(* what the merger hands to the introducer (segmentMerge) *)
Record merge_ev := {
  m_id : Z;                              (* id of the new segment *)
  m_old : list (Z * option (list Z));    (* segment id -> deleted set at merge time; None = nil entry (LiveSize 0) *)
  m_oldnew : list (Z * list Z);          (* oldNewDocNums: per merged segment, old doc number -> new doc number *)
  m_new : option (list doc);             (* documents of the merged segment; None when nothing was merged *)
  m_new_persisted : bool
}.

Definition dropped_sentinel : Z := 9223372036854775807. (* docDropped = math.MaxInt64 in ice v1 and v2 (merge.go) *)

Definition nthZ (l : list Z) (i : Z) : option Z :=
  if i <? 0 then None else nth_error l (Z.to_nat i).

(* newSegmentDeleted.Add(uint32(newDocNum)) for each old doc number; a doc number outside the
   table is a slice-bounds panic in Go *)
Fixpoint map_docnums (tbl : list Z) (olds : list Z) : res (list Z) :=
  match olds with
  | [] => Ok []
  | o :: t =>
      match nthZ tbl o with
      | None => Panic 2
      | Some n => r <- map_docnums tbl t ;; Ok ((n mod 4294967296) :: r)
      end
  end.

Definition all_docnums (docs : list doc) : list Z := map fst (indexed docs).

(* the loop over root.segment with ProcessSegmentNow; returns kept segments, new deleted set, remaining old *)
Fixpoint merge_scan (segs : list segsnap) (m : merge_ev) (old : list (Z * option (list Z)))
  (kept : list segsnap) (newdel : list Z) : res (list segsnap * list Z * list (Z * option (list Z))) :=
  match segs with
  | [] => Ok (kept, newdel, old)
  | s :: t =>
      match lookup (ss_id s) old with
      | Some atmerge =>
          (* segment is going away *)
          nd <- (match atmerge, ss_del s with
                 | Some d0, _ :: _ =>
                     let since := zdiff (ss_del s) d0 in
                     match lookup (ss_id s) (m_oldnew m) with
                     | None => match since with [] => Ok [] | _ => Panic 3 end   (* nil table indexed *)
                     | Some tbl => map_docnums tbl since
                     end
                 | _, _ => Ok []
                 end) ;;
          merge_scan t m (filter (fun p => negb (fst p =? ss_id s)) old) kept (newdel ++ nd)
      | None =>
          if 0 <? seg_count s
          then merge_scan t m old (kept ++ [s]) newdel
          else merge_scan t m old kept newdel
      end
  end.

(* segments of the merge that are no longer in the root: every document live at merge time is obsolete *)
Fixpoint merge_obsolete (m : merge_ev) (root0_docs : list (Z * list doc)) (old : list (Z * option (list Z))) : res (list Z) :=
  match old with
  | [] => Ok []
  | (id, None) :: _ => Panic 4      (* ss.DocNumbersLive() on a nil *segmentSnapshot *)
  | (id, Some d0) :: t =>
      match lookup id root0_docs, lookup id (m_oldnew m) with
      | Some docs, Some tbl =>
          a <- map_docnums tbl (zdiff (all_docnums docs) d0) ;;
          b <- merge_obsolete m root0_docs t ;; Ok (a ++ b)
      | Some docs, None =>
          match zdiff (all_docnums docs) d0 with
          | [] => merge_obsolete m root0_docs t
          | _ => Panic 3
          end
      | None, _ => Panic 5          (* the event does not describe this segment: malformed trace *)
      end
  end.

(* introduceMerge.  olddocs: documents of every segment named by the merge (the segmentMerge holds the
   segment snapshots taken at planning time) *)
Definition introduce_merge (root : snapshot) (m : merge_ev) (olddocs : list (Z * list doc)) (epoch : Z)
  : res (snapshot * bool) :=
  r <- merge_scan (sn_segs root) m (m_old m) [] [] ;;
  let '(kept, nd1, remaining) := r in
  nd2 <- merge_obsolete m olddocs remaining ;;
  let newdel := znorm (nd1 ++ nd2) in
  match m_new m with
  | Some docs =>
      if Z.of_nat (length newdel) <? Z.of_nat (length docs)
      then Ok ({| sn_epoch := epoch;
                  sn_segs := kept ++ [{| ss_id := m_id m; ss_docs := docs; ss_del := newdel;
                                         ss_persisted := m_new_persisted m |}] |}, false)
      else Ok ({| sn_epoch := epoch; sn_segs := kept |}, true)
  | None => Ok ({| sn_epoch := epoch; sn_segs := kept |}, true)
  end.

(* ---------- what a well-formed merge event looks like (the segment library's Merge contract) ---------- *)

(* new doc numbers assigned consecutively from `start` to the live docs, dropped_sentinel to the others *)
Fixpoint expected_table (n : Z) (len : nat) (d0 : list Z) (start : Z) : list Z * Z :=
  match len with
  | O => ([], start)
  | S k =>
      if zmem n d0
      then let '(t, e) := expected_table (n + 1) k d0 start in (dropped_sentinel :: t, e)
      else let '(t, e) := expected_table (n + 1) k d0 (start + 1) in (start :: t, e)
  end.

Fixpoint list_eqbZ (a b : list Z) : bool :=
  match a, b with
  | [], [] => true
  | x :: a', y :: b' => (x =? y) && list_eqbZ a' b'
  | _, _ => false
  end.
Definition doc_eqb (a b : doc) : bool := (fst a =? fst b) && (snd a =? snd b).
Fixpoint docs_eqb (a b : list doc) : bool :=
  match a, b with
  | [], [] => true
  | x :: a', y :: b' => doc_eqb x y && docs_eqb a' b'
  | _, _ => false
  end.

(* merged segments in task order: those with a non-nil entry; merged content = concatenation of
   their live-at-merge documents; tables as expected *)
Fixpoint merge_wf_from (old : list (Z * option (list Z))) (olddocs : list (Z * list doc))
  (oldnew : list (Z * list Z)) (start : Z) : option (list doc) :=
  match old with
  | [] => Some []
  | (id, None) :: t => merge_wf_from t olddocs oldnew start
  | (id, Some d0) :: t =>
      match lookup id olddocs, lookup id oldnew with
      | Some docs, Some tbl =>
          let '(exp, next) := expected_table 0 (length docs) d0 start in
          if list_eqbZ exp tbl then
            match merge_wf_from t olddocs oldnew next with
            | Some rest => Some (live_at docs d0 ++ rest)
            | None => None
            end
          else None
      | _, _ => None
      end
  end.

Definition merge_wf (m : merge_ev) (olddocs : list (Z * list doc)) : bool :=
  match merge_wf_from (m_old m) olddocs (m_oldnew m) 0, m_new m with
  | Some content, Some docs =>
      (* document numbers of the merged segment are stored as uint32 in the new deleted bitmap *)
      docs_eqb content docs && (Z.of_nat (length docs) <=? 4294967296)
  | Some [], None => true
  | _, _ => false
  end.

(* ---------- observables computed on the physical snapshot as the Go code does ---------- *)

(* Snapshot.Count(): sum over segments of Count() *)
Definition snap_count (sn : snapshot) : Z := fold_left (fun acc s => acc + seg_count s) (sn_segs sn) 0.

(* match-all enumeration: global document number = offset + local; offsets from full segment counts *)
Fixpoint global_live_from (off : Z) (segs : list segsnap) : list (Z * doc) :=
  match segs with
  | [] => []
  | s :: t =>
      map (fun p => (off + fst p, snd p)) (filter (fun p => negb (zmem (fst p) (ss_del s))) (indexed (ss_docs s)))
      ++ global_live_from (off + Z.of_nat (length (ss_docs s))) t
  end.
Definition match_all (sn : snapshot) : list (Z * doc) := global_live_from 0 (sn_segs sn).

(* lookup by id: the live documents carrying that id *)
Definition lookup_id (sn : snapshot) (id : Z) : list doc := filter (fun d => doc_id d =? id) (abs sn).

(* ---------- well-formedness of snapshots ---------- *)
Definition del_ok (s : segsnap) : bool :=
  forallb (fun n => (0 <=? n) && (n <? Z.of_nat (length (ss_docs s)))) (ss_del s) &&
  list_eqbZ (znorm (ss_del s)) (ss_del s).
Definition snap_wf (sn : snapshot) : bool := forallb del_ok (sn_segs sn).

(* ---------- persistSnapshotMaybeMerge's `equiv` snapshot (index/persister.go:213-278) ---------- *)

(* the in-memory segments of the grabbed snapshot are merged into one file segment (deletions applied
   by the merge, hence deleted = nil); the snapshot written for the grabbed epoch lists the segments
   that were already persisted followed by the merged one *)
Definition unpersisted (sn : snapshot) : list segsnap := filter (fun s => negb (ss_persisted s)) (sn_segs sn).

Definition equiv_snapshot (grabbed : snapshot) (newid : Z) : snapshot :=
  let merged := unpersisted grabbed in
  {| sn_epoch := sn_epoch grabbed;
     sn_segs := filter (fun s => negb (zmem (ss_id s) (map ss_id merged))) (sn_segs grabbed)
                ++ [{| ss_id := newid; ss_docs := flat_map live merged; ss_del := []; ss_persisted := true |}] |}.
