(* Index/Handles.v — monitor for file handles and readers (C04, C11): every handle the directory hands out
   (Load) and every Close of it, every root replacement with the persisted segments it lists, every
   reader obtained from the writer and released.  A segment file's last open handle must not be closed
   while the writer's root or an open reader still lists that segment (that would unmap memory a
   reader can touch); at the end of a complete run every handle has been closed exactly once.
   No proofs here; the reference-count model that explains why the implementation satisfies this is
   Index/Refs.v. *)
From Coq Require Import ZArith List Bool.
From Bluge Require Import Base.Res Base.Corr Index.Model Index.Trace.
Import ListNotations.
Open Scope Z_scope.

Inductive hevent :=
| HRoot (epoch : Z) (persisted : list Z)        (* the root was replaced; ids of its file-backed segments *)
| HRootNil                                      (* the writer dropped its root (Close) *)
| HOpen (snp : bool) (id : Z) (h : Z)           (* Directory.Load returned handle h for that item *)
| HClose (h : Z)
| HReaderOpen (r : Z) (epoch : Z)
| HReaderClose (r : Z)
| HEnd.                                         (* the run is complete: writer closed, all readers released *)

Record hstate := {
  hs_root : option Z;                            (* epoch of the current root *)
  hs_epochs : list (Z * list Z);                 (* epoch -> file-backed segment ids *)
  hs_handles : list (Z * (bool * Z));            (* open handles *)
  hs_closed : list Z;                            (* handles closed so far *)
  hs_readers : list (Z * Z)                      (* open readers -> epoch *)
}.

Definition hinit : hstate :=
  {| hs_root := Some 0; hs_epochs := [(0, [])]; hs_handles := []; hs_closed := []; hs_readers := [] |}.

Definition segs_of (st : hstate) (e : Z) : list Z := match lookup e (hs_epochs st) with Some l => l | None => [] end.

(* segments some live holder (root or open reader) lists *)
Definition needed_segs (st : hstate) : list Z :=
  (match hs_root st with Some e => segs_of st e | None => [] end)
  ++ flat_map (fun re => segs_of st (snd re)) (hs_readers st).

Definition has_handle (st : hstate) (id : Z) : bool :=
  existsb (fun hk => negb (fst (snd hk)) && (snd (snd hk) =? id)) (hs_handles st).

Definition haccept_ev (st : hstate) (ev : hevent) : option hstate :=
  match ev with
  | HRoot e persisted =>
      (* every file-backed segment of a root has an open handle *)
      if forallb (has_handle st) persisted
      then Some {| hs_root := Some e; hs_epochs := (e, persisted) :: hs_epochs st; hs_handles := hs_handles st;
                   hs_closed := hs_closed st; hs_readers := hs_readers st |}
      else None
  | HRootNil =>
      Some {| hs_root := None; hs_epochs := hs_epochs st; hs_handles := hs_handles st; hs_closed := hs_closed st;
              hs_readers := hs_readers st |}
  | HOpen snp id h =>
      if negb (existsb (fun hk => fst hk =? h) (hs_handles st)) && negb (zmem h (hs_closed st))
      then Some {| hs_root := hs_root st; hs_epochs := hs_epochs st; hs_handles := (h, (snp, id)) :: hs_handles st;
                   hs_closed := hs_closed st; hs_readers := hs_readers st |}
      else None
  | HClose h =>
      match lookup h (hs_handles st) with
      | None => None                                  (* closing an unknown or already closed handle *)
      | Some (snp, id) =>
          let st' := {| hs_root := hs_root st; hs_epochs := hs_epochs st;
                        hs_handles := filter (fun hk => negb (fst hk =? h)) (hs_handles st);
                        hs_closed := h :: hs_closed st; hs_readers := hs_readers st |} in
          if snp then Some st'
          else if zmem id (needed_segs st') && negb (has_handle st' id) then None else Some st'
      end
  | HReaderOpen r e =>
      match hs_root st with
      | Some e' => if (e =? e') && negb (existsb (fun re => fst re =? r) (hs_readers st))
                   then Some {| hs_root := hs_root st; hs_epochs := hs_epochs st; hs_handles := hs_handles st;
                                hs_closed := hs_closed st; hs_readers := (r, e) :: hs_readers st |}
                   else None
      | None => None
      end
  | HReaderClose r =>
      if existsb (fun re => fst re =? r) (hs_readers st)
      then Some {| hs_root := hs_root st; hs_epochs := hs_epochs st; hs_handles := hs_handles st;
                   hs_closed := hs_closed st; hs_readers := filter (fun re => negb (fst re =? r)) (hs_readers st) |}
      else None
  | HEnd =>
      match hs_root st, hs_readers st, hs_handles st with
      | None, [], [] => Some st
      | _, _, _ => None
      end
  end.

Fixpoint haccept_run (st : hstate) (evs : list hevent) : option hstate :=
  match evs with
  | [] => Some st
  | e :: t => match haccept_ev st e with Some st' => haccept_run st' t | None => None end
  end.

Fixpoint hfirst_reject (st : hstate) (evs : list hevent) (n : nat) : option nat :=
  match evs with
  | [] => None
  | e :: t => match haccept_ev st e with Some st' => hfirst_reject st' t (S n) | None => Some n end
  end.
