(* Index/HandlesCorr.v — cases of the C04 engine: the root history of a run (monitor of Index/Trace.v)
   together with its handle/reader history (monitor of Index/Handles.v). *)
From Coq Require Import ZArith List Bool.
From Bluge Require Import Base.Res Base.Corr Index.Model Index.Trace Index.TraceCorr Index.Handles.
Import ListNotations.
Open Scope Z_scope.

Definition hcase := (list ievent * list hevent)%type.

Definition check (c : hcase) : bool :=
  match accept_run init_state (fst c) with Some _ => true | None => false end &&
  match haccept_run hinit (snd c) with Some _ => true | None => false end.

Definition mismatches (l : list hcase) : list nat := failing check l.

Fixpoint rejects_from (n : nat) (l : list hcase) : list (nat * (nat * nat)) :=
  match l with
  | [] => []
  | c :: t =>
      match first_reject init_state (fst c) 0, hfirst_reject hinit (snd c) 0 with
      | Some k, _ => (n, (O, k)) :: rejects_from (S n) t
      | None, Some k => (n, (1%nat, k)) :: rejects_from (S n) t
      | None, None => rejects_from (S n) t
      end
  end.
Definition rejects (l : list hcase) : list (nat * (nat * nat)) := rejects_from 0 l.
