(* Index/ModelProofs.v — proofs about M-IDX (Index/Model.v), part 1:
   set-as-list lemmas, live documents, introduce_segment refines apply_batch (C01),
   introduce_persist (C06), observables (C01), stale obsoletes (C05). *)
From Coq Require Import ZArith List Bool Lia Permutation Sorting.Sorted.
From Coq Require Import ZifyBool.
From Bluge Require Import Base.Res Index.Model Index.Trace.
Import ListNotations.
Open Scope Z_scope.

(* ================================================================== *)
(* generic list lemmas                                                  *)
(* ================================================================== *)

Lemma filter_map_swap : forall {A B} (g : A -> B) (f : B -> bool) (l : list A),
  filter f (map g l) = map g (filter (fun a => f (g a)) l).
Proof.
  intros A B g f l. induction l as [|a t IH]; simpl; [reflexivity|].
  destruct (f (g a)); simpl; rewrite IH; reflexivity.
Qed.

Lemma filter_filter : forall {A} (f g : A -> bool) (l : list A),
  filter f (filter g l) = filter (fun a => g a && f a) l.
Proof.
  intros A f g l. induction l as [|a t IH]; simpl; [reflexivity|].
  destruct (g a); simpl; [destruct (f a); simpl; rewrite IH; reflexivity | exact IH].
Qed.

Lemma filter_length_split : forall {A} (f : A -> bool) (l : list A),
  (length (filter f l) + length (filter (fun a => negb (f a)) l) = length l)%nat.
Proof.
  intros A f l. induction l as [|a t IH]; simpl; [reflexivity|].
  destruct (f a); simpl; lia.
Qed.

Lemma filter_flat_map : forall {A B} (f : B -> bool) (g : A -> list B) (l : list A),
  filter f (flat_map g l) = flat_map (fun a => filter f (g a)) l.
Proof.
  intros A B f g l. induction l as [|a t IH]; simpl; [reflexivity|].
  rewrite filter_app, IH. reflexivity.
Qed.

Lemma filter_all_false : forall {A} (f : A -> bool) (l : list A),
  (forall a, In a l -> f a = false) -> filter f l = [].
Proof.
  intros A f l H. induction l as [|a t IH]; simpl; [reflexivity|].
  rewrite (H a (or_introl eq_refl)). apply IH. intros b Hb. apply H. right. exact Hb.
Qed.

Lemma filter_all_true : forall {A} (f : A -> bool) (l : list A),
  (forall a, In a l -> f a = true) -> filter f l = l.
Proof.
  intros A f l H. induction l as [|a t IH]; simpl; [reflexivity|].
  rewrite (H a (or_introl eq_refl)). f_equal. apply IH. intros b Hb. apply H. right. exact Hb.
Qed.

Lemma length_zero_nil : forall {A} (l : list A), length l = 0%nat -> l = [].
Proof. intros A l H. destruct l; [reflexivity | discriminate]. Qed.

Lemma flat_map_ext_in : forall {A B} (f g : A -> list B) (l : list A),
  (forall a, In a l -> f a = g a) -> flat_map f l = flat_map g l.
Proof.
  intros A B f g l H. induction l as [|a t IH]; simpl; [reflexivity|].
  rewrite (H a (or_introl eq_refl)). f_equal. apply IH. intros b Hb. apply H. right. exact Hb.
Qed.

(* ================================================================== *)
(* boolean list equalities                                              *)
(* ================================================================== *)

Lemma list_eqbZ_eq : forall a b, list_eqbZ a b = true <-> a = b.
Proof.
  induction a as [|x a IH]; destruct b as [|y b]; simpl; split; intro H; try reflexivity; try discriminate.
  - apply andb_true_iff in H. destruct H as [H1 H2]. apply Z.eqb_eq in H1. apply IH in H2. subst. reflexivity.
  - injection H as -> ->. apply andb_true_iff. split; [apply Z.eqb_refl | apply IH; reflexivity].
Qed.

Lemma doc_eqb_eq : forall a b, doc_eqb a b = true <-> a = b.
Proof.
  intros [a1 a2] [b1 b2]. unfold doc_eqb. simpl. split; intro H.
  - apply andb_true_iff in H. destruct H as [H1 H2]. apply Z.eqb_eq in H1, H2. subst. reflexivity.
  - injection H as -> ->. rewrite !Z.eqb_refl. reflexivity.
Qed.

Lemma docs_eqb_eq : forall a b, docs_eqb a b = true <-> a = b.
Proof.
  induction a as [|x a IH]; destruct b as [|y b]; simpl; split; intro H; try reflexivity; try discriminate.
  - apply andb_true_iff in H. destruct H as [H1 H2]. apply doc_eqb_eq in H1. apply IH in H2. subst. reflexivity.
  - injection H as -> ->. apply andb_true_iff. split; [apply doc_eqb_eq; reflexivity | apply IH; reflexivity].
Qed.

(* ================================================================== *)
(* sets of document numbers                                             *)
(* ================================================================== *)

Lemma zmem_In : forall x l, zmem x l = true <-> In x l.
Proof.
  intros x l. unfold zmem. rewrite existsb_exists. split.
  - intros [y [Hy He]]. apply Z.eqb_eq in He. subst. exact Hy.
  - intro H. exists x. split; [exact H | apply Z.eqb_refl].
Qed.

Lemma zmem_false : forall x l, zmem x l = false <-> ~ In x l.
Proof.
  intros x l. rewrite <- zmem_In. destruct (zmem x l); split; intro H; try reflexivity; try discriminate.
  exfalso. apply H. reflexivity.
Qed.

Lemma zmem_ext : forall x a b, (In x a <-> In x b) -> zmem x a = zmem x b.
Proof.
  intros x a b H. destruct (zmem x a) eqn:Ea; destruct (zmem x b) eqn:Eb; try reflexivity.
  - apply zmem_In in Ea. apply H in Ea. apply zmem_In in Ea. congruence.
  - apply zmem_In in Eb. apply H in Eb. apply zmem_In in Eb. congruence.
Qed.

Lemma zmem_app : forall x a b, zmem x (a ++ b) = zmem x a || zmem x b.
Proof. intros. unfold zmem. apply existsb_app. Qed.

Lemma zmem_cons : forall x y l, zmem x (y :: l) = (x =? y) || zmem x l.
Proof. reflexivity. Qed.

Lemma zinsert_In : forall x y l, In x (zinsert y l) <-> x = y \/ In x l.
Proof.
  intros x y l. induction l as [|z t IH]; simpl.
  - intuition.
  - destruct (y <? z) eqn:E1; [simpl; intuition|].
    destruct (y =? z) eqn:E2.
    + apply Z.eqb_eq in E2. subst. simpl. intuition.
    + simpl. rewrite IH. intuition.
Qed.

Lemma znorm_In : forall x l, In x (znorm l) <-> In x l.
Proof.
  intros x l. induction l as [|y t IH]; simpl; [reflexivity|].
  rewrite zinsert_In, IH. intuition.
Qed.

Lemma zmem_znorm : forall x l, zmem x (znorm l) = zmem x l.
Proof. intros. apply zmem_ext. apply znorm_In. Qed.

Lemma zmem_zunion : forall x a b, zmem x (zunion a b) = zmem x a || zmem x b.
Proof. intros. unfold zunion. rewrite zmem_znorm. apply zmem_app. Qed.

Lemma zunion_In : forall x a b, In x (zunion a b) <-> In x a \/ In x b.
Proof. intros. unfold zunion. rewrite znorm_In. apply in_app_iff. Qed.

Lemma zdiff_In : forall x a b, In x (zdiff a b) <-> In x a /\ ~ In x b.
Proof.
  intros. unfold zdiff. rewrite filter_In. rewrite negb_true_iff, zmem_false. reflexivity.
Qed.

(* strictly increasing lists *)
Definition sinc (l : list Z) : Prop := StronglySorted Z.lt l.

Lemma sinc_zinsert : forall x l, sinc l -> sinc (zinsert x l).
Proof.
  intros x l H. induction H as [|y t Ht IH Hy]; simpl.
  - constructor; constructor.
  - destruct (x <? y) eqn:E1.
    + constructor; [constructor; assumption|].
      constructor; [lia|]. rewrite Forall_forall in *. intros z Hz. specialize (Hy z Hz). lia.
    + destruct (x =? y) eqn:E2; [constructor; assumption|].
      constructor; [exact IH|]. rewrite Forall_forall in *. intros z Hz.
      apply zinsert_In in Hz. destruct Hz as [->|Hz]; [lia | apply Hy; exact Hz].
Qed.

Lemma sinc_znorm : forall l, sinc (znorm l).
Proof.
  induction l as [|x t IH]; simpl; [constructor | apply sinc_zinsert; exact IH].
Qed.

Lemma zinsert_lt_all : forall x l, Forall (Z.lt x) l -> zinsert x l = x :: l.
Proof.
  intros x l H. destruct l as [|y t]; simpl; [reflexivity|].
  inversion H; subst. assert (E : (x <? y) = true) by lia. rewrite E. reflexivity.
Qed.

Lemma znorm_sinc : forall l, sinc l -> znorm l = l.
Proof.
  intros l H. induction H as [|y t Ht IH Hy]; simpl; [reflexivity|].
  rewrite IH. apply zinsert_lt_all. exact Hy.
Qed.

Lemma znorm_idem : forall l, znorm (znorm l) = znorm l.
Proof. intro l. apply znorm_sinc. apply sinc_znorm. Qed.

Lemma sinc_NoDup : forall l, sinc l -> NoDup l.
Proof.
  intros l H. induction H as [|y t Ht IH Hy]; constructor; [|exact IH].
  intro Hin. rewrite Forall_forall in Hy. specialize (Hy y Hin). lia.
Qed.

(* znorm (a ++ b) depends on b only through znorm b *)
Lemma znorm_app_r : forall a b, znorm (a ++ b) = fold_right zinsert (znorm b) a.
Proof. intros. unfold znorm. apply fold_right_app. Qed.

Lemma zunion_znorm_r : forall a b b', znorm b = znorm b' -> zunion a b = zunion a b'.
Proof. intros a b b' H. unfold zunion. rewrite !znorm_app_r, H. reflexivity. Qed.

(* ================================================================== *)
(* indexed lists                                                        *)
(* ================================================================== *)

Lemma index_from_app : forall {A} (a b : list A) n,
  index_from n (a ++ b) = index_from n a ++ index_from (n + Z.of_nat (length a)) b.
Proof.
  intros A a. induction a as [|x t IH]; intros b n; simpl.
  - f_equal. lia.
  - f_equal. rewrite IH. f_equal. f_equal. lia.
Qed.

Lemma index_from_length : forall {A} (l : list A) n, length (index_from n l) = length l.
Proof. intros A l. induction l as [|x t IH]; intro n; simpl; [reflexivity | rewrite IH; reflexivity]. Qed.

Lemma index_from_snd : forall {A} (l : list A) n, map snd (index_from n l) = l.
Proof. intros A l. induction l as [|x t IH]; intro n; simpl; [reflexivity | rewrite IH; reflexivity]. Qed.

Lemma index_from_In_bound : forall {A} (l : list A) n p,
  In p (index_from n l) -> n <= fst p < n + Z.of_nat (length l).
Proof.
  intros A l. induction l as [|x t IH]; intros n p H; simpl in *; [contradiction|].
  destruct H as [<-|H]; simpl; [lia|]. apply IH in H. lia.
Qed.

Lemma index_from_In_nth : forall {A} (l : list A) n k a,
  In (k, a) (index_from n l) <-> (n <= k /\ nth_error l (Z.to_nat (k - n)) = Some a).
Proof.
  intros A l. induction l as [|x t IH]; intros n k a; simpl.
  - split; [contradiction|]. intros [_ H]. destruct (Z.to_nat (k - n)); discriminate.
  - rewrite IH. split.
    + intros [H|[H1 H2]].
      * injection H as <- <-. split; [lia|]. replace (n - n) with 0 by lia. reflexivity.
      * split; [lia|]. replace (Z.to_nat (k - n)) with (S (Z.to_nat (k - (n + 1)))) by lia. exact H2.
    + intros [H1 H2]. destruct (Z.eq_dec k n) as [->|Hne].
      * left. replace (n - n) with 0 in H2 by lia. simpl in H2. injection H2 as ->. reflexivity.
      * right. split; [lia|].
        replace (Z.to_nat (k - n)) with (S (Z.to_nat (k - (n + 1)))) in H2 by lia. exact H2.
Qed.

Lemma index_from_unique : forall {A} (l : list A) n k a b,
  In (k, a) (index_from n l) -> In (k, b) (index_from n l) -> a = b.
Proof.
  intros A l n k a b Ha Hb. apply index_from_In_nth in Ha, Hb.
  destruct Ha as [_ Ha]. destruct Hb as [_ Hb]. congruence.
Qed.

Lemma index_from_fst_In : forall {A} (l : list A) n k,
  In k (map fst (index_from n l)) <-> n <= k < n + Z.of_nat (length l).
Proof.
  intros A l. induction l as [|x t IH]; intros n k; simpl.
  - split; [contradiction | lia].
  - rewrite IH. split; [intros [H|H]; lia|]. intro H. destruct (Z.eq_dec n k); [left; assumption | right; lia].
Qed.

Lemma index_from_fst_NoDup : forall {A} (l : list A) n, NoDup (map fst (index_from n l)).
Proof.
  intros A l. induction l as [|x t IH]; intro n; simpl; constructor.
  - rewrite index_from_fst_In. lia.
  - apply IH.
Qed.

Lemma index_from_fst_sorted : forall {A} (l : list A) n, sinc (map fst (index_from n l)).
Proof.
  intros A l. induction l as [|x t IH]; intro n; simpl; constructor.
  - apply IH.
  - rewrite Forall_forall. intros k Hk. apply index_from_fst_In in Hk. lia.
Qed.

(* ================================================================== *)
(* live documents with an arbitrary first number                        *)
(* ================================================================== *)

Definition live_from (n : Z) (docs : list doc) (del : list Z) : list doc :=
  map snd (filter (fun p => negb (zmem (fst p) del)) (index_from n docs)).

Lemma live_at_from : forall docs del, live_at docs del = live_from 0 docs del.
Proof. reflexivity. Qed.

Lemma live_from_nil_del : forall n docs, live_from n docs [] = docs.
Proof.
  intros. unfold live_from. rewrite filter_all_true; [apply index_from_snd | reflexivity].
Qed.

Lemma live_from_app : forall a b n del,
  live_from n (a ++ b) del = live_from n a del ++ live_from (n + Z.of_nat (length a)) b del.
Proof.
  intros. unfold live_from. rewrite index_from_app, filter_app, map_app. reflexivity.
Qed.

Lemma live_from_ext : forall n docs d1 d2,
  (forall k, n <= k < n + Z.of_nat (length docs) -> zmem k d1 = zmem k d2) ->
  live_from n docs d1 = live_from n docs d2.
Proof.
  intros n docs d1 d2 H. unfold live_from. f_equal. apply filter_ext_in.
  intros p Hp. apply index_from_In_bound in Hp. rewrite (H _ Hp). reflexivity.
Qed.

(* number of live documents when the deleted set is duplicate free and in range *)
Lemma live_from_length : forall n docs del,
  NoDup del -> (forall k, In k del -> n <= k < n + Z.of_nat (length docs)) ->
  Z.of_nat (length (live_from n docs del)) = Z.of_nat (length docs) - Z.of_nat (length del).
Proof.
  intros n docs del Hnd Hr. unfold live_from. rewrite map_length.
  pose proof (filter_length_split (fun p : Z * doc => zmem (fst p) del) (index_from n docs)) as Hs.
  rewrite index_from_length in Hs.
  assert (Hl : length (filter (fun p : Z * doc => zmem (fst p) del) (index_from n docs)) = length del).
  { rewrite <- (map_length fst).
    rewrite <- (filter_map_swap fst (fun k => zmem k del) (index_from n docs)).
    apply Permutation_length. apply NoDup_Permutation.
    - apply NoDup_filter. apply index_from_fst_NoDup.
    - exact Hnd.
    - intro k. rewrite filter_In, index_from_fst_In, zmem_In. split; [tauto|].
      intro Hk. split; [apply Hr; exact Hk | exact Hk]. }
  lia.
Qed.

(* ================================================================== *)
(* well-formed segments                                                 *)
(* ================================================================== *)

Lemma del_ok_spec : forall s, del_ok s = true ->
  sinc (ss_del s) /\ (forall k, In k (ss_del s) -> 0 <= k < Z.of_nat (length (ss_docs s))).
Proof.
  intros s H. unfold del_ok in H. apply andb_true_iff in H. destruct H as [H1 H2]. split.
  - apply list_eqbZ_eq in H2. rewrite <- H2. apply sinc_znorm.
  - intros k Hk. rewrite forallb_forall in H1. specialize (H1 k Hk). lia.
Qed.

Lemma del_ok_intro : forall s,
  sinc (ss_del s) -> (forall k, In k (ss_del s) -> 0 <= k < Z.of_nat (length (ss_docs s))) ->
  del_ok s = true.
Proof.
  intros s H1 H2. unfold del_ok. apply andb_true_iff. split.
  - apply forallb_forall. intros k Hk. specialize (H2 k Hk). lia.
  - apply list_eqbZ_eq. apply znorm_sinc. exact H1.
Qed.

Lemma seg_count_live : forall s, del_ok s = true -> seg_count s = Z.of_nat (length (live s)).
Proof.
  intros s H. apply del_ok_spec in H. destruct H as [H1 H2].
  unfold seg_count, live. rewrite live_at_from, live_from_length.
  - reflexivity.
  - apply sinc_NoDup. exact H1.
  - intros k Hk. specialize (H2 k Hk). lia.
Qed.

Lemma root_ok_spec : forall sn, root_ok sn = true ->
  snap_wf sn = true /\ nodupZ (seg_ids sn) = true /\ forallb (fun s => 0 <? seg_count s) (sn_segs sn) = true.
Proof.
  intros sn H. unfold root_ok in H. apply andb_true_iff in H. destruct H as [H H3].
  apply andb_true_iff in H. destruct H as [H1 H2]. auto.
Qed.

Lemma snap_wf_In : forall sn s, snap_wf sn = true -> In s (sn_segs sn) -> del_ok s = true.
Proof. intros sn s H Hs. unfold snap_wf in H. rewrite forallb_forall in H. apply H. exact Hs. Qed.

(* ================================================================== *)
(* docs_matching                                                        *)
(* ================================================================== *)

Lemma docs_matching_In : forall docs ids k,
  In k (docs_matching docs ids) <-> exists d, In (k, d) (indexed docs) /\ zmem (doc_id d) ids = true.
Proof.
  intros docs ids k. unfold docs_matching. rewrite in_map_iff. split.
  - intros [[k' d] [Hk Hp]]. simpl in Hk. subst. apply filter_In in Hp. exists d. exact Hp.
  - intros [d [H1 H2]]. exists (k, d). split; [reflexivity|]. apply filter_In. split; assumption.
Qed.

Lemma docs_matching_zmem : forall docs ids k d, In (k, d) (indexed docs) ->
  zmem k (docs_matching docs ids) = zmem (doc_id d) ids.
Proof.
  intros docs ids k d H. destruct (zmem (doc_id d) ids) eqn:E.
  - apply zmem_In. apply docs_matching_In. exists d. split; assumption.
  - apply zmem_false. intro Hin. apply docs_matching_In in Hin. destruct Hin as [d' [H1 H2]].
    unfold indexed in *. rewrite (index_from_unique _ _ _ _ _ H H1) in E. congruence.
Qed.

Lemma docs_matching_range : forall docs ids k,
  In k (docs_matching docs ids) -> 0 <= k < Z.of_nat (length docs).
Proof.
  intros docs ids k H. apply docs_matching_In in H. destruct H as [d [H _]].
  apply index_from_In_bound in H. simpl in H. lia.
Qed.

(* live documents after more deletions named by ids *)
Lemma live_at_delete_ids : forall docs del delta ids,
  (forall k, In k delta <-> In k (docs_matching docs ids)) ->
  live_at docs (zunion del delta) = filter (fun d => negb (zmem (doc_id d) ids)) (live_at docs del).
Proof.
  intros docs del delta ids H. unfold live_at. rewrite filter_map_swap, filter_filter. f_equal.
  apply filter_ext_in. intros [k d] Hp. simpl.
  rewrite zmem_zunion, negb_orb. f_equal. f_equal.
  rewrite (zmem_ext k delta (docs_matching docs ids) (H k)). apply docs_matching_zmem. exact Hp.
Qed.

(* ================================================================== *)
(* C01.1  introduce_segment refines apply_batch                         *)
(* ================================================================== *)

Definition delta_of (b : batch) (obs : list (Z * list Z)) (s : segsnap) : list Z :=
  match lookup (ss_id s) obs with
  | Some d => d
  | None => docs_matching (ss_docs s) (b_ids b)
  end.

Lemma obs_sound_delta : forall root b obs s, obs_sound root b obs = true -> In s (sn_segs root) ->
  znorm (delta_of b obs s) = znorm (docs_matching (ss_docs s) (b_ids b)).
Proof.
  intros root b obs s H Hs. unfold obs_sound in H. rewrite forallb_forall in H. specialize (H s Hs).
  unfold delta_of. destruct (lookup (ss_id s) obs) as [d|]; [|reflexivity].
  apply list_eqbZ_eq. exact H.
Qed.

Lemma obs_sound_delta_In : forall root b obs s, obs_sound root b obs = true -> In s (sn_segs root) ->
  forall k, In k (delta_of b obs s) <-> In k (docs_matching (ss_docs s) (b_ids b)).
Proof.
  intros root b obs s H Hs k. rewrite <- (znorm_In k (delta_of b obs s)), (obs_sound_delta _ _ _ _ H Hs).
  apply znorm_In.
Qed.

Definition seg_after (b : batch) (obs : list (Z * list Z)) (s : segsnap) : segsnap :=
  {| ss_id := ss_id s; ss_docs := ss_docs s; ss_del := zunion (ss_del s) (delta_of b obs s);
     ss_persisted := ss_persisted s |}.

Lemma introduce_one_unfold : forall b obs s,
  introduce_one b obs s = if 0 <? seg_count (seg_after b obs s) then Some (seg_after b obs s) else None.
Proof. reflexivity. Qed.

Lemma seg_after_del_ok : forall b obs s,
  del_ok s = true -> (forall k, In k (delta_of b obs s) <-> In k (docs_matching (ss_docs s) (b_ids b))) ->
  del_ok (seg_after b obs s) = true.
Proof.
  intros b obs s Hs Hd. apply del_ok_spec in Hs. destruct Hs as [_ Hr]. apply del_ok_intro; simpl.
  - apply sinc_znorm.
  - intros k Hk. apply zunion_In in Hk. destruct Hk as [Hk|Hk]; [apply Hr; exact Hk|].
    apply Hd in Hk. apply docs_matching_range in Hk. exact Hk.
Qed.

Lemma seg_after_live : forall b obs s,
  (forall k, In k (delta_of b obs s) <-> In k (docs_matching (ss_docs s) (b_ids b))) ->
  live (seg_after b obs s) = filter (fun d => negb (zmem (doc_id d) (b_ids b))) (live s).
Proof. intros b obs s Hd. unfold live. simpl. apply live_at_delete_ids. exact Hd. Qed.

Lemma introduce_one_live : forall b obs s,
  del_ok s = true -> (forall k, In k (delta_of b obs s) <-> In k (docs_matching (ss_docs s) (b_ids b))) ->
  match introduce_one b obs s with Some s' => live s' | None => [] end
  = filter (fun d => negb (zmem (doc_id d) (b_ids b))) (live s).
Proof.
  intros b obs s Hs Hd. rewrite introduce_one_unfold.
  pose proof (seg_after_del_ok b obs s Hs Hd) as Hok.
  pose proof (seg_count_live _ Hok) as Hc.
  rewrite <- (seg_after_live b obs s Hd).
  destruct (0 <? seg_count (seg_after b obs s)) eqn:E; [reflexivity|].
  symmetry. apply length_zero_nil. lia.
Qed.

Lemma filter_map_live : forall b obs segs,
  (forall s, In s segs -> del_ok s = true /\
     (forall k, In k (delta_of b obs s) <-> In k (docs_matching (ss_docs s) (b_ids b)))) ->
  flat_map live (filter_map (introduce_one b obs) segs)
  = filter (fun d => negb (zmem (doc_id d) (b_ids b))) (flat_map live segs).
Proof.
  intros b obs segs H. induction segs as [|s t IH]; simpl; [reflexivity|].
  rewrite filter_app. rewrite <- IH by (intros s' Hs'; apply H; right; exact Hs').
  destruct (H s (or_introl eq_refl)) as [H1 H2].
  rewrite <- (introduce_one_live b obs s H1 H2).
  destruct (introduce_one b obs s); reflexivity.
Qed.

Lemma introduce_refines_wf : forall root b obs newid e,
  snap_wf root = true -> obs_sound root b obs = true ->
  abs (introduce_segment root b obs newid e) = apply_batch (abs root) b.
Proof.
  intros root b obs newid e Hwf Hobs. unfold abs, introduce_segment, apply_batch. simpl sn_segs.
  rewrite flat_map_app. f_equal.
  2:{ destruct (b_docs b) as [|d t]; [reflexivity|].
      cbn [flat_map]. rewrite app_nil_r. exact (live_from_nil_del 0 (d :: t)). }
  apply filter_map_live. intros s Hs. split.
  - apply (snap_wf_In root); assumption.
  - apply (obs_sound_delta_In root); assumption.
Qed.

Theorem introduce_refines_proof : forall root b obs newid e,
  root_ok root = true -> obs_sound root b obs = true ->
  abs (introduce_segment root b obs newid e) = apply_batch (abs root) b.
Proof.
  intros root b obs newid e Hr Hobs. apply introduce_refines_wf; [|exact Hobs].
  apply root_ok_spec in Hr. tauto.
Qed.

(* ================================================================== *)
(* C06.6  introduce_persist keeps content, deleted sets, ids, order     *)
(* ================================================================== *)

Definition persist_one (ids : list Z) (s : segsnap) : segsnap :=
  if zmem (ss_id s) ids
  then {| ss_id := ss_id s; ss_docs := ss_docs s; ss_del := ss_del s; ss_persisted := true |}
  else s.

Lemma persist_one_fields : forall ids s,
  ss_id (persist_one ids s) = ss_id s /\ ss_docs (persist_one ids s) = ss_docs s /\
  ss_del (persist_one ids s) = ss_del s /\ live (persist_one ids s) = live s.
Proof. intros ids s. unfold persist_one. destruct (zmem (ss_id s) ids); auto. Qed.

Lemma introduce_persist_segs : forall root ids e,
  sn_segs (introduce_persist root ids e) = map (persist_one ids) (sn_segs root).
Proof. reflexivity. Qed.

Theorem persist_swap_preserves_proof : forall root ids e,
  abs (introduce_persist root ids e) = abs root /\
  map ss_del (sn_segs (introduce_persist root ids e)) = map ss_del (sn_segs root) /\
  map ss_id (sn_segs (introduce_persist root ids e)) = map ss_id (sn_segs root) /\
  map ss_docs (sn_segs (introduce_persist root ids e)) = map ss_docs (sn_segs root).
Proof.
  intros root ids e. unfold abs. rewrite introduce_persist_segs.
  induction (sn_segs root) as [|s t IH]; simpl; [auto|].
  destruct IH as [I1 [I2 [I3 I4]]]. destruct (persist_one_fields ids s) as [F1 [F2 [F3 F4]]].
  rewrite I1, I2, I3, I4, F1, F2, F3, F4. auto.
Qed.

Lemma persist_one_del_ok : forall ids s, del_ok (persist_one ids s) = del_ok s.
Proof. intros ids s. unfold persist_one. destruct (zmem (ss_id s) ids); reflexivity. Qed.

Lemma persist_one_count : forall ids s, seg_count (persist_one ids s) = seg_count s.
Proof. intros ids s. unfold persist_one. destruct (zmem (ss_id s) ids); reflexivity. Qed.

(* ================================================================== *)
(* C01.2  observables                                                   *)
(* ================================================================== *)

(* sum of the full sizes (deleted documents included) of a list of segments *)
Definition full_size (segs : list segsnap) : Z :=
  fold_right (fun s acc => Z.of_nat (length (ss_docs s)) + acc) 0 segs.

Lemma full_size_app : forall a b, full_size (a ++ b) = full_size a + full_size b.
Proof. induction a as [|s t IH]; intro b; simpl; [reflexivity | rewrite IH; lia]. Qed.

Lemma snap_count_from : forall segs acc,
  forallb del_ok segs = true ->
  fold_left (fun a s => a + seg_count s) segs acc = acc + Z.of_nat (length (flat_map live segs)).
Proof.
  induction segs as [|s t IH]; intros acc H; simpl; [lia|].
  simpl in H. apply andb_true_iff in H. destruct H as [H1 H2].
  rewrite IH by exact H2. rewrite app_length, (seg_count_live s H1). lia.
Qed.

Lemma snap_count_abs : forall sn, snap_wf sn = true -> snap_count sn = Z.of_nat (length (abs sn)).
Proof. intros sn H. unfold snap_count, abs. rewrite snap_count_from by exact H. lia. Qed.

Lemma global_live_snd : forall segs off, map snd (global_live_from off segs) = flat_map live segs.
Proof.
  induction segs as [|s t IH]; intro off; simpl; [reflexivity|].
  rewrite map_app, IH. f_equal. rewrite map_map. reflexivity.
Qed.

Lemma match_all_abs : forall sn, map snd (match_all sn) = abs sn.
Proof. intro sn. apply global_live_snd. Qed.

Lemma sinc_app : forall a b, sinc a -> sinc b -> (forall x y, In x a -> In y b -> x < y) -> sinc (a ++ b).
Proof.
  intros a b Ha Hb H. induction Ha as [|x t Ht IH Hx]; simpl; [exact Hb|].
  constructor.
  - apply IH. intros u v Hu Hv. apply H; [right; exact Hu | exact Hv].
  - apply Forall_app. split; [exact Hx|]. rewrite Forall_forall. intros y Hy. apply H; [left; reflexivity | exact Hy].
Qed.

Lemma sinc_shift_filter : forall (f : Z * doc -> bool) off (l : list (Z * doc)),
  sinc (map fst l) -> sinc (map fst (map (fun p => (off + fst p, snd p)) (filter f l))).
Proof.
  intros f off l. induction l as [|p t IH]; simpl; intro H; [constructor|].
  inversion H as [|? ? Ht Hp]; subst. destruct (f p); simpl; [|apply IH; exact Ht].
  constructor; [apply IH; exact Ht|].
  rewrite Forall_forall in *. intros y Hy. rewrite map_map in Hy. simpl in Hy.
  apply in_map_iff in Hy. destruct Hy as [q [<- Hq]]. apply filter_In in Hq. destruct Hq as [Hq _].
  assert (fst p < fst q) by (apply Hp; apply in_map; exact Hq). lia.
Qed.

Lemma global_live_In : forall segs off g d,
  In (g, d) (global_live_from off segs) <->
  exists pre s post n, segs = pre ++ s :: post /\ In (n, d) (indexed (ss_docs s)) /\
     zmem n (ss_del s) = false /\ g = off + full_size pre + n.
Proof.
  induction segs as [|s t IH]; intros off g d; simpl.
  - split; [contradiction|]. intros [pre [s [post [n [H _]]]]]. destruct pre; discriminate.
  - rewrite in_app_iff, IH. split.
    + intros [H|H].
      * apply in_map_iff in H. destruct H as [[n d'] [He Hp]]. simpl in He. injection He as <- <-.
        apply filter_In in Hp. destruct Hp as [Hp Hz]. simpl in Hz.
        exists [], s, t, n. simpl. repeat split; [exact Hp | | lia].
        destruct (zmem n (ss_del s)); [discriminate | reflexivity].
      * destruct H as [pre [s' [post [n [H1 [H2 [H3 H4]]]]]]]. subst t.
        exists (s :: pre), s', post, n. simpl. repeat split; try assumption. lia.
    + intros [pre [s' [post [n [H1 [H2 [H3 H4]]]]]]]. destruct pre as [|s0 pre]; simpl in H1.
      * injection H1 as <- <-. left. apply in_map_iff. exists (n, d). simpl in H4. split; [simpl; f_equal; lia|].
        apply filter_In. split; [exact H2|]. simpl. rewrite H3. reflexivity.
      * injection H1 as <- ->. right. exists pre, s', post, n. simpl in H4. repeat split; try assumption. lia.
Qed.

Lemma global_live_bounds : forall segs off g d,
  In (g, d) (global_live_from off segs) -> off <= g < off + full_size segs.
Proof.
  intros segs off g d H. apply global_live_In in H.
  destruct H as [pre [s [post [n [H1 [H2 [_ H4]]]]]]]. subst segs.
  apply index_from_In_bound in H2. simpl in H2. rewrite full_size_app. simpl.
  assert (0 <= full_size pre) by (clear; induction pre; simpl; lia).
  assert (0 <= full_size post) by (clear; induction post; simpl; lia). lia.
Qed.

Lemma global_live_sorted : forall segs off, sinc (map fst (global_live_from off segs)).
Proof.
  induction segs as [|s t IH]; intro off; simpl; [constructor|].
  rewrite map_app. apply sinc_app.
  - apply sinc_shift_filter. apply index_from_fst_sorted.
  - apply IH.
  - intros x y Hx Hy. apply in_map_iff in Hx, Hy.
    destruct Hx as [[g1 d1] [<- H1]]. destruct Hy as [[g2 d2] [<- H2]]. simpl.
    apply global_live_bounds in H2.
    apply in_map_iff in H1. destruct H1 as [[n d'] [He Hp]]. simpl in He. injection He as <- <-.
    apply filter_In in Hp. destruct Hp as [Hp _]. apply index_from_In_bound in Hp. simpl in Hp. lia.
Qed.

Theorem observables_agree_proof : forall sn,
  (snap_wf sn = true -> snap_count sn = Z.of_nat (length (abs sn))) /\
  map snd (match_all sn) = abs sn /\
  StronglySorted Z.lt (map fst (match_all sn)) /\
  (forall g d, In (g, d) (match_all sn) <->
     exists pre s post n, sn_segs sn = pre ++ s :: post /\ In (n, d) (indexed (ss_docs s)) /\
       zmem n (ss_del s) = false /\ g = full_size pre + n) /\
  (forall id, lookup_id sn id = filter (fun d => doc_id d =? id) (abs sn)).
Proof.
  intro sn. split; [apply snap_count_abs|]. split; [apply match_all_abs|].
  split; [apply global_live_sorted|]. split; [|reflexivity].
  intros g d. unfold match_all. rewrite global_live_In.
  split; intros [pre [s [post [n [H1 [H2 [H3 H4]]]]]]]; exists pre, s, post, n; repeat split; try assumption; lia.
Qed.

(* ================================================================== *)
(* C05.13  stale obsoletes                                              *)
(* ================================================================== *)

Lemma filter_map_ext_in : forall {A B} (f g : A -> option B) (l : list A),
  (forall a, In a l -> f a = g a) -> filter_map f l = filter_map g l.
Proof.
  intros A B f g l H. induction l as [|a t IH]; simpl; [reflexivity|].
  rewrite (H a (or_introl eq_refl)). rewrite IH by (intros b Hb; apply H; right; exact Hb). reflexivity.
Qed.

Theorem stale_prepare_harmless_proof : forall root b obs newid e,
  obs_sound root b obs = true ->
  introduce_segment root b obs newid e = introduce_segment root b [] newid e.
Proof.
  intros root b obs newid e H. unfold introduce_segment. f_equal. f_equal.
  apply filter_map_ext_in. intros s Hs. rewrite !introduce_one_unfold.
  assert (E : seg_after b obs s = seg_after b [] s).
  { unfold seg_after. f_equal. apply zunion_znorm_r. apply (obs_sound_delta root); assumption. }
  rewrite E. reflexivity.
Qed.
