(* Index/ModelProofsBatch.v — proofs about the abstract index (apply_batch):
   update-only ids stay unique (C01.4), the excluded case (one id twice in one batch),
   and the concrete non-vacuity history of C01.5. *)
From Coq Require Import ZArith List Bool Lia Permutation.
From Coq Require Import ZifyBool.
From Bluge Require Import Base.Res Index.Model Index.Trace Index.ModelProofs.
Import ListNotations.
Open Scope Z_scope.

(* number of documents with identifier i *)
Definition count_id (i : Z) (l : list doc) : nat := length (filter (fun d => doc_id d =? i) l).

(* the batch touches id i: it names it or carries a document with it *)
Definition mentions (i : Z) (b : batch) : bool :=
  zmem i (b_ids b) || negb (Nat.eqb (count_id i (b_docs b)) 0).

(* every batch that carries a document with id i names i, and carries at most one such document *)
Definition well_behaved (i : Z) (bs : list batch) : Prop :=
  forall b, In b bs ->
    (count_id i (b_docs b) <> 0%nat -> zmem i (b_ids b) = true) /\ (count_id i (b_docs b) <= 1)%nat.

Lemma count_id_app : forall i a b, count_id i (a ++ b) = (count_id i a + count_id i b)%nat.
Proof. intros. unfold count_id. rewrite filter_app, app_length. reflexivity. Qed.

Lemma count_id_remove : forall i ids A,
  count_id i (filter (fun d => negb (zmem (doc_id d) ids)) A) = if zmem i ids then 0%nat else count_id i A.
Proof.
  intros i ids A. unfold count_id. rewrite filter_filter.
  induction A as [|d t IH]; simpl; [destruct (zmem i ids); reflexivity|].
  destruct (doc_id d =? i) eqn:E.
  - apply Z.eqb_eq in E. rewrite E. destruct (zmem i ids) eqn:Z; simpl; [exact IH|].
    rewrite IH. reflexivity.
  - rewrite andb_false_r. exact IH.
Qed.

Lemma count_id_apply_batch : forall i A b,
  count_id i (apply_batch A b)
  = ((if zmem i (b_ids b) then 0 else count_id i A) + count_id i (b_docs b))%nat.
Proof. intros. unfold apply_batch. rewrite count_id_app, count_id_remove. reflexivity. Qed.

Lemma apply_batches_snoc : forall bs b, apply_batches (bs ++ [b]) = apply_batch (apply_batches bs) b.
Proof. intros. unfold apply_batches. rewrite fold_left_app. reflexivity. Qed.

Lemma well_behaved_app : forall i a b, well_behaved i (a ++ b) -> well_behaved i a /\ well_behaved i b.
Proof.
  intros i a b H. split; intros x Hx; apply H; apply in_app_iff; [left | right]; exact Hx.
Qed.

Lemma at_most_one : forall i bs, well_behaved i bs -> (count_id i (apply_batches bs) <= 1)%nat.
Proof.
  intros i bs. induction bs as [|b bs IH] using rev_ind; intro H; [unfold apply_batches, count_id; simpl; lia|].
  apply well_behaved_app in H. destruct H as [H1 H2]. specialize (IH H1).
  destruct (H2 b (or_introl eq_refl)) as [Hn Hc].
  rewrite apply_batches_snoc, count_id_apply_batch.
  destruct (zmem i (b_ids b)) eqn:Z; [lia|].
  destruct (Nat.eq_dec (count_id i (b_docs b)) 0) as [E|E]; [lia|].
  specialize (Hn E). discriminate.
Qed.

Lemma not_mentioned_keeps : forall i post A,
  (forall b, In b post -> mentions i b = false) ->
  count_id i (fold_left apply_batch post A) = count_id i A.
Proof.
  intros i post. induction post as [|b t IH]; intros A H; simpl; [reflexivity|].
  rewrite IH by (intros b' Hb'; apply H; right; exact Hb').
  specialize (H b (or_introl eq_refl)). unfold mentions in H. apply orb_false_iff in H.
  destruct H as [H1 H2]. rewrite count_id_apply_batch, H1.
  apply negb_false_iff in H2. apply Nat.eqb_eq in H2. lia.
Qed.

Lemma last_mention_decides : forall i pre b post,
  well_behaved i (pre ++ b :: post) ->
  (forall b', In b' post -> mentions i b' = false) ->
  mentions i b = true ->
  count_id i (apply_batches (pre ++ b :: post)) = count_id i (b_docs b).
Proof.
  intros i pre b post Hwb Hpost Hm. unfold apply_batches. rewrite fold_left_app. simpl.
  rewrite not_mentioned_keeps by exact Hpost. rewrite count_id_apply_batch.
  apply well_behaved_app in Hwb. destruct Hwb as [_ Hwb].
  destruct (Hwb b (or_introl eq_refl)) as [Hn Hc].
  destruct (zmem i (b_ids b)) eqn:Z; [lia|].
  unfold mentions in Hm. rewrite Z in Hm. simpl in Hm. apply negb_true_iff in Hm.
  apply Nat.eqb_neq in Hm. specialize (Hn Hm). discriminate.
Qed.

Theorem update_only_unique_proof : forall i bs,
  well_behaved i bs ->
  (count_id i (apply_batches bs) <= 1)%nat /\
  (forall pre b post, bs = pre ++ b :: post ->
     (forall b', In b' post -> mentions i b' = false) -> mentions i b = true ->
     (count_id i (b_docs b) <> 0%nat -> count_id i (apply_batches bs) = 1%nat) /\
     (count_id i (b_docs b) = 0%nat -> count_id i (apply_batches bs) = 0%nat)).
Proof.
  intros i bs H. split; [apply at_most_one; exact H|].
  intros pre b post -> Hpost Hm.
  rewrite (last_mention_decides i pre b post H Hpost Hm).
  apply well_behaved_app in H. destruct H as [_ H]. destruct (H b (or_introl eq_refl)) as [_ Hc].
  split; intro; lia.
Qed.

(* the property's own exclusion: one id named twice in one batch leaves two live documents,
   in the abstract index and in the snapshot built by introduce_segment *)
Definition dup_batch : batch := {| b_docs := [(1, 10); (1, 11)]; b_ids := [1; 1] |}.

Lemma dup_in_batch_refuted_proof :
  exists b i, zmem i (b_ids b) = true /\
    count_id i (apply_batches [b]) = 2%nat /\
    length (lookup_id (introduce_segment (t_root init_state) b [] 1 1) i) = 2%nat.
Proof. exists dup_batch, 1. vm_compute. auto. Qed.

(* ---------- C01.5 non-vacuity: a concrete 3-batch history ---------- *)
Definition ex_r0 : snapshot := t_root init_state.
Definition ex_b1 : batch := {| b_docs := [(1, 10); (2, 20); (3, 30)]; b_ids := [1; 2; 3] |}.
Definition ex_b2 : batch := {| b_docs := [(2, 21); (4, 40)]; b_ids := [2; 4] |}.   (* id 2 re-inserted *)
Definition ex_b3 : batch := {| b_docs := []; b_ids := [3; 1] |}.                   (* delete only *)
Definition ex_obs2 : list (Z * list Z) := [(1, [1])].
Definition ex_obs3 : list (Z * list Z) := [(1, [2; 0])].                            (* not canonical *)
Definition ex_r1 := introduce_segment ex_r0 ex_b1 [] 1 1.
Definition ex_r2 := introduce_segment ex_r1 ex_b2 ex_obs2 2 2.
Definition ex_r3 := introduce_segment ex_r2 ex_b3 ex_obs3 3 3.

Lemma history3_example_proof :
  root_ok ex_r0 = true /\ obs_sound ex_r0 ex_b1 [] = true /\
  abs ex_r1 = apply_batch (abs ex_r0) ex_b1 /\
  root_ok ex_r1 = true /\ obs_sound ex_r1 ex_b2 ex_obs2 = true /\
  abs ex_r2 = apply_batch (abs ex_r1) ex_b2 /\
  root_ok ex_r2 = true /\ obs_sound ex_r2 ex_b3 ex_obs3 = true /\
  abs ex_r3 = apply_batch (abs ex_r2) ex_b3 /\
  root_ok ex_r3 = true /\
  abs ex_r2 = [(1, 10); (3, 30); (2, 21); (4, 40)] /\
  abs ex_r3 = apply_batches [ex_b1; ex_b2; ex_b3] /\
  abs ex_r3 = [(2, 21); (4, 40)] /\
  seg_ids ex_r3 = [2].
Proof. vm_compute. repeat split; reflexivity. Qed.

Lemma well_behaved_example_proof :
  well_behaved 2 [ex_b1; ex_b2; ex_b3] /\ count_id 2 (apply_batches [ex_b1; ex_b2; ex_b3]) = 1%nat /\
  well_behaved 1 [ex_b1; ex_b2; ex_b3] /\ count_id 1 (apply_batches [ex_b1; ex_b2; ex_b3]) = 0%nat.
Proof.
  assert (W : forall i, (i = 1 \/ i = 2) -> well_behaved i [ex_b1; ex_b2; ex_b3]).
  { intros i Hi b Hb. simpl in Hb.
    destruct Hi as [-> | ->]; destruct Hb as [<-|[<-|[<-|[]]]]; vm_compute; split; intros; try reflexivity; try lia; congruence. }
  split; [apply W; auto|]. split; [vm_compute; reflexivity|]. split; [apply W; auto|]. vm_compute; reflexivity.
Qed.
