(* Index/ProtoProofsPol.v — the deletion policy model of Index/Proto.v (KeepNLatestDeletionPolicy,
   index/deletion.go): what Commit does (C11 pol_commit_spec), and the invariant `pol_ok p L` that ties
   the policy's bookkeeping to the list L of complete snapshot files on disk (epoch, segment ids).
   Every transition of the monitor that touches the policy keeps it (commit of a newer epoch, removal
   of a deletable snapshot, removal of an unreferenced segment). *)
From Coq Require Import ZArith List Bool Lia Permutation Sorted.
From Coq Require Import ZifyBool.
From Bluge Require Import Base.Res Base.Corr Index.Model Index.ModelProofs Index.Trace Index.Proto.
Import ListNotations.
Open Scope Z_scope.

(* ================================================================== *)
(* small list facts                                                     *)
(* ================================================================== *)

Definition lastn {A} (n : nat) (l : list A) : list A := skipn (length l - n) l.

Lemma lastn_length : forall {A} n (l : list A), length (lastn n l) = Nat.min n (length l).
Proof. intros. unfold lastn. rewrite skipn_length. lia. Qed.

Lemma lastn_all : forall {A} n (l : list A), (length l <= n)%nat -> lastn n l = l.
Proof. intros A n l H. unfold lastn. replace (length l - n)%nat with O by lia. reflexivity. Qed.

Lemma firstn_skipn_lastn : forall {A} n (l : list A), firstn (length l - n) l ++ lastn n l = l.
Proof. intros. unfold lastn. apply firstn_skipn. Qed.

Lemma skipn_app_exact : forall {A} (a b : list A), skipn (length a) (a ++ b) = b.
Proof. induction a as [|x t IH]; intro b; simpl; [reflexivity | apply IH]. Qed.

Lemma lastn_suffix : forall {A} n (a b : list A),
  length b = Nat.min n (length (a ++ b)) -> lastn n (a ++ b) = b.
Proof.
  intros A n a b H. unfold lastn. rewrite app_length in *.
  replace (length a + length b - n)%nat with (length a) by lia. apply skipn_app_exact.
Qed.

(* the window of the n newest slides: keeping n of (the n newest of l) ++ [x] = the n newest of l ++ [x] *)
Lemma lastn_snoc : forall {A} n (l : list A) x, lastn n (lastn n l ++ [x]) = lastn n (l ++ [x]).
Proof.
  intros A n l x.
  destruct (Nat.le_gt_cases (length l) n) as [H|H]; [rewrite (lastn_all n l H); reflexivity|].
  pose proof (firstn_skipn_lastn n l) as Hs. pose proof (lastn_length n l) as Hb.
  remember (lastn n l) as b. remember (firstn (length l - n) l) as a. clear Heqa Heqb.
  destruct n as [|n].
  - destruct b; [|cbn [length] in Hb; lia]. rewrite <- (app_nil_r ([] ++ [x])), <- (app_nil_r (l ++ [x])).
    rewrite !lastn_suffix; reflexivity.
  - destruct b as [|b1 b']; [cbn [length] in Hb; lia|]. rewrite <- Hs.
    replace ((b1 :: b') ++ [x]) with ([b1] ++ (b' ++ [x])) by reflexivity.
    replace ((a ++ b1 :: b') ++ [x]) with ((a ++ [b1]) ++ (b' ++ [x])) by (rewrite <- !app_assoc; reflexivity).
    cbn [length] in Hb. rewrite !lastn_suffix; try reflexivity; rewrite !app_length; cbn [length]; rewrite ?app_length; cbn [length]; lia.
Qed.

Lemma zremove_In : forall x y l, In x (zremove y l) <-> In x l /\ x <> y.
Proof.
  intros. unfold zremove. rewrite filter_In. rewrite negb_true_iff. split; intros [H1 H2]; split; auto; lia.
Qed.

Lemma zadd_In : forall x y l, In x (zadd y l) <-> x = y \/ In x l.
Proof.
  intros x y l. unfold zadd. destruct (zmem y l) eqn:E.
  - apply zmem_In in E. split; [auto|]. intros [->|H]; auto.
  - rewrite in_app_iff. simpl. split; [intros [H|[H|[]]]; auto | intros [H|H]; auto].
Qed.

Lemma fold_zadd_In : forall segs known x,
  In x (fold_left (fun k s => zadd s k) segs known) <-> In x known \/ In x segs.
Proof.
  induction segs as [|s t IH]; intros known x; simpl.
  - split; [auto | intros [H|[]]; exact H].
  - rewrite IH, zadd_In. split; [intros [[H|H]|H] | intros [H|[H|H]]]; auto.
Qed.

Lemma lookup_In : forall {A} k (l : list (Z * A)) v, lookup k l = Some v -> In (k, v) l.
Proof.
  induction l as [|[k' v'] t IH]; intros v H; simpl in H; [discriminate|].
  destruct (k =? k') eqn:E.
  - injection H as <-. left. f_equal. lia.
  - right. apply IH. exact H.
Qed.

Lemma lookup_None : forall {A} k (l : list (Z * A)), lookup k l = None <-> ~ In k (map fst l).
Proof.
  induction l as [|[k' v'] t IH]; simpl; [tauto|].
  destruct (k =? k') eqn:E.
  - split; [discriminate|]. intro H. exfalso. apply H. left. lia.
  - rewrite IH. split; intros H; [intros [H1|H1]; [lia|auto] | auto].
Qed.

Lemma lookup_Some_key : forall {A} k (l : list (Z * A)) v, lookup k l = Some v -> In k (map fst l).
Proof. intros A k l v H. apply lookup_In in H. apply (in_map fst) in H. exact H. Qed.

Lemma lookup_NoDup : forall {A} k (l : list (Z * A)) v, NoDup (map fst l) -> In (k, v) l -> lookup k l = Some v.
Proof.
  induction l as [|[k' v'] t IH]; intros v Hn H; simpl in *; [contradiction|].
  inversion Hn as [|x y Hx Hy]; subst.
  destruct H as [H|H].
  - injection H as -> ->. rewrite Z.eqb_refl. reflexivity.
  - destruct (k =? k') eqn:E.
    + exfalso. apply Hx. assert (k = k') by lia. subst. apply (in_map fst) in H. exact H.
    + apply IH; assumption.
Qed.

Lemma map_del_In : forall {A} k (l : list (Z * A)) x, In x (map_del k l) <-> In x l /\ fst x <> k.
Proof.
  intros. unfold map_del. rewrite filter_In, negb_true_iff. split; intros [H1 H2]; split; auto; lia.
Qed.

Lemma map_del_keys : forall {A} k (l : list (Z * A)) e, In e (map fst (map_del k l)) <-> In e (map fst l) /\ e <> k.
Proof.
  intros A k l e. rewrite !in_map_iff. split.
  - intros [x [<- Hx]]. apply map_del_In in Hx. destruct Hx as [H1 H2]. split; [exists x; auto | exact H2].
  - intros [[x [<- Hx]] Hn]. exists x. split; [reflexivity|]. apply map_del_In. auto.
Qed.

Lemma lookup_map_del : forall {A} k k' (l : list (Z * A)), k' <> k -> lookup k' (map_del k l) = lookup k' l.
Proof.
  intros A k k' l Hn. induction l as [|[k0 v0] t IH]; simpl; [reflexivity|].
  destruct (k0 =? k) eqn:E; simpl.
  - rewrite IH. assert (E' : (k' =? k0) = false) by lia. rewrite E'. reflexivity.
  - rewrite IH. reflexivity.
Qed.

Lemma lookup_map_del_same : forall {A} k (l : list (Z * A)), lookup k (map_del k l) = None.
Proof. intros. apply lookup_None. rewrite map_del_keys. tauto. Qed.

Lemma lookup_map_set : forall {A} k k' (v : A) l,
  lookup k' (map_set k v l) = if k' =? k then Some v else lookup k' l.
Proof.
  intros A k k' v l. unfold map_set. simpl. destruct (k' =? k) eqn:E; [reflexivity|].
  apply (lookup_map_del k k' l). lia.
Qed.

Lemma map_set_In : forall {A} k (v : A) l x, In x (map_set k v l) -> x = (k, v) \/ In x l.
Proof.
  intros A k v l x [H|H]; [left; auto|]. right. apply (map_del_In k l x) in H. tauto.
Qed.

Lemma map_set_keys : forall {A} k (v : A) l e, In e (map fst (map_set k v l)) <-> e = k \/ In e (map fst l).
Proof.
  intros A k v l e. unfold map_set. simpl. fold (map_del k l). rewrite map_del_keys.
  split; [intros [H|[H _]]; auto | intros [H|H]; auto].
  destruct (Z.eq_dec e k); auto.
Qed.

Lemma NoDup_map_del : forall {A} k (l : list (Z * A)), NoDup (map fst l) -> NoDup (map fst (map_del k l)).
Proof.
  intros A k l. induction l as [|[k0 v0] t IH]; simpl; intro H; [constructor|].
  inversion H as [|x y Hx Hy]; subst.
  destruct (k0 =? k); simpl; [apply IH; exact Hy|].
  constructor; [|apply IH; exact Hy]. intro Hin. apply Hx. apply (map_del_keys k t k0) in Hin. tauto.
Qed.

(* sinc (a ++ b) taken apart *)
Lemma sinc_app_inv : forall a b, sinc (a ++ b) ->
  sinc a /\ sinc b /\ (forall x y, In x a -> In y b -> x < y).
Proof.
  induction a as [|h t IH]; intros b H; simpl in *.
  - repeat split; [constructor | exact H | intros x y []].
  - inversion H as [|x y Ht Hh]; subst. destruct (IH b Ht) as [S1 [S2 S3]].
    rewrite Forall_forall in Hh. repeat split.
    + constructor; [exact S1|]. apply Forall_forall. intros z Hz. apply Hh. apply in_app_iff. auto.
    + exact S2.
    + intros x y [<-|Hx] Hy; [apply Hh; apply in_app_iff; auto | apply S3; assumption].
Qed.

Lemma sinc_filter : forall f l, sinc l -> sinc (filter f l).
Proof.
  intros f l H. induction H as [|y t Ht IH Hy]; simpl; [constructor|].
  destruct (f y); [|exact IH]. constructor; [exact IH|].
  rewrite Forall_forall in *. intros z Hz. apply filter_In in Hz. apply Hy. tauto.
Qed.

Lemma sinc_snoc : forall l x, sinc l -> (forall y, In y l -> y < x) -> sinc (l ++ [x]).
Proof.
  intros l x H Hx. apply sinc_app; [exact H | constructor; constructor |].
  intros a b Ha [<-|[]]. apply Hx. exact Ha.
Qed.

(* ================================================================== *)
(* C11.12  what Commit does                                             *)
(* ================================================================== *)

Lemma pol_commit_spec_proof : forall p e ids, 0 <= p_n p ->
  let p' := pol_commit p e ids in
  let live := p_live p ++ [e] in
  p_n p' = p_n p /\
  p_live p' = lastn (Z.to_nat (p_n p)) live /\
  p_deletable p' = p_deletable p ++ firstn (length live - Z.to_nat (p_n p)) live /\
  p_livesegs p' = map_set e ids (p_livesegs p) /\
  (forall s, In s (p_known p') <-> In s (p_known p) \/ In s ids) /\
  p_deletable p' ++ p_live p' = p_deletable p ++ p_live p ++ [e] /\
  length (p_live p') = Nat.min (S (length (p_live p))) (Z.to_nat (p_n p)).
Proof.
  intros p e ids Hn p' live. subst p'. unfold pol_commit. fold live.
  assert (Hl : length live = S (length (p_live p))) by (unfold live; rewrite app_length; simpl; lia).
  destruct (p_n p <? Z.of_nat (length live)) eqn:E; cbn [p_n p_live p_deletable p_livesegs p_known].
  - replace (Z.to_nat (Z.of_nat (length live) - p_n p)) with (length live - Z.to_nat (p_n p))%nat by lia.
    repeat split; try reflexivity.
    + apply fold_zadd_In.
    + apply fold_zadd_In.
    + rewrite <- app_assoc. f_equal. apply firstn_skipn.
    + fold (lastn (Z.to_nat (p_n p)) live). rewrite lastn_length. rewrite Hl. lia.
  - assert (Hz : (length live - Z.to_nat (p_n p) = 0)%nat) by lia.
    rewrite Hz. cbn [firstn]. rewrite app_nil_r. rewrite lastn_all by lia.
    repeat split; try reflexivity.
    + apply fold_zadd_In.
    + apply fold_zadd_In.
    + lia.
Qed.

(* N = 1, 2, 3 on the same five commits *)
Definition pol_run (n : Z) (es : list Z) : pol := fold_left (fun p e => pol_commit p e [e; e + 100]) es (pol_init n).

Lemma pol_commit_n1_proof :
  let p := pol_run 1 [1; 2; 3; 4; 5] in p_live p = [5] /\ p_deletable p = [1; 2; 3; 4].
Proof. vm_compute. split; reflexivity. Qed.
Lemma pol_commit_n2_proof :
  let p := pol_run 2 [1; 2; 3; 4; 5] in p_live p = [4; 5] /\ p_deletable p = [1; 2; 3].
Proof. vm_compute. split; reflexivity. Qed.
Lemma pol_commit_n3_proof :
  let p := pol_run 3 [1; 2; 3; 4; 5] in
  p_live p = [3; 4; 5] /\ p_deletable p = [1; 2] /\
  pol_may_remove_seg p 101 = false /\                         (* epoch 1 is still on disk *)
  pol_may_remove_seg (pol_removed_snp p 1) 101 = true /\      (* its snapshot file removed: now unreferenced *)
  pol_may_remove_seg (pol_removed_snp p 1) 103 = false.
Proof. vm_compute. repeat split; reflexivity. Qed.

(* ================================================================== *)
(* the policy invariant, relative to the complete snapshot files         *)
(* ================================================================== *)

Record pol_ok (p : pol) (L : list (Z * list Z)) : Prop := {
  po_n : 1 <= p_n p;
  po_nodup : NoDup (map fst L);
  po_sorted : sinc (p_deletable p ++ p_live p);
  po_disk : forall e, In e (map fst L) <-> In e (p_deletable p ++ p_live p);
  po_keys : forall e, In e (map fst (p_livesegs p)) <-> In e (p_deletable p ++ p_live p);
  po_segs : forall e ids, In (e, ids) L -> lookup e (p_livesegs p) = Some ids;
  po_known : forall e ids s, In (e, ids) (p_livesegs p) -> In s ids -> In s (p_known p);
  po_len : Z.of_nat (length (p_live p)) <= p_n p;
  po_live : p_live p = [] -> p_deletable p = []
}.

Lemma pol_ok_init : forall n, 1 <= n -> pol_ok (pol_init n) [].
Proof.
  intros n Hn. constructor; simpl; try tauto; try lia; try constructor.
Qed.

Lemma pol_ok_perm : forall p L L', Permutation L L' -> pol_ok p L -> pol_ok p L'.
Proof.
  intros p L L' HP [H1 H2 H3 H4 H5 H6 H7 H8 H9].
  assert (HPk : Permutation (map fst L) (map fst L')) by (apply Permutation_map; exact HP).
  constructor; try assumption.
  - apply (Permutation_NoDup HPk). exact H2.
  - intro e. rewrite <- H4. split; apply Permutation_in; [symmetry|]; exact HPk.
  - intros e ids Hin. apply H6. apply (Permutation_in _ (Permutation_sym HP)). exact Hin.
Qed.

(* Commit of an epoch newer than every snapshot file on disk *)
Lemma pol_ok_commit : forall p L e ids,
  pol_ok p L -> (forall e', In e' (map fst L) -> e' < e) ->
  pol_ok (pol_commit p e ids) ((e, ids) :: L).
Proof.
  intros p L e ids [H1 H2 H3 H4 H5 H6 H7 H8 H9] Hnew.
  destruct (pol_commit_spec_proof p e ids ltac:(lia)) as [C1 [C2 [C3 [C4 [C5 [C6 C7]]]]]].
  assert (Hfresh : ~ In e (map fst L)) by (intro Hin; specialize (Hnew e Hin); lia).
  constructor.
  - rewrite C1. exact H1.
  - simpl. constructor; assumption.
  - rewrite C6. rewrite app_assoc. apply sinc_snoc; [exact H3|].
    intros y Hy. apply Hnew. apply H4. exact Hy.
  - intro e'. rewrite C6. simpl. rewrite app_assoc, in_app_iff. simpl. rewrite H4. split.
    + intros [<-|H]; auto.
    + intros [H|[H|[]]]; auto.
  - intro e'. rewrite C6, C4, map_set_keys, H5. rewrite app_assoc, (in_app_iff _ [e]). simpl. split.
    + intros [->|H]; auto.
    + intros [H|[H|[]]]; auto.
  - intros e' ids' [Heq|Hin]; rewrite C4, lookup_map_set.
    + injection Heq as <- <-. rewrite Z.eqb_refl. reflexivity.
    + destruct (e' =? e) eqn:E.
      * exfalso. apply Hfresh. assert (e' = e) by lia. subst. apply (in_map fst) in Hin. exact Hin.
      * apply H6. exact Hin.
  - intros e' ids' s Hin Hs. rewrite C4 in Hin. apply C5. apply map_set_In in Hin. destruct Hin as [Heq|Hin].
    + injection Heq as -> ->. right. exact Hs.
    + left. apply (H7 e' ids' s Hin Hs).
  - rewrite C1. lia.
  - intro Hl. exfalso. assert (L0 : length (p_live (pol_commit p e ids)) = 0%nat) by (rewrite Hl; reflexivity).
    rewrite C7 in L0. lia.
Qed.

(* cleanupSnapshots: a deletable epoch whose Remove succeeded *)
Lemma pol_ok_removed_snp : forall p L e,
  pol_ok p L -> In e (p_deletable p) -> pol_ok (pol_removed_snp p e) (map_del e L).
Proof.
  intros p L e [H1 H2 H3 H4 H5 H6 H7 H8 H9] He.
  destruct (sinc_app_inv _ _ H3) as [S1 [S2 S3]].
  assert (Hnl : ~ In e (p_live p)) by (intro Hin; specialize (S3 e e He Hin); lia).
  assert (Hin' : forall e', In e' (zremove e (p_deletable p) ++ p_live p) <-> In e' (p_deletable p ++ p_live p) /\ e' <> e).
  { intro e'. rewrite !in_app_iff, zremove_In. split.
    - intros [[A B]|A]; [tauto|]. split; [auto|]. intros ->. contradiction.
    - intros [[A|A] B]; auto. }
  constructor; simpl.
  - exact H1.
  - apply NoDup_map_del. exact H2.
  - apply sinc_app; [apply sinc_filter; exact S1 | exact S2 |].
    intros x y Hx Hy. apply zremove_In in Hx. apply S3; tauto.
  - intro e'. rewrite map_del_keys, Hin', H4. reflexivity.
  - intro e'. rewrite map_del_keys, Hin', H5. reflexivity.
  - intros e' ids Hin. apply map_del_In in Hin. simpl in Hin. destruct Hin as [Hin Hne].
    rewrite lookup_map_del by exact Hne. apply H6. exact Hin.
  - intros e' ids s Hin Hs. apply map_del_In in Hin. apply (H7 e' ids s); tauto.
  - exact H8.
  - intro Hl. rewrite (H9 Hl) in He. destruct He.
Qed.

(* cleanupSegments: a known segment in no entry of liveSegments *)
Lemma may_remove_seg_spec : forall p s, pol_may_remove_seg p s = true ->
  In s (p_known p) /\ forall e ids, In (e, ids) (p_livesegs p) -> ~ In s ids.
Proof.
  intros p s H. unfold pol_may_remove_seg in H. apply andb_true_iff in H. destruct H as [Hk Hf].
  split; [apply zmem_In; exact Hk|]. intros e ids Hin. rewrite forallb_forall in Hf.
  specialize (Hf _ Hin). simpl in Hf. apply negb_true_iff in Hf. apply zmem_false. exact Hf.
Qed.

Lemma pol_ok_removed_seg : forall p L s,
  pol_ok p L -> pol_may_remove_seg p s = true -> pol_ok (pol_removed_seg p s) L.
Proof.
  intros p L s [H1 H2 H3 H4 H5 H6 H7 H8 H9] Hm.
  destruct (may_remove_seg_spec p s Hm) as [_ Hfree].
  constructor; simpl; try assumption.
  intros e ids s' Hin Hs'. apply zremove_In. split; [apply (H7 e ids); assumption|].
  intros ->. apply (Hfree e ids Hin Hs').
Qed.

(* C11.10, policy level: a segment the policy lets go is named by no snapshot file on disk *)
Lemma may_remove_seg_not_named : forall p L s e ids,
  pol_ok p L -> pol_may_remove_seg p s = true -> In (e, ids) L -> ~ In s ids.
Proof.
  intros p L s e ids Hok Hm Hin.
  destruct (may_remove_seg_spec p s Hm) as [_ Hfree].
  apply (Hfree e ids). apply lookup_In. apply (po_segs p L Hok). exact Hin.
Qed.

(* the newest snapshot file is live, never deletable *)
Lemma pol_ok_newest_live : forall p L e, pol_ok p L -> In e (p_deletable p) ->
  exists e', In e' (p_live p) /\ e < e' /\ In e' (map fst L).
Proof.
  intros p L e Hok He. destruct (p_live p) as [|e' t] eqn:El.
  - rewrite (po_live p L Hok El) in He. destruct He.
  - exists e'. destruct (sinc_app_inv _ _ (po_sorted p L Hok)) as [_ [_ S3]].
    rewrite El in S3. split; [left; reflexivity|]. split; [apply S3; [exact He | left; reflexivity]|].
    apply (po_disk p L Hok). apply in_app_iff. right. rewrite El. left. reflexivity.
Qed.

Lemma pol_ok_live_on_disk : forall p L e, pol_ok p L -> In e (p_live p) -> In e (map fst L).
Proof. intros p L e Hok He. apply (po_disk p L Hok). apply in_app_iff. right. exact He. Qed.

Lemma pol_ok_deletable_older : forall p L e e', pol_ok p L -> In e (p_deletable p) -> In e' (p_live p) -> e < e'.
Proof.
  intros p L e e' Hok He He'. destruct (sinc_app_inv _ _ (po_sorted p L Hok)) as [_ [_ S3]]. apply S3; assumption.
Qed.
