(* Index/RefsProofs.v — C04: the reference-count invariant of Index/Refs.v and its consequences
   (refs_invariant, reader_never_faults, handles_balanced, cow_roots), and reader_frozen over the
   root-history monitor of Index/Trace.v. *)
From Coq Require Import ZArith List Bool Lia Permutation.
From Coq Require Import ZifyBool.
From Bluge Require Import Base.Res Index.Model Index.ModelProofs Index.ModelProofsMerge Index.Trace Index.TraceProofs
  Index.ProtoProofsPol Index.Refs.
Import ListNotations.
Open Scope Z_scope.

(* ================================================================== *)
(* finite maps as association lists                                     *)
(* ================================================================== *)

Lemma upd_keys : forall {A} id (f : A -> A) l, map fst (upd id f l) = map fst l.
Proof.
  intros A id f l. unfold upd. rewrite map_map. apply map_ext. intros [k v]. simpl. destruct (k =? id); reflexivity.
Qed.

Lemma lookup_upd : forall {A} id id' (f : A -> A) l,
  lookup id (upd id' f l) = if id =? id' then option_map f (lookup id l) else lookup id l.
Proof.
  intros A id id' f l. induction l as [|[k v] t IH]; simpl.
  - destruct (id =? id'); reflexivity.
  - destruct (k =? id') eqn:E1; simpl; destruct (id =? k) eqn:E2.
    + assert (E3 : (id =? id') = true) by lia. rewrite E3. reflexivity.
    + exact IH.
    + assert (E3 : (id =? id') = false) by lia. rewrite E3. reflexivity.
    + exact IH.
Qed.

Lemma upd_absent : forall {A} id (f : A -> A) l, ~ In id (map fst l) -> upd id f l = l.
Proof.
  intros A id f l H. induction l as [|[k v] t IH]; simpl; [reflexivity|].
  simpl in H. destruct (k =? id) eqn:E; [exfalso; apply H; left; lia|].
  f_equal. apply IH. intro Hin. apply H. right. exact Hin.
Qed.

Lemma lookup_fold_upd : forall {A} (f : A -> A) ids l id, NoDup ids ->
  lookup id (fold_left (fun hs i => upd i f hs) ids l) =
  if zmem id ids then option_map f (lookup id l) else lookup id l.
Proof.
  intros A f ids. induction ids as [|i t IH]; intros l id Hn; simpl; [reflexivity|].
  inversion Hn as [|x y Hx Hy]; subst. rewrite IH by exact Hy. rewrite lookup_upd.
  destruct (id =? i) eqn:E.
  - assert (id = i) by lia. subst. assert (Z : zmem i t = false) by (apply zmem_false; exact Hx). rewrite Z. reflexivity.
  - reflexivity.
Qed.

Lemma lookup_app : forall {A} id (a b : list (Z * A)),
  lookup id (a ++ b) = match lookup id a with Some v => Some v | None => lookup id b end.
Proof.
  intros A id a b. induction a as [|[k v] t IH]; simpl; [reflexivity|]. destruct (id =? k); [reflexivity | exact IH].
Qed.

Lemma lookup_const_map : forall {A} id (v : A) ids,
  lookup id (map (fun h => (h, v)) ids) = if zmem id ids then Some v else None.
Proof.
  intros A id v ids. induction ids as [|i t IH]; simpl; [reflexivity|]. destruct (id =? i); simpl; [reflexivity | exact IH].
Qed.

(* ================================================================== *)
(* the invariant                                                        *)
(* ================================================================== *)

Definition live_lists (id : Z) (ks : Z * rsnap) : bool := (0 <? rs_refs (snd ks)) && zmem id (rs_handles (snd ks)).
Definition count (id : Z) (snaps : list (Z * rsnap)) : Z := Z.of_nat (length (filter (live_lists id) snaps)).
Definition b2z (b : bool) : Z := if b then 1 else 0.
Arguments count : simpl never.

Lemma count_cons : forall id ks t, count id (ks :: t) = b2z (live_lists id ks) + count id t.
Proof. intros id ks t. unfold count, b2z. cbn [filter]. destruct (live_lists id ks); cbn [length]; lia. Qed.

Lemma count_nonneg : forall id snaps, 0 <= count id snaps.
Proof. intros. unfold count. lia. Qed.

Lemma count_In : forall id snaps k s, In (k, s) snaps -> 0 < rs_refs s -> In id (rs_handles s) -> 1 <= count id snaps.
Proof.
  intros id snaps k s Hin Hr Hh. unfold count.
  assert (Hf : In (k, s) (filter (live_lists id) snaps)).
  { apply filter_In. split; [exact Hin|]. unfold live_lists. simpl. apply andb_true_iff. split; [lia | apply zmem_In; exact Hh]. }
  destruct (filter (live_lists id) snaps); [destruct Hf | simpl; lia].
Qed.

Lemma count_zero : forall id snaps, (forall k s, In (k, s) snaps -> ~ In id (rs_handles s)) -> count id snaps = 0.
Proof.
  intros id snaps H. unfold count. rewrite filter_all_false; [reflexivity|].
  intros [k s] Hin. unfold live_lists. simpl. apply andb_false_iff. right. apply zmem_false. apply (H k s Hin).
Qed.

Lemma count_upd : forall id key f snaps s, NoDup (map fst snaps) -> lookup key snaps = Some s ->
  count id (upd key f snaps) = count id snaps - b2z (live_lists id (key, s)) + b2z (live_lists id (key, f s)).
Proof.
  intros id key f snaps. induction snaps as [|[k0 s0] t IH]; intros s Hn L; simpl in L; [discriminate|].
  inversion Hn as [|x y Hx Hy]; subst. simpl.
  destruct (key =? k0) eqn:E.
  - injection L as <-. assert (k0 = key) by lia. subst k0. rewrite Z.eqb_refl.
    fold (upd key f t). rewrite (upd_absent key f t Hx). rewrite !count_cons. simpl. lia.
  - assert (E' : (k0 =? key) = false) by lia. rewrite E'. fold (upd key f t). rewrite !count_cons, (IH s Hy L). lia.
Qed.

Definition hnd_ok (h : hnd) : Prop :=
  (h_open h = true /\ h_closes h = 0%nat /\ 0 < h_refs h) \/ (h_open h = false /\ h_closes h = 1%nat /\ h_refs h = 0).

Record rinv (st : rstate) : Prop := {
  rv_keys : NoDup (map fst (r_snaps st));
  rv_snap : forall k s, lookup k (r_snaps st) = Some s ->
            NoDup (rs_handles s) /\ 0 <= rs_refs s /\ forall h, In h (rs_handles s) -> lookup h (r_handles st) <> None;
  rv_hnd : forall id h, lookup id (r_handles st) = Some h -> h_refs h = count id (r_snaps st) /\ hnd_ok h
}.

Lemma rinv_init : rinv rinit.
Proof. constructor; simpl; [constructor | discriminate | discriminate]. Qed.

Lemma hnd_ok_addref : forall h, hnd_ok h -> 0 < h_refs h -> hnd_ok (h_addref h).
Proof.
  intros h [[A [B C]]|[A [B C]]] Hp; [|exfalso; lia]. left. unfold h_addref. cbn [h_open h_closes h_refs].
  split; [exact A|]. split; [exact B | lia].
Qed.

Lemma hnd_ok_decref : forall h, hnd_ok h -> 0 < h_refs h -> hnd_ok (h_decref h) /\ h_refs (h_decref h) = h_refs h - 1.
Proof.
  intros h [[A [B C]]|[A [B C]]] Hp; [|exfalso; lia]. unfold h_decref. cbv zeta.
  destruct (h_refs h - 1 =? 0) eqn:E; cbn [h_open h_closes h_refs]; split; try reflexivity.
  - right. split; [reflexivity|]. split; [rewrite B; reflexivity | cbn [h_refs]; lia].
  - left. split; [exact A|]. split; [exact B | cbn [h_refs]; lia].
Qed.

(* a handle listed by a snapshot somebody holds is referenced and open *)
Lemma rinv_listed : forall st k s h, rinv st -> lookup k (r_snaps st) = Some s -> 0 < rs_refs s -> In h (rs_handles s) ->
  exists hd, lookup h (r_handles st) = Some hd /\ 0 < h_refs hd /\ h_open hd = true /\ h_closes hd = 0%nat.
Proof.
  intros st k s h [I1 I2 I3] L Hr Hin. destruct (I2 k s L) as [_ [_ Hex]].
  destruct (lookup h (r_handles st)) as [hd|] eqn:Lh; [|exfalso; apply (Hex h Hin); exact Lh].
  exists hd. split; [reflexivity|]. destruct (I3 h hd Lh) as [Hc Hok].
  pose proof (count_In h (r_snaps st) k s (lookup_In _ _ _ L) Hr Hin) as Hge.
  destruct Hok as [[A [B C]]|[A [B C]]]; [auto | lia].
Qed.

Lemma nodupZ_app : forall (a b : list Z), NoDup a -> NoDup b -> (forall x, In x a -> ~ In x b) -> NoDup (a ++ b).
Proof.
  induction a as [|x t IH]; intros b Ha Hb Hd; simpl; [exact Hb|].
  inversion Ha as [|y l Hx Hy]; subst. constructor.
  - intro Hin. apply in_app_iff in Hin. destruct Hin as [Hin|Hin]; [contradiction | apply (Hd x (or_introl eq_refl) Hin)].
  - apply IH; [exact Hy | exact Hb | intros z Hz; apply Hd; right; exact Hz].
Qed.

Theorem rinv_step : forall st op st', rinv st -> rstep st op = Some st' -> rinv st'.
Proof.
  intros st op st' Hinv H. pose proof Hinv as [I1 I2 I3]. destruct op as [key from kept fresh|key|key]; simpl in H.
  - (* RNew *)
    match type of H with (if ?c then _ else _) = _ => destruct c eqn:C; [|discriminate] end.
    injection H as <-. apply andb_true_iff in C. destruct C as [C Cfrom].
    apply andb_true_iff in C. destruct C as [C Cfresh]. apply andb_true_iff in C. destruct C as [C Ckept].
    apply andb_true_iff in C. destruct C as [Ckey Cnf].
    apply nodupZ_NoDup in Cnf, Ckept.
    assert (Lkey : lookup key (r_snaps st) = None) by (destruct (lookup key (r_snaps st)); [discriminate | reflexivity]).
    assert (Hfresh : forall h, In h fresh -> lookup h (r_handles st) = None).
    { intros h Hh. rewrite forallb_forall in Cfresh. specialize (Cfresh h Hh). destruct (lookup h (r_handles st)); [discriminate | reflexivity]. }
    assert (Hkept : forall h, In h kept -> exists hd, lookup h (r_handles st) = Some hd /\ 0 < h_refs hd).
    { intros h Hh. destruct kept as [|k0 kt]; [destruct Hh|].
      destruct (lookup from (r_snaps st)) as [s|] eqn:Lf; [|discriminate].
      apply andb_true_iff in Cfrom. destruct Cfrom as [Cr Cin]. rewrite forallb_forall in Cin.
      destruct (rinv_listed st from s h Hinv Lf ltac:(lia) ltac:(apply zmem_In; apply Cin; exact Hh)) as [hd [A [B _]]].
      exists hd. auto. }
    assert (Hlk : forall id, lookup id (add_all kept (r_handles st) ++ map (fun h => (h, {| h_refs := 1; h_open := true; h_closes := O |})) fresh) =
                  match lookup id (r_handles st) with
                  | Some h => Some (if zmem id kept then h_addref h else h)
                  | None => if zmem id fresh then Some {| h_refs := 1; h_open := true; h_closes := O |} else None
                  end).
    { intro id. rewrite lookup_app. unfold add_all. rewrite lookup_fold_upd by exact Ckept.
      destruct (lookup id (r_handles st)) as [h|]; simpl.
      - destruct (zmem id kept); reflexivity.
      - destruct (zmem id kept); simpl; apply lookup_const_map. }
    constructor; simpl.
    + constructor; [apply lookup_None; exact Lkey | exact I1].
    + intros k s L. destruct (k =? key) eqn:E.
      * injection L as <-. simpl. split; [|split; [lia|]].
        -- apply nodupZ_app; [exact Ckept | exact Cnf|]. intros x Hx Hx'. destruct (Hkept x Hx) as [hd [A _]].
           rewrite (Hfresh x Hx') in A. discriminate.
        -- intros h Hh. rewrite Hlk. apply in_app_iff in Hh. destruct Hh as [Hh|Hh].
           ++ destruct (Hkept h Hh) as [hd [A _]]. rewrite A. discriminate.
           ++ rewrite (Hfresh h Hh). assert (Z : zmem h fresh = true) by (apply zmem_In; exact Hh). rewrite Z. discriminate.
      * destruct (I2 k s L) as [A [B Cx]]. split; [exact A|]. split; [exact B|].
        intros h Hh. rewrite Hlk. specialize (Cx h Hh). destruct (lookup h (r_handles st)); [discriminate | contradiction].
    + intros id h L. rewrite Hlk in L. rewrite count_cons. unfold live_lists at 1. cbn [snd rs_refs rs_handles].
      change (0 <? 1) with true. cbn [andb]. rewrite zmem_app.
      destruct (lookup id (r_handles st)) as [h0|] eqn:L0.
      * injection L as <-. destruct (I3 id h0 L0) as [Hc Hok].
        assert (Zf : zmem id fresh = false).
        { apply zmem_false. intro Hin. rewrite (Hfresh id Hin) in L0. discriminate. }
        rewrite Zf, orb_false_r. destruct (zmem id kept) eqn:Zk; cbn [b2z].
        -- apply zmem_In in Zk. destruct (Hkept id Zk) as [hd [A B]]. rewrite L0 in A. injection A as <-.
           split; [cbn [h_addref h_refs]; lia | apply hnd_ok_addref; assumption].
        -- split; [lia | exact Hok].
      * destruct (zmem id fresh) eqn:Zf; [|discriminate]. injection L as <-. cbn [h_refs].
        assert (Zk : zmem id kept = false).
        { apply zmem_false. intro Hin. destruct (Hkept id Hin) as [hd [A _]]. rewrite L0 in A. discriminate. }
        rewrite Zk. cbn [orb b2z]. rewrite count_zero.
        -- split; [reflexivity|]. left. cbn [h_open h_closes h_refs]. split; [reflexivity|]. split; [reflexivity | lia].
        -- intros k s Hin Hh. destruct (I2 k s (lookup_NoDup _ _ _ I1 Hin)) as [_ [_ Cx]]. apply (Cx id Hh). exact L0.
  - (* RAddRef *)
    destruct (lookup key (r_snaps st)) as [s|] eqn:L; [|discriminate].
    destruct (0 <? rs_refs s) eqn:R; [|discriminate]. injection H as <-.
    constructor; simpl.
    + rewrite upd_keys. exact I1.
    + intros k s' L'. rewrite lookup_upd in L'. destruct (k =? key) eqn:E.
      * assert (k = key) by lia. subst k. rewrite L in L'. simpl in L'. injection L' as <-. simpl.
        destruct (I2 key s L) as [A [B Cx]]. split; [exact A|]. split; [lia | exact Cx].
      * apply (I2 k s' L').
    + intros id h Lh. destruct (I3 id h Lh) as [Hc Hok]. split; [|exact Hok].
      rewrite (count_upd id key _ (r_snaps st) s I1 L). unfold live_lists. simpl.
      assert (E : (0 <? rs_refs s + 1) = true) by lia. rewrite R, E. lia.
  - (* RDecRef *)
    destruct (lookup key (r_snaps st)) as [s|] eqn:L; [|discriminate].
    destruct (0 <? rs_refs s) eqn:R; [|discriminate]. injection H as <-.
    destruct (I2 key s L) as [Hnd [Hnn Hex]].
    constructor; simpl.
    + rewrite upd_keys. exact I1.
    + intros k s' L'. rewrite lookup_upd in L'.
      assert (Hkeep : forall h, lookup h (r_handles st) <> None ->
                lookup h (if rs_refs s - 1 =? 0 then dec_all (rs_handles s) (r_handles st) else r_handles st) <> None).
      { intros h Hh. destruct (rs_refs s - 1 =? 0); [|exact Hh]. unfold dec_all. rewrite lookup_fold_upd by exact Hnd.
        destruct (lookup h (r_handles st)); [|contradiction]. destruct (zmem h (rs_handles s)); discriminate. }
      destruct (k =? key) eqn:E.
      * assert (k = key) by lia. subst k. rewrite L in L'. simpl in L'. injection L' as <-. simpl.
        split; [exact Hnd|]. split; [lia|]. intros h Hh. apply Hkeep. apply (Hex h Hh).
      * destruct (I2 k s' L') as [A [B Cx]]. split; [exact A|]. split; [exact B|]. intros h Hh. apply Hkeep. apply (Cx h Hh).
    + intros id h Lh. rewrite (count_upd id key _ (r_snaps st) s I1 L). unfold live_lists. simpl. rewrite R. simpl.
      destruct (rs_refs s - 1 =? 0) eqn:E0.
      * unfold dec_all in Lh. rewrite lookup_fold_upd in Lh by exact Hnd.
        assert (E1 : (0 <? rs_refs s - 1) = false) by lia. rewrite E1. simpl.
        destruct (lookup id (r_handles st)) as [h0|] eqn:L0; [|destruct (zmem id (rs_handles s)); discriminate].
        destruct (I3 id h0 L0) as [Hc Hok].
        destruct (zmem id (rs_handles s)) eqn:Zm; simpl in Lh; injection Lh as <-.
        -- apply zmem_In in Zm.
           pose proof (count_In id (r_snaps st) key s (lookup_In _ _ _ L) ltac:(lia) Zm) as Hge.
           destruct (hnd_ok_decref h0 Hok ltac:(lia)) as [Hok' Hr']. split; [simpl; lia | exact Hok'].
        -- split; [simpl; lia | exact Hok].
      * assert (E1 : (0 <? rs_refs s - 1) = true) by lia. rewrite E1. destruct (I3 id h Lh) as [Hc Hok].
        cbn [andb]. split; [lia | exact Hok].
Qed.

Theorem rinv_run : forall ops st st', rinv st -> rrun st ops = Some st' -> rinv st'.
Proof.
  induction ops as [|op t IH]; intros st st' Hinv H; simpl in H.
  - injection H as <-. exact Hinv.
  - destruct (rstep st op) as [s1|] eqn:E; [|discriminate]. apply (IH s1 st' (rinv_step st op s1 Hinv E) H).
Qed.

Lemma rrun_app : forall a b st st', rrun st (a ++ b) = Some st' <-> exists s1, rrun st a = Some s1 /\ rrun s1 b = Some st'.
Proof.
  induction a as [|op t IH]; intros b st st'; simpl.
  - split; [intro H; exists st; auto | intros [s1 [H1 H2]]; injection H1 as ->; exact H2].
  - destruct (rstep st op) as [s0|]; [apply IH|]. split; [discriminate | intros [s1 [H1 _]]; discriminate].
Qed.

(* ================================================================== *)
(* the theorems                                                          *)
(* ================================================================== *)

(* in every reachable state, every handle listed by a snapshot somebody holds is referenced and open *)
Theorem refs_invariant_proof : forall ops st, rrun rinit ops = Some st ->
  forall k s h, lookup k (r_snaps st) = Some s -> 0 < rs_refs s -> In h (rs_handles s) ->
  exists hd, lookup h (r_handles st) = Some hd /\ 0 < h_refs hd /\ h_open hd = true /\ h_closes hd = 0%nat.
Proof.
  intros ops st H k s h L Hr Hin. apply (rinv_listed st k s h (rinv_run ops rinit st rinv_init H) L Hr Hin).
Qed.

Lemma read_ok_held : forall st k s, rinv st -> lookup k (r_snaps st) = Some s -> 0 < rs_refs s -> read_ok st k = true.
Proof.
  intros st k s Hinv L Hr. unfold read_ok. rewrite L. apply forallb_forall. intros h Hh.
  destruct (rinv_listed st k s h Hinv L Hr Hh) as [hd [A [_ [B _]]]]. rewrite A. exact B.
Qed.

(* operations never change the handle list of an existing snapshot; its count moves by the
   AddRef/DecRef operations on it only *)
Lemma cow_step : forall st op st' k s, rstep st op = Some st' -> lookup k (r_snaps st) = Some s ->
  exists s', lookup k (r_snaps st') = Some s' /\ rs_handles s' = rs_handles s /\
             rs_refs s' = rs_refs s + b2z (is_addref k op) - b2z (is_decref k op).
Proof.
  intros st op st' k s H L. destruct op as [key from kept fresh|key|key]; simpl in H.
  - match type of H with (if ?c then _ else _) = _ => destruct c eqn:C; [|discriminate] end.
    injection H as <-. simpl. apply andb_true_iff in C. destruct C as [C _]. apply andb_true_iff in C. destruct C as [C _].
    apply andb_true_iff in C. destruct C as [C _]. apply andb_true_iff in C. destruct C as [Ckey _].
    destruct (k =? key) eqn:E.
    + assert (k = key) by lia. subst. rewrite L in Ckey. discriminate.
    + exists s. split; [exact L|]. split; [reflexivity | lia].
  - destruct (lookup key (r_snaps st)) as [s0|] eqn:L0; [|discriminate].
    destruct (0 <? rs_refs s0); [|discriminate]. injection H as <-. simpl. rewrite lookup_upd, L. simpl.
    rewrite (Z.eqb_sym key k). destruct (k =? key); eexists; split; try reflexivity; simpl; split; try reflexivity; lia.
  - destruct (lookup key (r_snaps st)) as [s0|] eqn:L0; [|discriminate].
    destruct (0 <? rs_refs s0); [|discriminate]. injection H as <-. simpl. rewrite lookup_upd, L. simpl.
    rewrite (Z.eqb_sym key k). destruct (k =? key); eexists; split; try reflexivity; simpl; split; try reflexivity; lia.
Qed.

Theorem cow_roots_proof : forall ops st st' k s, rrun st ops = Some st' -> lookup k (r_snaps st) = Some s ->
  exists s', lookup k (r_snaps st') = Some s' /\ rs_handles s' = rs_handles s /\
             rs_refs s' = rs_refs s + count_ops (is_addref k) ops - count_ops (is_decref k) ops.
Proof.
  induction ops as [|op t IH]; intros st st' k s H L; simpl in H.
  - injection H as <-. exists s. simpl. split; [exact L|]. split; [reflexivity | lia].
  - destruct (rstep st op) as [s1|] eqn:E; [|discriminate].
    destruct (cow_step st op s1 k s E L) as [sa [La [Ha Ra]]].
    destruct (IH s1 st' k sa H La) as [sb [Lb [Hb Rb]]].
    exists sb. split; [exact Lb|]. split; [congruence|]. simpl. unfold b2z in Ra.
    destruct (is_addref k op), (is_decref k op); lia.
Qed.

(* a reader that took a reference of snapshot k (so k has rs_refs >= 1 in st1) and has not released it
   (the releases of k since then are fewer than the references that existed or were added) reads
   through open handles only, whatever else happened; and the snapshot lists the same handles *)
Theorem reader_never_faults_proof : forall ops1 ops2 st1 st2 k s1,
  rrun rinit ops1 = Some st1 -> lookup k (r_snaps st1) = Some s1 ->
  rrun st1 ops2 = Some st2 ->
  count_ops (is_decref k) ops2 < rs_refs s1 + count_ops (is_addref k) ops2 ->
  read_ok st2 k = true /\
  exists s2, lookup k (r_snaps st2) = Some s2 /\ rs_handles s2 = rs_handles s1 /\ 0 < rs_refs s2 /\
    forall h, In h (rs_handles s2) ->
      exists hd, lookup h (r_handles st2) = Some hd /\ 0 < h_refs hd /\ h_open hd = true.
Proof.
  intros ops1 ops2 st1 st2 k s1 H1 L1 H2 Hheld.
  pose proof (rinv_run ops1 rinit st1 rinv_init H1) as Hinv1.
  pose proof (rinv_run ops2 st1 st2 Hinv1 H2) as Hinv2.
  destruct (cow_roots_proof ops2 st1 st2 k s1 H2 L1) as [s2 [L2 [Hh Hr]]].
  assert (Hpos : 0 < rs_refs s2) by lia.
  split; [apply (read_ok_held st2 k s2 Hinv2 L2 Hpos)|].
  exists s2. split; [exact L2|]. split; [exact Hh|]. split; [exact Hpos|].
  intros h Hin. destruct (rinv_listed st2 k s2 h Hinv2 L2 Hpos Hin) as [hd [A [B [C _]]]]. exists hd. auto.
Qed.

(* when every snapshot has been released, every handle has been closed exactly once; and no handle
   is ever closed twice *)
Theorem handles_balanced_proof : forall ops st, rrun rinit ops = Some st ->
  (forall id hd, lookup id (r_handles st) = Some hd -> (h_closes hd <= 1)%nat /\ (h_open hd = true <-> h_closes hd = 0%nat)) /\
  ((forall k s, lookup k (r_snaps st) = Some s -> rs_refs s = 0) ->
   forall id hd, lookup id (r_handles st) = Some hd -> h_open hd = false /\ h_closes hd = 1%nat /\ h_refs hd = 0).
Proof.
  intros ops st H. pose proof (rinv_run ops rinit st rinv_init H) as [I1 I2 I3]. split.
  - intros id hd L. destruct (I3 id hd L) as [_ [[A [B C]]|[A [B C]]]]; rewrite A, B; split; try lia; split; congruence.
  - intros Hall id hd L. destruct (I3 id hd L) as [Hc Hok].
    assert (Hz : count id (r_snaps st) = 0).
    { unfold count. rewrite filter_all_false; [reflexivity|]. intros [k s] Hin. unfold live_lists. simpl.
      rewrite (Hall k s (lookup_NoDup _ _ _ I1 Hin)). reflexivity. }
    destruct Hok as [[A [B C]]|[A [B C]]]; [lia | auto].
Qed.

(* ---------- non-vacuity: a root, a reader, a new root, the old root released, the reader released ---------- *)

Definition refs_ops : list rop :=
  [ RNew 1 0 [] [10];            (* root 1 loads handle 10 *)
    RAddRef 1;                   (* a reader takes root 1 *)
    RNew 2 1 [10] [11];          (* root 2 keeps 10, loads 11 *)
    RDecRef 1;                   (* replaceRoot releases root 1: the reader still holds it *)
    RNew 3 2 [11] [];            (* a merge drops handle 10 from the root *)
    RDecRef 2 ].                 (* root 2 released: handle 10 is kept open by the reader alone *)

Lemma refs_example_proof :
  (exists st, rrun rinit refs_ops = Some st /\ read_ok st 1 = true /\
     lookup 10 (r_handles st) = Some {| h_refs := 1; h_open := true; h_closes := 0 |}) /\
  (exists st, rrun rinit (refs_ops ++ [RDecRef 1]) = Some st /\ read_ok st 1 = false /\
     lookup 10 (r_handles st) = Some {| h_refs := 0; h_open := false; h_closes := 1 |} /\
     lookup 11 (r_handles st) = Some {| h_refs := 1; h_open := true; h_closes := 0 |}) /\
  (exists st, rrun rinit (refs_ops ++ [RDecRef 1; RDecRef 3]) = Some st /\
     forallb (fun p => negb (h_open (snd p)) && Nat.eqb (h_closes (snd p)) 1) (r_handles st) = true) /\
  (* not well-formed: releasing twice, keeping a handle of a released snapshot *)
  rrun rinit (refs_ops ++ [RDecRef 1; RDecRef 1]) = None /\
  rrun rinit (refs_ops ++ [RDecRef 1; RNew 4 1 [10] []]) = None.
Proof.
  split; [eexists; split; [vm_compute; reflexivity|]; split; vm_compute; reflexivity|].
  split; [eexists; split; [vm_compute; reflexivity|]; split; [vm_compute; reflexivity|]; split; vm_compute; reflexivity|].
  split; [eexists; split; vm_compute; reflexivity|]. split; vm_compute; reflexivity.
Qed.

(* ================================================================== *)
(* reader_frozen over the root-history monitor                          *)
(* ================================================================== *)

(* A Reader holds a Snapshot value.  In the model snapshots are immutable Gallina values: nothing an
   event does can change the snapshot a reader holds, so every read through it is a function of that
   value alone.  What the theorem says: an observation the monitor validates at position |pre| equals
   the observables of the root at that position, which is the abstract index after the batches
   introduced so far; two observations validated at the same position (one taken at once, one taken by
   the same held reader after any number of later events — the engine files a held reader's later reads
   under the epoch of its snapshot) agree.  That the implementation's held readers really keep
   answering like this is what the engine's held-reader oracle checks at run time. *)
Theorem reader_frozen_proof : forall pre o post st,
  accept_run init_state (pre ++ EObserve o :: post) = Some st ->
  exists stn, accept_run init_state pre = Some stn /\
    o_epoch o = sn_epoch (t_root stn) /\ o_count o = snap_count (t_root stn) /\
    o_matchall o = match_all (t_root stn) /\ map snd (o_matchall o) = abs (t_root stn) /\
    Permutation (map snd (o_matchall o)) (fold_left apply_batch (t_batches stn) (loaded pre)) /\
    (forall p, In p (o_lookups o) -> Permutation (snd p) (lookup_id (t_root stn) (fst p))) /\
    (* a second observation validated at the same position, whatever happened in between *)
    (forall o2 post2 st2, accept_run init_state (pre ++ EObserve o2 :: post2) = Some st2 ->
       o_epoch o2 = o_epoch o /\ o_count o2 = o_count o /\ o_matchall o2 = o_matchall o /\
       forall id l1 l2, In (id, l1) (o_lookups o) -> In (id, l2) (o_lookups o2) -> Permutation l1 l2).
Proof.
  intros pre o post st H. apply accept_run_app in H. destruct H as [stn [H1 H2]]. exists stn. split; [exact H1|].
  cbn [accept_run] in H2. destruct (accept_ev stn (EObserve o)) as [s1|] eqn:E; [|discriminate].
  apply accept_observe_inv in E. destruct E as [E1 [E2 [E3 [E4 [E5 _]]]]].
  destruct (history_refines_proof pre stn H1) as [HP [HA _]].
  split; [exact E1|]. split; [exact E2|]. split; [exact E3|]. split; [rewrite E3; apply match_all_abs|].
  split; [rewrite E3, match_all_abs, <- HA; exact HP|].
  split; [intros p Hp; apply same_docs_perm; apply E4; exact Hp|].
  intros o2 post2 st2 H'. apply accept_run_app in H'. destruct H' as [stn' [H1' H2']].
  rewrite H1 in H1'. injection H1' as <-. cbn [accept_run] in H2'.
  destruct (accept_ev stn (EObserve o2)) as [s2|] eqn:E'; [|discriminate].
  apply accept_observe_inv in E'. destruct E' as [F1 [F2 [F3 [F4 _]]]].
  split; [congruence|]. split; [congruence|]. split; [congruence|].
  intros id l1 l2 Hi1 Hi2. pose proof (same_docs_perm _ _ (E4 _ Hi1)) as P1. pose proof (same_docs_perm _ _ (F4 _ Hi2)) as P2.
  simpl in P1, P2. eapply perm_trans; [exact P1 | apply Permutation_sym; exact P2].
Qed.
