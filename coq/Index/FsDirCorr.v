(* Index/FsDirCorr.v — correspondence cases for the fsdir engine: each case carries what the
   real FileSystemDirectory.Persist returned / left on disk / issued as system calls; check
   recomputes it with the model.  File contents are run-length coded ((byte, count) pairs). *)
From Coq Require Import ZArith List Bool.
From Bluge Require Import Base.Res Base.Corr Base.Bufio Gen.ParamsFsDir Index.FsDir.
Import ListNotations.
Open Scope Z_scope.

Definition rle := list (Z * Z).
Definition expand (r : rle) : list Z := flat_map (fun p => repeat (fst p) (Z.to_nat (snd p))) r.

Inductive fcase :=
(* Persist over prior content `pre` with a writer sending `chunks`, first error at `fl`:
   observed error flag and the file under the item's name afterwards *)
| CPersist (pre : option rle) (chunks : list rle) (fl : failure) (err : bool) (post : option rle)
(* the same call under strace: system calls on the item, projected to the op alphabet *)
| CTrace (pre : option rle) (chunks : list rle) (fl : failure) (trace : list fsop)
(* name of the item's file *)
| CName (kind : list Z) (id : Z) (name : list Z).

Definition check (c : fcase) : bool :=
  match c with
  | CPersist pre chunks fl err post =>
      let r := persist (option_map expand pre) (map expand chunks) fl in
      Bool.eqb (pr_err r) err &&
      option_eqb zlist_eqb (option_map fi_content (pr_file r)) (option_map expand post)
  | CTrace pre chunks fl trace =>
      let r := persist (option_map expand pre) (map expand chunks) fl in
      list_eqb fsop_eqb (pr_trace r) trace
  | CName kind id name => zlist_eqb (file_name kind id) name
  end.

Definition mismatches (l : list fcase) : list nat := failing check l.
