(* Index/TraceCorr.v — correspondence cases for the index engine: one case = the recorded root
   history of one writer run; check = the monitor accepts it. *)
From Coq Require Import ZArith List Bool.
From Bluge Require Import Base.Res Base.Corr Index.Model Index.Trace.
Import ListNotations.
Open Scope Z_scope.

Definition icase := list ievent.

Definition check (c : icase) : bool :=
  match accept_run init_state c with Some _ => true | None => false end.

Definition mismatches (l : list icase) : list nat := failing check l.

(* for replay reports: (case index, index of the first rejected event) *)
Fixpoint rejects_from (n : nat) (l : list icase) : list (nat * nat) :=
  match l with
  | [] => []
  | c :: t => match first_reject init_state c 0 with
              | Some k => (n, k) :: rejects_from (S n) t
              | None => rejects_from (S n) t
              end
  end.
Definition rejects (l : list icase) : list (nat * nat) := rejects_from 0 l.

(* constructors with short names for the generated case files *)
Definition SG (id : Z) (docs : list doc) (del : list Z) (p : bool) : segsnap :=
  {| ss_id := id; ss_docs := docs; ss_del := del; ss_persisted := p |}.
Definition SN (e : Z) (segs : list segsnap) : snapshot := {| sn_epoch := e; sn_segs := segs |}.
Definition BT (docs : list doc) (ids : list Z) : batch := {| b_docs := docs; b_ids := ids |}.
Definition MG (id : Z) (old : list (Z * option (list Z))) (oldnew : list (Z * list Z)) (nw : option (list doc)) (p : bool) : merge_ev :=
  {| m_id := id; m_old := old; m_oldnew := oldnew; m_new := nw; m_new_persisted := p |}.
Definition OB (e c : Z) (ma : list (Z * doc)) (lk : list (Z * list doc)) : observation :=
  {| o_epoch := e; o_count := c; o_matchall := ma; o_lookups := lk |}.
