(* Index/SnapshotCodecProofs.v — proofs about the snapshot codec model (Index/SnapshotCodec.v). *)
From Coq Require Import ZArith List Bool Lia.
From Coq Require Import ZifyBool.
From Bluge Require Import Base.Int64 Base.Res Base.Corr Base.Uvarint Base.UvarintProofs Base.CRC32
  Base.CRC32Proofs Base.Bufio Base.BufioProofs Gen.ParamsCodec Index.SnapshotCodec.
Import ListNotations.
Open Scope Z_scope.

Arguments ztake : simpl never.
Arguments zdrop : simpl never.
Arguments zlen : simpl never.
Arguments put_uvarint : simpl never.
Arguments put_be32 : simpl never.
Arguments crc32 : simpl never.

(* the behaviour flags T-gen reads from the current source are those of the repaired decoder;
   a regression of the source changes Gen/ParamsCodec.v and breaks this lemma *)
Lemma gen_flags_fixed : gen_flags = fixed_flags.
Proof. reflexivity. Qed.

Lemma chunk_pos : 0 < codec_read_chunk.
Proof. reflexivity. Qed.
Lemma crc_width_4 : crc_width = 4.
Proof. reflexivity. Qed.
Lemma version_1 : snapshot_format_version = 1 /\ snapshot_format_version1 = 1.
Proof. split; reflexivity. Qed.

Lemma zlist_eqb_refl l : zlist_eqb l l = true.
Proof. induction l as [|x l IH]; simpl; [reflexivity|]. rewrite Z.eqb_refl, IH. reflexivity. Qed.

Lemma zlist_eqb_eq : forall a b, zlist_eqb a b = true -> a = b.
Proof.
  induction a as [|x a IH]; intros [|y b] H; simpl in H; try discriminate; [reflexivity|].
  apply andb_prop in H. destruct H as [H1 H2]. apply Z.eqb_eq in H1. apply IH in H2. subst. reflexivity.
Qed.

Lemma put_be32_len v : zlen (put_be32 v) = 4.
Proof. reflexivity. Qed.

Lemma be32_put v : 0 <= v < 4294967296 -> be32 (put_be32 v) = v.
Proof.
  intros Hv. unfold put_be32, be32.
  Ltac Zify.zify_post_hook ::= Z.div_mod_to_equations.
  lia.
Qed.

(* ================================================================ monad plumbing *)

Lemma mbind_ok {A B} (m : M A) (f : A -> M B) a x a' : m a = (Ok x, a') -> mbind m f a = f x a'.
Proof. intros H. unfold mbind. rewrite H. reflexivity. Qed.

Lemma mdiscard_spec n r a : wf r -> 0 <= n <= buffered r ->
  exists r1, mdiscard n r a = (Ok r1, a) /\ stream r1 = zdrop n (stream r) /\ wf r1 /\ br_rest r1 = br_rest r.
Proof.
  intros Hwf Hn. destruct (discard_spec n r Hwf Hn) as (r1 & E & Hs & Hw & Hr).
  exists r1. unfold mdiscard, mlift. rewrite E. simpl. auto.
Qed.

(* ================================================================ decoding what was encoded *)

(* Peek + Uvarint + Discard on a stream that starts with PutUvarint(x) *)
Lemma peek_put_uvarint r x tail : wf r -> stream r = put_uvarint x ++ tail -> 0 <= x < two64 ->
  let '(pk, eof, r1) := peek max_varint_len64 r in
  uvarint pk = (x, zlen (put_uvarint x)) /\ stream r1 = stream r /\ wf r1 /\
  zlen (put_uvarint x) <= buffered r1.
Proof.
  intros Hwf Hs Hx.
  pose proof (peek_spec max_varint_len64 r Hwf ltac:(unfold max_varint_len64, bufsize; lia)) as Hp.
  destruct (peek max_varint_len64 r) as [[pk eof] r1].
  destruct Hp as (Hs1 & Hw1 & Hb & _ & Hne & He).
  pose proof (put_uvarint_len x) as Hl.
  destruct eof.
  - destruct (He eq_refl) as (Hpk & Hshort & Hrest).
    repeat split; try assumption.
    + rewrite Hpk, Hs. apply uvarint_put. exact Hx.
    + assert (Hbuf : br_buf r1 = stream r1) by (unfold stream; rewrite Hrest, app_nil_r; reflexivity).
      unfold buffered. rewrite Hbuf, Hs1, Hs, zlen_app. pose proof (zlen_nonneg tail). lia.
  - destruct (Hne eq_refl) as (Hpk & Hlong).
    repeat split; try assumption.
    + rewrite Hpk, Hs. rewrite ztake_app_r by (unfold max_varint_len64; lia). apply uvarint_put. exact Hx.
    + assert (zlen pk = max_varint_len64).
      { rewrite Hpk. rewrite zlen_ztake by (unfold max_varint_len64; lia). lia. }
      unfold max_varint_len64 in *. lia.
Qed.

Lemma take_uvarint r x tail a : wf r -> stream r = put_uvarint x ++ tail -> 0 <= x < two64 ->
  exists r2, stream r2 = tail /\ wf r2 /\
    forall (B : Type) (K : Z -> breader -> M B),
      (let '(v, n, r1) := peek_uvarint r in mbind (mdiscard n r1) (fun r2 => K v r2)) a = K x r2 a.
Proof.
  intros Hwf Hs Hx.
  pose proof (peek_put_uvarint r x tail Hwf Hs Hx) as Hp.
  unfold peek_uvarint.
  destruct (peek max_varint_len64 r) as [[pk eof] r1].
  destruct Hp as (Hu & Hs1 & Hw1 & Hb).
  rewrite Hu.
  pose proof (put_uvarint_len x) as Hl.
  destruct (mdiscard_spec (zlen (put_uvarint x)) r1 a Hw1 ltac:(lia)) as (r2 & E & Hs2 & Hw2 & _).
  exists r2. repeat split; try assumption.
  - rewrite Hs2, Hs1, Hs. apply zdrop_app_exact.
  - intros B K. apply mbind_ok. exact E.
Qed.

(* readBytes on a stream that holds the n bytes *)
Lemma read_bytes_aux_ok : forall fuel n acc r a,
  wf r -> zlen acc <= n -> n - zlen acc <= zlen (stream r) -> n - zlen acc <= Z.of_nat fuel ->
  exists r1 a1, read_bytes_aux fuel n acc r a = (Ok (acc ++ ztake (n - zlen acc) (stream r), r1), a1) /\
                stream r1 = zdrop (n - zlen acc) (stream r) /\ wf r1.
Proof.
  induction fuel as [|fuel IH]; intros n acc r a Hwf Hacc Hav Hfuel.
  - assert (Hn : n = zlen acc) by lia.
    cbn [read_bytes_aux]. replace (n <=? zlen acc) with true by lia.
    exists r, a. rewrite Hn. replace (zlen acc - zlen acc) with 0 by lia.
    rewrite ztake_nonpos, zdrop_nonpos, app_nil_r by lia. auto.
  - cbn [read_bytes_aux].
    destruct (n <=? zlen acc) eqn:E.
    + assert (Hn : n = zlen acc) by lia.
      exists r, a. rewrite Hn. replace (zlen acc - zlen acc) with 0 by lia.
      rewrite ztake_nonpos, zdrop_nonpos, app_nil_r by lia. auto.
    + set (want := Z.min (n - zlen acc) codec_read_chunk).
      pose proof chunk_pos as Hc.
      assert (Hw : 0 < want <= n - zlen acc) by (unfold want; lia).
      destruct (read_full_spec want r Hwf ltac:(lia)) as [Hok _].
      destruct (Hok ltac:(lia)) as (r1 & E1 & Hs1 & Hw1 & _).
      unfold mbind at 1. unfold malloc at 1.
      unfold mbind at 1. unfold mlift at 1. rewrite E1.
      assert (Hl : zlen (acc ++ ztake want (stream r)) = zlen acc + want).
      { rewrite zlen_app, zlen_ztake by lia. lia. }
      assert (H1 : zlen (acc ++ ztake want (stream r)) <= n) by lia.
      assert (H2 : n - zlen (acc ++ ztake want (stream r)) <= zlen (stream r1)).
      { rewrite Hl, Hs1, zlen_zdrop by lia. lia. }
      assert (H3 : n - zlen (acc ++ ztake want (stream r)) <= Z.of_nat fuel) by lia.
      destruct (IH n (acc ++ ztake want (stream r)) r1 (a + want) Hw1 H1 H2 H3) as (r2 & a2 & E2 & Hs2 & Hw2).
      exists r2, a2. rewrite E2. rewrite Hl, Hs1 in *.
      repeat split; try assumption.
      * f_equal. f_equal. rewrite <- app_assoc. f_equal.
        rewrite ztake_ztake_app by lia. f_equal. f_equal. lia.
      * rewrite Hs2. rewrite zdrop_zdrop by lia. f_equal. lia.
Qed.

Lemma read_bytes_ok x tail r a : wf r -> stream r = x ++ tail ->
  exists r1 a1, read_bytes (zlen x) r a = (Ok (x, r1), a1) /\ stream r1 = tail /\ wf r1.
Proof.
  intros Hwf Hs. unfold read_bytes.
  assert (Hz : zlen ([] : list Z) = 0) by reflexivity.
  destruct (read_bytes_aux_ok (S (length (stream r))) (zlen x) [] r a Hwf
              ltac:(rewrite Hz; apply zlen_nonneg)
              ltac:(rewrite Hz, Hs, zlen_app; pose proof (zlen_nonneg tail); lia)
              ltac:(rewrite Hz, Hs; unfold zlen; rewrite app_length; lia)) as (r1 & a1 & E & Hs1 & Hw1).
  exists r1, a1. rewrite E, Hs1, Hz, Hs. replace (zlen x - 0) with (zlen x) by lia.
  rewrite ztake_app_exact, zdrop_app_exact. auto.
Qed.

(* readVarLenString *)
Lemma read_varlen_string_ok s tail r a : wf r -> stream r = write_varlen_string s ++ tail -> zlen s < two64 ->
  exists r1 a1, read_varlen_string fixed_flags r a = (Ok (s, r1), a1) /\ stream r1 = tail /\ wf r1.
Proof.
  intros Hwf Hs Hl. unfold write_varlen_string in Hs. rewrite <- app_assoc in Hs.
  pose proof (zlen_nonneg s) as Hs0.
  pose proof (peek_put_uvarint r (zlen s) (s ++ tail) Hwf Hs ltac:(lia)) as Hp.
  unfold read_varlen_string. cbn [f_strict_peek f_trust_len fixed_flags andb].
  destruct (peek max_varint_len64 r) as [[pk eof] r1].
  destruct Hp as (Hu & Hs1 & Hw1 & Hb).
  rewrite Hu.
  pose proof (put_uvarint_len (zlen s)) as Hpl.
  destruct (mdiscard_spec (zlen (put_uvarint (zlen s))) r1 a Hw1 ltac:(lia)) as (r2 & E & Hs2 & Hw2 & _).
  rewrite (mbind_ok _ _ _ _ _ E).
  assert (Hs2' : stream r2 = s ++ tail) by (rewrite Hs2, Hs1, Hs; apply zdrop_app_exact).
  exact (read_bytes_ok s tail r2 a Hw2 Hs2').
Qed.

(* the well-formedness facts about a segment, as propositions *)
Definition seg_wf (g : seg) : Prop :=
  0 <= sg_id g < two64 /\ 0 <= sg_ver g < 4294967296 /\ zlen (sg_type g) < two64 /\ zlen (sg_del g) < two64.

(* readSegmentSnapshot on a stream that starts with recordSegment(g) *)
Lemma read_segment_ok rb g tail r a : wf r -> stream r = record_segment g ++ tail ->
  seg_wf g -> del_canonical rb g ->
  exists r1 a1, read_segment fixed_flags rb r a = (Ok (g, r1), a1) /\ stream r1 = tail /\ wf r1.
Proof.
  intros Hwf Hs (Hid & Hver & Hty & Hdl) Hcan.
  unfold record_segment in Hs. rewrite <- !app_assoc in Hs.
  unfold read_segment.
  destruct (read_varlen_string_ok (sg_type g) _ r a Hwf Hs Hty) as (r1 & a1 & E1 & Hs1 & Hw1).
  rewrite (mbind_ok _ _ _ _ _ E1). cbn beta iota.
  unfold mbind at 1. unfold malloc at 1.
  cbn [f_single_read f_trust_len fixed_flags].
  (* version *)
  destruct (read_full_spec 4 r1 Hw1 ltac:(lia)) as [Hok _].
  assert (H4 : 4 <= zlen (stream r1)).
  { rewrite Hs1, zlen_app, put_be32_len. pose proof (zlen_nonneg (put_uvarint (sg_id g) ++ put_uvarint (zlen (sg_del g)) ++ sg_del g ++ tail)). lia. }
  destruct (Hok H4) as (r2 & E2 & Hs2 & Hw2 & _).
  unfold mbind at 1. unfold mlift at 1. rewrite E2. cbn beta iota.
  assert (Hvb : ztake 4 (stream r1) = put_be32 (sg_ver g)).
  { rewrite Hs1. rewrite <- (put_be32_len (sg_ver g)). apply ztake_app_exact. }
  assert (Hs2' : stream r2 = put_uvarint (sg_id g) ++ put_uvarint (zlen (sg_del g)) ++ sg_del g ++ tail).
  { rewrite Hs2, Hs1. rewrite <- (put_be32_len (sg_ver g)). apply zdrop_app_exact. }
  rewrite Hvb. rewrite be32_put by exact Hver.
  (* id *)
  destruct (take_uvarint r2 (sg_id g) _ (a1 + 4) Hw2 Hs2' Hid) as (r4 & Hs4 & Hw4 & K4).
  rewrite K4.
  (* deleted length *)
  pose proof (zlen_nonneg (sg_del g)) as Hd0.
  destruct (take_uvarint r4 (zlen (sg_del g)) _ (a1 + 4) Hw4 Hs4 ltac:(lia)) as (r6 & Hs6 & Hw6 & K6).
  rewrite K6.
  destruct (0 <? zlen (sg_del g)) eqn:Epos.
  - destruct (read_bytes_ok (sg_del g) tail r6 (a1 + 4) Hw6 Hs6) as (r7 & a7 & E7 & Hs7 & Hw7).
    rewrite (mbind_ok _ _ _ _ _ E7). cbn beta iota.
    destruct Hcan as [Hnil|Hrb].
    + rewrite Hnil in Epos. discriminate.
    + rewrite Hrb. exists r7, a7. unfold mret. destruct g; cbn in *. auto.
  - assert (Hnil : sg_del g = []) by (apply zlen_nil_iff; lia).
    exists r6, (a1 + 4). unfold mret. rewrite Hnil in Hs6. simpl in Hs6.
    destruct g; cbn in *. subst. auto.
Qed.

(* the segment loop *)
Lemma read_segments_ok rb : forall gs fuel acc tail r a,
  wf r -> stream r = flat_map record_segment gs ++ tail ->
  Forall seg_wf gs -> Forall (del_canonical rb) gs -> (length gs <= fuel)%nat ->
  exists r1 a1, read_segments fuel fixed_flags rb (zlen gs) acc r a = (Ok (rev acc ++ gs, r1), a1) /\
                stream r1 = tail /\ wf r1.
Proof.
  induction gs as [|g gs IH]; intros fuel acc tail r a Hwf Hs Hwfs Hcan Hfuel.
  - destruct fuel; cbn [read_segments]; change (zlen ([] : list seg) <=? 0) with true; cbn;
      exists r, a; rewrite app_nil_r; auto.
  - destruct fuel as [|fuel]; [simpl in Hfuel; lia|].
    cbn [read_segments].
    assert (Hz : zlen (g :: gs) = zlen gs + 1) by (unfold zlen; simpl length; lia).
    pose proof (zlen_nonneg gs) as Hg0.
    replace (zlen (g :: gs) <=? 0) with false by lia.
    simpl flat_map in Hs. rewrite <- app_assoc in Hs.
    inversion Hwfs as [|? ? Hg Hgs]; subst. inversion Hcan as [|? ? Hc Hcs]; subst.
    destruct (read_segment_ok rb g _ r a Hwf Hs Hg Hc) as (r1 & a1 & E1 & Hs1 & Hw1).
    rewrite (mbind_ok _ _ _ _ _ E1). cbn beta iota.
    replace (zlen (g :: gs) - 1) with (zlen gs) by lia.
    destruct (IH fuel (g :: acc) tail r1 a1 Hw1 Hs1 Hgs Hcs ltac:(simpl in Hfuel; lia)) as (r2 & a2 & E2 & Hs2 & Hw2).
    exists r2, a2. rewrite E2. simpl rev. rewrite <- app_assoc. auto.
Qed.

Lemma record_segment_len g : 1 <= zlen (record_segment g).
Proof.
  unfold record_segment, write_varlen_string. rewrite !zlen_app, put_be32_len.
  pose proof (zlen_nonneg (put_uvarint (zlen (sg_type g)))). pose proof (zlen_nonneg (sg_type g)).
  pose proof (zlen_nonneg (put_uvarint (sg_id g))). pose proof (zlen_nonneg (put_uvarint (zlen (sg_del g)))).
  pose proof (zlen_nonneg (sg_del g)). lia.
Qed.

Lemma flat_map_record_len gs : zlen gs <= zlen (flat_map record_segment gs).
Proof.
  induction gs as [|g gs IH]; [unfold zlen; simpl; lia|].
  simpl flat_map. rewrite zlen_app. pose proof (record_segment_len g).
  assert (zlen (g :: gs) = zlen gs + 1) by (unfold zlen; simpl length; lia). lia.
Qed.

Definition snapshot_wf (s : snapshot) : Prop :=
  Forall seg_wf (sn_segs s) /\ zlen (sn_segs s) < two63.

(* ReadFrom (encode_payload s) = s, and the whole input is consumed *)
Lemma decode_reader_ok rb s : snapshot_wf s -> Forall (del_canonical rb) (sn_segs s) ->
  exists r1 a1, decode_reader fixed_flags rb (br_init (encode_payload s)) 0 = (Ok (s, r1), a1) /\
                stream r1 = [] /\ wf r1.
Proof.
  intros [Hwfs Hcount] Hcan.
  destruct version_1 as [Hv Hv1].
  unfold decode_reader. unfold mbind at 1. unfold malloc at 1.
  pose proof (zlen_nonneg (sn_segs s)) as Hn0.
  assert (Hs0 : stream (br_init (encode_payload s)) =
                put_uvarint 1 ++ put_uvarint (zlen (sn_segs s)) ++ flat_map record_segment (sn_segs s) ++ []).
  { rewrite stream_init. unfold encode_payload. rewrite Hv, app_nil_r. reflexivity. }
  destruct (take_uvarint _ 1 _ (0 + bufsize) (wf_init _) Hs0 ltac:(unfold two64; lia)) as (r2 & Hs2 & Hw2 & K2).
  rewrite K2. rewrite Hv1. change (1 =? 1) with true. cbn iota.
  unfold read_v1.
  destruct (take_uvarint r2 (zlen (sn_segs s)) _ (0 + bufsize) Hw2 Hs2 ltac:(unfold two63, two64 in *; lia)) as (r4 & Hs4 & Hw4 & K4).
  unfold mbind at 1.
  (* the loop *)
  assert (Hwrap : wrap64 (zlen (sn_segs s)) = zlen (sn_segs s)).
  { apply wrap64_id. unfold in_int64, min_int64, max_int64, two63 in *. lia. }
  pose proof (read_segments_ok rb (sn_segs s) (S (length (stream r4))) [] [] r4 (0 + bufsize) Hw4 Hs4 Hwfs Hcan) as Hloop.
  assert (Hfuel : (length (sn_segs s) <= S (length (stream r4)))%nat).
  { rewrite Hs4, app_nil_r. pose proof (flat_map_record_len (sn_segs s)). unfold zlen in *. lia. }
  destruct (Hloop Hfuel) as (r5 & a5 & E5 & Hs5 & Hw5).
  (* put the pieces together: K4 speaks about the continuation applied after the discard *)
  specialize (K4 (list seg * breader)%type
                 (fun num r2' => read_segments (S (length (stream r2'))) fixed_flags rb (wrap64 num) [] r2')).
  cbn beta in K4.
  assert (Ev1 : (let '(num, n, r1) := peek_uvarint r2 in
                 mbind (mdiscard n r1) (fun r2' => read_segments (S (length (stream r2'))) fixed_flags rb (wrap64 num) [] r2')) (0 + bufsize)
                = (Ok (sn_segs s, r5), a5)).
  { rewrite K4. rewrite Hwrap. exact E5. }
  rewrite Ev1. exists r5, a5. unfold mret. destruct s; cbn in *. auto.
Qed.

Lemma seg_ok_wf g : seg_ok g = true -> zlen (sg_type g) < two64 -> zlen (sg_del g) < two64 -> seg_wf g.
Proof.
  unfold seg_ok, seg_wf. intros H Ht Hd.
  repeat (apply andb_prop in H; destruct H as [H ?]). lia.
Qed.

(* every snapshot value reads back from its own encoding *)
Theorem roundtrip_fixed rb s : snapshot_wf s -> Forall (del_canonical rb) (sn_segs s) ->
  fst (load_with fixed_flags rb (encode s)) = Ok s.
Proof.
  intros Hwf Hcan.
  destruct (decode_reader_ok rb s Hwf Hcan) as (r1 & a1 & E & Hs & Hw).
  unfold load_with, encode.
  set (p := encode_payload s) in *.
  assert (Hpl : payload_of (p ++ ztake crc_width (put_be32 (crc32 p))) = p).
  { unfold payload_of. rewrite crc_width_4. rewrite (ztake_all 4) by (rewrite put_be32_len; lia).
    rewrite zlen_app, put_be32_len. replace (zlen p + 4 - 4) with (zlen p) by lia. apply ztake_app_exact. }
  rewrite Hpl, E.
  assert (Hlen : zlen (p ++ ztake crc_width (put_be32 (crc32 p))) = zlen p + 4).
  { rewrite crc_width_4, (ztake_all 4) by (rewrite put_be32_len; lia). rewrite zlen_app, put_be32_len. reflexivity. }
  rewrite Hlen. pose proof (zlen_nonneg p). rewrite crc_width_4.
  replace (zlen p + 4 <? 4) with false by lia.
  assert (Hrest : br_rest r1 = []).
  { unfold stream in Hs. apply app_eq_nil in Hs. tauto. }
  rewrite Hrest. change (zlen ([] : list Z)) with 0. replace (zlen p - 0) with (zlen p) by lia.
  rewrite (ztake_all (zlen p) p) by lia.
  assert (Htr : trailer_of (p ++ ztake 4 (put_be32 (crc32 p))) = put_be32 (crc32 p)).
  { unfold trailer_of. rewrite crc_width_4. rewrite (ztake_all 4) by (rewrite put_be32_len; lia).
    rewrite zlen_app, put_be32_len. replace (zlen p + 4 - 4) with (zlen p) by lia. apply zdrop_app_exact. }
  rewrite <- crc_width_4 at 1. rewrite crc_width_4 in *. rewrite Htr. rewrite zlist_eqb_refl. reflexivity.
Qed.

Theorem roundtrip_all rb s : snapshot_wf s -> Forall (del_canonical rb) (sn_segs s) -> load rb (encode s) = Ok s.
Proof. intros. unfold load. rewrite gen_flags_fixed. apply roundtrip_fixed; assumption. Qed.

(* ================================================================ acceptance is sound *)

(* whatever is accepted: the file has a trailer, the decoder (run on the bytes before the trailer)
   produced exactly that state, and the trailer is the CRC-32 of the bytes the decoder pulled *)
Theorem accept_sound_all rb b s : load rb b = Ok s ->
  crc_width <= zlen b /\
  exists r a, decode_reader gen_flags rb (br_init (payload_of b)) 0 = (Ok (s, r), a) /\
    put_be32 (crc32 (ztake (zlen (payload_of b) - zlen (br_rest r)) (payload_of b))) = trailer_of b.
Proof.
  unfold load, load_with. intros H.
  destruct (decode_reader gen_flags rb (br_init (payload_of b)) 0) as [[[s1 r]|c|c|] a] eqn:E;
    cbn [fst] in H; try discriminate.
  destruct (zlen b <? crc_width) eqn:El; cbn [fst] in H; [discriminate|].
  destruct (zlist_eqb _ (trailer_of b)) eqn:Ec; cbn [fst] in H; [|discriminate].
  inversion H; subst. split; [lia|]. exists r, a. split; [reflexivity|].
  apply zlist_eqb_eq. exact Ec.
Qed.

Corollary accept_sound_decode rb b s : load rb b = Ok s -> decode rb (payload_of b) = Ok s.
Proof.
  intros H. destruct (accept_sound_all rb b s H) as (_ & r & a & E & _).
  unfold decode, decode_with. rewrite E. reflexivity.
Qed.

(* ================================================================ short files *)

Theorem short_rejected_all rb b : zlen b < 5 -> exists c, load rb b = Err c.
Proof.
  intros Hl. unfold load, load_with.
  assert (Hp : payload_of b = []).
  { unfold payload_of. apply ztake_nonpos. rewrite crc_width_4. lia. }
  rewrite Hp.
  assert (E : decode_reader gen_flags rb (br_init []) 0 = (Err err_version, 4096)) by (vm_compute; reflexivity).
  rewrite E. eexists. reflexivity.
Qed.

(* five bytes are enough: the version byte alone, followed by its own CRC, loads as the empty
   snapshot although no encoder output looks like that (the segment count is missing) *)
Example min_accept_example rb :
  load rb [1; 165; 5; 223; 27] = Ok {| sn_segs := [] |} /\ encode {| sn_segs := [] |} <> [1; 165; 5; 223; 27].
Proof. split; [vm_compute; reflexivity|vm_compute; discriminate]. Qed.

(* ================================================================ allocation on the pinned tree *)

(* the decoder of the pinned tree asks make() for what a damaged length field says: a 24-byte
   file requests 2^63-1 bytes and panics (D3); a 21-byte file requests a terabyte *)
Lemma alloc_refuted_pinned rb :
  (exists b, zlen b = 24 /\ fst (load_with pinned_flags rb b) = Panic panic_makeslice /\
             1000000 * zlen b < snd (load_with pinned_flags rb b)) /\
  (exists b, zlen b = 21 /\ (exists c, fst (load_with pinned_flags rb b) = Err c) /\
             1000000 * zlen b < snd (load_with pinned_flags rb b)).
Proof.
  split.
  - exists [1;1;3;105;99;101;0;0;0;1;2;255;255;255;255;255;255;255;255;127;0;0;0;0].
    split; [reflexivity|]. split; vm_compute; reflexivity.
  - exists [1;1;3;105;99;101;0;0;0;1;2;128;128;128;128;128;32;0;0;0;0].
    split; [reflexivity|]. split; [eexists; vm_compute; reflexivity|vm_compute; reflexivity].
Qed.

(* ... the same two files on the current decoder: an error, a few KB *)
Example alloc_fixed_witness rb :
  (exists c, load rb [1;1;3;105;99;101;0;0;0;1;2;255;255;255;255;255;255;255;255;127;0;0;0;0] = Err c) /\
  load_alloc rb [1;1;3;105;99;101;0;0;0;1;2;255;255;255;255;255;255;255;255;127;0;0;0;0] <= 8200 /\
  load_alloc rb [1;1;3;105;99;101;0;0;0;1;2;128;128;128;128;128;32;0;0;0;0] <= 8200.
Proof. split; [eexists; vm_compute; reflexivity|]. split; vm_compute; discriminate. Qed.

(* ================================================================ fallback *)

Lemma load_dir_writer_reader rb files : load_dir_writer rb files = load_dir_reader rb files.
Proof.
  unfold load_dir_writer. rewrite <- fold_left_rev_right. rewrite rev_involutive.
  induction files as [|[e f] t IH]; simpl; [reflexivity|].
  destruct (load rb f); try exact IH. reflexivity.
Qed.

Definition loads rb (f : list Z) : Prop := exists s, load rb f = Ok s.

(* the pick is the first entry (= newest epoch, the list being in descending order) whose file loads *)
Theorem load_dir_reader_spec rb files e s :
  load_dir_reader rb files = Some (e, s) <->
  exists pre f post, files = pre ++ (e, f) :: post /\ load rb f = Ok s /\
                     Forall (fun ef => ~ loads rb (snd ef)) pre.
Proof.
  split.
  - revert e s. induction files as [|[e0 f0] t IH]; intros e s H; simpl in H; [discriminate|].
    destruct (load rb f0) as [s0|c|c|] eqn:E.
    + inversion H; subst. exists [], f0, t. repeat split; [exact E|constructor].
    + destruct (IH e s H) as (pre & f & post & -> & Hl & Hp).
      exists ((e0, f0) :: pre), f, post. repeat split; try assumption.
      constructor; [|exact Hp]. intros [s' Hs']. simpl in Hs'. congruence.
    + destruct (IH e s H) as (pre & f & post & -> & Hl & Hp).
      exists ((e0, f0) :: pre), f, post. repeat split; try assumption.
      constructor; [|exact Hp]. intros [s' Hs']. simpl in Hs'. congruence.
    + destruct (IH e s H) as (pre & f & post & -> & Hl & Hp).
      exists ((e0, f0) :: pre), f, post. repeat split; try assumption.
      constructor; [|exact Hp]. intros [s' Hs']. simpl in Hs'. congruence.
  - intros (pre & f & post & -> & Hl & Hp).
    induction pre as [|[e0 f0] pre IH]; simpl.
    + rewrite Hl. reflexivity.
    + inversion Hp as [|? ? Hn Hp']; subst. simpl in Hn.
      destruct (load rb f0) as [s0|c|c|] eqn:E; try (apply IH; exact Hp').
      exfalso. apply Hn. exists s0. exact E.
Qed.

Theorem load_dir_none rb files :
  load_dir_reader rb files = None <-> Forall (fun ef => ~ loads rb (snd ef)) files.
Proof.
  induction files as [|[e0 f0] t IH]; simpl.
  - split; [constructor|reflexivity].
  - destruct (load rb f0) as [s0|c|c|] eqn:E.
    + split; [discriminate|]. intros H. inversion H as [|? ? Hn _]; subst. exfalso. apply Hn. exists s0. exact E.
    + rewrite IH. split; intros H; [constructor; [intros [s' Hs']; simpl in Hs'; congruence|exact H]|inversion H; assumption].
    + rewrite IH. split; intros H; [constructor; [intros [s' Hs']; simpl in Hs'; congruence|exact H]|inversion H; assumption].
    + rewrite IH. split; intros H; [constructor; [intros [s' Hs']; simpl in Hs'; congruence|exact H]|inversion H; assumption].
Qed.

(* a damaged newest snapshot over an intact older one yields the older one *)
Corollary fallback_older rb e1 bad e0 good s :
  ~ loads rb bad -> load rb good = Ok s ->
  load_dir_reader rb [(e1, bad); (e0, good)] = Some (e0, s) /\
  load_dir_writer rb [(e1, bad); (e0, good)] = Some (e0, s).
Proof.
  intros Hb Hg. rewrite load_dir_writer_reader. split;
    (apply load_dir_reader_spec; exists [(e1, bad)], good, []; repeat split; [exact Hg|constructor; [exact Hb|constructor]]).
Qed.


(* ================================================================ totality and allocation *)
(* For ARBITRARY input: every stage of the repaired decoder ends with a value or an error (never
   a panic, never out of fuel), consumes input when it succeeds, and the allocation meter grows
   by at most what was consumed (plus one chunk and the 4 version bytes on the failing stage). *)

Lemma peek_uvarint_facts r : wf r ->
  let '(v, n, r1) := peek_uvarint r in
  stream r1 = stream r /\ wf r1 /\ n <= buffered r1 /\ zlen (br_rest r1) <= zlen (br_rest r).
Proof.
  intros Hwf. unfold peek_uvarint.
  pose proof (peek_spec max_varint_len64 r Hwf ltac:(unfold max_varint_len64, bufsize; lia)) as Hp.
  destruct (peek max_varint_len64 r) as [[pk eof] r1].
  destruct Hp as (Hs1 & Hw1 & Hb & Hr & _ & _).
  destruct (uvarint pk) as [v n] eqn:Eu.
  apply uvarint_n in Eu. repeat split; try assumption. lia.
Qed.

Lemma mdiscard_total n r a : wf r -> n <= buffered r ->
  match mdiscard n r a with
  | (Ok r1, a1) => a1 = a /\ 0 <= n /\ wf r1 /\ stream r1 = zdrop n (stream r) /\ br_rest r1 = br_rest r
  | (Err _, a1) => a1 = a
  | _ => False
  end.
Proof.
  intros Hwf Hn. destruct (Z_lt_ge_dec n 0) as [Hneg|Hpos].
  - unfold mdiscard, mlift. rewrite discard_neg by lia. reflexivity.
  - destruct (mdiscard_spec n r a Hwf ltac:(lia)) as (r1 & E & Hs & Hw & Hr). rewrite E.
    repeat split; try assumption; lia.
Qed.

Lemma read_bytes_aux_total : forall fuel n acc r a, wf r -> zlen (stream r) < Z.of_nat fuel ->
  match read_bytes_aux fuel n acc r a with
  | (Ok (bs, r1), a1) => wf r1 /\ 0 <= a1 - a /\ zlen (stream r1) = zlen (stream r) - (a1 - a) /\
                         zlen (br_rest r1) <= zlen (br_rest r)
  | (Err _, a1) => 0 <= a1 - a <= zlen (stream r) + codec_read_chunk
  | _ => False
  end.
Proof.
  induction fuel as [|fuel IH]; intros n acc r a Hwf Hfuel.
  - pose proof (zlen_nonneg (stream r)). lia.
  - cbn [read_bytes_aux]. destruct (n <=? zlen acc) eqn:E.
    + unfold mret. repeat split; try assumption; lia.
    + set (want := Z.min (n - zlen acc) codec_read_chunk).
      pose proof chunk_pos as Hc.
      assert (Hw : 0 < want <= codec_read_chunk) by (unfold want; lia).
      unfold mbind at 1. unfold malloc at 1. unfold mbind at 1. unfold mlift at 1.
      destruct (read_full_spec want r Hwf ltac:(lia)) as [Hok Herr].
      destruct (Z_le_gt_dec want (zlen (stream r))) as [Hle|Hgt].
      * destruct (Hok Hle) as (r1 & E1 & Hs1 & Hw1 & Hr1). rewrite E1.
        assert (Hl1 : zlen (stream r1) = zlen (stream r) - want) by (rewrite Hs1, zlen_zdrop by lia; lia).
        specialize (IH n (acc ++ ztake want (stream r)) r1 (a + want) Hw1 ltac:(lia)).
        destruct (read_bytes_aux fuel n (acc ++ ztake want (stream r)) r1 (a + want)) as [[[bs2 r2]|c|c|] a2];
          try contradiction.
        -- destruct IH as (Hw2 & Ha2 & Hl2 & Hr2). repeat split; try assumption; lia.
        -- pose proof (zlen_nonneg (stream r1)). lia.
      * destruct (Herr ltac:(lia)) as (c & E1). rewrite E1. pose proof (zlen_nonneg (stream r)). lia.
Qed.

Lemma read_bytes_total n r a : wf r ->
  match read_bytes n r a with
  | (Ok (bs, r1), a1) => wf r1 /\ 0 <= a1 - a /\ zlen (stream r1) = zlen (stream r) - (a1 - a) /\
                         zlen (br_rest r1) <= zlen (br_rest r)
  | (Err _, a1) => 0 <= a1 - a <= zlen (stream r) + codec_read_chunk
  | _ => False
  end.
Proof.
  intros Hwf. unfold read_bytes. apply read_bytes_aux_total; [exact Hwf|]. unfold zlen. lia.
Qed.

Lemma read_varlen_string_total r a : wf r ->
  match read_varlen_string fixed_flags r a with
  | (Ok (s, r1), a1) => wf r1 /\ 0 <= a1 - a <= zlen (stream r) - zlen (stream r1) /\
                        zlen (br_rest r1) <= zlen (br_rest r)
  | (Err _, a1) => 0 <= a1 - a <= zlen (stream r) + codec_read_chunk
  | _ => False
  end.
Proof.
  intros Hwf. unfold read_varlen_string. cbn [f_strict_peek f_trust_len fixed_flags andb].
  pose proof (peek_spec max_varint_len64 r Hwf ltac:(unfold max_varint_len64, bufsize; lia)) as Hp.
  destruct (peek max_varint_len64 r) as [[pk eof] r1].
  destruct Hp as (Hs1 & Hw1 & Hb & Hr & _ & _).
  destruct (uvarint pk) as [v n] eqn:Eu. apply uvarint_n in Eu.
  pose proof (mdiscard_total n r1 a Hw1 ltac:(lia)) as Hd.
  unfold mbind at 1.
  destruct (mdiscard n r1 a) as [[r2|c|c|] a2]; try contradiction.
  - destruct Hd as (-> & Hn0 & Hw2 & Hs2 & Hr2).
    assert (Hl2 : zlen (stream r2) <= zlen (stream r)).
    { rewrite Hs2, Hs1, zlen_zdrop by lia. pose proof (zlen_nonneg (stream r)). lia. }
    pose proof (read_bytes_total v r2 a Hw2) as Hb2.
    destruct (read_bytes v r2 a) as [[[bs r3]|c|c|] a3]; try contradiction.
    + destruct Hb2 as (Hw3 & Ha3 & Hl3 & Hr3). repeat split; try assumption; try lia.
      rewrite Hr2 in Hr3. lia.
    + lia.
  - subst. pose proof (zlen_nonneg (stream r)). pose proof chunk_pos. lia.
Qed.

Lemma read_segment_total rb r a : wf r ->
  match read_segment fixed_flags rb r a with
  | (Ok (g, r1), a1) => wf r1 /\ 0 <= a1 - a <= zlen (stream r) - zlen (stream r1) /\
                        zlen (stream r1) + 4 <= zlen (stream r) /\ zlen (br_rest r1) <= zlen (br_rest r)
  | (Err _, a1) => 0 <= a1 - a <= zlen (stream r) + codec_read_chunk + 4
  | _ => False
  end.
Proof.
  intros Hwf. unfold read_segment.
  pose proof (read_varlen_string_total r a Hwf) as H1.
  unfold mbind at 1.
  destruct (read_varlen_string fixed_flags r a) as [[[typ r1]|c|c|] a1]; try contradiction; [|lia].
  destruct H1 as (Hw1 & Ha1 & Hr1). cbn beta iota.
  unfold mbind at 1. unfold malloc at 1. cbn [f_single_read f_trust_len fixed_flags].
  unfold mbind at 1. unfold mlift at 1.
  destruct (read_full_spec 4 r1 Hw1 ltac:(lia)) as [Hok Herr].
  pose proof chunk_pos as Hc. pose proof (zlen_nonneg (stream r1)) as Hz1.
  destruct (Z_le_gt_dec 4 (zlen (stream r1))) as [Hle|Hgt].
  2:{ destruct (Herr ltac:(lia)) as (c & E). rewrite E. lia. }
  destruct (Hok Hle) as (r2 & E2 & Hs2 & Hw2 & Hr2). rewrite E2. cbn beta iota.
  assert (Hl2 : zlen (stream r2) = zlen (stream r1) - 4) by (rewrite Hs2, zlen_zdrop by lia; lia).
  (* id *)
  pose proof (peek_uvarint_facts r2 Hw2) as Hp3.
  destruct (peek_uvarint r2) as [[id n] r3]. destruct Hp3 as (Hs3 & Hw3 & Hn3 & Hr3).
  pose proof (mdiscard_total n r3 (a1 + 4) Hw3 Hn3) as Hd4.
  unfold mbind at 1.
  destruct (mdiscard n r3 (a1 + 4)) as [[r4|c|c|] a4]; try contradiction; [|subst; lia].
  destruct Hd4 as (-> & Hn0 & Hw4 & Hs4 & Hr4). apply (f_equal (@zlen Z)) in Hr4.
  assert (Hl4 : zlen (stream r4) <= zlen (stream r2)).
  { rewrite Hs4, Hs3, zlen_zdrop by lia. pose proof (zlen_nonneg (stream r2)). lia. }
  (* deleted length *)
  pose proof (peek_uvarint_facts r4 Hw4) as Hp5.
  destruct (peek_uvarint r4) as [[delLen n2] r5]. destruct Hp5 as (Hs5 & Hw5 & Hn5 & Hr5).
  pose proof (mdiscard_total n2 r5 (a1 + 4) Hw5 Hn5) as Hd6.
  unfold mbind at 1.
  destruct (mdiscard n2 r5 (a1 + 4)) as [[r6|c|c|] a6]; try contradiction; [|subst; lia].
  destruct Hd6 as (-> & Hn20 & Hw6 & Hs6 & Hr6). apply (f_equal (@zlen Z)) in Hr6.
  assert (Hl6 : zlen (stream r6) <= zlen (stream r4)).
  { rewrite Hs6, Hs5, zlen_zdrop by lia. pose proof (zlen_nonneg (stream r4)). lia. }
  destruct (0 <? delLen).
  - pose proof (read_bytes_total delLen r6 (a1 + 4) Hw6) as Hb7.
    unfold mbind at 1.
    destruct (read_bytes delLen r6 (a1 + 4)) as [[[db r7]|c|c|] a7]; try contradiction; [|lia].
    destruct Hb7 as (Hw7 & Ha7 & Hl7 & Hr7). cbn beta iota.
    pose proof (zlen_nonneg (stream r7)) as Hz7.
    destruct (rb db).
    + unfold mret. repeat split; try assumption; try lia.
    + unfold mfail. lia.
  - unfold mret. repeat split; try assumption; try lia.
Qed.

Lemma read_segments_total rb : forall fuel todo acc r a, wf r -> zlen (stream r) < Z.of_nat fuel ->
  match read_segments fuel fixed_flags rb todo acc r a with
  | (Ok (gs, r1), a1) => wf r1 /\ 0 <= a1 - a <= zlen (stream r) - zlen (stream r1) /\
                         zlen (br_rest r1) <= zlen (br_rest r)
  | (Err _, a1) => 0 <= a1 - a <= zlen (stream r) + codec_read_chunk + 4
  | _ => False
  end.
Proof.
  induction fuel as [|fuel IH]; intros todo acc r a Hwf Hfuel.
  - pose proof (zlen_nonneg (stream r)). lia.
  - cbn [read_segments]. destruct (todo <=? 0).
    + unfold mret. repeat split; try assumption; lia.
    + pose proof (read_segment_total rb r a Hwf) as H1.
      unfold mbind at 1.
      destruct (read_segment fixed_flags rb r a) as [[[g r1]|c|c|] a1]; try contradiction; [|exact H1].
      destruct H1 as (Hw1 & Ha1 & Hl1 & Hr1). cbn beta iota.
      specialize (IH (todo - 1) (g :: acc) r1 a1 Hw1 ltac:(lia)).
      destruct (read_segments fuel fixed_flags rb (todo - 1) (g :: acc) r1 a1) as [[[gs r2]|c|c|] a2]; try contradiction.
      * destruct IH as (Hw2 & Ha2 & Hr2). repeat split; try assumption; lia.
      * pose proof (zlen_nonneg (stream r1)). lia.
Qed.

Lemma decode_reader_total rb r a : wf r ->
  match decode_reader fixed_flags rb r a with
  | (Ok (s, r1), a1) => wf r1 /\ 0 <= a1 - a <= bufsize + zlen (stream r) /\
                        zlen (br_rest r1) <= zlen (br_rest r)
  | (Err _, a1) => 0 <= a1 - a <= bufsize + zlen (stream r) + codec_read_chunk + 4
  | _ => False
  end.
Proof.
  intros Hwf. unfold decode_reader. unfold mbind at 1. unfold malloc at 1.
  pose proof (zlen_nonneg (stream r)) as Hz. pose proof chunk_pos as Hc.
  assert (Hbs : 0 < bufsize) by reflexivity.
  pose proof (peek_uvarint_facts r Hwf) as Hp1.
  destruct (peek_uvarint r) as [[ver n] r1]. destruct Hp1 as (Hs1 & Hw1 & Hn1 & Hr1).
  pose proof (mdiscard_total n r1 (a + bufsize) Hw1 Hn1) as Hd2.
  unfold mbind at 1.
  destruct (mdiscard n r1 (a + bufsize)) as [[r2|c|c|] a2]; try contradiction; [|subst; lia].
  destruct Hd2 as (-> & Hn0 & Hw2 & Hs2 & Hr2). apply (f_equal (@zlen Z)) in Hr2.
  assert (Hl2 : zlen (stream r2) <= zlen (stream r)).
  { rewrite Hs2, Hs1, zlen_zdrop by lia. lia. }
  destruct (ver =? snapshot_format_version1); [|unfold mfail; lia].
  unfold read_v1. unfold mbind at 1.
  pose proof (peek_uvarint_facts r2 Hw2) as Hp3.
  destruct (peek_uvarint r2) as [[num n3] r3]. destruct Hp3 as (Hs3 & Hw3 & Hn3 & Hr3).
  pose proof (mdiscard_total n3 r3 (a + bufsize) Hw3 Hn3) as Hd4.
  unfold mbind at 1.
  destruct (mdiscard n3 r3 (a + bufsize)) as [[r4|c|c|] a4]; try contradiction; [|subst; lia].
  destruct Hd4 as (-> & Hn30 & Hw4 & Hs4 & Hr4). apply (f_equal (@zlen Z)) in Hr4.
  assert (Hl4 : zlen (stream r4) <= zlen (stream r2)).
  { rewrite Hs4, Hs3, zlen_zdrop by lia. pose proof (zlen_nonneg (stream r2)). lia. }
  pose proof (read_segments_total rb (S (length (stream r4))) (wrap64 num) [] r4 (a + bufsize) Hw4
                ltac:(unfold zlen; lia)) as H5.
  destruct (read_segments (S (length (stream r4))) fixed_flags rb (wrap64 num) [] r4 (a + bufsize))
    as [[[gs r5]|c|c|] a5]; try contradiction.
  - destruct H5 as (Hw5 & Ha5 & Hr5). cbn beta iota. unfold mret.
    pose proof (zlen_nonneg (stream r5)). repeat split; try assumption; lia.
  - lia.
Qed.

(* ReadFrom is total on every byte string: a value or an error, never a panic *)
Theorem decode_total_all rb b : (exists s, decode rb b = Ok s) \/ (exists c, decode rb b = Err c).
Proof.
  unfold decode, decode_with. rewrite gen_flags_fixed.
  pose proof (decode_reader_total rb (br_init b) 0 (wf_init b)) as H.
  destruct (decode_reader fixed_flags rb (br_init b) 0) as [[[s r]|c|c|] a]; try contradiction; cbn; eauto.
Qed.

Lemma payload_len b : 0 <= zlen (payload_of b) <= zlen b.
Proof.
  unfold payload_of. pose proof (zlen_nonneg b).
  destruct (Z_lt_ge_dec (zlen b - crc_width) 0).
  - rewrite ztake_nonpos by lia. change (zlen ([] : list Z)) with 0. lia.
  - rewrite zlen_ztake by lia. lia.
Qed.

(* loadSnapshot is total, and what it asks make() for is bounded by the size of the file plus two
   buffers: the 4096 bytes of bufio.NewReader, at most one 4096-byte chunk that a lying length
   field can obtain, the 4 version bytes and the 4 CRC bytes *)
Theorem load_total_alloc_all rb b :
  ((exists s, load rb b = Ok s) \/ (exists c, load rb b = Err c)) /\
  0 <= load_alloc rb b <= zlen b + 2 * bufsize + 8.
Proof.
  unfold load, load_alloc, load_with. rewrite gen_flags_fixed.
  pose proof (payload_len b) as Hpl.
  pose proof (decode_reader_total rb (br_init (payload_of b)) 0 (wf_init _)) as H.
  rewrite stream_init in H.
  assert (Hchunk : codec_read_chunk = bufsize) by reflexivity.
  assert (Hcw : crc_width = 4) by reflexivity.
  assert (Hbs : bufsize = 4096) by reflexivity.
  destruct (decode_reader fixed_flags rb (br_init (payload_of b)) 0) as [[[s r]|c|c|] a] eqn:E; try contradiction.
  - destruct (zlen b <? crc_width) eqn:El.
    + exfalso.
      assert (Hp : payload_of b = []) by (unfold payload_of; apply ztake_nonpos; lia).
      assert (E0 : decode_reader fixed_flags rb (br_init []) 0 = (Err err_version, 4096)) by (vm_compute; reflexivity).
      rewrite Hp, E0 in E. discriminate.
    + destruct (zlist_eqb _ (trailer_of b)); cbn [fst snd]; (split; [eauto|lia]).
  - cbn [fst snd]. split; [eauto|lia].
Qed.


(* ================================================================ single-bit flips of small files *)

(* after the first Peek the whole of a payload of at most one buffer has been pulled, so the
   checksum covers all of it *)
Lemma fill_init_cons x p' :
  fill (br_init (x :: p')) =
  ({| br_buf := ztake bufsize (x :: p'); br_rest := zdrop bufsize (x :: p') |}, false).
Proof.
  unfold fill, br_init. cbn [br_rest br_buf]. unfold buffered. cbn [br_buf].
  change (zlen ([] : list Z)) with 0. rewrite Z.sub_0_r. reflexivity.
Qed.

Lemma peek_after_fill p n : 0 < n <= bufsize ->
  peek n (br_init p) = peek n (fst (fill (br_init p))).
Proof.
  intros Hn. assert (Hbs : bufsize = 4096) by reflexivity.
  destruct p as [|x p'].
  - reflexivity.
  - rewrite fill_init_cons. cbn [fst].
    unfold peek at 1.
    change (buffered (br_init (x :: p'))) with 0. replace (n <=? 0) with false by lia.
    rewrite fill_init_cons.
    set (r1 := {| br_buf := ztake bufsize (x :: p'); br_rest := zdrop bufsize (x :: p') |}).
    assert (Hb1 : buffered r1 = Z.min bufsize (zlen (x :: p'))) by (unfold buffered, r1; cbn [br_buf]; apply zlen_ztake; lia).
    unfold peek. destruct (n <=? buffered r1) eqn:E; [reflexivity|].
    assert (Hrest : br_rest r1 = []) by (unfold r1; cbn [br_rest]; apply zdrop_all; lia).
    unfold fill. rewrite Hrest. rewrite E. reflexivity.
Qed.

Lemma decode_reader_after_fill fl rb p a :
  decode_reader fl rb (br_init p) a = decode_reader fl rb (fst (fill (br_init p))) a.
Proof.
  unfold decode_reader, peek_uvarint.
  rewrite (peek_after_fill p max_varint_len64) by (unfold max_varint_len64, bufsize; lia). reflexivity.
Qed.

Lemma pulled_all rb p s r a : zlen p <= bufsize ->
  decode_reader fixed_flags rb (br_init p) 0 = (Ok (s, r), a) -> br_rest r = [].
Proof.
  intros Hp E. rewrite decode_reader_after_fill in E.
  set (r1 := fst (fill (br_init p))) in *.
  assert (Hw1 : wf r1 /\ br_rest r1 = []).
  { pose proof (fill_spec (br_init p) (wf_init p)) as Hf. unfold r1.
    destruct (fill (br_init p)) as [r' eof] eqn:Ef. cbn [fst].
    destruct Hf as (Hs & Hw & _ & Heof & Hne & _). split; [exact Hw|].
    destruct eof.
    - destruct (Heof eq_refl) as [Hr ->]. exact Hr.
    - destruct (Hne eq_refl) as [Hb|Hb].
      + apply zlen_nil_iff. rewrite stream_init in *. unfold stream in Hs.
        assert (zlen (br_buf r' ++ br_rest r') = zlen p) by (rewrite Hs; reflexivity).
        rewrite zlen_app in H. unfold buffered in Hb. pose proof (zlen_nonneg (br_rest r')). lia.
      + change (buffered (br_init p)) with 0 in Hb. unfold bufsize in Hb. lia. }
  destruct Hw1 as [Hw1 Hr1].
  pose proof (decode_reader_total rb r1 0 Hw1) as H. rewrite E in H.
  destruct H as (_ & _ & Hr). rewrite Hr1 in Hr. change (zlen ([] : list Z)) with 0 in Hr.
  apply zlen_nil_iff. pose proof (zlen_nonneg (br_rest r)). lia.
Qed.

(* flip_bit and list surgery *)
Lemma flip_bit_length : forall m i j, length (flip_bit m i j) = length m.
Proof. induction m as [|b t IH]; intros [|i] j; simpl; auto. Qed.

Lemma flip_bit_app_l : forall a b i j, (i < length a)%nat -> flip_bit (a ++ b) i j = flip_bit a i j ++ b.
Proof.
  induction a as [|x a IH]; intros b i j Hi; simpl in Hi; [lia|].
  destruct i; simpl; [reflexivity|]. rewrite IH by lia. reflexivity.
Qed.

Lemma flip_bit_app_r : forall a b i j, (length a <= i)%nat -> flip_bit (a ++ b) i j = a ++ flip_bit b (i - length a) j.
Proof.
  induction a as [|x a IH]; intros b i j Hi; simpl.
  - rewrite Nat.sub_0_r. reflexivity.
  - destruct i; simpl in Hi; [lia|]. simpl. rewrite IH by lia. reflexivity.
Qed.

Lemma flip_bit_neq : forall m i j, (i < length m)%nat -> 0 <= j -> flip_bit m i j <> m.
Proof.
  induction m as [|b t IH]; intros i j Hi Hj; simpl in Hi; [lia|].
  destruct i; simpl.
  - intros H. inversion H as [H1]. rewrite <- (Z.lxor_0_r b) in H1 at 2.
    apply lxor_cancel_l in H1. pose proof (Z.pow_pos_nonneg 2 j ltac:(lia) Hj). lia.
  - intros H. inversion H as [H1]. apply (IH i j ltac:(lia) Hj). exact H1.
Qed.

Lemma byte_flip_range b j : 0 <= b < 256 -> 0 <= j < 8 -> 0 <= Z.lxor b (2 ^ j) < 256.
Proof.
  intros Hb Hj.
  assert (Hp : 0 <= 2 ^ j < 256).
  { assert (Hc : j = 0 \/ j = 1 \/ j = 2 \/ j = 3 \/ j = 4 \/ j = 5 \/ j = 6 \/ j = 7) by lia.
    destruct Hc as [->|[->|[->|[->|[->|[->|[->| ->]]]]]]]; simpl; lia. }
  split; [apply Z.lxor_nonneg; lia|].
  destruct (Z.eq_dec (Z.lxor b (2 ^ j)) 0) as [->|Hne]; [lia|].
  assert (Hpos : 0 < Z.lxor b (2 ^ j)) by (assert (0 <= Z.lxor b (2 ^ j)) by (apply Z.lxor_nonneg; lia); lia).
  apply Z.log2_lt_pow2 with (b := 8) in Hpos as Hiff. change (2 ^ 8) with 256 in Hiff. apply Hiff.
  pose proof (Z.log2_lxor b (2 ^ j) ltac:(lia) ltac:(lia)) as Hl.
  assert (Z.log2 b < 8).
  { destruct (Z.eq_dec b 0) as [->|]; [simpl; lia|]. apply Z.log2_lt_pow2; [lia|]. change (2 ^ 8) with 256. lia. }
  assert (Z.log2 (2 ^ j) < 8) by (rewrite Z.log2_pow2 by lia; lia).
  lia.
Qed.

Lemma bytes_forall l : bytes_ok l = true -> Forall (fun b => 0 <= b < 256) l.
Proof.
  unfold bytes_ok. intros H. rewrite forallb_forall in H. apply Forall_forall. intros x Hx.
  specialize (H x Hx). unfold is_byte in H. lia.
Qed.

Lemma flip_bit_forall : forall m i j, Forall (fun b => 0 <= b < 256) m -> 0 <= j < 8 ->
  Forall (fun b => 0 <= b < 256) (flip_bit m i j).
Proof.
  induction m as [|b t IH]; intros i j Hm Hj; simpl; [destruct i; constructor|].
  inversion Hm; subst. destruct i; constructor; auto. apply byte_flip_range; assumption.
Qed.

Lemma put_be32_inj a b : in32 a -> in32 b -> put_be32 a = put_be32 b -> a = b.
Proof.
  unfold in32, two32. intros Ha Hb H. rewrite <- (be32_put a), <- (be32_put b) by lia. rewrite H. reflexivity.
Qed.

Lemma split_file b : crc_width <= zlen b ->
  b = payload_of b ++ trailer_of b /\ zlen (trailer_of b) = 4 /\ zlen (payload_of b) = zlen b - 4.
Proof.
  intros H. rewrite crc_width_4 in H. unfold payload_of, trailer_of. rewrite crc_width_4.
  split; [symmetry; apply ztake_zdrop|]. rewrite zlen_zdrop, zlen_ztake by lia. lia.
Qed.

Lemma payload_trailer_app p t : zlen t = 4 -> payload_of (p ++ t) = p /\ trailer_of (p ++ t) = t.
Proof.
  intros Ht. unfold payload_of, trailer_of. rewrite crc_width_4, zlen_app, Ht.
  replace (zlen p + 4 - 4) with (zlen p) by lia. split; [apply ztake_app_exact|apply zdrop_app_exact].
Qed.

(* Every single-bit flip of a file of at most one buffer (+ trailer) that loads is rejected:
   in the trailer directly, in the payload because the CRC of the whole payload changes. *)
Theorem bitflip_rejected_small_all rb b i j :
  bytes_ok b = true -> zlen b <= bufsize + 4 -> (i < length b)%nat -> 0 <= j < 8 ->
  (exists s, load rb b = Ok s) -> exists c, load rb (flip_bit b i j) = Err c.
Proof.
  intros Hbytes Hsmall Hi Hj [s Hload].
  destruct (load_total_alloc_all rb (flip_bit b i j)) as [[[s' Hload']|Herr] _]; [exfalso|exact Herr].
  destruct (accept_sound_all rb b s Hload) as (Hlen & r & a & E & Hcrc).
  destruct (accept_sound_all rb _ s' Hload') as (Hlen' & r' & a' & E' & Hcrc').
  rewrite gen_flags_fixed in E, E'.
  destruct (split_file b Hlen) as (Hb & Ht4 & Hp4).
  set (p := payload_of b) in *. set (t := trailer_of b) in *.
  assert (Hpl : zlen p <= bufsize) by lia.
  assert (Hall : Forall (fun x => 0 <= x < 256) b) by (apply bytes_forall; exact Hbytes).
  assert (Hpall : Forall (fun x => 0 <= x < 256) p).
  { rewrite Hb in Hall. apply Forall_app in Hall. tauto. }
  rewrite (pulled_all rb p s r a Hpl E) in Hcrc. change (zlen ([] : list Z)) with 0 in Hcrc.
  rewrite Z.sub_0_r, (ztake_all (zlen p) p) in Hcrc by lia.
  destruct (Nat.lt_ge_cases i (length p)) as [Hin|Hout].
  - (* flip inside the payload *)
    assert (Hb' : flip_bit b i j = flip_bit p i j ++ t) by (rewrite Hb at 1; apply flip_bit_app_l; exact Hin).
    assert (Ht4' : zlen t = 4) by exact Ht4.
    rewrite Hb' in E', Hcrc'.
    destruct (payload_trailer_app (flip_bit p i j) t Ht4') as [Hp' Ht']. rewrite Hp' in E', Hcrc'. rewrite Ht' in Hcrc'.
    assert (Hpl' : zlen (flip_bit p i j) <= bufsize) by (unfold zlen in *; rewrite flip_bit_length; exact Hpl).
    rewrite (pulled_all rb _ s' r' a' Hpl' E') in Hcrc'. change (zlen ([] : list Z)) with 0 in Hcrc'.
    rewrite Z.sub_0_r, ztake_all in Hcrc' by lia.
    rewrite <- Hcrc in Hcrc'. apply put_be32_inj in Hcrc'.
    + apply (crc32_single_bit p i j Hin Hj). exact Hcrc'.
    + apply crc32_range. apply flip_bit_forall; assumption.
    + apply crc32_range. exact Hpall.
  - (* flip inside the trailer *)
    assert (Hb' : flip_bit b i j = p ++ flip_bit t (i - length p) j) by (rewrite Hb at 1; apply flip_bit_app_r; exact Hout).
    assert (Ht4' : zlen (flip_bit t (i - length p) j) = 4) by (unfold zlen in *; rewrite flip_bit_length; exact Ht4).
    rewrite Hb' in E', Hcrc'.
    destruct (payload_trailer_app p _ Ht4') as [Hp' Ht']. rewrite Hp' in E', Hcrc'. rewrite Ht' in Hcrc'.
    rewrite (pulled_all rb p s' r' a' Hpl E') in Hcrc'. change (zlen ([] : list Z)) with 0 in Hcrc'.
    rewrite Z.sub_0_r, (ztake_all (zlen p) p) in Hcrc' by lia.
    rewrite Hcrc in Hcrc'. symmetry in Hcrc'. revert Hcrc'. apply flip_bit_neq; [|lia].
    assert (length b = (length p + length t)%nat) by (rewrite Hb at 1; apply app_length). lia.
Qed.

(* ================================================================ round trip with abstract bitmaps *)

(* Roaring as an abstract codec: any type B of bitmaps with a writer, a reader and an emptiness
   test such that reading back what was written gives the same bitmap. *)
Section AbstractBitmaps.
  Variable B : Type.
  Variable rb_write : B -> list Z.
  Variable rb_read : list Z -> option B.
  Variable rb_empty : B -> bool.
  Hypothesis rb_roundtrip : forall b, rb_read (rb_write b) = Some b.

  (* the library call as the decoder sees it *)
  Definition rb_of (bytes : list Z) : option (list Z) :=
    match rb_read bytes with
    | None => None
    | Some b => if rb_empty b then Some [] else Some (rb_write b)
    end.

  Record aseg := { as_id : Z; as_type : list Z; as_ver : Z; as_del : option B }.

  Definition conc (g : aseg) : seg :=
    {| sg_id := as_id g; sg_type := as_type g; sg_ver := as_ver g;
       sg_del := match as_del g with None => [] | Some b => rb_write b end |}.

  (* what the index produces: deleted is nil or a non-empty bitmap (introducer.go:155-158) *)
  Definition aseg_ok (g : aseg) : Prop :=
    0 <= as_id g < two64 /\ 0 <= as_ver g < 4294967296 /\ zlen (as_type g) < two64 /\
    match as_del g with None => True | Some b => rb_empty b = false /\ zlen (rb_write b) < two64 end.

  Lemma conc_ok g : aseg_ok g -> seg_wf (conc g) /\ del_canonical rb_of (conc g).
  Proof.
    intros (Hid & Hver & Hty & Hd). unfold seg_wf, del_canonical, conc; cbn.
    destruct (as_del g) as [b|].
    - destruct Hd as [He Hl]. repeat split; try lia. right. unfold rb_of. rewrite rb_roundtrip, He. reflexivity.
    - repeat split; try lia. left. reflexivity.
  Qed.

  Theorem roundtrip_abstract (gs : list aseg) :
    Forall aseg_ok gs -> zlen gs < two63 ->
    load rb_of (encode {| sn_segs := map conc gs |}) = Ok {| sn_segs := map conc gs |}.
  Proof.
    intros Hok Hlen. apply roundtrip_all.
    - split; cbn.
      + apply Forall_map. eapply Forall_impl; [|exact Hok]. intros g Hg. apply conc_ok. exact Hg.
      + unfold zlen in *. rewrite map_length. exact Hlen.
    - cbn. apply Forall_map. eapply Forall_impl; [|exact Hok]. intros g Hg. apply conc_ok. exact Hg.
  Qed.
End AbstractBitmaps.

(* satisfiable on a non-trivial instance: two segments, 2^64-1 as an id, a 5000-byte bitmap that
   crosses the read buffer *)
Example roundtrip_instance :
  let big := repeat 7 5000 in
  let s := {| sn_segs := [ {| sg_id := 18446744073709551615; sg_type := [105; 99; 101]; sg_ver := 1; sg_del := big |};
                           {| sg_id := 0; sg_type := [97; 98]; sg_ver := 4294967295; sg_del := [] |} ] |} in
  load (fun b => Some b) (encode s) = Ok s.
Proof. vm_compute. reflexivity. Qed.
