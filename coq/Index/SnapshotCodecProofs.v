(* Index/SnapshotCodecProofs.v — proofs about the snapshot codec model (Index/SnapshotCodec.v). *)
From Coq Require Import ZArith List Bool Lia.
From Coq Require Import ZifyBool.
From Bluge Require Import Base.Int64 Base.Res Base.Corr Base.Uvarint Base.UvarintProofs Base.CRC32
  Base.CRC32Proofs Base.Bufio Base.BufioProofs Gen.ParamsCodec Index.SnapshotCodec.
Import ListNotations.
Open Scope Z_scope.

Arguments ztake : simpl never.
Arguments zdrop : simpl never.
Arguments zlen : simpl never.
Arguments put_uvarint : simpl never.
Arguments put_be32 : simpl never.
Arguments crc32 : simpl never.

(* the behaviour flags T-gen reads from the current source are those of the repaired decoder;
   a regression of the source changes Gen/ParamsCodec.v and breaks this lemma *)
Lemma gen_flags_fixed : gen_flags = fixed_flags.
Proof. reflexivity. Qed.

Lemma chunk_pos : 0 < codec_read_chunk.
Proof. reflexivity. Qed.
Lemma crc_width_4 : crc_width = 4.
Proof. reflexivity. Qed.
Lemma version_1 : snapshot_format_version = 1 /\ snapshot_format_version1 = 1.
Proof. split; reflexivity. Qed.

Lemma zlist_eqb_refl l : zlist_eqb l l = true.
Proof. induction l as [|x l IH]; simpl; [reflexivity|]. rewrite Z.eqb_refl, IH. reflexivity. Qed.

Lemma zlist_eqb_eq : forall a b, zlist_eqb a b = true -> a = b.
Proof.
  induction a as [|x a IH]; intros [|y b] H; simpl in H; try discriminate; [reflexivity|].
  apply andb_prop in H. destruct H as [H1 H2]. apply Z.eqb_eq in H1. apply IH in H2. subst. reflexivity.
Qed.

Lemma put_be32_len v : zlen (put_be32 v) = 4.
Proof. reflexivity. Qed.

Lemma be32_put v : 0 <= v < 4294967296 -> be32 (put_be32 v) = v.
Proof.
  intros Hv. unfold put_be32, be32.
  Ltac Zify.zify_post_hook ::= Z.div_mod_to_equations.
  lia.
Qed.

(* ================================================================ monad plumbing *)

Lemma mbind_ok {A B} (m : M A) (f : A -> M B) a x a' : m a = (Ok x, a') -> mbind m f a = f x a'.
Proof. intros H. unfold mbind. rewrite H. reflexivity. Qed.

Lemma mdiscard_spec n r a : wf r -> 0 <= n <= buffered r ->
  exists r1, mdiscard n r a = (Ok r1, a) /\ stream r1 = zdrop n (stream r) /\ wf r1 /\ br_rest r1 = br_rest r.
Proof.
  intros Hwf Hn. destruct (discard_spec n r Hwf Hn) as (r1 & E & Hs & Hw & Hr).
  exists r1. unfold mdiscard, mlift. rewrite E. simpl. auto.
Qed.

(* ================================================================ decoding what was encoded *)

(* Peek + Uvarint + Discard on a stream that starts with PutUvarint(x) *)
Lemma peek_put_uvarint r x tail : wf r -> stream r = put_uvarint x ++ tail -> 0 <= x < two64 ->
  let '(pk, eof, r1) := peek max_varint_len64 r in
  uvarint pk = (x, zlen (put_uvarint x)) /\ stream r1 = stream r /\ wf r1 /\
  zlen (put_uvarint x) <= buffered r1.
Proof.
  intros Hwf Hs Hx.
  pose proof (peek_spec max_varint_len64 r Hwf ltac:(unfold max_varint_len64, bufsize; lia)) as Hp.
  destruct (peek max_varint_len64 r) as [[pk eof] r1].
  destruct Hp as (Hs1 & Hw1 & Hb & _ & Hne & He).
  pose proof (put_uvarint_len x) as Hl.
  destruct eof.
  - destruct (He eq_refl) as (Hpk & Hshort & Hrest).
    repeat split; try assumption.
    + rewrite Hpk, Hs. apply uvarint_put. exact Hx.
    + assert (Hbuf : br_buf r1 = stream r1) by (unfold stream; rewrite Hrest, app_nil_r; reflexivity).
      unfold buffered. rewrite Hbuf, Hs1, Hs, zlen_app. pose proof (zlen_nonneg tail). lia.
  - destruct (Hne eq_refl) as (Hpk & Hlong).
    repeat split; try assumption.
    + rewrite Hpk, Hs. rewrite ztake_app_r by (unfold max_varint_len64; lia). apply uvarint_put. exact Hx.
    + assert (zlen pk = max_varint_len64).
      { rewrite Hpk. rewrite zlen_ztake by (unfold max_varint_len64; lia). lia. }
      unfold max_varint_len64 in *. lia.
Qed.

Lemma take_uvarint r x tail a : wf r -> stream r = put_uvarint x ++ tail -> 0 <= x < two64 ->
  exists r2, stream r2 = tail /\ wf r2 /\
    forall (B : Type) (K : Z -> breader -> M B),
      (let '(v, n, r1) := peek_uvarint r in mbind (mdiscard n r1) (fun r2 => K v r2)) a = K x r2 a.
Proof.
  intros Hwf Hs Hx.
  pose proof (peek_put_uvarint r x tail Hwf Hs Hx) as Hp.
  unfold peek_uvarint.
  destruct (peek max_varint_len64 r) as [[pk eof] r1].
  destruct Hp as (Hu & Hs1 & Hw1 & Hb).
  rewrite Hu.
  pose proof (put_uvarint_len x) as Hl.
  destruct (mdiscard_spec (zlen (put_uvarint x)) r1 a Hw1 ltac:(lia)) as (r2 & E & Hs2 & Hw2 & _).
  exists r2. repeat split; try assumption.
  - rewrite Hs2, Hs1, Hs. apply zdrop_app_exact.
  - intros B K. apply mbind_ok. exact E.
Qed.

(* readBytes on a stream that holds the n bytes *)
Lemma read_bytes_aux_ok : forall fuel n acc r a,
  wf r -> zlen acc <= n -> n - zlen acc <= zlen (stream r) -> n - zlen acc <= Z.of_nat fuel ->
  exists r1 a1, read_bytes_aux fuel n acc r a = (Ok (acc ++ ztake (n - zlen acc) (stream r), r1), a1) /\
                stream r1 = zdrop (n - zlen acc) (stream r) /\ wf r1.
Proof.
  induction fuel as [|fuel IH]; intros n acc r a Hwf Hacc Hav Hfuel.
  - assert (Hn : n = zlen acc) by lia.
    cbn [read_bytes_aux]. replace (n <=? zlen acc) with true by lia.
    exists r, a. rewrite Hn. replace (zlen acc - zlen acc) with 0 by lia.
    rewrite ztake_nonpos, zdrop_nonpos, app_nil_r by lia. auto.
  - cbn [read_bytes_aux].
    destruct (n <=? zlen acc) eqn:E.
    + assert (Hn : n = zlen acc) by lia.
      exists r, a. rewrite Hn. replace (zlen acc - zlen acc) with 0 by lia.
      rewrite ztake_nonpos, zdrop_nonpos, app_nil_r by lia. auto.
    + set (want := Z.min (n - zlen acc) codec_read_chunk).
      pose proof chunk_pos as Hc.
      assert (Hw : 0 < want <= n - zlen acc) by (unfold want; lia).
      destruct (read_full_spec want r Hwf ltac:(lia)) as [Hok _].
      destruct (Hok ltac:(lia)) as (r1 & E1 & Hs1 & Hw1 & _).
      unfold mbind at 1. unfold malloc at 1.
      unfold mbind at 1. unfold mlift at 1. rewrite E1.
      assert (Hl : zlen (acc ++ ztake want (stream r)) = zlen acc + want).
      { rewrite zlen_app, zlen_ztake by lia. lia. }
      assert (H1 : zlen (acc ++ ztake want (stream r)) <= n) by lia.
      assert (H2 : n - zlen (acc ++ ztake want (stream r)) <= zlen (stream r1)).
      { rewrite Hl, Hs1, zlen_zdrop by lia. lia. }
      assert (H3 : n - zlen (acc ++ ztake want (stream r)) <= Z.of_nat fuel) by lia.
      destruct (IH n (acc ++ ztake want (stream r)) r1 (a + want) Hw1 H1 H2 H3) as (r2 & a2 & E2 & Hs2 & Hw2).
      exists r2, a2. rewrite E2. rewrite Hl, Hs1 in *.
      repeat split; try assumption.
      * f_equal. f_equal. rewrite <- app_assoc. f_equal.
        rewrite ztake_ztake_app by lia. f_equal. f_equal. lia.
      * rewrite Hs2. rewrite zdrop_zdrop by lia. f_equal. lia.
Qed.

Lemma read_bytes_ok x tail r a : wf r -> stream r = x ++ tail ->
  exists r1 a1, read_bytes (zlen x) r a = (Ok (x, r1), a1) /\ stream r1 = tail /\ wf r1.
Proof.
  intros Hwf Hs. unfold read_bytes.
  assert (Hz : zlen ([] : list Z) = 0) by reflexivity.
  destruct (read_bytes_aux_ok (S (length (stream r))) (zlen x) [] r a Hwf
              ltac:(rewrite Hz; apply zlen_nonneg)
              ltac:(rewrite Hz, Hs, zlen_app; pose proof (zlen_nonneg tail); lia)
              ltac:(rewrite Hz, Hs; unfold zlen; rewrite app_length; lia)) as (r1 & a1 & E & Hs1 & Hw1).
  exists r1, a1. rewrite E, Hs1, Hz, Hs. replace (zlen x - 0) with (zlen x) by lia.
  rewrite ztake_app_exact, zdrop_app_exact. auto.
Qed.

(* readVarLenString *)
Lemma read_varlen_string_ok s tail r a : wf r -> stream r = write_varlen_string s ++ tail -> zlen s < two64 ->
  exists r1 a1, read_varlen_string fixed_flags r a = (Ok (s, r1), a1) /\ stream r1 = tail /\ wf r1.
Proof.
  intros Hwf Hs Hl. unfold write_varlen_string in Hs. rewrite <- app_assoc in Hs.
  pose proof (zlen_nonneg s) as Hs0.
  pose proof (peek_put_uvarint r (zlen s) (s ++ tail) Hwf Hs ltac:(lia)) as Hp.
  unfold read_varlen_string. cbn [f_strict_peek f_trust_len fixed_flags andb].
  destruct (peek max_varint_len64 r) as [[pk eof] r1].
  destruct Hp as (Hu & Hs1 & Hw1 & Hb).
  rewrite Hu.
  pose proof (put_uvarint_len (zlen s)) as Hpl.
  destruct (mdiscard_spec (zlen (put_uvarint (zlen s))) r1 a Hw1 ltac:(lia)) as (r2 & E & Hs2 & Hw2 & _).
  rewrite (mbind_ok _ _ _ _ _ E).
  assert (Hs2' : stream r2 = s ++ tail) by (rewrite Hs2, Hs1, Hs; apply zdrop_app_exact).
  exact (read_bytes_ok s tail r2 a Hw2 Hs2').
Qed.

(* the well-formedness facts about a segment, as propositions *)
Definition seg_wf (g : seg) : Prop :=
  0 <= sg_id g < two64 /\ 0 <= sg_ver g < 4294967296 /\ zlen (sg_type g) < two64 /\ zlen (sg_del g) < two64.

(* readSegmentSnapshot on a stream that starts with recordSegment(g) *)
Lemma read_segment_ok rb g tail r a : wf r -> stream r = record_segment g ++ tail ->
  seg_wf g -> del_canonical rb g ->
  exists r1 a1, read_segment fixed_flags rb r a = (Ok (g, r1), a1) /\ stream r1 = tail /\ wf r1.
Proof.
  intros Hwf Hs (Hid & Hver & Hty & Hdl) Hcan.
  unfold record_segment in Hs. rewrite <- !app_assoc in Hs.
  unfold read_segment.
  destruct (read_varlen_string_ok (sg_type g) _ r a Hwf Hs Hty) as (r1 & a1 & E1 & Hs1 & Hw1).
  rewrite (mbind_ok _ _ _ _ _ E1). cbn beta iota.
  unfold mbind at 1. unfold malloc at 1.
  cbn [f_single_read f_trust_len fixed_flags].
  (* version *)
  destruct (read_full_spec 4 r1 Hw1 ltac:(lia)) as [Hok _].
  assert (H4 : 4 <= zlen (stream r1)).
  { rewrite Hs1, zlen_app, put_be32_len. pose proof (zlen_nonneg (put_uvarint (sg_id g) ++ put_uvarint (zlen (sg_del g)) ++ sg_del g ++ tail)). lia. }
  destruct (Hok H4) as (r2 & E2 & Hs2 & Hw2 & _).
  unfold mbind at 1. unfold mlift at 1. rewrite E2. cbn beta iota.
  assert (Hvb : ztake 4 (stream r1) = put_be32 (sg_ver g)).
  { rewrite Hs1. rewrite <- (put_be32_len (sg_ver g)). apply ztake_app_exact. }
  assert (Hs2' : stream r2 = put_uvarint (sg_id g) ++ put_uvarint (zlen (sg_del g)) ++ sg_del g ++ tail).
  { rewrite Hs2, Hs1. rewrite <- (put_be32_len (sg_ver g)). apply zdrop_app_exact. }
  rewrite Hvb. rewrite be32_put by exact Hver.
  (* id *)
  destruct (take_uvarint r2 (sg_id g) _ (a1 + 4) Hw2 Hs2' Hid) as (r4 & Hs4 & Hw4 & K4).
  rewrite K4.
  (* deleted length *)
  pose proof (zlen_nonneg (sg_del g)) as Hd0.
  destruct (take_uvarint r4 (zlen (sg_del g)) _ (a1 + 4) Hw4 Hs4 ltac:(lia)) as (r6 & Hs6 & Hw6 & K6).
  rewrite K6.
  destruct (0 <? zlen (sg_del g)) eqn:Epos.
  - destruct (read_bytes_ok (sg_del g) tail r6 (a1 + 4) Hw6 Hs6) as (r7 & a7 & E7 & Hs7 & Hw7).
    rewrite (mbind_ok _ _ _ _ _ E7). cbn beta iota.
    destruct Hcan as [Hnil|Hrb].
    + rewrite Hnil in Epos. discriminate.
    + rewrite Hrb. exists r7, a7. unfold mret. destruct g; cbn in *. auto.
  - assert (Hnil : sg_del g = []) by (apply zlen_nil_iff; lia).
    exists r6, (a1 + 4). unfold mret. rewrite Hnil in Hs6. simpl in Hs6.
    destruct g; cbn in *. subst. auto.
Qed.

(* the segment loop *)
Lemma read_segments_ok rb : forall gs fuel acc tail r a,
  wf r -> stream r = flat_map record_segment gs ++ tail ->
  Forall seg_wf gs -> Forall (del_canonical rb) gs -> (length gs <= fuel)%nat ->
  exists r1 a1, read_segments fuel fixed_flags rb (zlen gs) acc r a = (Ok (rev acc ++ gs, r1), a1) /\
                stream r1 = tail /\ wf r1.
Proof.
  induction gs as [|g gs IH]; intros fuel acc tail r a Hwf Hs Hwfs Hcan Hfuel.
  - destruct fuel; cbn [read_segments]; change (zlen ([] : list seg) <=? 0) with true; cbn;
      exists r, a; rewrite app_nil_r; auto.
  - destruct fuel as [|fuel]; [simpl in Hfuel; lia|].
    cbn [read_segments].
    assert (Hz : zlen (g :: gs) = zlen gs + 1) by (unfold zlen; simpl length; lia).
    pose proof (zlen_nonneg gs) as Hg0.
    replace (zlen (g :: gs) <=? 0) with false by lia.
    simpl flat_map in Hs. rewrite <- app_assoc in Hs.
    inversion Hwfs as [|? ? Hg Hgs]; subst. inversion Hcan as [|? ? Hc Hcs]; subst.
    destruct (read_segment_ok rb g _ r a Hwf Hs Hg Hc) as (r1 & a1 & E1 & Hs1 & Hw1).
    rewrite (mbind_ok _ _ _ _ _ E1). cbn beta iota.
    replace (zlen (g :: gs) - 1) with (zlen gs) by lia.
    destruct (IH fuel (g :: acc) tail r1 a1 Hw1 Hs1 Hgs Hcs ltac:(simpl in Hfuel; lia)) as (r2 & a2 & E2 & Hs2 & Hw2).
    exists r2, a2. rewrite E2. simpl rev. rewrite <- app_assoc. auto.
Qed.

Lemma record_segment_len g : 1 <= zlen (record_segment g).
Proof.
  unfold record_segment, write_varlen_string. rewrite !zlen_app, put_be32_len.
  pose proof (zlen_nonneg (put_uvarint (zlen (sg_type g)))). pose proof (zlen_nonneg (sg_type g)).
  pose proof (zlen_nonneg (put_uvarint (sg_id g))). pose proof (zlen_nonneg (put_uvarint (zlen (sg_del g)))).
  pose proof (zlen_nonneg (sg_del g)). lia.
Qed.

Lemma flat_map_record_len gs : zlen gs <= zlen (flat_map record_segment gs).
Proof.
  induction gs as [|g gs IH]; [unfold zlen; simpl; lia|].
  simpl flat_map. rewrite zlen_app. pose proof (record_segment_len g).
  assert (zlen (g :: gs) = zlen gs + 1) by (unfold zlen; simpl length; lia). lia.
Qed.

Definition snapshot_wf (s : snapshot) : Prop :=
  Forall seg_wf (sn_segs s) /\ zlen (sn_segs s) < two63.

(* ReadFrom (encode_payload s) = s, and the whole input is consumed *)
Lemma decode_reader_ok rb s : snapshot_wf s -> Forall (del_canonical rb) (sn_segs s) ->
  exists r1 a1, decode_reader fixed_flags rb (br_init (encode_payload s)) 0 = (Ok (s, r1), a1) /\
                stream r1 = [] /\ wf r1.
Proof.
  intros [Hwfs Hcount] Hcan.
  destruct version_1 as [Hv Hv1].
  unfold decode_reader. unfold mbind at 1. unfold malloc at 1.
  pose proof (zlen_nonneg (sn_segs s)) as Hn0.
  assert (Hs0 : stream (br_init (encode_payload s)) =
                put_uvarint 1 ++ put_uvarint (zlen (sn_segs s)) ++ flat_map record_segment (sn_segs s) ++ []).
  { rewrite stream_init. unfold encode_payload. rewrite Hv, app_nil_r. reflexivity. }
  destruct (take_uvarint _ 1 _ (0 + bufsize) (wf_init _) Hs0 ltac:(unfold two64; lia)) as (r2 & Hs2 & Hw2 & K2).
  rewrite K2. rewrite Hv1. change (1 =? 1) with true. cbn iota.
  unfold read_v1.
  destruct (take_uvarint r2 (zlen (sn_segs s)) _ (0 + bufsize) Hw2 Hs2 ltac:(unfold two63, two64 in *; lia)) as (r4 & Hs4 & Hw4 & K4).
  unfold mbind at 1.
  (* the loop *)
  assert (Hwrap : wrap64 (zlen (sn_segs s)) = zlen (sn_segs s)).
  { apply wrap64_id. unfold in_int64, min_int64, max_int64, two63 in *. lia. }
  pose proof (read_segments_ok rb (sn_segs s) (S (length (stream r4))) [] [] r4 (0 + bufsize) Hw4 Hs4 Hwfs Hcan) as Hloop.
  assert (Hfuel : (length (sn_segs s) <= S (length (stream r4)))%nat).
  { rewrite Hs4, app_nil_r. pose proof (flat_map_record_len (sn_segs s)). unfold zlen in *. lia. }
  destruct (Hloop Hfuel) as (r5 & a5 & E5 & Hs5 & Hw5).
  (* put the pieces together: K4 speaks about the continuation applied after the discard *)
  specialize (K4 (list seg * breader)%type
                 (fun num r2' => read_segments (S (length (stream r2'))) fixed_flags rb (wrap64 num) [] r2')).
  cbn beta in K4.
  match goal with |- context [let '(v, n, r1) := peek_uvarint r2 in _] => idtac end.
  assert (Ev1 : (let '(num, n, r1) := peek_uvarint r2 in
                 mbind (mdiscard n r1) (fun r2' => read_segments (S (length (stream r2'))) fixed_flags rb (wrap64 num) [] r2')) (0 + bufsize)
                = (Ok (sn_segs s, r5), a5)).
  { rewrite K4. rewrite Hwrap. exact E5. }
  rewrite Ev1. exists r5, a5. unfold mret. destruct s; cbn in *. auto.
Qed.

Lemma seg_ok_wf g : seg_ok g = true -> zlen (sg_type g) < two64 -> zlen (sg_del g) < two64 -> seg_wf g.
Proof.
  unfold seg_ok, seg_wf. intros H Ht Hd.
  repeat (apply andb_prop in H; destruct H as [H ?]). lia.
Qed.

(* every snapshot value reads back from its own encoding *)
Theorem roundtrip_fixed rb s : snapshot_wf s -> Forall (del_canonical rb) (sn_segs s) ->
  fst (load_with fixed_flags rb (encode s)) = Ok s.
Proof.
  intros Hwf Hcan.
  destruct (decode_reader_ok rb s Hwf Hcan) as (r1 & a1 & E & Hs & Hw).
  unfold load_with, encode.
  set (p := encode_payload s) in *.
  assert (Hpl : payload_of (p ++ ztake crc_width (put_be32 (crc32 p))) = p).
  { unfold payload_of. rewrite crc_width_4. rewrite (ztake_all 4) by (rewrite put_be32_len; lia).
    rewrite zlen_app, put_be32_len. replace (zlen p + 4 - 4) with (zlen p) by lia. apply ztake_app_exact. }
  rewrite Hpl, E.
  assert (Hlen : zlen (p ++ ztake crc_width (put_be32 (crc32 p))) = zlen p + 4).
  { rewrite crc_width_4, (ztake_all 4) by (rewrite put_be32_len; lia). rewrite zlen_app, put_be32_len. reflexivity. }
  rewrite Hlen. pose proof (zlen_nonneg p). rewrite crc_width_4.
  replace (zlen p + 4 <? 4) with false by lia.
  assert (Hrest : br_rest r1 = []).
  { unfold stream in Hs. apply app_eq_nil in Hs. tauto. }
  rewrite Hrest. change (zlen ([] : list Z)) with 0. replace (zlen p - 0) with (zlen p) by lia.
  rewrite (ztake_all (zlen p) p) by lia.
  assert (Htr : trailer_of (p ++ ztake 4 (put_be32 (crc32 p))) = put_be32 (crc32 p)).
  { unfold trailer_of. rewrite crc_width_4. rewrite (ztake_all 4) by (rewrite put_be32_len; lia).
    rewrite zlen_app, put_be32_len. replace (zlen p + 4 - 4) with (zlen p) by lia. apply zdrop_app_exact. }
  rewrite <- crc_width_4 at 1. rewrite crc_width_4 in *. rewrite Htr. rewrite zlist_eqb_refl. reflexivity.
Qed.

Theorem roundtrip_all rb s : snapshot_wf s -> Forall (del_canonical rb) (sn_segs s) -> load rb (encode s) = Ok s.
Proof. intros. unfold load. rewrite gen_flags_fixed. apply roundtrip_fixed; assumption. Qed.
