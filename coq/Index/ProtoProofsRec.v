(* Index/ProtoProofsRec.v — what recovery (loadSnapshots / OpenReader, Index/Proto.v recover_writer,
   recover_reader) makes of a crash image.
   1. recover_scan / the reader's loop in closed form over the list `oks` of the files that load,
      in ascending epoch order: both take the last one (writer_reader_agree);
   2. the files of a crash image (image_fly) and, under the invariant of the monitor and
      `no_collision`, which of them load: exactly the complete snapshot files and the in-flight
      snapshot written in full; nothing is outside the model (no LUnknown);
   3. start states (`start_ok`) satisfy the invariant. *)
From Coq Require Import ZArith List Bool Lia Permutation Sorted.
From Coq Require Import ZifyBool.
From Bluge Require Import Base.Res Base.Corr Index.Model Index.ModelProofs Index.Trace Index.TraceProofs
  Index.Proto Index.ProtoProofsPol Index.ProtoProofsInv.
Import ListNotations.
Open Scope Z_scope.

Local Arguments load_one : simpl never.

Definition sfile := (Z * (list Z * option (list (Z * list Z))))%type.
Definition reshape (f : Z * list Z * option (list (Z * list Z))) : sfile := let '(e, b, p) := f in (e, (b, p)).
Definition files_of (im : image) : list sfile := sort_epoch (map reshape (im_snp im)).

Definition last_opt {A} (l : list A) : option A := hd_error (rev l).

Lemma last_opt_snoc : forall {A} (l : list A) x, last_opt (l ++ [x]) = Some x.
Proof. intros. unfold last_opt. rewrite rev_app_distr. reflexivity. Qed.

Lemma last_opt_Some : forall {A} (l : list A) x, last_opt l = Some x -> exists l', l = l' ++ [x].
Proof.
  intros A l x H. unfold last_opt in H. destruct (rev l) as [|y t] eqn:E; [discriminate|].
  injection H as ->. exists (rev t). rewrite <- (rev_involutive l), E. reflexivity.
Qed.

Lemma last_opt_None : forall {A} (l : list A), last_opt l = None -> l = [].
Proof.
  intros A l H. unfold last_opt in H. destruct (rev l) eqn:E; [|discriminate].
  rewrite <- (rev_involutive l), E. reflexivity.
Qed.

Lemma last_opt_cons : forall {A} (x : A) l, l <> [] -> last_opt (x :: l) = last_opt l.
Proof.
  intros A x l H. unfold last_opt. simpl. destruct (rev l) eqn:E.
  - exfalso. apply H. rewrite <- (rev_involutive l), E. reflexivity.
  - reflexivity.
Qed.

(* ================================================================== *)
(* 1. the scan in closed form                                           *)
(* ================================================================== *)

Section Scan.
Variable table : list (list Z).
Variable im : image.

Definition lo (x : sfile) : loadres := load_one table im (fst x, fst (snd x), snd (snd x)).

Fixpoint oks (files : list sfile) : list (Z * list (Z * list Z)) :=
  match files with
  | [] => []
  | x :: t => match lo x with LOk segs => (fst x, segs) :: oks t | _ => oks t end
  end.

Definition commit_all (l : list (Z * list (Z * list Z))) (p : pol) : pol :=
  fold_left (fun p es => pol_commit p (fst es) (map fst (snd es))) l p.

Definition mk_rec (e : Z) (segs : list (Z * list Z)) (p : pol) : recovered :=
  {| r_epoch := e; r_segs := segs; r_pol := p; r_next_epoch := e + 1; r_next_seg := 0 |}.

Fixpoint scan_acc (l : list (Z * list (Z * list Z))) (acc : option recovered) (p : pol) : option recovered :=
  match l with
  | [] => acc
  | (e, segs) :: t => let p' := pol_commit p e (map fst segs) in scan_acc t (Some (mk_rec e segs p')) p'
  end.

Definition known (files : list sfile) : Prop := forall x, In x files -> lo x <> LUnknown.

Lemma recover_scan_spec : forall files acc p u, known files ->
  recover_scan table im files acc p u = (scan_acc (oks files) acc p, commit_all (oks files) p, u).
Proof.
  induction files as [|[e [b parsed]] t IH]; intros acc p u Hk; simpl; [reflexivity|].
  assert (Hk' : known t) by (intros x Hx; apply Hk; right; exact Hx).
  pose proof (Hk (e, (b, parsed)) (or_introl eq_refl)) as H0. unfold lo in *. simpl in *.
  destruct (load_one table im (e, b, parsed)) as [segs| |] eqn:L.
  - rewrite IH by exact Hk'. reflexivity.
  - apply IH. exact Hk'.
  - congruence.
Qed.

Lemma scan_acc_last : forall l acc p,
  match last_opt l with
  | Some (e, segs) => exists p', scan_acc l acc p = Some (mk_rec e segs p')
  | None => scan_acc l acc p = acc
  end.
Proof.
  induction l as [|[e segs] t IH]; intros acc p; [reflexivity|].
  destruct t as [|y t'].
  - unfold last_opt. simpl. eexists. reflexivity.
  - rewrite last_opt_cons by discriminate.
    change (scan_acc ((e, segs) :: y :: t') acc p)
      with (scan_acc (y :: t') (Some (mk_rec e segs (pol_commit p e (map fst segs)))) (pol_commit p e (map fst segs))).
    specialize (IH (Some (mk_rec e segs (pol_commit p e (map fst segs)))) (pol_commit p e (map fst segs))).
    destruct (last_opt (y :: t')) as [[e' segs']|] eqn:L; [exact IH|].
    apply last_opt_None in L. discriminate.
Qed.

Lemma oks_app : forall a b, oks (a ++ b) = oks a ++ oks b.
Proof.
  induction a as [|x t IH]; intro b; simpl; [reflexivity|]. destruct (lo x); rewrite IH; reflexivity.
Qed.

Lemma oks_In : forall files e segs, In (e, segs) (oks files) <-> exists x, In x files /\ fst x = e /\ lo x = LOk segs.
Proof.
  induction files as [|x t IH]; intros e segs; simpl.
  - split; [intros [] | intros [x [[] _]]].
  - destruct (lo x) as [s| |] eqn:L; simpl; rewrite ?IH.
    + split.
      * intros [Heq|[y [Hy1 Hy2]]]; [injection Heq as <- <-; exists x; auto | exists y; auto].
      * intros [y [[<-|Hy] [Hy2 Hy3]]]; [left; rewrite L in Hy3; injection Hy3 as <-; rewrite Hy2; reflexivity | right; exists y; auto].
    + split; [intros [y [Hy1 Hy2]]; exists y; auto | intros [y [[<-|Hy] [Hy2 Hy3]]]; [congruence | exists y; auto]].
    + split; [intros [y [Hy1 Hy2]]; exists y; auto | intros [y [[<-|Hy] [Hy2 Hy3]]]; [congruence | exists y; auto]].
Qed.

(* the reader's loop: newest first, the first file that loads *)
Definition reader_go := fix go (l : list sfile) : option (option (Z * list (Z * list Z))) :=
  match l with
  | [] => Some None
  | (e, (b, parsed)) :: t =>
      match load_one table im (e, b, parsed) with
      | LOk segs => Some (Some (e, segs))
      | LFail => go t
      | LUnknown => None
      end
  end.

Lemma reader_go_spec : forall l, known l -> reader_go l = Some (hd_error (oks l)).
Proof.
  induction l as [|[e [b parsed]] t IH]; intro Hk; simpl; [reflexivity|].
  assert (Hk' : known t) by (intros x Hx; apply Hk; right; exact Hx).
  pose proof (Hk (e, (b, parsed)) (or_introl eq_refl)) as H0. unfold lo in *. simpl in *.
  destruct (load_one table im (e, b, parsed)); [reflexivity | apply IH; exact Hk' | congruence].
Qed.

Lemma oks_rev : forall l, oks (rev l) = rev (oks l).
Proof.
  induction l as [|x t IH]; simpl; [reflexivity|]. rewrite oks_app, IH. simpl.
  destruct (lo x); simpl; rewrite ?app_nil_r; reflexivity.
Qed.

Lemma known_rev : forall l, known l -> known (rev l).
Proof. intros l H x Hx. apply H. apply in_rev. exact Hx. Qed.

End Scan.

(* ---------- sorting by epoch ---------- *)

Definition le_fst {A} (a b : Z * A) : Prop := fst a <= fst b.

Lemma ins_epoch_perm : forall {A} (x : Z * A) l, Permutation (x :: l) (ins_epoch x l).
Proof.
  intros A x l. induction l as [|y t IH]; simpl; [apply Permutation_refl|].
  destruct (fst x <=? fst y); [apply Permutation_refl|].
  eapply perm_trans; [apply perm_swap | apply perm_skip; exact IH].
Qed.

Lemma sort_epoch_perm : forall {A} (l : list (Z * A)), Permutation l (sort_epoch l).
Proof.
  intros A l. induction l as [|x t IH]; simpl; [constructor|].
  eapply perm_trans; [apply perm_skip; exact IH | apply ins_epoch_perm].
Qed.

Lemma ins_epoch_sorted : forall {A} (x : Z * A) l, StronglySorted le_fst l -> StronglySorted le_fst (ins_epoch x l).
Proof.
  intros A x l H. induction H as [|y t Ht IH Hy]; simpl.
  - constructor; constructor.
  - destruct (fst x <=? fst y) eqn:E.
    + constructor; [constructor; assumption|]. constructor; [unfold le_fst; lia|].
      rewrite Forall_forall in *. intros z Hz. specialize (Hy z Hz). unfold le_fst in *. lia.
    + constructor; [exact IH|]. rewrite Forall_forall in *. intros z Hz.
      apply (Permutation_in _ (Permutation_sym (ins_epoch_perm x t))) in Hz.
      destruct Hz as [<-|Hz]; [unfold le_fst; lia | apply Hy; exact Hz].
Qed.

Lemma sort_epoch_sorted : forall {A} (l : list (Z * A)), StronglySorted le_fst (sort_epoch l).
Proof. intros A l. induction l as [|x t IH]; simpl; [constructor | apply ins_epoch_sorted; exact IH]. Qed.

Lemma sorted_snoc_max : forall {A} (l : list (Z * A)) x, StronglySorted le_fst (l ++ [x]) ->
  forall y, In y l -> fst y <= fst x.
Proof.
  induction l as [|a t IH]; intros x H y Hy; [destruct Hy|]. simpl in H.
  inversion H as [|a' l' Hs Hf]; subst. destruct Hy as [<-|Hy].
  - rewrite Forall_forall in Hf. apply (Hf x). apply in_app_iff. right. left. reflexivity.
  - apply (IH x Hs y Hy).
Qed.

Section Oks.
Variable table : list (list Z).
Variable im : image.

Lemma oks_sorted : forall files, StronglySorted le_fst files -> StronglySorted le_fst (oks table im files).
Proof.
  intros files H. induction H as [|x t Ht IH Hx]; simpl; [constructor|].
  destruct (lo table im x) as [segs| |]; try exact IH.
  constructor; [exact IH|]. apply Forall_forall. intros [e s] Hin. apply oks_In in Hin.
  destruct Hin as [y [Hy [Hy1 _]]]. rewrite Forall_forall in Hx. specialize (Hx y Hy). unfold le_fst in *. simpl. lia.
Qed.

(* the file recovery settles on: it loads, and no file that loads has a newer epoch *)
Definition picked (e : Z) (segs : list (Z * list Z)) : Prop :=
  In (e, segs) (oks table im (files_of im)) /\
  forall e' segs', In (e', segs') (oks table im (files_of im)) -> e' <= e.

Lemma last_picked : forall e segs, last_opt (oks table im (files_of im)) = Some (e, segs) -> picked e segs.
Proof.
  intros e segs H. apply last_opt_Some in H. destruct H as [l' Hl]. split.
  - rewrite Hl. apply in_app_iff. right. left. reflexivity.
  - intros e' segs' Hin. rewrite Hl in Hin. apply in_app_iff in Hin. destruct Hin as [Hin|[Heq|[]]].
    + pose proof (oks_sorted (files_of im) (sort_epoch_sorted _)) as Hs. rewrite Hl in Hs.
      apply (sorted_snoc_max l' (e, segs) Hs (e', segs') Hin).
    + injection Heq as <- <-. lia.
Qed.

Lemma files_of_In : forall x, In x (files_of im) <-> exists f, In f (im_snp im) /\ reshape f = x.
Proof.
  intro x. unfold files_of. split.
  - intro H. apply (Permutation_in _ (Permutation_sym (sort_epoch_perm _))) in H. apply in_map_iff in H.
    destruct H as [f [H1 H2]]. exists f. auto.
  - intros [f [H1 H2]]. apply (Permutation_in _ (sort_epoch_perm _)). apply in_map_iff. exists f. auto.
Qed.

Lemma oks_files_In : forall e segs, In (e, segs) (oks table im (files_of im)) <->
  exists b parsed, In (e, b, parsed) (im_snp im) /\ load_one table im (e, b, parsed) = LOk segs.
Proof.
  intros e segs. rewrite oks_In. split.
  - intros [x [Hx [Hx1 Hx2]]]. apply files_of_In in Hx. destruct Hx as [[[e0 b] parsed] [Hf <-]].
    simpl in *. subst e0. exists b, parsed. auto.
  - intros [b [parsed [H1 H2]]]. exists (e, (b, parsed)). split; [|auto].
    apply files_of_In. exists (e, b, parsed). auto.
Qed.

Definition im_known : Prop := forall e b parsed, In (e, b, parsed) (im_snp im) -> load_one table im (e, b, parsed) <> LUnknown.

Lemma im_known_files : im_known -> known table im (files_of im).
Proof.
  intros H x Hx. apply files_of_In in Hx. destruct Hx as [[[e b] parsed] [Hf <-]]. unfold lo. simpl. apply (H e b parsed Hf).
Qed.

Lemma recover_writer_unfold : forall n,
  recover_writer table n im =
  match recover_scan table im (files_of im) None (pol_init n) false with
  | (_, _, true) => RecUnknown
  | (Some r, p, false) =>
      RecOk {| r_epoch := r_epoch r; r_segs := r_segs r; r_pol := p; r_next_epoch := r_next_epoch r;
               r_next_seg := fold_left Z.max (im_seg im ++ im_seg_torn im) 0 + 1 |}
  | (None, _, false) => match files_of im with [] => RecFresh (fold_left Z.max (im_seg im ++ im_seg_torn im) 0 + 1) | _ => RecFail end
  end.
Proof. reflexivity. Qed.

Lemma recover_reader_unfold : recover_reader table im = reader_go table im (rev (files_of im)).
Proof. reflexivity. Qed.

(* loadSnapshots in closed form *)
Lemma recover_writer_spec : forall n, im_known ->
  match last_opt (oks table im (files_of im)) with
  | Some (e, segs) =>
      exists r, recover_writer table n im = RecOk r /\ r_epoch r = e /\ r_segs r = segs /\
                r_pol r = commit_all (oks table im (files_of im)) (pol_init n) /\ r_next_epoch r = e + 1
  | None => (files_of im = [] /\ exists s, recover_writer table n im = RecFresh s) \/
            (files_of im <> [] /\ recover_writer table n im = RecFail)
  end.
Proof.
  intros n Hk. rewrite recover_writer_unfold.
  rewrite (recover_scan_spec table im (files_of im) None (pol_init n) false (im_known_files Hk)).
  pose proof (scan_acc_last (oks table im (files_of im)) None (pol_init n)) as Hl.
  destruct (last_opt (oks table im (files_of im))) as [[e segs]|].
  - destruct Hl as [p' ->]. eexists. split; [reflexivity|]. simpl. auto.
  - rewrite Hl. destruct (files_of im); [left; split; [reflexivity | eexists; reflexivity] | right; split; [discriminate | reflexivity]].
Qed.

(* OpenReader in closed form: the same file *)
Lemma recover_reader_spec : im_known ->
  recover_reader table im = Some (last_opt (oks table im (files_of im))).
Proof.
  intro Hk. rewrite recover_reader_unfold.
  rewrite reader_go_spec by (apply known_rev; apply im_known_files; exact Hk).
  rewrite oks_rev. reflexivity.
Qed.

End Oks.

(* ================================================================== *)
(* 2. the files of a crash image                                        *)
(* ================================================================== *)

(* no torn variant considered is mistaken for a snapshot: a property of the byte strings and of
   CRC-32 that no theorem can give; the harness evaluates it on every image *)
Fixpoint no_collision (table : list (list Z)) (fl : list inflight) (choice : list torn) : bool :=
  match fl, choice with
  | f :: fl', c :: ch' =>
      (if if_snp f
       then match c with
            | TFull => true
            | _ => match torn_bytes c (if_bytes f) with Some b => negb (loads table b) | None => true end
            end
       else true) && no_collision table fl' ch'
  | _, _ => true
  end.

Lemma no_collision_spec : forall table fl ch f c b,
  no_collision table fl ch = true -> In (f, c) (combine fl ch) -> if_snp f = true -> c <> TFull ->
  torn_bytes c (if_bytes f) = Some b -> loads table b = false.
Proof.
  intros table fl. induction fl as [|f0 fl' IH]; intros ch f c b H Hin Hs Hc Hb; [destruct Hin|].
  destruct ch as [|c0 ch']; [destruct Hin|]. simpl in H, Hin. apply andb_true_iff in H. destruct H as [H1 H2].
  destruct Hin as [Heq|Hin]; [|apply (IH ch' f c b H2 Hin Hs Hc Hb)].
  injection Heq as -> ->. rewrite Hs in H1. destruct c; try congruence; rewrite Hb in H1; apply negb_true_iff; exact H1.
Qed.

Lemma image_fly_snp : forall fl ch im x, In x (im_snp (image_fly fl ch im)) <->
  In x (im_snp im) \/
  exists f c b, In (f, c) (combine fl ch) /\ if_snp f = true /\ torn_bytes c (if_bytes f) = Some b /\
                x = (if_id f, b, match c with TFull => Some (if_segs f) | _ => None end).
Proof.
  induction fl as [|f fl' IH]; intros ch im x.
  - simpl. split; [auto | intros [H|[f [c [b [[] _]]]]]; exact H].
  - destruct ch as [|c ch'].
    + simpl. split; [auto | intros [H|[f0 [c [b [[] _]]]]]; exact H].
    + cbn [image_fly combine]. rewrite IH. clear IH.
      destruct (torn_bytes c (if_bytes f)) as [b|] eqn:T.
      * destruct (if_snp f) eqn:S.
        -- cbn [im_snp]. split.
           ++ intros [[<-|H]|[f0 [c0 [b0 [H1 H2]]]]].
              ** right. exists f, c, b. split; [left; reflexivity | auto].
              ** left. exact H.
              ** right. exists f0, c0, b0. split; [right; exact H1 | exact H2].
           ++ intros [H|[f0 [c0 [b0 [[Heq|H1] [H2 [H3 H4]]]]]]].
              ** left. right. exact H.
              ** injection Heq as <- <-. rewrite T in H3. injection H3 as <-. left. left. symmetry. exact H4.
              ** right. exists f0, c0, b0. auto.
        -- assert (Hs : forall im', im_snp im' = im_snp im ->
                   (In x (im_snp im') \/ (exists f0 c0 b0, In (f0, c0) (combine fl' ch') /\ if_snp f0 = true /\
                       torn_bytes c0 (if_bytes f0) = Some b0 /\ x = (if_id f0, b0, match c0 with TFull => Some (if_segs f0) | _ => None end))) <->
                   (In x (im_snp im) \/ (exists f0 c0 b0, ((f, c) = (f0, c0) \/ In (f0, c0) (combine fl' ch')) /\ if_snp f0 = true /\
                       torn_bytes c0 (if_bytes f0) = Some b0 /\ x = (if_id f0, b0, match c0 with TFull => Some (if_segs f0) | _ => None end)))).
           { intros im' ->. split.
             - intros [H|[f0 [c0 [b0 [H1 H2]]]]]; [left; exact H | right; exists f0, c0, b0; split; [right; exact H1 | exact H2]].
             - intros [H|[f0 [c0 [b0 [[Heq|H1] [H2 H3]]]]]]; [left; exact H | | right; exists f0, c0, b0; auto].
               injection Heq as <- <-. congruence. }
           destruct c; exact (Hs _ eq_refl).
      * split.
        -- intros [H|[f0 [c0 [b0 [H1 H2]]]]]; [left; exact H | right; exists f0, c0, b0; split; [right; exact H1 | exact H2]].
        -- intros [H|[f0 [c0 [b0 [[Heq|H1] [H2 [H3 H4]]]]]]]; [left; exact H | | right; exists f0, c0, b0; auto].
           injection Heq as <- <-. congruence.
Qed.

Lemma image_fly_seg_mono : forall fl ch im s, In s (im_seg im) -> In s (im_seg (image_fly fl ch im)).
Proof.
  induction fl as [|f fl' IH]; intros ch im s H; [exact H|].
  destruct ch as [|c ch']; [exact H|]. cbn [image_fly]. apply IH.
  destruct (torn_bytes c (if_bytes f)); [|exact H]. destruct (if_snp f); [exact H|].
  destruct c; simpl; auto.
Qed.

Lemma image_fly_torn : forall fl ch im s, In s (im_seg_torn (image_fly fl ch im)) ->
  In s (im_seg_torn im) \/ exists f, In f fl /\ if_snp f = false /\ if_id f = s.
Proof.
  induction fl as [|f fl' IH]; intros ch im s H; [left; exact H|].
  destruct ch as [|c ch']; [left; exact H|]. cbn [image_fly] in H. apply IH in H.
  destruct H as [H|[f0 [H1 H2]]]; [|right; exists f0; split; [right; exact H1 | exact H2]].
  destruct (torn_bytes c (if_bytes f)); [|left; exact H]. destruct (if_snp f) eqn:S; [left; exact H|].
  destruct c; simpl in H; auto; destruct H as [<-|H]; auto; right; exists f; split; auto; left; reflexivity.
Qed.

Lemma loads_false_ids : forall table b, loads table b = false -> loaded_ids table b = None.
Proof.
  intros table b H. unfold loads in H. unfold loaded_ids.
  destruct (SnapshotCodec.load (rb_of table) b); [discriminate | reflexivity..].
Qed.

Lemma loaded_ids_loads : forall table b ids, loaded_ids table b = Some ids -> loads table b = true.
Proof.
  intros table b ids H. unfold loads. unfold loaded_ids in H.
  destruct (SnapshotCodec.load (rb_of table) b); [reflexivity | discriminate..].
Qed.

Lemma load_one_fail : forall table im e b parsed, loads table b = false -> load_one table im (e, b, parsed) = LFail.
Proof. intros table im e b parsed H. unfold load_one. rewrite (loads_false_ids table b H). reflexivity. Qed.

Lemma load_one_ok : forall table im e b segs,
  loaded_ids table b = Some (map fst segs) ->
  (forall s, In s (map fst segs) -> In s (im_seg im) /\ ~ In s (im_seg_torn im)) ->
  load_one table im (e, b, Some segs) = LOk segs.
Proof.
  intros table im e b segs Hl Hs. unfold load_one. rewrite Hl.
  assert (E1 : existsb (fun i => zmem i (im_seg_torn im)) (map fst segs) = false).
  { apply existsb_false. intros x Hx. apply zmem_false. apply (Hs x Hx). }
  assert (E2 : forallb (fun i => zmem i (im_seg im)) (map fst segs) = true).
  { apply forallb_forall. intros x Hx. apply zmem_In. apply (Hs x Hx). }
  rewrite E1, E2, list_eqbZ_refl. reflexivity.
Qed.

(* the part of the disk invariant recovery depends on: nothing about the policy *)
Record files_inv (table : list (list Z)) (d : disk) : Prop := {
  fi_fly_seg : forall f, In f (d_fly d) -> if_snp f = false -> ~ In (if_id f) (d_seg d);
  fi_snp_segs : forall e f s, In (e, f) (d_snp d) -> In s (map fst (sf_segs f)) -> In s (d_seg d);
  fi_fly_segs : forall f s, In f (d_fly d) -> if_snp f = true -> In s (map fst (if_segs f)) -> In s (d_seg d);
  fi_snp_loads : forall e f, In (e, f) (d_snp d) -> loaded_ids table (sf_bytes f) = Some (map fst (sf_segs f));
  fi_fly_loads : forall f, In f (d_fly d) -> if_snp f = true ->
                 loaded_ids table (if_bytes f) = Some (map fst (if_segs f));
  fi_junk : forall e b, In (e, b) (d_junk_snp d) -> loads table b = false
}.

Lemma disk_inv_files : forall table d p, disk_inv table d p -> files_inv table d.
Proof. intros table d p [H1 H2 H3 H4 H5 H6 H7 H8 H9]. constructor; assumption. Qed.

Section Crash.
Variable table : list (list Z).
Variable d : disk.
Hypothesis HD : files_inv table d.
Variable choice : list torn.
Hypothesis NC : no_collision table (d_fly d) choice = true.

Let im := crash_image d choice.

Lemma crash_seg_complete : forall s, In s (d_seg d) -> In s (im_seg im) /\ ~ In s (im_seg_torn im).
Proof.
  intros s Hs. split.
  - apply image_fly_seg_mono. simpl. apply in_app_iff. left. exact Hs.
  - intro Ht. apply image_fly_torn in Ht. simpl in Ht. destruct Ht as [[]|[f [Hf [Hsn Hid]]]].
    apply (fi_fly_seg table d HD f Hf Hsn). rewrite Hid. exact Hs.
Qed.

Lemma crash_snp_In : forall x, In x (im_snp im) <->
  (exists e f, In (e, f) (d_snp d) /\ x = (e, sf_bytes f, Some (sf_segs f))) \/
  (exists e b, In (e, b) (d_junk_snp d) /\ x = (e, b, None)) \/
  (exists f c b, In (f, c) (combine (d_fly d) choice) /\ if_snp f = true /\ torn_bytes c (if_bytes f) = Some b /\
                 x = (if_id f, b, match c with TFull => Some (if_segs f) | _ => None end)).
Proof.
  intro x. unfold im, crash_image. rewrite image_fly_snp. cbn [im_snp]. rewrite in_app_iff, !in_map_iff. split.
  - intros [[[[e f] [<- H]]|[[e b] [<- H]]]|H].
    + left. exists e, f. auto.
    + right. left. exists e, b. auto.
    + right. right. exact H.
  - intros [[e [f [H ->]]]|[[e [b [H ->]]]|H]].
    + left. left. exists (e, f). auto.
    + left. right. exists (e, b). auto.
    + right. exact H.
Qed.

(* every complete snapshot file loads *)
Lemma crash_complete_loads : forall e f, In (e, f) (d_snp d) ->
  load_one table im (e, sf_bytes f, Some (sf_segs f)) = LOk (sf_segs f).
Proof.
  intros e f Hin. apply load_one_ok; [apply (fi_snp_loads table d HD e f Hin)|].
  intros s Hs. apply crash_seg_complete. apply (fi_snp_segs table d HD e f s Hin Hs).
Qed.

(* what each file of the image does *)
Lemma crash_classify : forall e b parsed, In (e, b, parsed) (im_snp im) ->
  (exists segs, load_one table im (e, b, parsed) = LOk segs /\
     ((exists f, In (e, f) (d_snp d) /\ segs = sf_segs f) \/
      (exists f, In f (d_fly d) /\ if_snp f = true /\ if_id f = e /\ segs = if_segs f))) \/
  load_one table im (e, b, parsed) = LFail.
Proof.
  intros e b parsed Hin. apply crash_snp_In in Hin.
  destruct Hin as [[e0 [f [Hf Heq]]]|[[e0 [b0 [Hj Heq]]]|[f [c [b0 [Hc [Hs [Ht Heq]]]]]]]].
  - injection Heq as -> -> ->. left. exists (sf_segs f). split; [apply crash_complete_loads; exact Hf|].
    left. exists f. auto.
  - injection Heq as -> -> ->. right. apply load_one_fail. apply (fi_junk table d HD e0 b0 Hj).
  - injection Heq as -> -> ->. assert (Hf : In f (d_fly d)) by (apply (in_combine_l _ _ _ _ Hc)).
    destruct c.
    + discriminate.
    + right. apply load_one_fail. apply (no_collision_spec table _ _ f (TPrefix len) b0 NC Hc Hs); [discriminate | exact Ht].
    + right. apply load_one_fail. apply (no_collision_spec table _ _ f TZeros b0 NC Hc Hs); [discriminate | exact Ht].
    + simpl in Ht. injection Ht as <-. left. exists (if_segs f). split.
      * apply load_one_ok; [apply (fi_fly_loads table d HD f Hf Hs)|].
        intros s Hs'. apply crash_seg_complete. apply (fi_fly_segs table d HD f s Hf Hs Hs').
      * right. exists f. auto.
Qed.

Lemma crash_known : im_known table im.
Proof.
  intros e b parsed Hin. destruct (crash_classify e b parsed Hin) as [[segs [H _]]|H]; rewrite H; discriminate.
Qed.

Lemma crash_oks_complete : forall e f, In (e, f) (d_snp d) -> In (e, sf_segs f) (oks table im (files_of im)).
Proof.
  intros e f Hin. apply oks_files_In. exists (sf_bytes f), (Some (sf_segs f)). split.
  - apply crash_snp_In. left. exists e, f. auto.
  - apply crash_complete_loads. exact Hin.
Qed.

Lemma crash_oks_origin : forall e segs, In (e, segs) (oks table im (files_of im)) ->
  (exists f, In (e, f) (d_snp d) /\ segs = sf_segs f) \/
  (exists f, In f (d_fly d) /\ if_snp f = true /\ if_id f = e /\ segs = if_segs f).
Proof.
  intros e segs Hin. apply oks_files_In in Hin. destruct Hin as [b [parsed [H1 H2]]].
  destruct (crash_classify e b parsed H1) as [[segs' [H3 H4]]|H3]; rewrite H3 in H2; [|discriminate].
  injection H2 as <-. exact H4.
Qed.

(* the same, remembering that an in-flight snapshot loads only when written in full *)
Lemma crash_classify_full : forall e b parsed segs, In (e, b, parsed) (im_snp im) ->
  load_one table im (e, b, parsed) = LOk segs ->
  (exists f, In (e, f) (d_snp d) /\ segs = sf_segs f) \/
  (exists f, In (f, TFull) (combine (d_fly d) choice) /\ if_snp f = true /\ if_id f = e /\ segs = if_segs f).
Proof.
  intros e b parsed segs Hin Hl. apply crash_snp_In in Hin.
  destruct Hin as [[e0 [f [Hf Heq]]]|[[e0 [b0 [Hj Heq]]]|[f [c [b0 [Hc [Hs [Ht Heq]]]]]]]].
  - injection Heq as -> -> ->. rewrite (crash_complete_loads e0 f Hf) in Hl. injection Hl as <-. left. exists f. auto.
  - injection Heq as -> -> ->. rewrite load_one_fail in Hl by (apply (fi_junk table d HD e0 b0 Hj)). discriminate.
  - injection Heq as -> -> ->. assert (Hf : In f (d_fly d)) by (apply (in_combine_l _ _ _ _ Hc)).
    destruct c.
    + discriminate.
    + rewrite load_one_fail in Hl; [discriminate|].
      apply (no_collision_spec table _ _ f (TPrefix len) b0 NC Hc Hs); [discriminate | exact Ht].
    + rewrite load_one_fail in Hl; [discriminate|].
      apply (no_collision_spec table _ _ f TZeros b0 NC Hc Hs); [discriminate | exact Ht].
    + simpl in Ht. injection Ht as <-. rewrite load_one_ok in Hl.
      * injection Hl as <-. right. exists f. auto.
      * apply (fi_fly_loads table d HD f Hf Hs).
      * intros s Hs'. apply crash_seg_complete. apply (fi_fly_segs table d HD f s Hf Hs Hs').
Qed.

Lemma crash_oks_origin_full : forall e segs, In (e, segs) (oks table im (files_of im)) ->
  (exists f, In (e, f) (d_snp d) /\ segs = sf_segs f) \/
  (exists f, In (f, TFull) (combine (d_fly d) choice) /\ if_snp f = true /\ if_id f = e /\ segs = if_segs f).
Proof.
  intros e segs Hin. apply oks_files_In in Hin. destruct Hin as [b [parsed [H1 H2]]].
  apply (crash_classify_full e b parsed segs H1 H2).
Qed.

Lemma crash_oks_fly_full : forall f, In (f, TFull) (combine (d_fly d) choice) -> if_snp f = true ->
  In (if_id f, if_segs f) (oks table im (files_of im)).
Proof.
  intros f Hc Hs. assert (Hf : In f (d_fly d)) by (apply (in_combine_l _ _ _ _ Hc)).
  apply oks_files_In. exists (if_bytes f), (Some (if_segs f)). split.
  - apply crash_snp_In. right. right. exists f, TFull, (if_bytes f). auto.
  - apply load_one_ok; [apply (fi_fly_loads table d HD f Hf Hs)|].
    intros s Hs'. apply crash_seg_complete. apply (fi_fly_segs table d HD f s Hf Hs Hs').
Qed.

(* C03.5 recover_succeeds, and what is recovered *)
Lemma crash_recover_writer : forall n,
  (d_snp d <> [] -> exists r, recover_writer table n im = RecOk r) /\
  (forall r, recover_writer table n im = RecOk r ->
     picked table im (r_epoch r) (r_segs r) /\ r_next_epoch r = r_epoch r + 1 /\
     r_pol r = commit_all (oks table im (files_of im)) (pol_init n)) /\
  recover_writer table n im <> RecUnknown /\
  (forall s, recover_writer table n im = RecFresh s -> d_snp d = []) /\
  (recover_writer table n im = RecFail -> d_snp d = []).
Proof.
  intro n. pose proof (recover_writer_spec table im n crash_known) as Hs.
  destruct (last_opt (oks table im (files_of im))) as [[e segs]|] eqn:L.
  - destruct Hs as [r [Hr [H1 [H2 [H3 H4]]]]]. rewrite Hr. split; [|split; [|split; [|split]]]; try discriminate.
    + intros _. exists r. reflexivity.
    + intros r' H. injection H as <-. split; [|split].
      * rewrite H1, H2. apply last_picked. exact L.
      * rewrite H4, H1. reflexivity.
      * exact H3.
  - assert (Hnil : d_snp d = []).
    { destruct (d_snp d) as [|[e f] t] eqn:E; [reflexivity|]. exfalso.
      apply last_opt_None in L. pose proof (crash_oks_complete e f) as Hc. rewrite E in Hc.
      specialize (Hc (or_introl eq_refl)). rewrite L in Hc. destruct Hc. }
    destruct Hs as [[_ [s Hr]]|[_ Hr]]; rewrite Hr; (split; [|split; [|split; [|split]]]); try discriminate;
      try (intros; exact Hnil); intro; contradiction.
Qed.

Lemma crash_recover_reader :
  recover_reader table im = Some (last_opt (oks table im (files_of im))) /\
  (d_snp d <> [] -> exists e segs, recover_reader table im = Some (Some (e, segs))) /\
  (forall e segs, recover_reader table im = Some (Some (e, segs)) -> picked table im e segs).
Proof.
  pose proof (recover_reader_spec table im crash_known) as Hr. split; [exact Hr|]. split.
  - intro Hne. destruct (last_opt (oks table im (files_of im))) as [[e segs]|] eqn:L.
    + exists e, segs. exact Hr.
    + exfalso. apply Hne. destruct (d_snp d) as [|[e f] t] eqn:E; [reflexivity|].
      apply last_opt_None in L. pose proof (crash_oks_complete e f) as Hc. rewrite E in Hc.
      specialize (Hc (or_introl eq_refl)). rewrite L in Hc. destruct Hc.
  - intros e segs H. rewrite Hr in H. injection H as H. apply last_picked. exact H.
Qed.

(* OpenWriter and OpenReader settle on the same snapshot *)
Lemma crash_writer_reader_agree : forall n r,
  recover_writer table n im = RecOk r -> recover_reader table im = Some (Some (r_epoch r, r_segs r)).
Proof.
  intros n r H. pose proof (recover_writer_spec table im n crash_known) as Hs.
  rewrite (recover_reader_spec table im crash_known).
  destruct (last_opt (oks table im (files_of im))) as [[e segs]|].
  - destruct Hs as [r' [Hr [H1 [H2 _]]]]. rewrite Hr in H. injection H as <-. rewrite H1, H2. reflexivity.
  - destruct Hs as [[_ [s Hr]]|[_ Hr]]; rewrite Hr in H; discriminate.
Qed.

End Crash.

(* ================================================================== *)
(* 3. start states                                                      *)
(* ================================================================== *)

(* the directory a writer is opened on: nothing in flight, distinct snapshot names, every complete
   snapshot file loads and names only complete segment files, no left-over snapshot file loads *)
Record disk_ok (table : list (list Z)) (d : disk) : Prop := {
  dk_fly : d_fly d = [];
  dk_nodup : NoDup (map fst (d_snp d));
  dk_loads : forall e f, In (e, f) (d_snp d) -> loaded_ids table (sf_bytes f) = Some (map fst (sf_segs f));
  dk_segs : forall e f s, In (e, f) (d_snp d) -> In s (map fst (sf_segs f)) -> In s (d_seg d);
  dk_junk : forall e b, In (e, b) (d_junk_snp d) -> loads table b = false
}.

(* a well-formed start: a writer opened (init_pstate of Index/ProtoCorr.v) on a directory without
   snapshots (fresh) or on one whose newest complete snapshot it is about to load (reopened) *)
Definition start_ok (table : list (list Z)) (n : Z) (st0 : pstate) : Prop :=
  1 <= n /\ ps_t st0 = init_state /\ ps_base st0 = [] /\ ps_safe st0 = [] /\
  disk_ok table (ps_disk st0) /\ ps_grabbed st0 = None /\
  ((d_snp (ps_disk st0) = [] /\ ps_epoch_n st0 = [(0, O)] /\ ps_pol st0 = pol_init n) \/
   (exists r, recover_writer table n (crash_image (ps_disk st0) []) = RecOk r /\
              ps_pol st0 = r_pol r /\ ps_epoch_n st0 = [])).

Lemma disk_ok_files : forall table d, disk_ok table d -> files_inv table d.
Proof.
  intros table d [H1 H2 H3 H4 H5]. constructor; try assumption; rewrite H1; intros f; intros; contradiction.
Qed.

Definition idsof (es : Z * list (Z * list Z)) : Z * list Z := (fst es, map fst (snd es)).

Lemma commit_all_n : forall l p, p_n (commit_all l p) = p_n p.
Proof.
  induction l as [|[e segs] t IH]; intro p; simpl; [reflexivity|]. unfold commit_all in *. simpl. rewrite IH.
  unfold pol_commit. destruct (p_n p <? _); reflexivity.
Qed.

Lemma commit_all_ok : forall l p L,
  pol_ok p L -> sinc (map fst l) -> (forall e e', In e (map fst L) -> In e' (map fst l) -> e < e') ->
  pol_ok (commit_all l p) (rev (map idsof l) ++ L).
Proof.
  induction l as [|[e segs] t IH]; intros p L Hok Hs Hlt; simpl; [exact Hok|].
  inversion Hs as [|x y Hs' Hf]; subst. rewrite Forall_forall in Hf.
  unfold commit_all. simpl. fold (commit_all t (pol_commit p e (map fst segs))).
  rewrite <- app_assoc. simpl. apply IH.
  - apply pol_ok_commit; [exact Hok|]. intros e' He'. apply (Hlt e' e He'). left. reflexivity.
  - exact Hs'.
  - intros e1 e2 [<-|H1] H2; [apply Hf; exact H2 | apply (Hlt e1 e2 H1); right; exact H2].
Qed.

Lemma commit_all_lastn : forall l p C, 0 <= p_n p ->
  p_live p = lastn (Z.to_nat (p_n p)) C -> p_deletable p ++ p_live p = C ->
  p_live (commit_all l p) = lastn (Z.to_nat (p_n p)) (C ++ map fst l) /\
  p_deletable (commit_all l p) ++ p_live (commit_all l p) = C ++ map fst l.
Proof.
  induction l as [|[e segs] t IH]; intros p C Hn Hl Hc; simpl.
  - rewrite app_nil_r. auto.
  - unfold commit_all. simpl. fold (commit_all t (pol_commit p e (map fst segs))).
    destruct (pol_commit_spec_proof p e (map fst segs) Hn) as [C1 [C2 [_ [_ [_ [C6 _]]]]]].
    replace (C ++ e :: map fst t) with ((C ++ [e]) ++ map fst t) by (rewrite <- app_assoc; reflexivity).
    rewrite <- C1. apply IH.
    + rewrite C1. exact Hn.
    + rewrite C1, C2, Hl. apply lastn_snoc.
    + rewrite C6, <- Hc, <- app_assoc. reflexivity.
Qed.

Lemma commit_all_live_len : forall l p, 0 <= p_n p -> (length (p_live p) <= Z.to_nat (p_n p))%nat ->
  length (p_live (commit_all l p)) = Nat.min (length (p_live p) + length l) (Z.to_nat (p_n p)).
Proof.
  induction l as [|[e segs] t IH]; intros p Hn Hl; simpl.
  - lia.
  - unfold commit_all. simpl. fold (commit_all t (pol_commit p e (map fst segs))).
    destruct (pol_commit_spec_proof p e (map fst segs) Hn) as [C1 [_ [_ [_ [_ [_ C7]]]]]].
    rewrite IH; rewrite ?C1, ?C7; lia.
Qed.

Lemma sorted_nodup_sinc : forall {A} (l : list (Z * A)), StronglySorted le_fst l -> NoDup (map fst l) -> sinc (map fst l).
Proof.
  intros A l H. induction H as [|x t Ht IH Hx]; intro Hn; simpl; [constructor|].
  inversion Hn as [|a b Ha Hb]; subst. constructor; [apply IH; exact Hb|].
  apply Forall_forall. intros z Hz. apply in_map_iff in Hz. destruct Hz as [y [<- Hy]].
  rewrite Forall_forall in Hx. specialize (Hx y Hy). unfold le_fst in Hx.
  assert (fst y <> fst x) by (intro Heq; apply Ha; rewrite <- Heq; apply in_map; exact Hy). lia.
Qed.

Lemma oks_perm : forall table im l l', Permutation l l' -> Permutation (oks table im l) (oks table im l').
Proof.
  intros table im l l' H. induction H as [|x l l' H IH|x y l|l l' l'' H1 IH1 H2 IH2]; simpl.
  - constructor.
  - destruct (lo table im x); [apply perm_skip|..]; exact IH.
  - destruct (lo table im x), (lo table im y); try apply Permutation_refl. apply perm_swap.
  - eapply perm_trans; eassumption.
Qed.

Section Start.
Variable table : list (list Z).
Variable d : disk.
Hypothesis DK : disk_ok table d.

Let im := crash_image d [].

Lemma start_image : im = {| im_snp := map (fun ef => (fst ef, sf_bytes (snd ef), Some (sf_segs (snd ef)))) (d_snp d)
                                      ++ map (fun ef => (fst ef, snd ef, None)) (d_junk_snp d);
                            im_seg := d_seg d ++ d_junk_seg d; im_seg_torn := [] |}.
Proof. unfold im, crash_image. rewrite (dk_fly table d DK). reflexivity. Qed.

Lemma start_nc : no_collision table (d_fly d) [] = true.
Proof. rewrite (dk_fly table d DK). reflexivity. Qed.

Definition snap_segs (d : disk) : list (Z * list (Z * list Z)) := map (fun ef => (fst ef, sf_segs (snd ef))) (d_snp d).

Lemma start_oks_complete : forall l, (forall x, In x l -> In x (d_snp d)) ->
  oks table im (map reshape (map (fun ef => (fst ef, sf_bytes (snd ef), Some (sf_segs (snd ef)))) l)) =
  map (fun ef => (fst ef, sf_segs (snd ef))) l.
Proof.
  induction l as [|[e f] t IH]; intro H; simpl; [reflexivity|].
  unfold lo. simpl.
  pose proof (crash_complete_loads table d (disk_ok_files table d DK) [] e f (H (e, f) (or_introl eq_refl))) as Hc.
  fold im in Hc. rewrite Hc.
  rewrite IH; [reflexivity|]. intros x Hx. apply H. right. exact Hx.
Qed.

Lemma start_oks_junk : forall l, (forall x, In x l -> In x (d_junk_snp d)) ->
  oks table im (map reshape (map (fun ef => (fst ef, snd ef, None)) l)) = [].
Proof.
  induction l as [|[e b] t IH]; intro H; simpl; [reflexivity|].
  unfold lo. simpl. rewrite load_one_fail by (apply (dk_junk table d DK e b); apply H; left; reflexivity).
  apply IH. intros x Hx. apply H. right. exact Hx.
Qed.

Lemma start_oks_perm : Permutation (oks table im (files_of im)) (snap_segs d).
Proof.
  eapply perm_trans; [apply oks_perm; apply Permutation_sym; apply sort_epoch_perm|].
  rewrite start_image. cbn [im_snp]. rewrite map_app, oks_app.
  rewrite <- start_image.
  rewrite start_oks_complete by auto. rewrite start_oks_junk by auto. rewrite app_nil_r. apply Permutation_refl.
Qed.

Lemma snap_segs_ids : forall d0, map idsof (snap_segs d0) = snap_ids d0.
Proof. intro d0. unfold snap_segs, snap_ids. rewrite map_map. reflexivity. Qed.

Lemma snap_segs_keys : forall d0, map fst (snap_segs d0) = map fst (d_snp d0).
Proof. intro d0. unfold snap_segs. rewrite map_map. reflexivity. Qed.

(* the policy after the Commit of every snapshot of the directory, oldest first *)
Lemma start_pol_ok : forall n, 1 <= n ->
  let p := commit_all (oks table im (files_of im)) (pol_init n) in
  pol_ok p (snap_ids d) /\ p_n p = n /\
  length (p_live p) = Nat.min (length (d_snp d)) (Z.to_nat n) /\
  p_live p = lastn (Z.to_nat n) (p_deletable p ++ p_live p).
Proof.
  intros n Hn p. pose proof start_oks_perm as HP.
  assert (Hkeys : Permutation (map fst (oks table im (files_of im))) (map fst (d_snp d))).
  { rewrite <- snap_segs_keys. apply Permutation_map. exact HP. }
  assert (Hsinc : sinc (map fst (oks table im (files_of im)))).
  { apply sorted_nodup_sinc; [apply oks_sorted; apply sort_epoch_sorted|].
    apply (Permutation_NoDup (Permutation_sym Hkeys)). apply (dk_nodup table d DK). }
  split; [|split; [|split]].
  - apply (pol_ok_perm p (rev (map idsof (oks table im (files_of im))) ++ [])).
    + rewrite app_nil_r. eapply perm_trans; [apply Permutation_sym; apply Permutation_rev|].
      rewrite <- snap_segs_ids. apply Permutation_map. exact HP.
    + apply commit_all_ok; [apply pol_ok_init; exact Hn | exact Hsinc | intros e e' []].
  - unfold p. rewrite commit_all_n. reflexivity.
  - unfold p. rewrite commit_all_live_len; simpl; try lia.
    rewrite (Permutation_length HP). unfold snap_segs. rewrite map_length. reflexivity.
  - destruct (commit_all_lastn (oks table im (files_of im)) (pol_init n) []) as [L1 L2]; simpl; try lia; try reflexivity.
    fold p in L1, L2. simpl in L1, L2. rewrite L2. exact L1.
Qed.

End Start.

Theorem start_ok_pinv : forall table n st0, start_ok table n st0 ->
  pinv table st0 /\ p_n (ps_pol st0) = n /\
  length (p_live (ps_pol st0)) = Nat.min (length (d_snp (ps_disk st0))) (Z.to_nat n) /\
  p_live (ps_pol st0) = lastn (Z.to_nat n) (p_deletable (ps_pol st0) ++ p_live (ps_pol st0)).
Proof.
  intros table n st0 [Hn [Ht [Hb [Hsafe [DK [Hgrab Hcase]]]]]].
  pose proof (disk_ok_files table _ DK) as HF.
  assert (Hpol : pol_ok (ps_pol st0) (snap_ids (ps_disk st0)) /\ p_n (ps_pol st0) = n /\
                 length (p_live (ps_pol st0)) = Nat.min (length (d_snp (ps_disk st0))) (Z.to_nat n) /\
                 p_live (ps_pol st0) = lastn (Z.to_nat n) (p_deletable (ps_pol st0) ++ p_live (ps_pol st0))).
  { destruct Hcase as [[Hnil [_ Hp]]|[r [Hr [Hp _]]]].
    - rewrite Hp. unfold snap_ids. rewrite Hnil. simpl. split; [apply pol_ok_init; exact Hn | auto].
    - destruct (crash_recover_writer table _ HF [] (start_nc table _ DK) n) as [_ [Hw _]].
      destruct (Hw r Hr) as [_ [_ Hrp]]. rewrite Hp, Hrp. apply (start_pol_ok table _ DK n Hn). }
  destruct Hpol as [Hpok [Hpn [Hplen Hplast]]]. split; [|split; [|split]; assumption].
  split.
  - destruct DK as [K1 K2 K3 K4 K5]. constructor; try assumption; rewrite ?K1; simpl; try lia; intros; contradiction.
  - constructor.
    + rewrite Ht. apply inv_init.
    + destruct Hcase as [[_ [-> _]]|[r [_ [_ ->]]]]; [constructor; constructor | constructor].
    + destruct Hcase as [[_ [-> _]]|[r [_ [_ ->]]]]; rewrite Ht; unfold n_intro; rewrite ?Ht; simpl; auto.
    + intros e f Hin. destruct Hcase as [[Hnil _]|[r [_ [_ ->]]]]; [rewrite Hnil in Hin; destruct Hin|].
      simpl. intros e' n' [].
    + intros f Hin. rewrite (dk_fly table _ DK) in Hin. destruct Hin.
    + intros Hne Hne'. destruct Hcase as [[Hnil _]|[r [_ [_ Hen]]]]; contradiction.
    + rewrite Hsafe. intros k [].
    + rewrite Hsafe. constructor.
Qed.

(* every state of an accepted run from a well-formed start satisfies the invariant *)
Theorem run_pinv : forall table n st0 evs st,
  start_ok table n st0 -> paccept_run table st0 evs = Some st -> pinv table st.
Proof.
  intros table n st0 evs st Hs H. apply (pinv_run table evs st0 st); [apply (start_ok_pinv table n st0 Hs) | exact H].
Qed.

(* ================================================================== *)
(* 4. the tie to the correspondence cases (Index/ProtoCorr.v)            *)
(* ================================================================== *)

(* disk_okb (the boolean form of disk_ok, evaluated on the start directory of every recorded case) is
   defined in Index/Proto.v so that the correspondence module does not depend on this proof file *)

Lemma disk_okb_ok : forall table d, disk_okb table d = true -> disk_ok table d.
Proof.
  intros table d H. unfold disk_okb in H.
  apply andb_true_iff in H. destruct H as [H H4]. apply andb_true_iff in H. destruct H as [H H3].
  apply andb_true_iff in H. destruct H as [H1 H2].
  rewrite forallb_forall in H3, H4. constructor.
  - destruct (d_fly d); [reflexivity | discriminate].
  - apply ModelProofsMerge.nodupZ_NoDup. exact H2.
  - intros e f Hin. specialize (H3 _ Hin). simpl in H3. apply andb_true_iff in H3. destruct H3 as [H3 _].
    destruct (loaded_ids table (sf_bytes f)) as [ids|]; [|discriminate]. apply list_eqbZ_eq in H3. subst. reflexivity.
  - intros e f s Hin Hs. specialize (H3 _ Hin). simpl in H3. apply andb_true_iff in H3. destruct H3 as [_ H3].
    rewrite forallb_forall in H3. apply in_map_iff in Hs. destruct Hs as [x [<- Hx]]. apply zmem_In. apply H3. exact Hx.
  - intros e b Hin. specialize (H4 _ Hin). simpl in H4. apply negb_true_iff. exact H4.
Qed.
