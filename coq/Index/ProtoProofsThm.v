(* Index/ProtoProofsThm.v — the theorems about every run the protocol monitor accepts
   (Props/C02.v, C03.v, C11.v, C14.v quote them).  A run is
       start_ok table n st0  /\  paccept_run table st0 evs = Some st
   (Index/ProtoProofsRec.v: start_ok; Index/ProtoProofsInv.v: the invariant pinv). *)
From Coq Require Import ZArith List Bool Lia Permutation Sorted.
From Coq Require Import ZifyBool.
From Bluge Require Import Base.Res Base.Corr Index.Model Index.ModelProofs Index.Trace Index.TraceProofs
  Index.Proto Index.ProtoProofsPol Index.ProtoProofsInv Index.ProtoProofsRec.
Import ListNotations.
Open Scope Z_scope.

Local Arguments load_one : simpl never.

(* ================================================================== *)
(* runs                                                                  *)
(* ================================================================== *)

Lemma run_split : forall table evs1 ev evs2 st0 st,
  paccept_run table st0 (evs1 ++ ev :: evs2) = Some st ->
  exists st1 st1', paccept_run table st0 evs1 = Some st1 /\ paccept_ev table st1 ev = Some st1' /\
                   paccept_run table st1' evs2 = Some st.
Proof.
  intros table evs1 ev evs2 st0 st H. apply paccept_run_app in H. destruct H as [st1 [H1 H2]].
  simpl in H2. destruct (paccept_ev table st1 ev) as [st1'|] eqn:E; [|discriminate].
  exists st1, st1'. auto.
Qed.

Lemma run_prefix : forall table evs1 evs2 st0 st,
  paccept_run table st0 (evs1 ++ evs2) = Some st -> exists st1, paccept_run table st0 evs1 = Some st1.
Proof. intros table evs1 evs2 st0 st H. apply paccept_run_app in H. destruct H as [st1 [H1 _]]. exists st1. exact H1. Qed.

(* the epochs committed to the policy during a run *)
Fixpoint commits_of (evs : list pevent) : list Z :=
  match evs with
  | [] => []
  | PPersistOk true e :: t => e :: commits_of t
  | _ :: t => commits_of t
  end.

Lemma commits_of_app : forall a b, commits_of (a ++ b) = commits_of a ++ commits_of b.
Proof.
  induction a as [|e t IH]; intro b; simpl; [reflexivity|].
  destruct e; try apply IH. destruct snp; [simpl; rewrite IH; reflexivity | apply IH].
Qed.

(* events that are neither a root event, nor a snapshot commit, nor a snapshot removal leave the
   history, the epochs and the complete snapshot files alone *)
Definition plain (ev : pevent) : Prop :=
  match ev with PI _ | PPersistOk true _ | PRemoveOk true _ => False | _ => True end.

Lemma plain_frame : forall table st ev st', plain ev -> paccept_ev table st ev = Some st' ->
  ps_t st' = ps_t st /\ ps_epoch_n st' = ps_epoch_n st /\ ps_segdocs st' = ps_segdocs st /\
  ps_base st' = ps_base st /\ d_snp (ps_disk st') = d_snp (ps_disk st) /\
  p_live (ps_pol st') = p_live (ps_pol st) /\ p_n (ps_pol st') = p_n (ps_pol st) /\
  p_deletable (ps_pol st') = p_deletable (ps_pol st).
Proof.
  intros table st ev st' Hp H.
  destruct ev as [e|k|epoch nacks|snp id bytes segs|snp id|snp id|snp id|snp id|k ok|]; simpl in Hp; try contradiction.
  - apply pacc_safe in H. destruct H as [_ [_ [_ ->]]]. simpl. repeat split.
  - apply pacc_grab in H. destruct H as [_ [_ ->]]. simpl. repeat split.
  - destruct snp.
    + destruct (pacc_start_snp table st id bytes segs st' H) as [n [c [_ [_ [_ [_ [_ [_ [_ [_ ->]]]]]]]]]]. simpl. repeat split.
    + destruct (pacc_start_seg table st id bytes segs st' H) as [_ [_ [_ ->]]]. simpl. repeat split.
  - destruct snp; [contradiction|]. destruct (pacc_ok_seg table st id st' H) as [_ ->]. simpl. repeat split.
  - rewrite (pacc_err table st snp id st' H). simpl. repeat split.
  - destruct snp; [contradiction|]. destruct (pacc_rm_seg table st id st' H) as [_ [_ ->]]. simpl. repeat split.
  - rewrite (pacc_rmerr table st snp id st' H). simpl. repeat split.
  - destruct ok.
    + destruct (pacc_ack_ok table st k st' H) as [pos [_ [_ ->]]]. simpl. repeat split.
    + destruct (pacc_ack_err table st k st' H) as [_ ->]. repeat split.
  - rewrite (pacc_fault table st st' H). simpl. repeat split.
Qed.

Lemma event_cases : forall ev, plain ev \/ (exists e, ev = PI e) \/ (exists e, ev = PPersistOk true e) \/
                               (exists e, ev = PRemoveOk true e).
Proof.
  intro ev. destruct ev as [e|k|epoch nacks|snp id bytes segs|snp id|snp id|snp id|snp id|k ok|]; simpl; auto.
  - right. left. exists e. reflexivity.
  - destruct snp; [right; right; left; exists id; reflexivity | left; exact I].
  - destruct snp; [right; right; right; exists id; reflexivity | left; exact I].
Qed.

(* ================================================================== *)
(* C11.11  policy_inv,  C11.9  retention                                 *)
(* ================================================================== *)

(* how the window of live epochs moves along a run *)
Lemma live_step : forall table st ev st' C,
  0 <= p_n (ps_pol st) ->
  p_live (ps_pol st) = lastn (Z.to_nat (p_n (ps_pol st))) C ->
  paccept_ev table st ev = Some st' ->
  p_n (ps_pol st') = p_n (ps_pol st) /\
  p_live (ps_pol st') = lastn (Z.to_nat (p_n (ps_pol st))) (C ++ commits_of [ev]) /\
  length (p_live (ps_pol st')) =
    Nat.min (length (p_live (ps_pol st)) + length (commits_of [ev])) (Z.to_nat (p_n (ps_pol st))).
Proof.
  intros table st ev st' C Hn Hl H.
  assert (Hlen : (length (p_live (ps_pol st)) <= Z.to_nat (p_n (ps_pol st)))%nat) by (rewrite Hl, lastn_length; lia).
  destruct (event_cases ev) as [Hp|[[e ->]|[[e ->]|[e ->]]]].
  - destruct (plain_frame table st ev st' Hp H) as [_ [_ [_ [_ [_ [F1 [F2 _]]]]]]].
    assert (Hc : commits_of [ev] = []).
    { destruct ev as [e|k|epoch nacks|snp id bytes segs|snp id|snp id|snp id|snp id|k ok|]; try reflexivity.
      destruct snp; [contradiction | reflexivity]. }
    rewrite Hc, app_nil_r, F1, F2. simpl. repeat split; [exact Hl | lia].
  - destruct (pacc_PI table st e st' H) as [t' [_ [_ [_ [Hp _]]]]]. simpl. rewrite app_nil_r, Hp.
    repeat split; [exact Hl | lia].
  - destruct (pacc_ok_snp table st e st' H) as [f [_ [_ [_ [_ [Hp _]]]]]]. rewrite Hp.
    destruct (pol_commit_spec_proof (ps_pol st) e (map fst (if_segs f)) Hn) as [C1 [C2 [_ [_ [_ [_ C7]]]]]].
    simpl. repeat split; [exact C1 | rewrite C2, Hl; apply lastn_snoc | rewrite C7; lia].
  - destruct (pacc_rm_snp table st e st' H) as [_ ->]. simpl. rewrite app_nil_r. repeat split; [exact Hl | lia].
Qed.

Lemma live_run : forall table evs st st' C,
  0 <= p_n (ps_pol st) ->
  p_live (ps_pol st) = lastn (Z.to_nat (p_n (ps_pol st))) C ->
  paccept_run table st evs = Some st' ->
  p_n (ps_pol st') = p_n (ps_pol st) /\
  p_live (ps_pol st') = lastn (Z.to_nat (p_n (ps_pol st))) (C ++ commits_of evs) /\
  length (p_live (ps_pol st')) =
    Nat.min (length (p_live (ps_pol st)) + length (commits_of evs)) (Z.to_nat (p_n (ps_pol st))).
Proof.
  intros table evs. induction evs as [|ev t IH]; intros st st' C Hn Hl H; simpl in H.
  - injection H as <-. simpl. rewrite app_nil_r. repeat split; [exact Hl|]. rewrite Hl, lastn_length. lia.
  - destruct (paccept_ev table st ev) as [s1|] eqn:E; [|discriminate].
    destruct (live_step table st ev s1 C Hn Hl E) as [S1 [S2 S3]].
    rewrite <- S1 in S2. destruct (IH s1 st' (C ++ commits_of [ev]) ltac:(lia) S2 H) as [R1 [R2 R3]].
    change (ev :: t) with ([ev] ++ t). rewrite commits_of_app, app_length, app_assoc.
    split; [lia|]. split; [rewrite R2, S1; reflexivity|]. rewrite R3, S1, S3. lia.
Qed.

Section Run.
Variable table : list (list Z).
Variable n : Z.
Variable st0 : pstate.
Hypothesis Hstart : start_ok table n st0.

(* every epoch committed so far: those loaded when the writer was opened, then those of this run *)
Definition all_commits (evs : list pevent) : list Z :=
  p_deletable (ps_pol st0) ++ p_live (ps_pol st0) ++ commits_of evs.

Theorem policy_inv_proof : forall evs st, paccept_run table st0 evs = Some st ->
  let p := ps_pol st in
  p_n p = n /\
  (forall e segs s, In (e, segs) (p_livesegs p) -> In s segs -> In s (p_known p)) /\
  (forall e, In e (map fst (p_livesegs p)) <-> In e (p_live p) \/ In e (p_deletable p)) /\
  (forall e, In e (map fst (d_snp (ps_disk st))) <-> In e (p_live p) \/ In e (p_deletable p)) /\
  (forall e f, In (e, f) (d_snp (ps_disk st)) -> lookup e (p_livesegs p) = Some (map fst (sf_segs f))) /\
  StronglySorted Z.lt (p_deletable p ++ p_live p) /\
  Z.of_nat (length (p_live p)) <= n /\
  p_live p = lastn (Z.to_nat n) (all_commits evs) /\
  length (p_live p) = Nat.min (length (d_snp (ps_disk st0)) + length (commits_of evs)) (Z.to_nat n).
Proof.
  intros evs st H p. subst p.
  destruct (start_ok_pinv table n st0 Hstart) as [Hinv0 [Hn0 [Hlen0 Hlast0]]].
  pose proof (pinv_run table evs st0 st Hinv0 H) as [HD _]. pose proof (di_pol table _ _ HD) as Hok.
  assert (Hn1 : 1 <= n) by (destruct Hstart; assumption).
  rewrite <- Hn0 in Hlast0.
  destruct (live_run table evs st0 st _ ltac:(lia) Hlast0 H) as [R1 [R2 R3]].
  assert (Hor : forall e, In e (p_deletable (ps_pol st) ++ p_live (ps_pol st)) <->
                          In e (p_live (ps_pol st)) \/ In e (p_deletable (ps_pol st)))
    by (intro e; rewrite in_app_iff; tauto).
  split; [lia|]. split; [apply (po_known _ _ Hok)|]. split; [intro e; rewrite (po_keys _ _ Hok); apply Hor|].
  split; [intro e; rewrite <- snap_ids_keys, (po_disk _ _ Hok); apply Hor|].
  split; [intros e f Hin; apply (po_segs _ _ Hok); apply snap_ids_In; exact Hin|].
  split; [apply (po_sorted _ _ Hok)|]. split; [pose proof (po_len _ _ Hok); lia|].
  split.
  - rewrite R2, Hn0. unfold all_commits. rewrite <- app_assoc. reflexivity.
  - rewrite R3, Hlen0, Hn0.
    pose proof (Nat.le_min_r (length (d_snp (ps_disk st0))) (Z.to_nat n)). lia.
Qed.

(* C11.9: at least min(N, c) complete snapshot files, each loadable with all its segment files *)
Theorem retention_proof : forall evs st, paccept_run table st0 evs = Some st ->
  let d := ps_disk st in
  let c := (length (d_snp (ps_disk st0)) + length (commits_of evs))%nat in
  (Nat.min (Z.to_nat n) c <= length (d_snp d))%nat /\
  NoDup (map fst (d_snp d)) /\
  (forall e, In e (p_live (ps_pol st)) -> In e (map fst (d_snp d))) /\
  length (p_live (ps_pol st)) = Nat.min (Z.to_nat n) c /\
  (forall e f, In (e, f) (d_snp d) ->
     loaded_ids table (sf_bytes f) = Some (map fst (sf_segs f)) /\
     (forall s, In s (map fst (sf_segs f)) -> In s (d_seg d)) /\
     (forall choice, no_collision table (d_fly d) choice = true ->
        load_one table (crash_image d choice) (e, sf_bytes f, Some (sf_segs f)) = LOk (sf_segs f))).
Proof.
  intros evs st H d c. subst d c.
  destruct (start_ok_pinv table n st0 Hstart) as [Hinv0 _].
  pose proof (pinv_run table evs st0 st Hinv0 H) as [HD _]. pose proof (di_pol table _ _ HD) as Hok.
  destruct (policy_inv_proof evs st H) as [_ [_ [_ [Hdisk [_ [Hsort [_ [_ Hlen]]]]]]]].
  assert (Hlive : forall e, In e (p_live (ps_pol st)) -> In e (map fst (d_snp (ps_disk st)))).
  { intros e He. apply Hdisk. left. exact He. }
  assert (Hnd : NoDup (p_live (ps_pol st))).
  { destruct (sinc_app_inv _ _ Hsort) as [_ [S2 _]]. apply sinc_NoDup. exact S2. }
  split; [|split; [|split; [|split]]].
  - pose proof (NoDup_incl_length Hnd Hlive) as Hle. rewrite map_length in Hle. lia.
  - apply (disk_inv_nodup table _ _ HD).
  - exact Hlive.
  - lia.
  - intros e f Hin. split; [apply (di_snp_loads table _ _ HD e f Hin)|]. split.
    + intros s Hs. apply (di_snp_segs table _ _ HD e f s Hin Hs).
    + intros choice NC. apply (crash_complete_loads table _ (disk_inv_files table _ _ HD) choice e f Hin).
Qed.

(* once a snapshot was completed, there is always one *)
Lemma snapshot_never_lost : forall evs st, paccept_run table st0 evs = Some st ->
  d_snp (ps_disk st0) <> [] \/ commits_of evs <> [] -> d_snp (ps_disk st) <> [].
Proof.
  intros evs st H Hc. destruct (retention_proof evs st H) as [Hle _].
  assert (Hn1 : 1 <= n) by (destruct Hstart; assumption).
  intro Hnil. rewrite Hnil in Hle. simpl in Hle.
  destruct Hc as [Hc|Hc]; [destruct (d_snp (ps_disk st0)); [contradiction | simpl in Hle; lia]|].
  destruct (commits_of evs); [contradiction | simpl in Hle; lia].
Qed.

(* ================================================================== *)
(* C11.10  no_needed_removal                                             *)
(* ================================================================== *)

Theorem no_needed_removal_seg_proof : forall evs1 id evs2 st,
  paccept_run table st0 (evs1 ++ PRemoveOk false id :: evs2) = Some st ->
  exists st1, paccept_run table st0 evs1 = Some st1 /\
    (forall e f, In (e, f) (d_snp (ps_disk st1)) -> ~ In id (map fst (sf_segs f))) /\
    (forall f, In f (d_fly (ps_disk st1)) -> if_snp f = true -> ~ In id (map fst (if_segs f))).
Proof.
  intros evs1 id evs2 st H. destruct (run_split _ _ _ _ _ _ H) as [st1 [st1' [H1 [H2 _]]]].
  exists st1. split; [exact H1|].
  pose proof (run_pinv table n st0 evs1 st1 Hstart H1) as [HD _].
  destruct (pacc_rm_seg table st1 id st1' H2) as [Hm [Hfly _]]. split; [|exact Hfly].
  intros e f Hin. apply (may_remove_seg_not_named _ _ id e _ (di_pol table _ _ HD) Hm). apply snap_ids_In. exact Hin.
Qed.

Theorem no_needed_removal_snp_proof : forall evs1 e evs2 st,
  paccept_run table st0 (evs1 ++ PRemoveOk true e :: evs2) = Some st ->
  exists st1, paccept_run table st0 evs1 = Some st1 /\
    let p := ps_pol st1 in
    In e (p_deletable p) /\ ~ In e (p_live p) /\
    p_live p = lastn (Z.to_nat n) (all_commits evs1) /\
    (exists e', In e' (p_live p) /\ e < e' /\ In e' (map fst (d_snp (ps_disk st1)))) /\
    (forall e', In e' (p_live p) -> e < e').
Proof.
  intros evs1 e evs2 st H. destruct (run_split _ _ _ _ _ _ H) as [st1 [st1' [H1 [H2 _]]]].
  exists st1. split; [exact H1|]. intro p. subst p.
  pose proof (run_pinv table n st0 evs1 st1 Hstart H1) as [HD _]. pose proof (di_pol table _ _ HD) as Hok.
  destruct (pacc_rm_snp table st1 e st1' H2) as [Hdel _].
  destruct (policy_inv_proof evs1 st1 H1) as [_ [_ [_ [_ [_ [_ [_ [Hlast _]]]]]]]].
  assert (Hold : forall e', In e' (p_live (ps_pol st1)) -> e < e') by (intros e' He'; apply (pol_ok_deletable_older _ _ e e' Hok Hdel He')).
  split; [exact Hdel|]. split; [intro Hin; specialize (Hold e Hin); lia|]. split; [exact Hlast|]. split; [|exact Hold].
  destruct (pol_ok_newest_live _ _ e Hok Hdel) as [e' [A [B C]]]. exists e'. rewrite snap_ids_keys in C. auto.
Qed.

End Run.

(* the same for one step, with the hypothesis that the policy was told about every snapshot on disk *)
Definition policy_told (st : pstate) : Prop :=
  forall e f, In (e, f) (d_snp (ps_disk st)) -> exists ids, In (e, ids) (p_livesegs (ps_pol st)) /\ ids = map fst (sf_segs f).

Theorem no_needed_removal_step_proof : forall table st id st',
  policy_told st -> paccept_ev table st (PRemoveOk false id) = Some st' ->
  (forall e f, In (e, f) (d_snp (ps_disk st)) -> ~ In id (map fst (sf_segs f))) /\
  (forall f, In f (d_fly (ps_disk st)) -> if_snp f = true -> ~ In id (map fst (if_segs f))) /\
  d_snp (ps_disk st') = d_snp (ps_disk st) /\
  (forall s, In s (d_seg (ps_disk st')) <-> In s (d_seg (ps_disk st)) /\ s <> id).
Proof.
  intros table st id st' Htold H. destruct (pacc_rm_seg table st id st' H) as [Hm [Hfly ->]].
  destruct (may_remove_seg_spec _ _ Hm) as [_ Hfree].
  split; [|split; [exact Hfly|split; [reflexivity|]]].
  - intros e f Hin. destruct (Htold e f Hin) as [ids [Hi ->]]. apply (Hfree e _ Hi).
  - intro s. simpl. apply zremove_In.
Qed.

(* ================================================================== *)
(* C14.13  fault_contained,  C14.16  ack_error_only_after_fault          *)
(* ================================================================== *)

Definition fault_event (ev : pevent) : Prop :=
  match ev with PPersistErr _ _ | PRemoveErr _ _ | PFault => True | _ => False end.

Theorem fault_contained_proof : forall table st ev st', fault_event ev -> paccept_ev table st ev = Some st' ->
  ps_t st' = ps_t st /\                                   (* root, abstract index, batches: readers unaffected *)
  d_snp (ps_disk st') = d_snp (ps_disk st) /\ d_seg (ps_disk st') = d_seg (ps_disk st) /\
  ps_pol st' = ps_pol st /\ ps_epoch_n st' = ps_epoch_n st /\ ps_base st' = ps_base st /\
  ps_faulted st' = true /\
  match ev with
  | PPersistErr snp id =>
      (forall f, In f (d_fly (ps_disk st')) <-> In f (d_fly (ps_disk st)) /\ ~ (if_snp f = snp /\ if_id f = id))
  | _ => d_fly (ps_disk st') = d_fly (ps_disk st)
  end.
Proof.
  intros table st ev st' Hf H. destruct ev; simpl in Hf; try contradiction.
  - rewrite (pacc_err table st snp id st' H). simpl.
    split; [reflexivity|]. split; [reflexivity|]. split; [reflexivity|]. split; [reflexivity|].
    split; [reflexivity|]. split; [reflexivity|]. split; [reflexivity|].
    intro f. apply fly_remove_In.
  - rewrite (pacc_rmerr table st snp id st' H). simpl. repeat split.
  - rewrite (pacc_fault table st st' H). simpl. repeat split.
Qed.

(* no_partial_item: after a failed Persist nothing of that name is in flight; if the write had started,
   nothing of that name is complete either *)
Theorem no_partial_item_proof : forall table st snp id st',
  pinv table st -> paccept_ev table st (PPersistErr snp id) = Some st' ->
  (forall f, In f (d_fly (ps_disk st')) -> ~ (if_snp f = snp /\ if_id f = id)) /\
  ((exists f, In f (d_fly (ps_disk st)) /\ if_snp f = snp /\ if_id f = id) ->
     if snp then ~ In id (map fst (d_snp (ps_disk st'))) else ~ In id (d_seg (ps_disk st'))).
Proof.
  intros table st snp id st' [HD _] H. rewrite (pacc_err table st snp id st' H). simpl. split.
  - intros f Hf. apply fly_remove_In in Hf. tauto.
  - intros [f [Hf [Hs Hid]]]. destruct snp.
    + intro Hin. pose proof (di_fly_new table _ _ HD f id Hf Hs Hin). lia.
    + rewrite <- Hid. apply (di_fly_seg table _ _ HD f Hf Hs).
Qed.

Theorem ack_error_only_after_fault_proof : forall table st k st',
  paccept_ev table st (PAck k false) = Some st' -> ps_faulted st = true /\ st' = st.
Proof. intros table st k st' H. apply (pacc_ack_err table st k st' H). Qed.

(* an error acknowledgement in a run: some fault event came before it *)
Lemma faulted_origin : forall table evs st st', paccept_run table st evs = Some st' ->
  ps_faulted st' = true -> ps_faulted st = true \/ exists ev, In ev evs /\ fault_event ev.
Proof.
  intros table evs. induction evs as [|ev t IH]; intros st st' H Hf; simpl in H.
  - injection H as <-. left. exact Hf.
  - destruct (paccept_ev table st ev) as [s1|] eqn:E; [|discriminate].
    destruct (IH s1 st' H Hf) as [Hs1|[ev' [Hin Hfe]]]; [|right; exists ev'; split; [right; exact Hin | exact Hfe]].
    destruct ev as [e|k|epoch nacks|snp id bytes segs|snp id|snp id|snp id|snp id|k ok|];
      try (right; eexists; split; [left; reflexivity | exact I]); left.
    + destruct (pacc_PI table st e s1 E) as [t' [_ [_ [_ [_ [_ [_ [F _]]]]]]]]. congruence.
    + apply pacc_safe in E. destruct E as [_ [_ [_ ->]]]. exact Hs1.
    + apply pacc_grab in E. destruct E as [_ [_ ->]]. exact Hs1.
    + destruct snp.
      * destruct (pacc_start_snp table st id bytes segs s1 E) as [n0 [c [_ [_ [_ [_ [_ [_ [_ [_ ->]]]]]]]]]]. exact Hs1.
      * destruct (pacc_start_seg table st id bytes segs s1 E) as [_ [_ [_ ->]]]. exact Hs1.
    + destruct snp.
      * destruct (pacc_ok_snp table st id s1 E) as [f [_ [_ [_ [_ [_ [_ [_ [_ [_ [_ [_ F]]]]]]]]]]]]. congruence.
      * destruct (pacc_ok_seg table st id s1 E) as [_ ->]. exact Hs1.
    + destruct snp.
      * destruct (pacc_rm_snp table st id s1 E) as [_ ->]. exact Hs1.
      * destruct (pacc_rm_seg table st id s1 E) as [_ [_ ->]]. exact Hs1.
    + destruct ok.
      * destruct (pacc_ack_ok table st k s1 E) as [pos [_ [_ ->]]]. exact Hs1.
      * destruct (pacc_ack_err table st k s1 E) as [_ ->]. exact Hs1.
Qed.

Theorem ack_error_run_proof : forall table evs1 k evs2 st0 st,
  ps_faulted st0 = false -> paccept_run table st0 (evs1 ++ PAck k false :: evs2) = Some st ->
  exists ev, In ev evs1 /\ fault_event ev.
Proof.
  intros table evs1 k evs2 st0 st Hf0 H. destruct (run_split _ _ _ _ _ _ H) as [st1 [st1' [H1 [H2 _]]]].
  destruct (pacc_ack_err table st1 k st1' H2) as [Hf _].
  destruct (faulted_origin table evs1 st0 st1 H1 Hf) as [C|C]; [congruence | exact C].
Qed.

(* ================================================================== *)
(* C02.1  ack_after_snapshot_complete                                    *)
(* ================================================================== *)

(* a complete snapshot file written in this run contains the batch at position pos *)
Definition durable (st : pstate) (pos : nat) : Prop :=
  exists e f n, In (e, f) (d_snp (ps_disk st)) /\ lookup e (ps_epoch_n st) = Some n /\ (pos < n)%nat.

Lemma covered_durable : forall st pos, covered st pos = true <-> durable st pos.
Proof.
  intros st pos. unfold covered, durable. rewrite existsb_exists. split.
  - intros [[e f] [Hin Hc]]. simpl in Hc. destruct (lookup e (ps_epoch_n st)) as [n|] eqn:L; [|discriminate].
    exists e, f, n. repeat split; try assumption. apply Nat.ltb_lt. exact Hc.
  - intros [e [f [n [Hin [L Hlt]]]]]. exists (e, f). split; [exact Hin|]. simpl. rewrite L. apply Nat.ltb_lt. exact Hlt.
Qed.

Theorem ack_after_snapshot_complete_proof : forall table st k st',
  pinv table st -> paccept_ev table st (PAck k true) = Some st' ->
  exists pos e f n,
    pos_of k (t_keys (ps_t st)) = Some pos /\
    In (e, f) (d_snp (ps_disk st)) /\ lookup e (ps_epoch_n st) = Some n /\ (pos < n <= n_intro st)%nat /\
    loaded_ids table (sf_bytes f) = Some (map fst (sf_segs f)) /\
    (forall s, In s (map fst (sf_segs f)) -> In s (d_seg (ps_disk st))) /\
    (exists c, segs_content (ps_segdocs st) (sf_segs f) = Some c /\ same_docs c (content_at st n) = true).
Proof.
  intros table st k st' [HD HR] H. destruct (pacc_ack_ok table st k st' H) as [pos [Hp [Hc _]]].
  apply covered_durable in Hc. destruct Hc as [e [f [n [Hin [L Hlt]]]]].
  exists pos, e, f, n. split; [exact Hp|]. split; [exact Hin|]. split; [exact L|].
  pose proof (ri_snp st HR e f Hin) as Hcont. rewrite L in Hcont.
  destruct (run_inv_n_le st e n HR (lookup_In _ _ _ L)) as [Hle _].
  split; [lia|]. split; [apply (di_snp_loads table _ _ HD e f Hin)|].
  split; [intros s Hs; apply (di_snp_segs table _ _ HD e f s Hin Hs) | exact Hcont].
Qed.

(* ================================================================== *)
(* durability is stable                                                  *)
(* ================================================================== *)

Lemma pos_of_app : forall k l l' pos, pos_of k l = Some pos -> pos_of k (l ++ l') = Some pos.
Proof.
  intros k l. induction l as [|x t IH]; intros l' pos H; simpl in *; [discriminate|].
  destruct (x =? k); [exact H|]. destruct (pos_of k t) as [p|] eqn:E; [|discriminate].
  rewrite (IH l' p eq_refl). exact H.
Qed.

Lemma pos_of_lt : forall k l pos, pos_of k l = Some pos -> (pos < length l)%nat.
Proof.
  intros k l. induction l as [|x t IH]; intros pos H; simpl in *; [discriminate|].
  destruct (x =? k); [injection H as <-; lia|]. destruct (pos_of k t) as [p|] eqn:E; [|discriminate].
  injection H as <-. specialize (IH p eq_refl). lia.
Qed.

(* once the writer has a root of its own, the keys of the introduced batches only grow *)
Lemma keys_step : forall table st ev st', pinv table st -> paccept_ev table st ev = Some st' ->
  ps_epoch_n st <> [] ->
  ps_epoch_n st' <> [] /\ exists ks, t_keys (ps_t st') = t_keys (ps_t st) ++ ks.
Proof.
  intros table st ev st' Hinv H Hne.
  destruct (event_cases ev) as [Hp|[[e ->]|[[e ->]|[e ->]]]].
  - destruct (plain_frame table st ev st' Hp H) as [F1 [F2 _]]. rewrite F1, F2. split; [exact Hne|]. exists []. rewrite app_nil_r. reflexivity.
  - destruct (pacc_PI table st e st' H) as [t' [Ha [Ht [_ [_ [_ [_ [_ Hrest]]]]]]]]. rewrite Ht.
    destruct (root_of_ievent e) as [r|] eqn:R.
    + destruct Hrest as [_ [Hev [Hen _]]]. rewrite Hen. split; [discriminate|].
      assert (Hnl : forall r0, e <> ELoad r0).
      { intros r0 ->. unfold root_event_ok in Hev. destruct (ps_epoch_n st); [congruence | discriminate]. }
      destruct (accept_ev_grows _ _ _ Ha Hnl) as [ks [bs [G1 _]]]. exists ks. exact G1.
    + destruct Hrest as [Hen _]. rewrite Hen. split; [exact Hne|].
      destruct (accept_nonroot _ _ _ Ha R) as [_ [N2 _]]. exists []. rewrite app_nil_r. exact N2.
  - destruct (pacc_ok_snp table st e st' H) as [f [_ [_ [_ [_ [_ [Ht [Hen _]]]]]]]]. rewrite Ht, Hen.
    split; [exact Hne|]. exists []. rewrite app_nil_r. reflexivity.
  - destruct (pacc_rm_snp table st e st' H) as [_ ->]. simpl. split; [exact Hne|]. exists []. rewrite app_nil_r. reflexivity.
Qed.

Lemma durable_step : forall table st ev st' pos, pinv table st -> paccept_ev table st ev = Some st' ->
  durable st pos -> durable st' pos.
Proof.
  intros table st ev st' pos Hinv H [e [f [n [Hin [L Hlt]]]]]. pose proof Hinv as [HD HR].
  destruct (event_cases ev) as [Hp|[[e0 ->]|[[e0 ->]|[e0 ->]]]].
  - destruct (plain_frame table st ev st' Hp H) as [_ [F2 [_ [_ [F5 _]]]]].
    exists e, f, n. rewrite F2, F5. auto.
  - destruct (pacc_PI table st e0 st' H) as [t' [Ha [Ht [Hd [_ [_ [_ [_ Hrest]]]]]]]].
    exists e, f, n. rewrite Hd. split; [exact Hin|]. split; [|exact Hlt].
    destruct (root_of_ievent e0) as [r|] eqn:R; [|destruct Hrest as [-> _]; exact L].
    destruct Hrest as [_ [Hev [Hen _]]]. rewrite Hen.
    assert (Hnl : forall r0, e0 <> ELoad r0).
    { intros r0 ->. unfold root_event_ok in Hev. destruct (ps_epoch_n st); [discriminate | discriminate]. }
    pose proof (accept_root_epoch _ _ _ _ Ha R Hnl) as Hep.
    destruct (run_inv_n_le st e n HR (lookup_In _ _ _ L)) as [_ Hle].
    rewrite lookup_cons_ne by lia. exact L.
  - destruct (pacc_ok_snp table st e0 st' H) as [g [_ [_ [_ [Hd [_ [_ [Hen _]]]]]]]].
    exists e, f, n. rewrite Hd, Hen. simpl. auto.
  - destruct (pacc_rm_snp table st e0 st' H) as [Hdel ->]. simpl.
    destruct (Z.eq_dec e e0) as [->|Hne].
    + destruct (pol_ok_newest_live _ _ e0 (di_pol table _ _ HD) Hdel) as [e' [_ [Hlt' Hin']]].
      rewrite snap_ids_keys in Hin'. apply in_map_iff in Hin'. destruct Hin' as [[e'' f'] [Heq Hin']]. simpl in Heq. subst e''.
      pose proof (ri_snp st HR e' f' Hin') as C'. destruct (lookup e' (ps_epoch_n st)) as [n'|] eqn:L'.
      * exists e', f', n'. split; [apply map_del_In; simpl; split; [exact Hin' | lia]|]. split; [exact L'|].
        pose proof (en_sorted_mono _ e0 n e' n' (ri_sorted st HR) L L' ltac:(lia)). lia.
      * exfalso. pose proof (C' e0 n (lookup_In _ _ _ L)). lia.
    + exists e, f, n. split; [apply map_del_In; simpl; auto | auto].
Qed.

Lemma durable_epochs : forall st pos, durable st pos -> ps_epoch_n st <> [].
Proof. intros st pos [e [f [n [_ [L _]]]]] Hnil. rewrite Hnil in L. discriminate. Qed.

Lemma durable_run : forall table evs st st' k pos, pinv table st -> paccept_run table st evs = Some st' ->
  durable st pos -> pos_of k (t_keys (ps_t st)) = Some pos ->
  durable st' pos /\ pos_of k (t_keys (ps_t st')) = Some pos.
Proof.
  intros table evs. induction evs as [|ev t IH]; intros st st' k pos Hinv H Hd Hp; simpl in H.
  - injection H as <-. auto.
  - destruct (paccept_ev table st ev) as [s1|] eqn:E; [|discriminate].
    apply (IH s1 st' k pos (pinv_step table st ev s1 Hinv E) H (durable_step table st ev s1 pos Hinv E Hd)).
    destruct (keys_step table st ev s1 Hinv E (durable_epochs st pos Hd)) as [_ [ks ->]]. apply pos_of_app. exact Hp.
Qed.

(* ================================================================== *)
(* what a crash image recovers to                                        *)
(* ================================================================== *)

Lemma crash_content : forall table st choice e segs,
  pinv table st -> no_collision table (d_fly (ps_disk st)) choice = true ->
  picked table (crash_image (ps_disk st) choice) e segs ->
  (exists m, lookup e (ps_epoch_n st) = Some m /\ (m <= n_intro st)%nat /\ content_ok st m segs /\
             forall pos, durable st pos -> (pos < m)%nat) \/
  (ps_epoch_n st = [] /\ exists f, In (e, f) (d_snp (ps_disk st)) /\ segs = sf_segs f).
Proof.
  intros table st choice e segs [HD HR] NC [Hin Hmax].
  pose proof (disk_inv_files table _ _ HD) as HF.
  assert (Hge : forall e0 f0, In (e0, f0) (d_snp (ps_disk st)) -> e0 <= e).
  { intros e0 f0 H0. apply (Hmax e0 (sf_segs f0)). apply (crash_oks_complete table _ HF choice e0 f0 H0). }
  destruct (crash_oks_origin table _ HF choice NC e segs Hin) as [[f [Hf ->]]|[f [Hf [Hs [Hid ->]]]]].
  - pose proof (ri_snp st HR e f Hf) as C. destruct (lookup e (ps_epoch_n st)) as [m|] eqn:L.
    + left. exists m. split; [reflexivity|].
      destruct (run_inv_n_le st e m HR (lookup_In _ _ _ L)) as [Hle _]. split; [exact Hle|]. split; [exact C|].
      intros pos [e0 [f0 [n0 [H0 [L0 Hlt]]]]].
      pose proof (en_sorted_mono _ e0 n0 e m (ri_sorted st HR) L0 L (Hge e0 f0 H0)). lia.
    + right. split; [|exists f; auto].
      destruct (ps_epoch_n st) as [|x en] eqn:Een; [reflexivity|]. exfalso.
      assert (Hne' : d_snp (ps_disk st) <> []) by (intro Hnil; rewrite Hnil in Hf; destruct Hf).
      destruct (ri_live st HR) as [e1 [f1 [n1 [H1 L1]]]]; [rewrite Een; discriminate | exact Hne' |].
      rewrite Een in L1. pose proof (C e1 n1 (lookup_In _ _ _ L1)). pose proof (Hge e1 f1 H1). lia.
  - left. destruct (ri_fly st HR f Hf Hs) as [m [L C]]. rewrite Hid in L. exists m. split; [exact L|].
    destruct (run_inv_n_le st e m HR (lookup_In _ _ _ L)) as [Hle _]. split; [exact Hle|]. split; [exact C|].
    intros pos [e0 [f0 [n0 [H0 [L0 Hlt]]]]].
    pose proof (di_fly_new table _ _ HD f e0 Hf Hs (in_map fst _ _ H0)) as Hnew. rewrite Hid in Hnew. simpl in Hnew.
    pose proof (en_sorted_mono _ e0 n0 e m (ri_sorted st HR) L0 L ltac:(lia)). lia.
Qed.

Lemma lookup_step : forall table st ev st' e m, pinv table st -> paccept_ev table st ev = Some st' ->
  lookup e (ps_epoch_n st) = Some m -> lookup e (ps_epoch_n st') = Some m.
Proof.
  intros table st ev st' e m [HD HR] H L.
  destruct (event_cases ev) as [Hp|[[e0 ->]|[[e0 ->]|[e0 ->]]]].
  - destruct (plain_frame table st ev st' Hp H) as [_ [F2 _]]. rewrite F2. exact L.
  - destruct (pacc_PI table st e0 st' H) as [t' [Ha [_ [_ [_ [_ [_ [_ Hrest]]]]]]]].
    destruct (root_of_ievent e0) as [r|] eqn:R; [|destruct Hrest as [-> _]; exact L].
    destruct Hrest as [_ [Hev [Hen _]]]. rewrite Hen.
    assert (Hnl : forall r0, e0 <> ELoad r0).
    { intros r0 ->. unfold root_event_ok in Hev. destruct (ps_epoch_n st); [discriminate | discriminate]. }
    pose proof (accept_root_epoch _ _ _ _ Ha R Hnl) as Hep.
    destruct (run_inv_n_le st e m HR (lookup_In _ _ _ L)) as [_ Hle].
    rewrite lookup_cons_ne by lia. exact L.
  - destruct (pacc_ok_snp table st e0 st' H) as [g [_ [_ [_ [_ [_ [_ [Hen _]]]]]]]]. rewrite Hen. exact L.
  - destruct (pacc_rm_snp table st e0 st' H) as [_ ->]. exact L.
Qed.

Lemma lookup_run : forall table evs st st' e m, pinv table st -> paccept_run table st evs = Some st' ->
  lookup e (ps_epoch_n st) = Some m -> lookup e (ps_epoch_n st') = Some m.
Proof.
  intros table evs. induction evs as [|ev t IH]; intros st st' e m Hinv H L; simpl in H.
  - injection H as <-. exact L.
  - destruct (paccept_ev table st ev) as [s1|] eqn:E; [|discriminate].
    apply (IH s1 st' e m (pinv_step table st ev s1 Hinv E) H (lookup_step table st ev s1 e m Hinv E L)).
Qed.

Lemma keys_run : forall table evs st st', pinv table st -> paccept_run table st evs = Some st' ->
  ps_epoch_n st <> [] -> ps_epoch_n st' <> [] /\ exists ks, t_keys (ps_t st') = t_keys (ps_t st) ++ ks.
Proof.
  intros table evs. induction evs as [|ev t IH]; intros st st' Hinv H Hne; simpl in H.
  - injection H as <-. split; [exact Hne|]. exists []. rewrite app_nil_r. reflexivity.
  - destruct (paccept_ev table st ev) as [s1|] eqn:E; [|discriminate].
    destruct (keys_step table st ev s1 Hinv E Hne) as [Hne1 [ks1 K1]].
    destruct (IH s1 st' (pinv_step table st ev s1 Hinv E) H Hne1) as [Hne2 [ks2 K2]].
    split; [exact Hne2|]. exists (ks1 ++ ks2). rewrite K2, K1, app_assoc. reflexivity.
Qed.

(* a directory that held a snapshot, or a writer that loaded one, never runs out of snapshots *)
Lemma base_step : forall table st ev st', pinv table st -> paccept_ev table st ev = Some st' ->
  ps_base st = [] \/ d_snp (ps_disk st) <> [] -> ps_base st' = [] \/ d_snp (ps_disk st') <> [].
Proof.
  intros table st ev st' [HD HR] H Hb.
  destruct (event_cases ev) as [Hp|[[e0 ->]|[[e0 ->]|[e0 ->]]]].
  - destruct (plain_frame table st ev st' Hp H) as [_ [_ [_ [F4 [F5 _]]]]]. rewrite F4, F5. exact Hb.
  - destruct (pacc_PI table st e0 st' H) as [t' [_ [_ [Hd [_ [_ [_ [_ Hrest]]]]]]]]. rewrite Hd.
    destruct (root_of_ievent e0) as [r|] eqn:R; [|destruct Hrest as [_ [_ ->]]; exact Hb].
    destruct Hrest as [_ [Hev [_ [_ Hbase]]]]. rewrite Hbase.
    destruct e0; try exact Hb. right. simpl in R. injection R as ->.
    unfold root_event_ok in Hev. destruct (ps_epoch_n st); [|discriminate].
    unfold load_agrees in Hev. destruct (lookup (sn_epoch r) (d_snp (ps_disk st))) eqn:Lf; [|discriminate].
    intro Hnil. rewrite Hnil in Lf. discriminate.
  - destruct (pacc_ok_snp table st e0 st' H) as [g [_ [_ [_ [Hd _]]]]]. right. rewrite Hd. simpl. discriminate.
  - destruct (pacc_rm_snp table st e0 st' H) as [Hdel ->]. simpl. right.
    destruct (pol_ok_newest_live _ _ e0 (di_pol table _ _ HD) Hdel) as [e' [_ [Hlt' Hin']]].
    rewrite snap_ids_keys in Hin'. apply in_map_iff in Hin'. destruct Hin' as [[e'' f'] [Heq Hin']]. simpl in Heq. subst e''.
    intro Hnil. assert (Hin2 : In (e', f') (map_del e0 (d_snp (ps_disk st)))) by (apply map_del_In; simpl; split; [exact Hin' | lia]).
    rewrite Hnil in Hin2. destruct Hin2.
Qed.

Lemma base_run : forall table evs st st', pinv table st -> paccept_run table st evs = Some st' ->
  ps_base st = [] \/ d_snp (ps_disk st) <> [] -> ps_base st' = [] \/ d_snp (ps_disk st') <> [].
Proof.
  intros table evs. induction evs as [|ev t IH]; intros st st' Hinv H Hb; simpl in H.
  - injection H as <-. exact Hb.
  - destruct (paccept_ev table st ev) as [s1|] eqn:E; [|discriminate].
    apply (IH s1 st' (pinv_step table st ev s1 Hinv E) H (base_step table st ev s1 Hinv E Hb)).
Qed.

(* ================================================================== *)
(* C03.5, C02.2, C03.6, C14.14                                           *)
(* ================================================================== *)

Section Run2.
Variable table : list (list Z).
Variable n : Z.
Variable st0 : pstate.
Hypothesis Hstart : start_ok table n st0.

Theorem recover_total_proof : forall (tbl : list (list Z)) (m : Z) (im : image),
  (exists x, recover_writer tbl m im = x) /\ (exists y, recover_reader tbl im = y).
Proof. intros. split; eexists; reflexivity. Qed.

Theorem recover_succeeds_proof : forall evs st choice,
  paccept_run table st0 evs = Some st ->
  no_collision table (d_fly (ps_disk st)) choice = true ->
  let im := crash_image (ps_disk st) choice in
  recover_writer table n im <> RecUnknown /\ recover_reader table im <> None /\
  (d_snp (ps_disk st0) <> [] \/ commits_of evs <> [] \/ d_snp (ps_disk st) <> [] ->
   exists r, recover_writer table n im = RecOk r /\
             recover_reader table im = Some (Some (r_epoch r, r_segs r))).
Proof.
  intros evs st choice H NC im. subst im.
  pose proof (run_pinv table n st0 evs st Hstart H) as [HD HR].
  pose proof (disk_inv_files table _ _ HD) as HF.
  destruct (crash_recover_writer table _ HF choice NC n) as [W1 [_ [W3 _]]].
  destruct (crash_recover_reader table _ HF choice NC) as [R1 _].
  split; [exact W3|]. split; [rewrite R1; discriminate|].
  intro Hc. assert (Hne : d_snp (ps_disk st) <> []).
  { destruct Hc as [Hc|[Hc|Hc]]; [apply (snapshot_never_lost table n st0 Hstart evs st H); auto.. | exact Hc]. }
  destruct (W1 Hne) as [r Hr]. exists r. split; [exact Hr|].
  apply (crash_writer_reader_agree table _ HF choice NC n r Hr).
Qed.

(* C02.2 (and C14.14): at and after an acknowledgement, every crash image recovers to a state that
   contains the acknowledged batch and everything introduced before it *)
Theorem ack_implies_durable_proof : forall evs1 k evs2 st2 choice,
  paccept_run table st0 (evs1 ++ PAck k true :: evs2) = Some st2 ->
  no_collision table (d_fly (ps_disk st2)) choice = true ->
  let im := crash_image (ps_disk st2) choice in
  exists r pos m c,
    recover_writer table n im = RecOk r /\
    recover_reader table im = Some (Some (r_epoch r, r_segs r)) /\
    pos_of k (t_keys (ps_t st2)) = Some pos /\ (pos < m <= n_intro st2)%nat /\
    segs_content (ps_segdocs st2) (r_segs r) = Some c /\ same_docs c (content_at st2 m) = true.
Proof.
  intros evs1 k evs2 st2 choice H NC im. subst im.
  destruct (run_split _ _ _ _ _ _ H) as [st1 [st1' [H1 [H2 H3]]]].
  pose proof (run_pinv table n st0 evs1 st1 Hstart H1) as Hinv1.
  pose proof (pinv_step table st1 _ st1' Hinv1 H2) as Hinv1'.
  destruct (pacc_ack_ok table st1 k st1' H2) as [pos [Hp [Hc Hst1']]].
  apply covered_durable in Hc.
  assert (Hd1' : durable st1' pos) by (rewrite Hst1'; exact Hc).
  assert (Hp1' : pos_of k (t_keys (ps_t st1')) = Some pos) by (rewrite Hst1'; exact Hp).
  destruct (durable_run table evs2 st1' st2 k pos Hinv1' H3 Hd1' Hp1') as [Hd2 Hp2].
  pose proof (pinv_run table evs2 st1' st2 Hinv1' H3) as Hinv2. pose proof Hinv2 as [HD HR].
  pose proof (disk_inv_files table _ _ HD) as HF.
  destruct (crash_recover_writer table _ HF choice NC n) as [W1 [W2 _]].
  assert (Hne : d_snp (ps_disk st2) <> []).
  { destruct Hd2 as [e [f [m [Hin _]]]]. intro Hnil. rewrite Hnil in Hin. destruct Hin. }
  destruct (W1 Hne) as [r Hr]. destruct (W2 r Hr) as [Hpick _].
  destruct (crash_content table st2 choice _ _ Hinv2 NC Hpick) as [[m [L [Hle [[c [C1 C2]] Hall]]]]|[Hnil _]].
  - exists r, pos, m, c. split; [exact Hr|]. split; [apply (crash_writer_reader_agree table _ HF choice NC n r Hr)|].
    split; [exact Hp2|]. split; [specialize (Hall pos Hd2); lia|]. auto.
  - exfalso. apply (durable_epochs st2 pos Hd2 Hnil).
Qed.

Theorem retry_covers_all_proof : forall evs1 k2 evs2 st2 choice,
  paccept_run table st0 (evs1 ++ PAck k2 true :: evs2) = Some st2 ->
  no_collision table (d_fly (ps_disk st2)) choice = true ->
  let im := crash_image (ps_disk st2) choice in
  exists r p2 m c,
    recover_writer table n im = RecOk r /\
    recover_reader table im = Some (Some (r_epoch r, r_segs r)) /\
    pos_of k2 (t_keys (ps_t st2)) = Some p2 /\ (m <= n_intro st2)%nat /\
    segs_content (ps_segdocs st2) (r_segs r) = Some c /\ same_docs c (content_at st2 m) = true /\
    forall k1 p1, pos_of k1 (t_keys (ps_t st2)) = Some p1 -> (p1 <= p2)%nat -> (p1 < m)%nat.
Proof.
  intros evs1 k2 evs2 st2 choice H NC im. subst im.
  destruct (ack_implies_durable_proof evs1 k2 evs2 st2 choice H NC) as [r [p2 [m [c [A1 [A2 [A3 [A4 [A5 A6]]]]]]]]].
  exists r, p2, m, c. split; [exact A1|]. split; [exact A2|]. split; [exact A3|]. split; [lia|].
  split; [exact A5|]. split; [exact A6|]. intros k1 p1 _ Hle. lia.
Qed.

(* C03.6 *)
Theorem recover_prefix_proof : forall evs st choice,
  paccept_run table st0 evs = Some st ->
  no_collision table (d_fly (ps_disk st)) choice = true ->
  let im := crash_image (ps_disk st) choice in
  (forall r, recover_writer table n im = RecOk r ->
     recover_reader table im = Some (Some (r_epoch r, r_segs r)) /\
     (ps_epoch_n st <> [] ->
        exists m c, (m <= n_intro st)%nat /\ segs_content (ps_segdocs st) (r_segs r) = Some c /\
                    same_docs c (content_at st m) = true) /\
     (ps_epoch_n st = [] ->
        exists f, In (r_epoch r, f) (d_snp (ps_disk st)) /\ r_segs r = sf_segs f /\
                  forall e, In e (map fst (d_snp (ps_disk st))) -> e <= r_epoch r)) /\
  (forall s, recover_writer table n im = RecFresh s -> d_snp (ps_disk st) = [] /\ content_at st 0 = []).
Proof.
  intros evs st choice H NC im. subst im.
  pose proof (run_pinv table n st0 evs st Hstart H) as Hinv. pose proof Hinv as [HD HR].
  pose proof (disk_inv_files table _ _ HD) as HF.
  destruct (crash_recover_writer table _ HF choice NC n) as [_ [W2 [_ [W4 _]]]].
  split.
  - intros r Hr. destruct (W2 r Hr) as [Hpick _].
    split; [apply (crash_writer_reader_agree table _ HF choice NC n r Hr)|].
    destruct (crash_content table st choice _ _ Hinv NC Hpick) as [[m [L [Hle [[c [C1 C2]] _]]]]|[Hnil [f [Hf Hs]]]].
    + split; [intros _; exists m, c; auto|]. intro Hnil. rewrite Hnil in L. discriminate.
    + split; [intro Hne; contradiction|]. intros _. exists f. split; [exact Hf|]. split; [exact Hs|].
      intros e He. apply in_map_iff in He. destruct He as [[e' f'] [<- Hin']]. simpl.
      destruct Hpick as [_ Hmax]. apply (Hmax e' (sf_segs f')). apply (crash_oks_complete table _ HF choice e' f' Hin').
  - intros s Hs. pose proof (W4 s Hs) as Hnil. split; [exact Hnil|].
    destruct (start_ok_pinv table n st0 Hstart) as [Hinv0 _].
    assert (Hb0 : ps_base st0 = [] \/ d_snp (ps_disk st0) <> []) by (left; destruct Hstart as [_ [_ [Hb _]]]; exact Hb).
    destruct (base_run table evs st0 st Hinv0 H Hb0) as [Hb|Hb]; [|contradiction].
    unfold content_at. simpl. exact Hb.
Qed.

End Run2.

(* ================================================================== *)
(* C02.3  grab_atomic                                                    *)
(* ================================================================== *)

(* the safe batches waiting for an acknowledgement: those marked since the last grab *)
Fixpoint pending_from (acc : list Z) (evs : list pevent) : list Z :=
  match evs with
  | [] => acc
  | PSafe k :: t => pending_from (acc ++ [k]) t
  | PGrab _ _ :: t => pending_from [] t
  | _ :: t => pending_from acc t
  end.

Lemma safe_step : forall table st ev st', paccept_ev table st ev = Some st' ->
  ps_safe st' = pending_from (ps_safe st) [ev].
Proof.
  intros table st ev st' H.
  destruct ev as [e|k|epoch nacks|snp id bytes segs|snp id|snp id|snp id|snp id|k ok|]; simpl.
  - destruct (pacc_PI table st e st' H) as [t' [_ [_ [_ [_ [Hs _]]]]]]. exact Hs.
  - apply pacc_safe in H. destruct H as [_ [_ [_ ->]]]. reflexivity.
  - apply pacc_grab in H. destruct H as [_ [_ ->]]. reflexivity.
  - destruct snp.
    + destruct (pacc_start_snp table st id bytes segs st' H) as [n0 [c [_ [_ [_ [_ [_ [_ [_ [_ ->]]]]]]]]]]. reflexivity.
    + destruct (pacc_start_seg table st id bytes segs st' H) as [_ [_ [_ ->]]]. reflexivity.
  - destruct snp.
    + destruct (pacc_ok_snp table st id st' H) as [f [_ [_ [_ [_ [_ [_ [_ [_ [_ [Hs _]]]]]]]]]]]. exact Hs.
    + destruct (pacc_ok_seg table st id st' H) as [_ ->]. reflexivity.
  - rewrite (pacc_err table st snp id st' H). reflexivity.
  - destruct snp.
    + destruct (pacc_rm_snp table st id st' H) as [_ ->]. reflexivity.
    + destruct (pacc_rm_seg table st id st' H) as [_ [_ ->]]. reflexivity.
  - rewrite (pacc_rmerr table st snp id st' H). reflexivity.
  - destruct ok.
    + destruct (pacc_ack_ok table st k st' H) as [pos [_ [_ ->]]]. reflexivity.
    + destruct (pacc_ack_err table st k st' H) as [_ ->]. reflexivity.
  - rewrite (pacc_fault table st st' H). reflexivity.
Qed.

Lemma pending_from_cons : forall acc ev t, pending_from acc (ev :: t) = pending_from (pending_from acc [ev]) t.
Proof. intros acc ev t. destruct ev; reflexivity. Qed.

Lemma safe_run : forall table evs st st', paccept_run table st evs = Some st' ->
  ps_safe st' = pending_from (ps_safe st) evs.
Proof.
  intros table evs. induction evs as [|ev t IH]; intros st st' H; simpl in H.
  - injection H as <-. reflexivity.
  - destruct (paccept_ev table st ev) as [s1|] eqn:E; [|discriminate].
    rewrite pending_from_cons, <- (safe_step table st ev s1 E). apply IH. exact H.
Qed.

Lemma In_pos_of : forall k l, In k l -> exists pos, pos_of k l = Some pos.
Proof.
  intros k l. induction l as [|x t IH]; intro H; [destruct H|]. simpl.
  destruct (x =? k) eqn:E; [exists O; reflexivity|].
  destruct H as [->|H]; [lia|]. destruct (IH H) as [p ->]. exists (S p). reflexivity.
Qed.

Theorem grab_atomic_proof : forall table n st0 evs1 e nacks evs2 st,
  start_ok table n st0 ->
  paccept_run table st0 (evs1 ++ PGrab e nacks :: evs2) = Some st ->
  exists st1, paccept_run table st0 evs1 = Some st1 /\
    (* the root and the pending acknowledgements are taken together *)
    e = sn_epoch (t_root (ps_t st1)) /\
    nacks = Z.of_nat (length (ps_safe st1)) /\
    ps_safe st1 = pending_from [] evs1 /\ NoDup (ps_safe st1) /\
    (* every one of them is a batch of the grabbed root *)
    (forall k, In k (ps_safe st1) -> exists pos, pos_of k (t_keys (ps_t st1)) = Some pos /\ (pos < n_intro st1)%nat) /\
    (ps_epoch_n st1 <> [] -> lookup e (ps_epoch_n st1) = Some (n_intro st1)) /\
    (* hence a complete snapshot of the grabbed epoch, or of a later one, covers them all *)
    (forall e' f' n', In (e', f') (d_snp (ps_disk st)) -> lookup e' (ps_epoch_n st) = Some n' -> e <= e' ->
       forall k, In k (ps_safe st1) ->
         exists pos, pos_of k (t_keys (ps_t st)) = Some pos /\ covered st pos = true).
Proof.
  intros table n st0 evs1 e nacks evs2 st Hstart H.
  destruct (run_split _ _ _ _ _ _ H) as [st1 [st1' [H1 [H2 H3]]]].
  exists st1. split; [exact H1|].
  pose proof (run_pinv table n st0 evs1 st1 Hstart H1) as Hinv1. pose proof Hinv1 as [HD1 HR1].
  pose proof (pacc_grab table st1 e nacks st1' H2) as [He [Hn Hst1']].
  split; [exact He|]. split; [exact Hn|].
  assert (Hs0 : ps_safe st0 = []) by (destruct Hstart as [_ [_ [_ [Hs _]]]]; exact Hs).
  split; [rewrite (safe_run table evs1 st0 st1 H1), Hs0; reflexivity|].
  split; [apply (ri_safe_nodup st1 HR1)|].
  assert (Hpos : forall k, In k (ps_safe st1) -> exists pos, pos_of k (t_keys (ps_t st1)) = Some pos /\ (pos < n_intro st1)%nat).
  { intros k Hk. destruct (In_pos_of k _ (ri_safe st1 HR1 k Hk)) as [pos Hp]. exists pos. split; [exact Hp|].
    apply (pos_of_lt k _ pos Hp). }
  split; [exact Hpos|].
  assert (Hhead : ps_epoch_n st1 <> [] -> lookup e (ps_epoch_n st1) = Some (n_intro st1)).
  { intro Hne. pose proof (ri_head st1 HR1) as Hh. destruct (ps_epoch_n st1) as [|[e0 n0] en]; [congruence|].
    destruct Hh as [-> ->]. simpl. rewrite He, Z.eqb_refl. reflexivity. }
  split; [exact Hhead|].
  intros e' f' n' Hin' L' Hle k Hk. destruct (Hpos k Hk) as [pos [Hp Hlt]].
  assert (Hne1 : ps_epoch_n st1 <> []).
  { intro Hnil. pose proof (ri_head st1 HR1) as Hh. rewrite Hnil in Hh. destruct Hh as [K0 _].
    pose proof (ri_safe st1 HR1 k Hk) as Hk'. rewrite K0 in Hk'. destruct Hk'. }
  pose proof (pinv_step table st1 _ st1' Hinv1 H2) as Hinv1'.
  assert (Hen1' : ps_epoch_n st1' = ps_epoch_n st1) by (rewrite Hst1'; reflexivity).
  assert (Hk1' : t_keys (ps_t st1') = t_keys (ps_t st1)) by (rewrite Hst1'; reflexivity).
  destruct (keys_run table evs2 st1' st Hinv1' H3 ltac:(rewrite Hen1'; exact Hne1)) as [_ [ks Hks]].
  pose proof (lookup_run table evs2 st1' st e (n_intro st1) Hinv1' H3 ltac:(rewrite Hen1'; apply Hhead; exact Hne1)) as Le.
  pose proof (pinv_run table evs2 st1' st Hinv1' H3) as [_ HR].
  pose proof (en_sorted_mono _ e (n_intro st1) e' n' (ri_sorted st HR) Le L' Hle) as Hmono.
  exists pos. split; [rewrite Hks, Hk1'; apply pos_of_app; exact Hp|].
  apply covered_durable. exists e', f', n'. repeat split; try assumption. lia.
Qed.

(* ================================================================== *)
(* C14.15  the crash theorems on runs with faults                        *)
(* ================================================================== *)

Theorem crash_props_with_faults_proof : forall table n st0, start_ok table n st0 ->
  forall evs st choice,
  (exists ev, In ev evs /\ fault_event ev) ->
  paccept_run table st0 evs = Some st ->
  no_collision table (d_fly (ps_disk st)) choice = true ->
  let im := crash_image (ps_disk st) choice in
  recover_writer table n im <> RecUnknown /\
  (forall r, recover_writer table n im = RecOk r ->
     recover_reader table im = Some (Some (r_epoch r, r_segs r)) /\
     (ps_epoch_n st <> [] ->
        exists m c, (m <= n_intro st)%nat /\ segs_content (ps_segdocs st) (r_segs r) = Some c /\
                    same_docs c (content_at st m) = true)) /\
  (Nat.min (Z.to_nat n) (length (d_snp (ps_disk st0)) + length (commits_of evs)) <= length (d_snp (ps_disk st)))%nat /\
  (forall k, In (PAck k true) evs ->
     exists r pos m, recover_writer table n im = RecOk r /\ pos_of k (t_keys (ps_t st)) = Some pos /\ (pos < m <= n_intro st)%nat /\
       exists c, segs_content (ps_segdocs st) (r_segs r) = Some c /\ same_docs c (content_at st m) = true).
Proof.
  intros table n st0 Hstart evs st choice _ H NC im. subst im.
  destruct (recover_succeeds_proof table n st0 Hstart evs st choice H NC) as [S1 _].
  destruct (recover_prefix_proof table n st0 Hstart evs st choice H NC) as [P1 _].
  destruct (retention_proof table n st0 Hstart evs st H) as [R1 _].
  split; [exact S1|]. split; [|split; [exact R1|]].
  - intros r Hr. destruct (P1 r Hr) as [A [B _]]. auto.
  - intros k Hk. apply in_split in Hk. destruct Hk as [evs1 [evs2 ->]].
    destruct (ack_implies_durable_proof table n st0 Hstart evs1 k evs2 st choice H NC) as [r [pos [m [c [A1 [_ [A3 [A4 [A5 A6]]]]]]]]].
    exists r, pos, m. repeat split; try assumption; try lia. exists c. auto.
Qed.
