(* Index/TraceProofs.v — what an accepted root history (Index/Trace.v: accept_run) guarantees:
   the physical root always holds exactly the abstract index (C01 history_refines, C06
   no_dup_no_loss), introductions linearize the batches in real-time order (C05), and a reader
   sees the state after a prefix of the introductions that contains every acknowledged batch (C05). *)
From Coq Require Import ZArith List Bool Lia Permutation.
From Coq Require Import ZifyBool.
From Bluge Require Import Base.Res Index.Model Index.Trace Index.ModelProofs Index.ModelProofsBatch
  Index.ModelProofsMerge.
Import ListNotations.
Open Scope Z_scope.

(* ================================================================== *)
(* boolean equalities of the monitor                                    *)
(* ================================================================== *)

Lemma seg_eqb_eq : forall a b, seg_eqb a b = true -> a = b.
Proof.
  intros [i1 d1 l1 p1] [i2 d2 l2 p2] H. unfold seg_eqb in H. simpl in H.
  apply andb_true_iff in H. destruct H as [H H4]. apply andb_true_iff in H. destruct H as [H H3].
  apply andb_true_iff in H. destruct H as [H1 H2].
  apply Z.eqb_eq in H1. apply docs_eqb_eq in H2. apply list_eqbZ_eq in H3. apply Bool.eqb_prop in H4.
  subst. reflexivity.
Qed.

Lemma segs_eqb_eq : forall a b, segs_eqb a b = true -> a = b.
Proof.
  induction a as [|x a IH]; destruct b as [|y b]; simpl; intro H; try reflexivity; try discriminate.
  apply andb_true_iff in H. destruct H as [H1 H2]. apply seg_eqb_eq in H1. apply IH in H2. subst. reflexivity.
Qed.

Lemma snap_eqb_eq : forall a b, snap_eqb a b = true -> a = b.
Proof.
  intros [e1 s1] [e2 s2] H. unfold snap_eqb in H. simpl in H.
  apply andb_true_iff in H. destruct H as [H1 H2]. apply Z.eqb_eq in H1. apply segs_eqb_eq in H2.
  subst. reflexivity.
Qed.

Lemma gdocs_eqb_eq : forall a b, gdocs_eqb a b = true -> a = b.
Proof.
  induction a as [|[n d] a IH]; destruct b as [|[n' d'] b]; simpl; intro H; try reflexivity; try discriminate.
  apply andb_true_iff in H. destruct H as [H H3]. apply andb_true_iff in H. destruct H as [H1 H2].
  apply Z.eqb_eq in H1. apply doc_eqb_eq in H2. apply IH in H3. subst. reflexivity.
Qed.

Lemma doc_insert_perm : forall d l, Permutation (d :: l) (doc_insert d l).
Proof.
  intros d l. induction l as [|h t IH]; simpl; [reflexivity|].
  destruct (doc_leb d h); [reflexivity|]. rewrite perm_swap. apply perm_skip. exact IH.
Qed.

Lemma doc_sort_perm : forall l, Permutation l (doc_sort l).
Proof.
  induction l as [|d t IH]; simpl; [constructor|].
  rewrite <- doc_insert_perm. apply perm_skip. exact IH.
Qed.

Lemma same_docs_perm : forall a b, same_docs a b = true -> Permutation a b.
Proof.
  intros a b H. unfold same_docs in H. apply docs_eqb_eq in H.
  rewrite (doc_sort_perm a), H. symmetry. apply doc_sort_perm.
Qed.

(* ================================================================== *)
(* permutations and the abstract index                                  *)
(* ================================================================== *)

Lemma perm_filter : forall {A} (f : A -> bool) (l l' : list A),
  Permutation l l' -> Permutation (filter f l) (filter f l').
Proof.
  intros A f l l' H. induction H as [| x l l' H IH | x y l | l l' l'' H1 IH1 H2 IH2]; simpl.
  - constructor.
  - destruct (f x); [apply perm_skip|]; exact IH.
  - destruct (f x); destruct (f y); try reflexivity. apply perm_swap.
  - rewrite IH1. exact IH2.
Qed.

Lemma apply_batch_perm : forall A A' b, Permutation A A' -> Permutation (apply_batch A b) (apply_batch A' b).
Proof. intros A A' b H. unfold apply_batch. apply Permutation_app_tail. apply perm_filter. exact H. Qed.

Lemma count_id_perm : forall i l l', Permutation l l' -> count_id i l = count_id i l'.
Proof. intros i l l' H. unfold count_id. apply Permutation_length. apply perm_filter. exact H. Qed.

(* ================================================================== *)
(* the invariant of the monitor state                                   *)
(* ================================================================== *)

Record inv (st : tstate) : Prop := {
  inv_root : root_ok (t_root st) = true;
  inv_perm : Permutation (abs (t_root st)) (t_A st);
  inv_len : length (t_keys st) = length (t_batches st);
  inv_nodup : NoDup (t_keys st);
  inv_called : forall k, In k (t_keys st) -> In k (t_called st)
}.

Lemma inv_init : inv init_state.
Proof. constructor; simpl; try reflexivity; try constructor. intros k []. Qed.

Ltac split_all C :=
  repeat match type of C with
         | (_ && _) = true => let C' := fresh "Cnd" in apply andb_true_iff in C; destruct C as [C C']
         end.

(* inversion of accepted events: the side conditions as boolean facts *)
Lemma accept_call_inv : forall st k st', accept_ev st (ECall k) = Some st' ->
  zmem k (t_called st) = false /\
  st' = {| t_root := t_root st; t_A := t_A st; t_batches := t_batches st; t_keys := t_keys st;
           t_called := t_called st ++ [k]; t_returned := t_returned st |}.
Proof.
  intros st k st' H. simpl in H. destruct (zmem k (t_called st)); simpl in H; [discriminate|].
  injection H as <-. auto.
Qed.

Lemma accept_ret_inv : forall st k ok st', accept_ev st (ERet k ok) = Some st' ->
  zmem k (t_called st) = true /\ zmem k (t_returned st) = false /\
  (ok = true -> zmem k (t_keys st) = true) /\
  st' = {| t_root := t_root st; t_A := t_A st; t_batches := t_batches st; t_keys := t_keys st;
           t_called := t_called st; t_returned := t_returned st ++ [k] |}.
Proof.
  intros st k ok st' H. simpl in H.
  match type of H with (if ?c then _ else _) = _ => destruct c eqn:C; [|discriminate] end.
  injection H as <-. split_all C. repeat split; try assumption.
  - apply negb_true_iff. assumption.
  - intros ->. simpl in *. assumption.
Qed.

Lemma accept_intro_inv : forall st k b obs newid root' st',
  accept_ev st (EIntro k b obs newid root') = Some st' ->
  obs_sound (t_root st) b obs = true /\
  introduce_segment (t_root st) b obs newid (sn_epoch root') = root' /\
  root_ok root' = true /\
  zmem k (t_called st) = true /\ zmem k (t_returned st) = false /\ zmem k (t_keys st) = false /\
  st' = {| t_root := root'; t_A := apply_batch (t_A st) b; t_batches := t_batches st ++ [b];
           t_keys := t_keys st ++ [k]; t_called := t_called st; t_returned := t_returned st |}.
Proof.
  intros st k b obs newid root' st' H. simpl in H.
  match type of H with (if ?c then _ else _) = _ => destruct c eqn:C; [|discriminate] end.
  injection H as <-. split_all C.
  repeat split; try assumption; try (apply negb_true_iff; assumption).
  apply snap_eqb_eq. assumption.
Qed.

Lemma accept_persist_inv : forall st ids root' st',
  accept_ev st (EPersistSwap ids root') = Some st' ->
  introduce_persist (t_root st) ids (sn_epoch root') = root' /\ root_ok root' = true /\
  st' = with_root st root'.
Proof.
  intros st ids root' st' H. simpl in H.
  match type of H with (if ?c then _ else _) = _ => destruct c eqn:C; [|discriminate] end.
  injection H as <-. split_all C. repeat split; try assumption. apply snap_eqb_eq. assumption.
Qed.

Lemma accept_merge_inv : forall st m olddocs root' skipped st',
  accept_ev st (EMerge m olddocs root' skipped) = Some st' ->
  merge_wf m olddocs = true /\ merge_compat (t_root st) m olddocs = true /\
  introduce_merge (t_root st) m olddocs (sn_epoch root') = Ok (root', skipped) /\
  root_ok root' = true /\ st' = with_root st root'.
Proof.
  intros st m olddocs root' skipped st' H. unfold accept_ev in H.
  match type of H with (if ?c then _ else _) = _ => destruct c eqn:C; [|discriminate] end.
  destruct (introduce_merge (t_root st) m olddocs (sn_epoch root')) as [[r sk]| | |] eqn:Em; try discriminate.
  match type of H with (if ?c then _ else _) = _ => destruct c eqn:D; [|discriminate] end.
  injection H as <-. split_all C. split_all D.
  assert (r = root') by (apply snap_eqb_eq; assumption).
  assert (sk = skipped) by (apply Bool.eqb_prop; assumption). subst.
  repeat split; assumption.
Qed.

Lemma accept_load_inv : forall st root' st', accept_ev st (ELoad root') = Some st' ->
  t_batches st = [] /\ root_ok root' = true /\
  st' = {| t_root := root'; t_A := abs root'; t_batches := []; t_keys := [];
           t_called := t_called st; t_returned := t_returned st |}.
Proof.
  intros st root' st' H. simpl in H.
  destruct (sn_segs (t_root st)); [|discriminate]. destruct (t_batches st); [|discriminate].
  destruct (root_ok root') eqn:R; [|discriminate]. injection H as <-. auto.
Qed.

Lemma accept_observe_inv : forall st o st', accept_ev st (EObserve o) = Some st' ->
  o_epoch o = sn_epoch (t_root st) /\ o_count o = snap_count (t_root st) /\
  o_matchall o = match_all (t_root st) /\
  (forall p, In p (o_lookups o) -> same_docs (snd p) (lookup_id (t_root st) (fst p)) = true) /\
  same_docs (map snd (o_matchall o)) (t_A st) = true /\ st' = st.
Proof.
  intros st o st' H. simpl in H.
  match type of H with (if ?c then _ else _) = _ => destruct c eqn:C; [|discriminate] end.
  injection H as <-. split_all C. repeat split; try assumption; try lia.
  - apply gdocs_eqb_eq. assumption.
  - apply forallb_forall. assumption.
Qed.

Lemma NoDup_snocZ : forall (l : list Z) x, NoDup l -> ~ In x l -> NoDup (l ++ [x]).
Proof. exact NoDup_snoc. Qed.

Lemma accept_ev_inv : forall st ev st', inv st -> accept_ev st ev = Some st' -> inv st'.
Proof.
  intros st ev st' [I1 I2 I3 I4 I5] H.
  destruct ev as [k|k ok|k b obs newid root'|ids root'|m olddocs root' skipped|root'|o].
  - apply accept_call_inv in H. destruct H as [_ ->].
    constructor; simpl; try assumption. intros k' Hk'. apply in_app_iff. left. apply I5. exact Hk'.
  - apply accept_ret_inv in H. destruct H as [_ [_ [_ ->]]]. constructor; simpl; assumption.
  - apply accept_intro_inv in H. destruct H as [H1 [H2 [H3 [H4 [H5 [H6 ->]]]]]]. constructor; simpl.
    + assumption.
    + rewrite <- H2. rewrite (introduce_refines_proof _ _ _ _ _ I1 H1). apply apply_batch_perm. exact I2.
    + rewrite !app_length, I3. reflexivity.
    + apply NoDup_snocZ; [exact I4|]. apply zmem_false. assumption.
    + intros k' Hk'. apply in_app_iff in Hk'. destruct Hk' as [Hk'|[<-|[]]]; [apply I5; exact Hk'|].
      apply zmem_In. assumption.
  - apply accept_persist_inv in H. destruct H as [H1 [H2 ->]].
    constructor; simpl; try assumption.
    rewrite <- H1. destruct (persist_swap_preserves_proof (t_root st) ids (sn_epoch root')) as [E _].
    rewrite E. exact I2.
  - apply accept_merge_inv in H. destruct H as [H1 [H2 [H3 [H4 ->]]]].
    constructor; simpl; try assumption.
    rewrite (merge_intro_preserves_proof _ _ _ _ _ _ I1 H1 H2 H3). exact I2.
  - apply accept_load_inv in H. destruct H as [_ [H2 ->]].
    constructor; simpl; try assumption; try reflexivity; try constructor. intros k [].
  - apply accept_observe_inv in H. destruct H as [_ [_ [_ [_ [_ ->]]]]]. constructor; assumption.
Qed.

Lemma accept_run_inv : forall evs st st', inv st -> accept_run st evs = Some st' -> inv st'.
Proof.
  induction evs as [|e t IH]; intros st st' Hi H; simpl in H.
  - injection H as <-. exact Hi.
  - destruct (accept_ev st e) as [s1|] eqn:E; [|discriminate].
    apply (IH s1 st'); [apply (accept_ev_inv st e); assumption | exact H].
Qed.

Lemma accept_run_app : forall a b st st',
  accept_run st (a ++ b) = Some st' <-> exists s1, accept_run st a = Some s1 /\ accept_run s1 b = Some st'.
Proof.
  induction a as [|e t IH]; intros b st st'; simpl.
  - split; [intro H; exists st; auto | intros [s1 [H1 H2]]; injection H1 as ->; exact H2].
  - destruct (accept_ev st e) as [s0|]; [apply IH|].
    split; [discriminate | intros [s1 [H1 _]]; discriminate].
Qed.

(* ================================================================== *)
(* C01.3  history_refines                                               *)
(* ================================================================== *)

(* the content the writer was opened on: the root of the last ELoad, else empty *)
Fixpoint loaded_from (acc : list doc) (evs : list ievent) : list doc :=
  match evs with
  | [] => acc
  | ELoad r :: t => loaded_from (abs r) t
  | _ :: t => loaded_from acc t
  end.
Definition loaded (evs : list ievent) : list doc := loaded_from [] evs.

Definition no_load (evs : list ievent) : Prop := forall r, ~ In (ELoad r) evs.

Lemma loaded_no_load : forall evs acc, no_load evs -> loaded_from acc evs = acc.
Proof.
  induction evs as [|e t IH]; intros acc H; simpl; [reflexivity|].
  assert (Ht : no_load t) by (intros r Hr; apply (H r); right; exact Hr).
  destruct e; try (apply IH; exact Ht). exfalso. apply (H root'). left. reflexivity.
Qed.

Lemma accept_ev_A : forall st ev st' L,
  accept_ev st ev = Some st' -> t_A st = fold_left apply_batch (t_batches st) L ->
  t_A st' = fold_left apply_batch (t_batches st') (loaded_from L [ev]).
Proof.
  intros st ev st' L H HA.
  destruct ev as [k|k ok|k b obs newid root'|ids root'|m olddocs root' skipped|root'|o]; simpl loaded_from.
  - apply accept_call_inv in H. destruct H as [_ ->]. exact HA.
  - apply accept_ret_inv in H. destruct H as [_ [_ [_ ->]]]. exact HA.
  - apply accept_intro_inv in H. destruct H as [_ [_ [_ [_ [_ [_ ->]]]]]]. simpl.
    rewrite fold_left_app. simpl. rewrite HA. reflexivity.
  - apply accept_persist_inv in H. destruct H as [_ [_ ->]]. exact HA.
  - apply accept_merge_inv in H. destruct H as [_ [_ [_ [_ ->]]]]. exact HA.
  - apply accept_load_inv in H. destruct H as [_ [_ ->]]. reflexivity.
  - apply accept_observe_inv in H. destruct H as [_ [_ [_ [_ [_ ->]]]]]. exact HA.
Qed.

Lemma loaded_from_cons : forall L e t, loaded_from L (e :: t) = loaded_from (loaded_from L [e]) t.
Proof. intros L e t. destruct e; reflexivity. Qed.

Lemma accept_run_A : forall evs st st' L,
  accept_run st evs = Some st' -> t_A st = fold_left apply_batch (t_batches st) L ->
  t_A st' = fold_left apply_batch (t_batches st') (loaded_from L evs).
Proof.
  induction evs as [|e t IH]; intros st st' L H HA; simpl in H.
  - injection H as <-. exact HA.
  - destruct (accept_ev st e) as [s1|] eqn:E; [|discriminate].
    rewrite loaded_from_cons. apply (IH s1 st' _ H). apply (accept_ev_A st e s1 L E HA).
Qed.

Theorem history_refines_proof : forall evs st,
  accept_run init_state evs = Some st ->
  Permutation (abs (t_root st)) (t_A st) /\
  t_A st = fold_left apply_batch (t_batches st) (loaded evs) /\
  (no_load evs -> t_A st = apply_batches (t_batches st)).
Proof.
  intros evs st H. split; [|split].
  - apply (inv_perm st). apply (accept_run_inv evs init_state st inv_init H).
  - apply (accept_run_A evs init_state st [] H). reflexivity.
  - intro Hn. rewrite (accept_run_A evs init_state st [] H eq_refl).
    rewrite loaded_no_load by exact Hn. reflexivity.
Qed.

(* ================================================================== *)
(* C06.11  no_dup_no_loss                                               *)
(* ================================================================== *)

Theorem no_dup_no_loss_proof : forall evs st i,
  accept_run init_state evs = Some st ->
  count_id i (abs (t_root st)) = count_id i (t_A st) /\
  (no_load evs -> count_id i (abs (t_root st)) = count_id i (apply_batches (t_batches st))).
Proof.
  intros evs st i H. destruct (history_refines_proof evs st H) as [H1 [_ H3]]. split.
  - apply count_id_perm. exact H1.
  - intro Hn. rewrite <- (H3 Hn). apply count_id_perm. exact H1.
Qed.

(* ================================================================== *)
(* C05.14  introductions linearize the batches                          *)
(* ================================================================== *)

Lemma no_load_app : forall a b, no_load (a ++ b) -> no_load a /\ no_load b.
Proof.
  intros a b H. split; intros r Hr; apply (H r); apply in_app_iff; [left | right]; exact Hr.
Qed.

Lemma no_load_cons : forall e t, no_load (e :: t) -> (forall r, e <> ELoad r) /\ no_load t.
Proof.
  intros e t H. split.
  - intros r ->. apply (H r). left. reflexivity.
  - intros r Hr. apply (H r). right. exact Hr.
Qed.

(* without ELoad, keys and batches only grow, and a key introduced later had not returned before *)
Definition grows (st st' : tstate) : Prop :=
  exists ks bs, t_keys st' = t_keys st ++ ks /\ t_batches st' = t_batches st ++ bs /\
    length ks = length bs /\
    (forall k, In k ks -> ~ In k (t_returned st)) /\
    (forall k, In k (t_returned st) -> In k (t_returned st')).

Lemma grows_refl : forall st, grows st st.
Proof. intro st. exists [], []. rewrite !app_nil_r. repeat split; auto; intros k []. Qed.

Lemma grows_trans : forall a b c, grows a b -> grows b c -> grows a c.
Proof.
  intros a b c [ks1 [bs1 [K1 [B1 [L1 [N1 M1]]]]]] [ks2 [bs2 [K2 [B2 [L2 [N2 M2]]]]]].
  exists (ks1 ++ ks2), (bs1 ++ bs2). rewrite K2, K1, B2, B1, !app_assoc, !app_length.
  repeat split; auto.
  intros k Hk. apply in_app_iff in Hk. destruct Hk as [Hk|Hk]; [apply N1; exact Hk|].
  intro Hr. apply (N2 k Hk). apply M1. exact Hr.
Qed.

Lemma grows_same : forall st st', t_keys st' = t_keys st -> t_batches st' = t_batches st ->
  (forall k, In k (t_returned st) -> In k (t_returned st')) -> grows st st'.
Proof.
  intros st st' K B M. exists [], []. rewrite !app_nil_r. repeat split; auto; intros k [].
Qed.

Lemma accept_ev_grows : forall st ev st', accept_ev st ev = Some st' -> (forall r, ev <> ELoad r) -> grows st st'.
Proof.
  intros st ev st' H Hn.
  destruct ev as [k|k ok|k b obs newid root'|ids root'|m olddocs root' skipped|root'|o].
  - apply accept_call_inv in H. destruct H as [_ ->]. apply grows_same; auto.
  - apply accept_ret_inv in H. destruct H as [_ [_ [_ ->]]]. apply grows_same; auto.
    simpl. intros k' Hk'. apply in_app_iff. left. exact Hk'.
  - apply accept_intro_inv in H. destruct H as [_ [_ [_ [_ [H5 [_ ->]]]]]]. exists [k], [b]. simpl.
    repeat split; auto. intros k' [<-|[]]. apply zmem_false. exact H5.
  - apply accept_persist_inv in H. destruct H as [_ [_ ->]]. apply grows_same; auto.
  - apply accept_merge_inv in H. destruct H as [_ [_ [_ [_ ->]]]]. apply grows_same; auto.
  - exfalso. apply (Hn root'). reflexivity.
  - apply accept_observe_inv in H. destruct H as [_ [_ [_ [_ [_ ->]]]]]. apply grows_refl.
Qed.

Lemma accept_run_grows : forall evs st st', accept_run st evs = Some st' -> no_load evs -> grows st st'.
Proof.
  induction evs as [|e t IH]; intros st st' H Hn; simpl in H.
  - injection H as <-. apply grows_refl.
  - destruct (accept_ev st e) as [s1|] eqn:E; [|discriminate].
    apply no_load_cons in Hn. destruct Hn as [Hn1 Hn2].
    apply (grows_trans st s1 st'); [apply (accept_ev_grows st e s1 E Hn1) | apply (IH s1 st' H Hn2)].
Qed.

Lemma returned_ok_introduced : forall evs st k,
  accept_run init_state evs = Some st -> no_load evs -> In (ERet k true) evs -> In k (t_keys st).
Proof.
  intros evs st k H Hn Hin. apply in_split in Hin. destruct Hin as [pre [post ->]].
  apply accept_run_app in H. destruct H as [s1 [H1 H2]]. cbn [accept_run] in H2.
  destruct (accept_ev s1 (ERet k true)) as [s2|] eqn:E; [|discriminate].
  apply no_load_app in Hn. destruct Hn as [_ Hn]. apply no_load_cons in Hn. destruct Hn as [_ Hn].
  destruct (accept_run_grows post s2 st H2 Hn) as [ks [bs [K _]]].
  apply accept_ret_inv in E. destruct E as [_ [_ [E3 ->]]]. simpl in K. rewrite K.
  apply in_app_iff. left. apply zmem_In. apply E3. reflexivity.
Qed.

Lemma real_time_order : forall pre k1 ok mid k2 post st,
  accept_run init_state (pre ++ [ERet k1 ok] ++ mid ++ [ECall k2] ++ post) = Some st ->
  no_load (pre ++ [ERet k1 ok] ++ mid ++ [ECall k2] ++ post) ->
  In k1 (t_keys st) -> In k2 (t_keys st) ->
  exists l1 l2 l3, t_keys st = l1 ++ k1 :: l2 ++ k2 :: l3.
Proof.
  intros pre k1 ok mid k2 post st H Hn Hk1 Hk2.
  apply accept_run_app in H. destruct H as [s1 [H1 H]]. cbn [accept_run app] in H.
  destruct (accept_ev s1 (ERet k1 ok)) as [s2|] eqn:E2; [|discriminate].
  apply accept_run_app in H. destruct H as [s3 [H3 H]]. cbn [accept_run app] in H.
  destruct (accept_ev s3 (ECall k2)) as [s4|] eqn:E4; [|discriminate].
  apply no_load_app in Hn. destruct Hn as [_ Hn]. simpl in Hn.
  apply no_load_cons in Hn. destruct Hn as [_ Hn].
  apply no_load_app in Hn. destruct Hn as [Hn_mid Hn]. apply no_load_cons in Hn. destruct Hn as [_ Hn_post].
  pose proof (accept_run_inv pre _ _ inv_init H1) as I1.
  pose proof (accept_ev_inv _ _ _ I1 E2) as I2.
  pose proof (accept_run_inv mid _ _ I2 H3) as I3.
  destruct (accept_run_grows mid s2 s3 H3 Hn_mid) as [ksm [bsm [Km [_ [_ [Nm Mm]]]]]].
  destruct (accept_run_grows post s4 st H Hn_post) as [ksp [bsp [Kp [_ [_ [Np _]]]]]].
  apply accept_ret_inv in E2. destruct E2 as [_ [_ [_ E2]]].
  apply accept_call_inv in E4. destruct E4 as [C4 E4].
  assert (R2 : In k1 (t_returned s2)) by (rewrite E2; simpl; apply in_app_iff; right; left; reflexivity).
  assert (R4 : In k1 (t_returned s4)) by (rewrite E4; simpl; apply Mm; exact R2).
  assert (K4 : t_keys s4 = t_keys s3) by (rewrite E4; reflexivity).
  rewrite Kp, K4 in Hk1, Hk2 |- *.
  assert (G1 : In k1 (t_keys s3)).
  { apply in_app_iff in Hk1. destruct Hk1 as [Hk1|Hk1]; [exact Hk1|]. exfalso. apply (Np k1 Hk1 R4). }
  assert (G2 : In k2 ksp).
  { apply in_app_iff in Hk2. destruct Hk2 as [Hk2|Hk2]; [|exact Hk2]. exfalso.
    apply (inv_called s3 I3) in Hk2. apply zmem_In in Hk2. congruence. }
  apply in_split in G1. destruct G1 as [a [b Ga]]. apply in_split in G2. destruct G2 as [c [d Gc]].
  exists a, (b ++ c), d. rewrite Ga, Gc. rewrite <- !app_assoc. simpl. reflexivity.
Qed.

Theorem introductions_linearize_proof : forall evs st,
  accept_run init_state evs = Some st -> no_load evs ->
  (NoDup (t_keys st) /\ length (t_keys st) = length (t_batches st) /\
   forall k, In (ERet k true) evs -> In k (t_keys st)) /\
  (forall pre k1 ok mid k2 post, evs = pre ++ [ERet k1 ok] ++ mid ++ [ECall k2] ++ post ->
     In k1 (t_keys st) -> In k2 (t_keys st) ->
     exists l1 l2 l3, t_keys st = l1 ++ k1 :: l2 ++ k2 :: l3) /\
  Permutation (abs (t_root st)) (apply_batches (t_batches st)).
Proof.
  intros evs st H Hn. pose proof (accept_run_inv evs _ _ inv_init H) as I. split; [|split].
  - split; [apply (inv_nodup st I)|]. split; [apply (inv_len st I)|].
    intros k Hk. apply (returned_ok_introduced evs st k H Hn Hk).
  - intros pre k1 ok mid k2 post -> Hk1 Hk2. apply (real_time_order pre k1 ok mid k2 post st H Hn Hk1 Hk2).
  - destruct (history_refines_proof evs st H) as [H1 [_ H3]]. rewrite <- (H3 Hn). exact H1.
Qed.

(* ================================================================== *)
(* C05.15  a reader sees the state after a prefix of the introductions   *)
(* ================================================================== *)

Theorem reader_is_prefix_proof : forall pre o post st,
  accept_run init_state (pre ++ EObserve o :: post) = Some st -> no_load (pre ++ EObserve o :: post) ->
  exists stn,
    accept_run init_state pre = Some stn /\
    Permutation (map snd (o_matchall o)) (apply_batches (t_batches stn)) /\
    map snd (o_matchall o) = abs (t_root stn) /\
    o_count o = Z.of_nat (length (apply_batches (t_batches stn))) /\
    (forall id ds, In (id, ds) (o_lookups o) ->
       Permutation ds (filter (fun d => doc_id d =? id) (apply_batches (t_batches stn)))) /\
    (exists ks bs, t_keys st = t_keys stn ++ ks /\ t_batches st = t_batches stn ++ bs /\ length ks = length bs) /\
    length (t_keys stn) = length (t_batches stn) /\
    (forall k, In (ERet k true) pre -> In k (t_keys stn)).
Proof.
  intros pre o post st H Hn.
  apply accept_run_app in H. destruct H as [stn [H1 H2]]. exists stn. split; [exact H1|].
  apply no_load_app in Hn. destruct Hn as [Hn_pre Hn_post].
  pose proof (accept_run_inv pre _ _ inv_init H1) as I.
  destruct (history_refines_proof pre stn H1) as [P1 [_ P3]]. specialize (P3 Hn_pre).
  pose proof (accept_run_grows _ _ _ H2 Hn_post) as [ks [bs [K [B [L _]]]]].
  cbn [accept_run] in H2. destruct (accept_ev stn (EObserve o)) as [s'|] eqn:E; [|discriminate].
  apply accept_observe_inv in E. destruct E as [_ [E2 [E3 [E4 [E5 ->]]]]].
  rewrite <- P3.
  assert (Hm : map snd (o_matchall o) = abs (t_root stn)) by (rewrite E3; apply match_all_abs).
  split; [apply same_docs_perm; exact E5|]. split; [exact Hm|]. split; [|split; [|split; [|split]]].
  - rewrite E2. rewrite snap_count_abs.
    + f_equal. apply Permutation_length. exact P1.
    + pose proof (root_ok_spec _ (inv_root stn I)). tauto.
  - intros id ds Hin. specialize (E4 (id, ds) Hin). simpl in E4. apply same_docs_perm in E4.
    rewrite E4. unfold lookup_id. apply perm_filter. exact P1.
  - exists ks, bs. auto.
  - apply (inv_len stn I).
  - intros k Hk. apply (returned_ok_introduced pre stn k H1 Hn_pre Hk).
Qed.

(* ================================================================== *)
(* non-vacuity: a concrete accepted history with every kind of event    *)
(* ================================================================== *)

Definition tx_r4 := introduce_persist ex_r3 [2] 4.
Definition tx_b4 : batch := {| b_docs := [(5, 50)]; b_ids := [5] |}.
Definition tx_r5 := introduce_segment tx_r4 tx_b4 [] 4 5.
Definition tx_b5 : batch := {| b_docs := []; b_ids := [4] |}.            (* deletes id 4 inside the merge window *)
Definition tx_r6 := introduce_segment tx_r5 tx_b5 [(2, [1])] 5 6.
(* merge of segments 2 and 4, planned on tx_r5 *)
Definition tx_merge : merge_ev :=
  {| m_id := 9; m_old := [(2, Some []); (4, Some [])]; m_oldnew := [(2, [0; 1]); (4, [2])];
     m_new := Some [(2, 21); (4, 40); (5, 50)]; m_new_persisted := true |}.
Definition tx_olddocs : list (Z * list doc) := [(2, [(2, 21); (4, 40)]); (4, [(5, 50)])].
Definition tx_r7 := match introduce_merge tx_r6 tx_merge tx_olddocs 7 with Ok (r, _) => r | _ => tx_r6 end.
Definition tx_obs (r : snapshot) (ids : list Z) : observation :=
  {| o_epoch := sn_epoch r; o_count := snap_count r; o_matchall := match_all r;
     o_lookups := map (fun i => (i, lookup_id r i)) ids |}.

Definition tx_trace : list ievent :=
  [ ECall 1; EIntro 1 ex_b1 [] 1 ex_r1; ERet 1 true;
    ECall 2; ECall 3;
    EIntro 2 ex_b2 ex_obs2 2 ex_r2; EObserve (tx_obs ex_r2 [1; 2; 3; 4]); ERet 2 true;
    EIntro 3 ex_b3 ex_obs3 3 ex_r3; ERet 3 true;
    EPersistSwap [2] tx_r4;
    ECall 4; EIntro 4 tx_b4 [] 4 tx_r5; ERet 4 true;
    ECall 5; EIntro 5 tx_b5 [(2, [1])] 5 tx_r6;
    EMerge tx_merge tx_olddocs tx_r7 false;
    ERet 5 true; EObserve (tx_obs tx_r7 [2; 4; 5]) ].

Lemma trace_example_proof :
  no_load tx_trace /\
  exists st, accept_run init_state tx_trace = Some st /\
    t_keys st = [1; 2; 3; 4; 5] /\
    t_batches st = [ex_b1; ex_b2; ex_b3; tx_b4; tx_b5] /\
    seg_ids (t_root st) = [9] /\
    abs (t_root st) = [(2, 21); (5, 50)] /\
    apply_batches (t_batches st) = [(2, 21); (5, 50)].
Proof.
  split.
  - intros r H. unfold tx_trace in H. simpl in H.
    repeat (destruct H as [H|H]; [discriminate|]). exact H.
  - eexists. split; [vm_compute; reflexivity|]. vm_compute. repeat split; reflexivity.
Qed.

Lemma stale_example_proof :
  obs_sound ex_r2 ex_b3 ex_obs3 = true /\
  introduce_segment ex_r2 ex_b3 ex_obs3 3 3 = introduce_segment ex_r2 ex_b3 [] 3 3.
Proof. vm_compute. split; reflexivity. Qed.

(* the nil entry of a vanished segment (a nil dereference in introduceMerge) is rejected by the monitor *)
Lemma merge_nil_entry_rejected_proof :
  let root := {| sn_epoch := 3; sn_segs := [ {| ss_id := 1; ss_docs := [(1, 10)]; ss_del := []; ss_persisted := true |} ] |} in
  let m := {| m_id := 9; m_old := [(5, None)]; m_oldnew := []; m_new := None; m_new_persisted := true |} in
  let od := [(5, [(7, 70)])] in
  root_ok root = true /\ merge_wf m od = true /\ introduce_merge root m od 4 = Panic 4 /\
  merge_compat root m od = false.
Proof. vm_compute. repeat split; reflexivity. Qed.
