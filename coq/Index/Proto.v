(* Index/Proto.v — M-PROTO: the monitor for complete recorded runs of a writer over a directory:
   root history (Index/Trace.v) interleaved with directory operations (persist / remove), the
   persister's grab, acknowledgements (safe Batch returns, persisted-callbacks), and the crash /
   recovery semantics (which files a crash leaves, what loadSnapshots / OpenReader make of them,
   what the deletion policy does on open).  Models index/persister.go (persistSnapshotDirect order:
   segments, then snapshot, then Commit), index/deletion.go (KeepNLatestDeletionPolicy exactly),
   index/writer.go (loadSnapshots, OpenReader, nextSegmentID), and uses the snapshot loader model of
   Index/SnapshotCodec.v on the actual file bytes.  No proofs in this file. *)
From Coq Require Import ZArith List Bool.
From Bluge Require Import Base.Res Base.Corr Index.Model Index.Trace.
From Bluge Require Index.SnapshotCodec.
Import ListNotations.
Open Scope Z_scope.

(* ---------- KeepNLatestDeletionPolicy (index/deletion.go) ---------- *)

Record pol := {
  p_n : Z;
  p_live : list Z;                    (* liveEpochs, oldest first *)
  p_deletable : list Z;               (* deletableEpochs *)
  p_livesegs : list (Z * list Z);     (* liveSegments: epoch -> segment ids *)
  p_known : list Z                    (* knownSegmentFiles *)
}.

Definition pol_init (n : Z) : pol :=
  {| p_n := n; p_live := []; p_deletable := []; p_livesegs := []; p_known := [] |}.

Definition zadd (x : Z) (l : list Z) : list Z := if zmem x l then l else l ++ [x].
Definition zremove (x : Z) (l : list Z) : list Z := filter (fun y => negb (y =? x)) l.
Definition map_set {A} (k : Z) (v : A) (m : list (Z * A)) : list (Z * A) :=
  (k, v) :: filter (fun p => negb (fst p =? k)) m.
Definition map_del {A} (k : Z) (m : list (Z * A)) : list (Z * A) := filter (fun p => negb (fst p =? k)) m.

(* Commit(snapshot) *)
Definition pol_commit (p : pol) (epoch : Z) (segs : list Z) : pol :=
  let known := fold_left (fun k s => zadd s k) segs (p_known p) in
  let live := p_live p ++ [epoch] in
  let ls := map_set epoch segs (p_livesegs p) in
  let len := Z.of_nat (length live) in
  if p_n p <? len then
    let cut := Z.to_nat (len - p_n p) in
    {| p_n := p_n p; p_live := skipn cut live; p_deletable := p_deletable p ++ firstn cut live;
       p_livesegs := ls; p_known := known |}
  else {| p_n := p_n p; p_live := live; p_deletable := p_deletable p; p_livesegs := ls; p_known := known |}.

(* cleanupSnapshots / cleanupSegments are driven by the observed Remove calls *)
Definition pol_may_remove_snp (p : pol) (e : Z) : bool := zmem e (p_deletable p).
Definition pol_removed_snp (p : pol) (e : Z) : pol :=
  {| p_n := p_n p; p_live := p_live p; p_deletable := zremove e (p_deletable p);
     p_livesegs := map_del e (p_livesegs p); p_known := p_known p |}.
Definition pol_may_remove_seg (p : pol) (s : Z) : bool :=
  zmem s (p_known p) && forallb (fun es => negb (zmem s (snd es))) (p_livesegs p).
Definition pol_removed_seg (p : pol) (s : Z) : pol :=
  {| p_n := p_n p; p_live := p_live p; p_deletable := p_deletable p;
     p_livesegs := p_livesegs p; p_known := zremove s (p_known p) |}.

(* ---------- the directory ---------- *)

(* a complete snapshot file: its bytes and, as parsed by the harness with the real roaring
   decoder, its segments (id, deleted document numbers) *)
Record snpfile := { sf_bytes : list Z; sf_segs : list (Z * list Z) }.

Record inflight := { if_snp : bool; if_id : Z; if_bytes : list Z; if_segs : list (Z * list Z) }.

Record disk := {
  d_snp : list (Z * snpfile);      (* epoch -> complete snapshot file *)
  d_seg : list Z;                  (* ids of complete segment files *)
  d_fly : list inflight;           (* persists that have started and not finished *)
  d_junk_snp : list (Z * list Z);  (* left-over snapshot files that did not load when the writer was opened *)
  d_junk_seg : list Z              (* left-over segment files no loaded snapshot names *)
}.

Definition disk_empty : disk := {| d_snp := []; d_seg := []; d_fly := []; d_junk_snp := []; d_junk_seg := [] |}.
Definition mkdisk (d : disk) (snp : list (Z * snpfile)) (seg : list Z) (fly : list inflight) : disk :=
  {| d_snp := snp; d_seg := seg; d_fly := fly; d_junk_snp := d_junk_snp d; d_junk_seg := d_junk_seg d |}.

(* ---------- monitor state ---------- *)

Record pstate := {
  ps_t : tstate;                       (* root history monitor *)
  ps_epoch_n : list (Z * nat);         (* epoch -> number of batches introduced when that root was created *)
  ps_segdocs : list (Z * list doc);    (* documents of every segment ever seen (segments are immutable) *)
  ps_disk : disk;
  ps_pol : pol;
  ps_base : list doc;                  (* abstract content the run started from (recovered content) *)
  ps_safe : list Z;                    (* keys of safe-mode batches introduced and not yet grabbed by the persister *)
  ps_acked : list Z;                   (* keys acknowledged so far *)
  ps_faulted : bool;                   (* some directory operation failed in this run *)
  ps_grabbed : option (Z * list Z)     (* the snapshot the persister works on: (epoch, ids of its file-backed
                                          segments), from its grab to the commit of its snapshot file *)
}.

Definition n_intro (st : pstate) : nat := length (t_keys (ps_t st)).

(* abstract content after the first n batches of this run, on top of the base *)
Definition content_at (st : pstate) (n : nat) : list doc :=
  fold_left apply_batch (firstn n (t_batches (ps_t st))) (ps_base st).

(* content of a list of (segment id, deleted) given the known documents of the segments *)
Fixpoint segs_content (segdocs : list (Z * list doc)) (segs : list (Z * list Z)) : option (list doc) :=
  match segs with
  | [] => Some []
  | (id, del) :: t =>
      match lookup id segdocs, segs_content segdocs t with
      | Some docs, Some rest => Some (live_at docs del ++ rest)
      | _, _ => None
      end
  end.

(* position of key k in the introduction order *)
Fixpoint pos_of (k : Z) (l : list Z) : option nat :=
  match l with
  | [] => None
  | x :: t => if x =? k then Some O else option_map S (pos_of k t)
  end.

(* ---------- the snapshot loader on actual bytes ---------- *)

Definition rb_of (table : list (list Z)) (b : list Z) : option (list Z) :=
  if existsb (zlist_eqb b) table then Some b else None.

Definition loads (table : list (list Z)) (bytes : list Z) : bool :=
  match SnapshotCodec.load (rb_of table) bytes with Ok _ => true | _ => false end.

Definition loaded_ids (table : list (list Z)) (bytes : list Z) : option (list Z) :=
  match SnapshotCodec.load (rb_of table) bytes with
  | Ok s => Some (map SnapshotCodec.sg_id (SnapshotCodec.sn_segs s))
  | _ => None
  end.

(* ---------- events ---------- *)

Inductive pevent :=
| PI (e : ievent)                                   (* a root-history event *)
| PSafe (k : Z)                                     (* batch k is a safe-mode batch (it waits for persistence) *)
| PGrab (epoch : Z) (nacks : Z)                     (* the persister took the root and the pending acks under the lock *)
| PPersistStart (snp : bool) (id : Z) (bytes : list Z) (segs : list (Z * list Z))
| PPersistOk (snp : bool) (id : Z)
| PPersistErr (snp : bool) (id : Z)
| PRemoveOk (snp : bool) (id : Z)
| PRemoveErr (snp : bool) (id : Z)
| PAck (k : Z) (ok : bool)                          (* safe Batch returned / persisted-callback fired, with or without error *)
| PFault.                                           (* a Load / List operation of the directory failed *)

Definition fly_remove (snp : bool) (id : Z) (l : list inflight) : list inflight :=
  filter (fun f => negb (Bool.eqb (if_snp f) snp && (if_id f =? id))) l.
Definition fly_find (snp : bool) (id : Z) (l : list inflight) : option inflight :=
  find (fun f => Bool.eqb (if_snp f) snp && (if_id f =? id)) l.

Definition with_disk (st : pstate) (d : disk) : pstate :=
  {| ps_t := ps_t st; ps_epoch_n := ps_epoch_n st; ps_segdocs := ps_segdocs st; ps_disk := d; ps_pol := ps_pol st;
     ps_base := ps_base st; ps_safe := ps_safe st; ps_acked := ps_acked st; ps_faulted := ps_faulted st; ps_grabbed := ps_grabbed st |}.
Definition with_pol (st : pstate) (p : pol) : pstate :=
  {| ps_t := ps_t st; ps_epoch_n := ps_epoch_n st; ps_segdocs := ps_segdocs st; ps_disk := ps_disk st; ps_pol := p;
     ps_base := ps_base st; ps_safe := ps_safe st; ps_acked := ps_acked st; ps_faulted := ps_faulted st; ps_grabbed := ps_grabbed st |}.
Definition set_faulted (st : pstate) : pstate :=
  {| ps_t := ps_t st; ps_epoch_n := ps_epoch_n st; ps_segdocs := ps_segdocs st; ps_disk := ps_disk st; ps_pol := ps_pol st;
     ps_base := ps_base st; ps_safe := ps_safe st; ps_acked := ps_acked st; ps_faulted := true; ps_grabbed := ps_grabbed st |}.

Definition clear_grabbed (st : pstate) : pstate :=
  {| ps_t := ps_t st; ps_epoch_n := ps_epoch_n st; ps_segdocs := ps_segdocs st; ps_disk := ps_disk st; ps_pol := ps_pol st;
     ps_base := ps_base st; ps_safe := ps_safe st; ps_acked := ps_acked st; ps_faulted := ps_faulted st; ps_grabbed := None |}.

Definition learn_segs (segdocs : list (Z * list doc)) (sn : snapshot) : list (Z * list doc) :=
  fold_left (fun m s => match lookup (ss_id s) m with Some _ => m | None => (ss_id s, ss_docs s) :: m end) (sn_segs sn) segdocs.

(* a known segment keeps its documents for ever *)
Definition segs_consistent (segdocs : list (Z * list doc)) (sn : snapshot) : bool :=
  forallb (fun s => match lookup (ss_id s) segdocs with Some d => docs_eqb d (ss_docs s) | None => true end) (sn_segs sn).

Definition root_of_ievent (e : ievent) : option snapshot :=
  match e with
  | EIntro _ _ _ _ r | EPersistSwap _ r | EMerge _ _ r _ | ELoad r => Some r
  | _ => None
  end.

Definition max_epoch (l : list (Z * snpfile)) : Z := fold_left (fun m p => Z.max m (fst p)) l 0.

(* ids of the file-backed (persisted) segments of a snapshot *)
Definition persisted_ids (sn : snapshot) : list Z := map ss_id (filter ss_persisted (sn_segs sn)).

(* a segment that becomes file-backed in the root (persisted by the persister and swapped in, or the
   output of a file merge) is a new file: the deletion policy has never been told about it *)
Definition newly_persisted_ok (known : list Z) (old : snapshot) (e : ievent) (r : snapshot) : bool :=
  match e with
  | ELoad _ => true
  | _ => forallb (fun id => zmem id (persisted_ids old) || negb (zmem id known)) (persisted_ids r)
  end.

(* the root a reopened writer starts from is the newest complete snapshot file of the directory
   (loadSnapshots, writer.go:136-175: every loadable snapshot becomes the root in turn, oldest first) *)
Definition load_agrees (d : disk) (r : snapshot) : bool :=
  match lookup (sn_epoch r) (d_snp d) with
  | Some f => (max_epoch (d_snp d) =? sn_epoch r) &&
              list_eqb (pair_eqb Z.eqb zlist_eqb) (map (fun s => (ss_id s, ss_del s)) (sn_segs r)) (sf_segs f)
  | None => false
  end.

(* a writer opened on existing snapshots (ps_epoch_n = []) replaces its root first by the loaded one,
   and never loads again; a writer opened on an empty directory never loads *)
Definition root_event_ok (epoch_n : list (Z * nat)) (d : disk) (e : ievent) (r : snapshot) : bool :=
  match e, epoch_n with
  | ELoad _, [] => load_agrees d r
  | ELoad _, _ :: _ => false
  | _, [] => false
  | _, _ :: _ => true
  end.

(* the newest complete snapshot file that contains the batch at position `pos` *)
Definition covered (st : pstate) (pos : nat) : bool :=
  existsb (fun ef => match lookup (fst ef) (ps_epoch_n st) with
                     | Some n => Nat.ltb pos n
                     | None => false
                     end) (d_snp (ps_disk st)).

Definition paccept_ev (table : list (list Z)) (st : pstate) (ev : pevent) : option pstate :=
  let d := ps_disk st in
  match ev with
  | PI e =>
      match accept_ev (ps_t st) e with
      | None => None
      | Some t' =>
          match root_of_ievent e with
          | Some r =>
              if segs_consistent (ps_segdocs st) r && root_event_ok (ps_epoch_n st) d e r
                 && newly_persisted_ok (p_known (ps_pol st)) (t_root (ps_t st)) e r then
                Some {| ps_t := t'; ps_epoch_n := (sn_epoch r, length (t_keys t')) :: ps_epoch_n st;
                        ps_segdocs := learn_segs (ps_segdocs st) r; ps_disk := d; ps_pol := ps_pol st;
                        ps_base := (match e with ELoad _ => abs r | _ => ps_base st end);
                        ps_safe := ps_safe st; ps_acked := ps_acked st; ps_faulted := ps_faulted st; ps_grabbed := ps_grabbed st |}
              else None
          | None =>
              Some {| ps_t := t'; ps_epoch_n := ps_epoch_n st; ps_segdocs := ps_segdocs st; ps_disk := d; ps_pol := ps_pol st;
                      ps_base := ps_base st; ps_safe := ps_safe st; ps_acked := ps_acked st; ps_faulted := ps_faulted st; ps_grabbed := ps_grabbed st |}
          end
      end
  | PSafe k =>
      (* recorded right after the introduction of a safe batch *)
      if zmem k (t_keys (ps_t st)) && negb (zmem k (ps_safe st)) && negb (zmem k (ps_acked st))
      then Some {| ps_t := ps_t st; ps_epoch_n := ps_epoch_n st; ps_segdocs := ps_segdocs st; ps_disk := d; ps_pol := ps_pol st;
                   ps_base := ps_base st; ps_safe := ps_safe st ++ [k]; ps_acked := ps_acked st; ps_faulted := ps_faulted st; ps_grabbed := ps_grabbed st |}
      else None
  | PGrab epoch nacks =>
      (* root and pending acknowledgement channels are taken under one lock: exactly the safe batches
         introduced up to that root and not grabbed before *)
      (* ... by the persister, which runs once the root is loaded and is not inside a snapshot write *)
      if (epoch =? sn_epoch (t_root (ps_t st))) && (nacks =? Z.of_nat (length (ps_safe st)))
         && match ps_epoch_n st with [] => false | _ => true end
         && negb (existsb if_snp (d_fly d))
      then Some {| ps_t := ps_t st; ps_epoch_n := ps_epoch_n st; ps_segdocs := ps_segdocs st; ps_disk := d; ps_pol := ps_pol st;
                   ps_base := ps_base st; ps_safe := []; ps_acked := ps_acked st; ps_faulted := ps_faulted st;
                   ps_grabbed := Some (epoch, persisted_ids (t_root (ps_t st))) |}
      else None
  | PPersistStart true epoch bytes segs =>
      (* the snapshot is written after every segment it names is completely persisted; its content is the
         abstract index at that epoch; the name is not that of a loadable snapshot *)
      match lookup epoch (ps_epoch_n st), segs_content (ps_segdocs st) segs with
      | Some n, Some content =>
          if forallb (fun s => zmem (fst s) (d_seg d)) segs
             && same_docs content (content_at st n)
             && negb (existsb (fun ef => fst ef =? epoch) (d_snp d))
             && (max_epoch (d_snp d) <? epoch)
             && negb (existsb if_snp (d_fly d))          (* one persister: at most one snapshot is being written *)
             && match ps_grabbed st with                 (* it is the grabbed snapshot, and it keeps every file-backed segment *)
                | Some (ge, gsegs) => (ge =? epoch) && forallb (fun id => zmem id (map fst segs)) gsegs
                | None => false
                end
             && match loaded_ids table bytes with
                | Some ids => list_eqbZ ids (map fst segs)
                | None => false
                end
          then Some (with_disk st {| d_snp := d_snp d; d_seg := d_seg d;
                                     d_fly := {| if_snp := true; if_id := epoch; if_bytes := bytes; if_segs := segs |} :: d_fly d;
                                     d_junk_snp := map_del epoch (d_junk_snp d); d_junk_seg := d_junk_seg d |})
          else None
      | _, _ => None
      end
  | PPersistStart false id bytes _ =>
      (* a segment file is never written over a left-over file, and is rewritten (a retry after a failed
         persist round) only while no complete snapshot and no snapshot being written names it: from here
         on the old content is gone *)
      if negb (zmem id (d_junk_seg d))
         && negb (existsb (fun ef => zmem id (map fst (sf_segs (snd ef)))) (d_snp d))
         && negb (existsb (fun f => if_snp f && zmem id (map fst (if_segs f))) (d_fly d))
      then Some (with_disk st (mkdisk d (d_snp d) (zremove id (d_seg d))
                                 ({| if_snp := false; if_id := id; if_bytes := bytes; if_segs := [] |} :: d_fly d)))
      else None
  | PPersistOk true epoch =>
      match fly_find true epoch (d_fly d) with
      | Some f =>
          let st1 := with_disk st (mkdisk d ((epoch, {| sf_bytes := if_bytes f; sf_segs := if_segs f |}) :: d_snp d)
                                          (d_seg d) (fly_remove true epoch (d_fly d))) in
          Some (clear_grabbed (with_pol st1 (pol_commit (ps_pol st) epoch (map fst (if_segs f)))))
      | None => None
      end
  | PPersistOk false id =>
      match fly_find false id (d_fly d) with
      | Some _ => Some (with_disk st (mkdisk d (d_snp d) (id :: d_seg d) (fly_remove false id (d_fly d))))
      | None => None
      end
  | PPersistErr snp id =>
      (* a failed or cancelled persist leaves no file; it may fail before the write started *)
      Some (set_faulted (with_disk st (mkdisk d (d_snp d) (d_seg d) (fly_remove snp id (d_fly d)))))
  | PRemoveOk true epoch =>
      if pol_may_remove_snp (ps_pol st) epoch
      then Some (with_pol (with_disk st (mkdisk d (map_del epoch (d_snp d)) (d_seg d) (d_fly d)))
                          (pol_removed_snp (ps_pol st) epoch))
      else None
  | PRemoveOk false id =>
      (* clean-up runs in the persister between persist rounds: never while a snapshot naming the
         segment is being written *)
      if pol_may_remove_seg (ps_pol st) id
         && negb (existsb (fun f => if_snp f && zmem id (map fst (if_segs f))) (d_fly d))
      then Some (with_pol (with_disk st (mkdisk d (d_snp d) (zremove id (d_seg d)) (d_fly d)))
                          (pol_removed_seg (ps_pol st) id))
      else None
  | PRemoveErr true epoch => if pol_may_remove_snp (ps_pol st) epoch then Some (set_faulted st) else None
  | PRemoveErr false id => if pol_may_remove_seg (ps_pol st) id then Some (set_faulted st) else None
  | PAck k true =>
      (* acknowledged: a complete snapshot containing the batch is on disk *)
      match pos_of k (t_keys (ps_t st)) with
      | Some pos =>
          if covered st pos
          then Some {| ps_t := ps_t st; ps_epoch_n := ps_epoch_n st; ps_segdocs := ps_segdocs st; ps_disk := d; ps_pol := ps_pol st;
                       ps_base := ps_base st; ps_safe := ps_safe st; ps_acked := zadd k (ps_acked st); ps_faulted := ps_faulted st; ps_grabbed := ps_grabbed st |}
          else None
      | None => None
      end
  | PAck k false =>
      (* an error is only ever reported after something failed (or the writer was closed) *)
      if ps_faulted st then Some st else None
  | PFault => Some (set_faulted st)
  end.

Fixpoint paccept_run (table : list (list Z)) (st : pstate) (evs : list pevent) : option pstate :=
  match evs with
  | [] => Some st
  | e :: t => match paccept_ev table st e with Some st' => paccept_run table st' t | None => None end
  end.

Fixpoint pfirst_reject (table : list (list Z)) (st : pstate) (evs : list pevent) (n : nat) : option nat :=
  match evs with
  | [] => None
  | e :: t => match paccept_ev table st e with Some st' => pfirst_reject table st' t (S n) | None => Some n end
  end.

(* ---------- crash images and recovery ---------- *)

(* what a crash leaves of one in-flight file *)
Inductive torn :=
| TAbsent                     (* not even created *)
| TPrefix (len : Z)           (* the first len bytes *)
| TZeros                      (* full length, all zero *)
| TFull.                      (* every byte written, fsync not yet returned *)

Definition ztake (n : Z) (l : list Z) : list Z := firstn (Z.to_nat n) l.

Definition torn_bytes (t : torn) (bytes : list Z) : option (list Z) :=
  match t with
  | TAbsent => None
  | TPrefix len => Some (ztake len bytes)
  | TZeros => Some (map (fun _ => 0) bytes)
  | TFull => Some bytes
  end.

(* the directory as a reopening process finds it: snapshot files as (epoch, bytes, parsed segments if
   it is one of the complete files), complete segment ids, torn segment ids *)
Record image := {
  im_snp : list (Z * list Z * option (list (Z * list Z)));
  im_seg : list Z;
  im_seg_torn : list Z
}.

Fixpoint image_fly (fl : list inflight) (choice : list torn) (im : image) : image :=
  match fl, choice with
  | f :: fl', c :: ch' =>
      let im' :=
        match torn_bytes c (if_bytes f) with
        | None => im
        | Some b =>
            if if_snp f
            then {| im_snp := (if_id f, b, (match c with TFull => Some (if_segs f) | _ => None end)) :: im_snp im;
                    im_seg := im_seg im; im_seg_torn := im_seg_torn im |}
            else match c with
                 | TFull => {| im_snp := im_snp im; im_seg := if_id f :: im_seg im; im_seg_torn := im_seg_torn im |}
                 | _ => {| im_snp := im_snp im; im_seg := im_seg im; im_seg_torn := if_id f :: im_seg_torn im |}
                 end
        end in
      image_fly fl' ch' im'
  | _, _ => im
  end.

Definition crash_image (d : disk) (choice : list torn) : image :=
  image_fly (d_fly d) choice
    {| im_snp := map (fun ef => (fst ef, sf_bytes (snd ef), Some (sf_segs (snd ef)))) (d_snp d)
                 ++ map (fun ef => (fst ef, snd ef, None)) (d_junk_snp d);
       im_seg := d_seg d ++ d_junk_seg d; im_seg_torn := [] |}.

(* loadSnapshot on one file of the image: the bytes must load (format, CRC) and every named segment file
   must be there and complete; a torn segment file makes the outcome unpredictable (None of None) *)
Inductive loadres := LOk (segs : list (Z * list Z)) | LFail | LUnknown.

Definition load_one (table : list (list Z)) (im : image) (f : Z * list Z * option (list (Z * list Z))) : loadres :=
  let '(epoch, bytes, parsed) := f in
  match loaded_ids table bytes with
  | None => LFail
  | Some ids =>
      if existsb (fun i => zmem i (im_seg_torn im)) ids then LUnknown
      else if forallb (fun i => zmem i (im_seg im)) ids then
        match parsed with
        | Some segs => if list_eqbZ (map fst segs) ids then LOk segs else LUnknown
        | None => LUnknown       (* a torn file that loads: checksum collision *)
        end
      else LFail
  end.

(* insertion sort of image snapshot files by epoch, ascending *)
Fixpoint ins_epoch {A} (x : Z * A) (l : list (Z * A)) : list (Z * A) :=
  match l with
  | [] => [x]
  | y :: t => if fst x <=? fst y then x :: l else y :: ins_epoch x t
  end.
Definition sort_epoch {A} (l : list (Z * A)) : list (Z * A) := fold_right ins_epoch [] l.

Record recovered := {
  r_epoch : Z;
  r_segs : list (Z * list Z);
  r_pol : pol;                      (* policy state after the Commit of every loaded snapshot *)
  r_next_epoch : Z;
  r_next_seg : Z
}.

(* loadSnapshots (writer.go:136-175): oldest to newest, every loadable snapshot is committed to the
   policy and becomes the root in turn; fails only when snapshots exist and none loads *)
Fixpoint recover_scan (table : list (list Z)) (im : image)
  (files : list (Z * (list Z * option (list (Z * list Z))))) (acc : option recovered) (p : pol) (unknown : bool)
  : option recovered * pol * bool :=
  match files with
  | [] => (acc, p, unknown)
  | (e, (b, parsed)) :: t =>
      match load_one table im (e, b, parsed) with
      | LOk segs =>
          let p' := pol_commit p e (map fst segs) in
          recover_scan table im t
            (Some {| r_epoch := e; r_segs := segs; r_pol := p'; r_next_epoch := e + 1; r_next_seg := 0 |}) p' unknown
      | LFail => recover_scan table im t acc p unknown
      | LUnknown => recover_scan table im t acc p true
      end
  end.

Inductive recres :=
| RecFresh (next_seg : Z)            (* no snapshot files: a fresh index *)
| RecOk (r : recovered)
| RecFail                            (* snapshots exist, none loads: OpenWriter returns an error *)
| RecUnknown.                        (* outside the model: torn segment referenced / checksum collision *)

Definition recover_writer (table : list (list Z)) (n : Z) (im : image) : recres :=
  let files := sort_epoch (map (fun f => let '(e, b, p) := f in (e, (b, p))) (im_snp im)) in
  let next_seg := fold_left Z.max (im_seg im ++ im_seg_torn im) 0 + 1 in
  match recover_scan table im files None (pol_init n) false with
  | (_, _, true) => RecUnknown
  | (Some r, p, false) =>
      RecOk {| r_epoch := r_epoch r; r_segs := r_segs r; r_pol := p; r_next_epoch := r_next_epoch r; r_next_seg := next_seg |}
  | (None, _, false) => match files with [] => RecFresh next_seg | _ => RecFail end
  end.

(* OpenReader (writer.go:411-450): newest first, the first snapshot that loads *)
Definition recover_reader (table : list (list Z)) (im : image) : option (option (Z * list (Z * list Z))) :=
  let files := rev (sort_epoch (map (fun f => let '(e, b, p) := f in (e, (b, p))) (im_snp im))) in
  (fix go (l : list (Z * (list Z * option (list (Z * list Z))))) :=
     match l with
     | [] => Some None
     | (e, (b, parsed)) :: t =>
         match load_one table im (e, b, parsed) with
         | LOk segs => Some (Some (e, segs))
         | LFail => go t
         | LUnknown => None
         end
     end) files.

(* the files the policy removes during the Cleanup of OpenWriter, and what remains *)
Definition open_cleanup_snaps (r : recovered) : list Z := p_deletable (r_pol r).
Definition open_cleanup_segs (r : recovered) : list Z :=
  let p := fold_left pol_removed_snp (p_deletable (r_pol r)) (r_pol r) in
  filter (fun s => pol_may_remove_seg p s) (p_known p).

(* ---------- well-formed start directory ---------- *)

(* disk_ok as a boolean: evaluated on the start directory of recorded cases *)
Definition disk_okb (table : list (list Z)) (d : disk) : bool :=
  match d_fly d with [] => true | _ => false end &&
  nodupZ (map fst (d_snp d)) &&
  forallb (fun ef => match loaded_ids table (sf_bytes (snd ef)) with
                     | Some ids => list_eqbZ ids (map fst (sf_segs (snd ef)))
                     | None => false
                     end &&
                     forallb (fun s => zmem (fst s) (d_seg d)) (sf_segs (snd ef))) (d_snp d) &&
  forallb (fun eb => negb (loads table (snd eb))) (d_junk_snp d).

