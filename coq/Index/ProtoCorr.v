(* Index/ProtoCorr.v — correspondence cases for the protocol engine (C02, C03, C11, C14): one case =
   one writer run from OpenWriter on a given directory image to the end of the recording, with crash
   probes: at chosen points of the run the directory image (complete files + a torn variant of each
   in-flight file) was reopened by the real OpenWriter / OpenReader; the model's recovery on its own
   image must agree. *)
From Coq Require Import ZArith List Bool.
From Bluge Require Import Base.Res Base.Corr Index.Model Index.Trace Index.Proto.
Import ListNotations.
Open Scope Z_scope.

(* what reopening did *)
Inductive wobs :=
| WFail                                   (* OpenWriter returned an error *)
| WFresh                                  (* opened as an empty index *)
| WOk (epoch : Z) (content : list doc) (snaps_left : list Z) (segs_left : list Z).  (* after open + cleanup + close *)
Inductive robs :=
| RFail
| ROk (epoch : Z) (content : list doc).

Record probe := {
  pr_at : nat;                 (* number of events of the run that happened before the crash *)
  pr_choice : list torn;       (* one per in-flight file, newest first (the order of d_fly) *)
  pr_w : wobs;
  pr_r : robs
}.

Record pcase := {
  pc_n : Z;
  pc_table : list (list Z);
  pc_disk : disk;                            (* the directory the writer was opened on *)
  pc_segdocs : list (Z * list doc);          (* documents of the segments of that directory *)
  pc_events : list pevent;
  pc_probes : list probe
}.

Definition init_pstate (c : pcase) : option pstate :=
  match recover_writer (pc_table c) (pc_n c) (crash_image (pc_disk c) []) with
  | RecFresh _ =>
      Some {| ps_t := init_state; ps_epoch_n := [(0, O)]; ps_segdocs := pc_segdocs c; ps_disk := pc_disk c;
              ps_pol := pol_init (pc_n c); ps_base := []; ps_safe := []; ps_acked := []; ps_faulted := false; ps_grabbed := None |}
  | RecOk r =>
      Some {| ps_t := init_state; ps_epoch_n := []; ps_segdocs := pc_segdocs c; ps_disk := pc_disk c;
              ps_pol := r_pol r; ps_base := []; ps_safe := []; ps_acked := []; ps_faulted := false; ps_grabbed := None |}
  | _ => None
  end.

(* the root the writer starts from must be the recovered one *)
Definition open_consistent (c : pcase) : bool :=
  match recover_writer (pc_table c) (pc_n c) (crash_image (pc_disk c) []), pc_events c with
  | RecOk r, PI (ELoad root) :: _ =>
      (sn_epoch root =? r_epoch r) &&
      list_eqb (pair_eqb Z.eqb zlist_eqb) (map (fun s => (ss_id s, ss_del s)) (sn_segs root)) (r_segs r)
  | RecOk _, _ => false
  | RecFresh _, PI (ELoad _) :: _ => false
  | RecFresh _, _ => true
  | _, _ => false
  end.

Fixpoint run_upto (table : list (list Z)) (st : pstate) (evs : list pevent) (n : nat) : option pstate :=
  match n, evs with
  | O, _ => Some st
  | S k, e :: t => match paccept_ev table st e with Some st' => run_upto table st' t k | None => None end
  | S _, [] => Some st
  end.

Definition zset_eqb (a b : list Z) : bool := zlist_eqb (znorm a) (znorm b).

Definition check_probe (c : pcase) (st0 : pstate) (p : probe) : bool :=
  match run_upto (pc_table c) st0 (pc_events c) (pr_at p) with
  | None => false
  | Some st =>
      let im := crash_image (ps_disk st) (pr_choice p) in
      (match recover_writer (pc_table c) (pc_n c) im, pr_w p with
       | RecUnknown, _ => true
       | RecFail, WFail => true
       | RecFresh _, WFresh => true
       | RecOk r, WOk e content snaps segs =>
           (e =? r_epoch r) &&
           match segs_content (ps_segdocs st) (r_segs r) with
           | Some want => same_docs content want
           | None => false
           end &&
           (let removed_snaps := open_cleanup_snaps r in
            let removed_segs := open_cleanup_segs r in
            zset_eqb snaps (filter (fun e' => negb (zmem e' removed_snaps)) (map (fun f => fst (fst f)) (im_snp im))) &&
            zset_eqb segs (filter (fun s => negb (zmem s removed_segs)) (im_seg im ++ im_seg_torn im)))
       | _, _ => false
       end) &&
      (match recover_reader (pc_table c) im, pr_r p with
       | None, _ => true
       | Some None, RFail => true
       | Some (Some (e, sg)), ROk e' content =>
           (e =? e') && match segs_content (ps_segdocs st) sg with
                        | Some want => same_docs content want
                        | None => false
                        end
       | _, _ => false
       end)
  end.

Definition check (c : pcase) : bool :=
  match init_pstate c with
  | None => false
  | Some st0 =>
      disk_okb (pc_table c) (pc_disk c) &&
      open_consistent c &&
      match paccept_run (pc_table c) st0 (pc_events c) with Some _ => true | None => false end &&
      forallb (check_probe c st0) (pc_probes c)
  end.

Definition mismatches (l : list pcase) : list nat := failing check l.

(* for replay reports: (case, (kind, index)) with kind 0 = event rejected by the monitor, 1 = probe
   disagrees, 2 = the initial directory does not recover in the model, 3 = the opened root differs *)
Fixpoint first_bad_probe (c : pcase) (st0 : pstate) (ps : list probe) (n : nat) : option nat :=
  match ps with
  | [] => None
  | p :: t => if check_probe c st0 p then first_bad_probe c st0 t (S n) else Some n
  end.
Definition diagnose (c : pcase) : option (nat * nat) :=
  match init_pstate c with
  | None => Some (2%nat, O)
  | Some st0 =>
      if negb (open_consistent c) then Some (3%nat, O) else
      match pfirst_reject (pc_table c) st0 (pc_events c) 0 with
      | Some k => Some (O, k)
      | None => option_map (fun k => (1%nat, k)) (first_bad_probe c st0 (pc_probes c) 0)
      end
  end.
Fixpoint rejects_from (n : nat) (l : list pcase) : list (nat * (nat * nat)) :=
  match l with
  | [] => []
  | c :: t => match diagnose c with Some k => (n, k) :: rejects_from (S n) t | None => rejects_from (S n) t end
  end.
Definition rejects (l : list pcase) : list (nat * (nat * nat)) := rejects_from 0 l.

Definition SF (b : list Z) (segs : list (Z * list Z)) : snpfile := {| sf_bytes := b; sf_segs := segs |}.
Definition DK (snp : list (Z * snpfile)) (seg : list Z) (jsnp : list (Z * list Z)) (jseg : list Z) : disk :=
  {| d_snp := snp; d_seg := seg; d_fly := []; d_junk_snp := jsnp; d_junk_seg := jseg |}.
Definition PR (at_ : nat) (ch : list torn) (w : wobs) (r : robs) : probe :=
  {| pr_at := at_; pr_choice := ch; pr_w := w; pr_r := r |}.
Definition PC (n : Z) (tbl : list (list Z)) (d : disk) (sd : list (Z * list doc)) (evs : list pevent) (ps : list probe) : pcase :=
  {| pc_n := n; pc_table := tbl; pc_disk := d; pc_segdocs := sd; pc_events := evs; pc_probes := ps |}.
