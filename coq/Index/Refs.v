(* Index/Refs.v — C04: the reference counting that keeps held readers safe.  No proofs in this file
   (Index/RefsProofs.v).

   index/snapshot.go:65-90        Snapshot.addRef (refs++), decRef (refs--; at 0: DecRef of every listed
                                  segment), Close = decRef
   index/segment_plugin.go:96-117 closeOnLastRefCounter: AddRef (refs++), DecRef (refs--; at 0: closer.Close())
   index/introducer.go            every snapshot built from the root AddRef's each segment it keeps
                                  (:139 introduceSegment, :217 introducePersist, :270 introduceMerge); a freshly
                                  loaded segment enters with the reference its loader gave it (refs = 1);
                                  replaceRoot closes (decRef) the previous root
   index/writer.go Reader()       addRef of the current root under rootLock; Reader.Close = decRef

   handle id   = a loaded segment (file handle / mmap) with its closeOnLastRefCounter
   snapshot key = one Snapshot value (a root, a reader's snapshot, the persister's / merger's copy)
   Counters are Go ints: Z here, decremented without a floor as the code does. *)
From Coq Require Import ZArith List Bool.
From Bluge Require Import Index.Model Index.Trace.
Import ListNotations.
Open Scope Z_scope.

Record hnd := { h_refs : Z; h_open : bool; h_closes : nat }.      (* h_closes: how often closer.Close() ran *)
Record rsnap := { rs_refs : Z; rs_handles : list Z }.
Record rstate := { r_handles : list (Z * hnd); r_snaps : list (Z * rsnap) }.

Definition rinit : rstate := {| r_handles := []; r_snaps := [] |}.

Inductive rop :=
| RNew (key from : Z) (kept fresh : list Z)   (* a snapshot built from snapshot `from`, keeping `kept`, loading `fresh` *)
| RAddRef (key : Z)
| RDecRef (key : Z).

(* closeOnLastRefCounter.AddRef / DecRef *)
Definition h_addref (h : hnd) : hnd := {| h_refs := h_refs h + 1; h_open := h_open h; h_closes := h_closes h |}.
Definition h_decref (h : hnd) : hnd :=
  let r := h_refs h - 1 in
  if r =? 0 then {| h_refs := r; h_open := false; h_closes := S (h_closes h) |}
  else {| h_refs := r; h_open := h_open h; h_closes := h_closes h |}.

Definition upd {A} (id : Z) (f : A -> A) (l : list (Z * A)) : list (Z * A) :=
  map (fun p => if fst p =? id then (fst p, f (snd p)) else p) l.

(* for _, s := range i.segment { s.segment.DecRef() } *)
Definition dec_all (ids : list Z) (hs : list (Z * hnd)) : list (Z * hnd) :=
  fold_left (fun hs id => upd id h_decref hs) ids hs.
Definition add_all (ids : list Z) (hs : list (Z * hnd)) : list (Z * hnd) :=
  fold_left (fun hs id => upd id h_addref hs) ids hs.

(* one operation; None = the operation is not well-formed in this state:
   RNew     the key is new; the fresh handles are new and distinct; the kept handles are distinct and
            listed by `from`, a snapshot that currently has a reference (the current root, which the
            introducer holds)
   RAddRef  only on a snapshot somebody holds (Writer.Reader takes the root under rootLock)
   RDecRef  only while the snapshot has a reference left: nobody releases what he does not hold *)
Definition rstep (st : rstate) (op : rop) : option rstate :=
  match op with
  | RNew key from kept fresh =>
      let from_ok := match kept with
                     | [] => true
                     | _ => match lookup from (r_snaps st) with
                            | Some s => (0 <? rs_refs s) && forallb (fun h => zmem h (rs_handles s)) kept
                            | None => false
                            end
                     end in
      if match lookup key (r_snaps st) with None => true | Some _ => false end
         && nodupZ fresh && nodupZ kept
         && forallb (fun h => match lookup h (r_handles st) with None => true | Some _ => false end) fresh
         && from_ok
      then Some {| r_handles := add_all kept (r_handles st)
                                ++ map (fun h => (h, {| h_refs := 1; h_open := true; h_closes := O |})) fresh;
                   r_snaps := (key, {| rs_refs := 1; rs_handles := kept ++ fresh |}) :: r_snaps st |}
      else None
  | RAddRef key =>
      match lookup key (r_snaps st) with
      | Some s => if 0 <? rs_refs s
                  then Some {| r_handles := r_handles st;
                               r_snaps := upd key (fun s => {| rs_refs := rs_refs s + 1; rs_handles := rs_handles s |}) (r_snaps st) |}
                  else None
      | None => None
      end
  | RDecRef key =>
      match lookup key (r_snaps st) with
      | Some s =>
          if 0 <? rs_refs s
          then let r := rs_refs s - 1 in
               Some {| r_handles := if r =? 0 then dec_all (rs_handles s) (r_handles st) else r_handles st;
                       r_snaps := upd key (fun s => {| rs_refs := rs_refs s - 1; rs_handles := rs_handles s |}) (r_snaps st) |}
          else None
      | None => None
      end
  end.

Fixpoint rrun (st : rstate) (ops : list rop) : option rstate :=
  match ops with
  | [] => Some st
  | op :: t => match rstep st op with Some st' => rrun st' t | None => None end
  end.

(* a read through snapshot `key`: it touches every handle the snapshot lists; a closed (unmapped)
   handle is a fault *)
Definition read_ok (st : rstate) (key : Z) : bool :=
  match lookup key (r_snaps st) with
  | Some s => forallb (fun h => match lookup h (r_handles st) with Some hd => h_open hd | None => false end) (rs_handles s)
  | None => false
  end.

Fixpoint count_ops (f : rop -> bool) (ops : list rop) : Z :=
  match ops with [] => 0 | op :: t => (if f op then 1 else 0) + count_ops f t end.
Definition is_addref (k : Z) (op : rop) : bool := match op with RAddRef k' => k' =? k | _ => false end.
Definition is_decref (k : Z) (op : rop) : bool := match op with RDecRef k' => k' =? k | _ => false end.
