(* Index/FsDir.v — FileSystemDirectory.Persist (index/directory_fs.go:113-152) over an abstract
   file system.  No proofs here (Index/FsDirProofs.v).

   The *sequence of steps* of Persist, their error handling, the cleanup closure and the open
   flags are not written here: they are read from the Go AST on every run
   (Gen/ParamsFsDir.v: persist_steps, persist_cleanup, persist_open_flags,
   persist_truncate_size) and interpreted by `run_steps` below.  On the current tree:
       persist_steps   = [(1,0); (2,1); (3,1); (4,1); (5,1)]
                         openExclusive / return err; Truncate, WriteTo, Sync, Close / cleanup+return err
       persist_cleanup = [5; 6]            _ = f.Close(); _ = os.Remove(path)

   File system: one directory entry (the item's name) and the inode the open handle refers to.
   fi_content = what a reader of the file sees; fi_synced = what the last fsync made durable.
   OS behaviour assumed (trusted, sampled by the fsdir engine and its strace projection):
   open(O_CREAT) creates an empty file if absent; O_TRUNC empties it; without O_APPEND the
   offset starts at 0 and write() overwrites in place, extending the file when needed;
   ftruncate(n) cuts or zero-extends; fsync makes the current content durable; unlink removes
   the entry (the inode lives on while open); openExclusive = os.OpenFile + flock(LOCK_EX|LOCK_NB)
   (index/lock/lock_nix.go:23-41). *)
From Coq Require Import ZArith List Bool.
From Bluge Require Import Base.Res Base.Corr Base.Bufio Gen.ParamsFsDir.
Import ListNotations.
Open Scope Z_scope.

Record finode := { fi_content : list Z; fi_synced : list Z }.

Inductive fsop :=
| OpOpen (flags : Z)      (* openat(name, flags) *)
| OpFlock                 (* flock(fd, LOCK_EX|LOCK_NB) *)
| OpTruncate (n : Z)      (* ftruncate(fd, n) *)
| OpWrite (n : Z)         (* write(fd, ...) of n bytes in total (consecutive writes merged) *)
| OpFsync                 (* fsync(fd) *)
| OpClose                 (* close(fd) *)
| OpUnlink.               (* unlinkat(name) *)

(* where the first error of a Persist call happens *)
Inductive failure :=
| NoFail
| FailOpen                (* os.OpenFile or flock fails (e.g. a reader holds the shared lock) *)
| FailTruncate
| FailWrite (k : Z)       (* WriteTo returns an error after k of its bytes reached the file:
                             a write error, or the writer noticed the closed closeCh (cancel) *)
| FailSync
| FailClose.

Definition flag (flags bit : Z) : bool := negb (Z.land flags bit =? 0).

Record pstate := {
  ps_entry : bool;          (* the name exists in the directory *)
  ps_inode : finode;        (* the file the name / the handle refers to *)
  ps_open : bool;           (* the handle is open *)
  ps_off : Z;               (* file offset of the handle *)
  ps_trace : list fsop }.   (* operations issued, newest first *)

Definition empty_inode : finode := {| fi_content := []; fi_synced := [] |}.

Definition emit (o : fsop) (s : pstate) : pstate :=
  {| ps_entry := ps_entry s; ps_inode := ps_inode s; ps_open := ps_open s; ps_off := ps_off s;
     ps_trace := o :: ps_trace s |}.

(* write `bytes` at offset off *)
Definition write_at (content : list Z) (off : Z) (bytes : list Z) : list Z :=
  ztake off content ++ repeat 0 (Z.to_nat (off - zlen content)) ++ bytes ++ zdrop (off + zlen bytes) content.

Definition truncate_to (content : list Z) (n : Z) : list Z :=
  ztake n content ++ repeat 0 (Z.to_nat (n - zlen content)).

(* one operation; returns the new state and whether it reported an error *)
Definition do_open (flags : Z) (fl : failure) (s : pstate) : pstate * bool :=
  match fl with
  | FailOpen => (emit (OpOpen flags) s, true)
  | _ =>
      if ps_entry s && flag flags o_creat && flag flags o_excl then (emit (OpOpen flags) s, true)   (* EEXIST *)
      else if negb (ps_entry s) && negb (flag flags o_creat) then (emit (OpOpen flags) s, true)      (* ENOENT *)
      else
        let ino0 := if ps_entry s then ps_inode s else {| fi_content := []; fi_synced := [] |} in
        let ino := if flag flags o_trunc then {| fi_content := []; fi_synced := fi_synced ino0 |} else ino0 in
        let off := if flag flags o_append then zlen (fi_content ino) else 0 in
        ({| ps_entry := true; ps_inode := ino; ps_open := true; ps_off := off;
            ps_trace := OpFlock :: OpOpen flags :: ps_trace s |}, false)
  end.

Definition do_truncate (n : Z) (fl : failure) (s : pstate) : pstate * bool :=
  match fl with
  | FailTruncate => (emit (OpTruncate n) s, true)
  | _ => ({| ps_entry := ps_entry s;
             ps_inode := {| fi_content := truncate_to (fi_content (ps_inode s)) n; fi_synced := fi_synced (ps_inode s) |};
             ps_open := ps_open s; ps_off := ps_off s; ps_trace := OpTruncate n :: ps_trace s |}, false)
  end.

(* w.WriteTo(f.File(), closeCh): the writer sends its chunks, in order, to the file *)
Definition do_writeto (chunks : list (list Z)) (fl : failure) (s : pstate) : pstate * bool :=
  let all := concat chunks in
  let '(bytes, failed) := match fl with FailWrite k => (ztake k all, true) | _ => (all, false) end in
  let tr := match bytes with [] => ps_trace s | _ => OpWrite (zlen bytes) :: ps_trace s end in
  ({| ps_entry := ps_entry s;
      ps_inode := {| fi_content := write_at (fi_content (ps_inode s)) (ps_off s) bytes; fi_synced := fi_synced (ps_inode s) |};
      ps_open := ps_open s; ps_off := ps_off s + zlen bytes; ps_trace := tr |}, failed).

Definition do_sync (fl : failure) (s : pstate) : pstate * bool :=
  match fl with
  | FailSync => (emit OpFsync s, true)
  | _ => ({| ps_entry := ps_entry s;
             ps_inode := {| fi_content := fi_content (ps_inode s); fi_synced := fi_content (ps_inode s) |};
             ps_open := ps_open s; ps_off := ps_off s; ps_trace := OpFsync :: ps_trace s |}, false)
  end.

(* close(2) releases the descriptor even when it reports an error; a second Close of the same
   *os.File does not reach the kernel *)
Definition do_close (fl : failure) (s : pstate) : pstate * bool :=
  if ps_open s then
    ({| ps_entry := ps_entry s; ps_inode := ps_inode s; ps_open := false; ps_off := ps_off s;
        ps_trace := OpClose :: ps_trace s |}, match fl with FailClose => true | _ => false end)
  else (s, true).

Definition do_remove (s : pstate) : pstate * bool :=
  ({| ps_entry := false; ps_inode := ps_inode s; ps_open := ps_open s; ps_off := ps_off s;
      ps_trace := OpUnlink :: ps_trace s |}, negb (ps_entry s)).

Definition do_op (flags tsize : Z) (chunks : list (list Z)) (fl : failure) (code : Z) (s : pstate) : pstate * bool :=
  if code =? 1 then do_open flags fl s
  else if code =? 2 then do_truncate tsize fl s
  else if code =? 3 then do_writeto chunks fl s
  else if code =? 4 then do_sync fl s
  else if code =? 5 then do_close fl s
  else if code =? 6 then do_remove s
  else (s, false).

(* the cleanup closure: errors ignored *)
Fixpoint run_cleanup (flags tsize : Z) (chunks : list (list Z)) (cl : list Z) (s : pstate) : pstate :=
  match cl with
  | [] => s
  | c :: t => run_cleanup flags tsize chunks t (fst (do_op flags tsize chunks NoFail c s))
  end.

(* the body of Persist: true = returned a non-nil error *)
Fixpoint run_steps (steps : list (Z * Z)) (cleanup : list Z) (flags tsize : Z) (chunks : list (list Z))
         (fl : failure) (s : pstate) : pstate * bool :=
  match steps with
  | [] => (s, false)
  | (code, handling) :: t =>
      let '(s1, failed) := do_op flags tsize chunks fl code s in
      if failed then
        if handling =? 0 then (s1, true)
        else if handling =? 1 then (run_cleanup flags tsize chunks cleanup s1, true)
        else run_steps t cleanup flags tsize chunks fl s1
      else run_steps t cleanup flags tsize chunks fl s1
  end.

Record presult := {
  pr_err : bool;                 (* Persist returned an error *)
  pr_file : option finode;       (* the file under the item's name afterwards *)
  pr_trace : list fsop }.        (* operations in program order *)

Definition persist_with (steps : list (Z * Z)) (cleanup : list Z) (flags tsize : Z)
           (pre : option (list Z)) (chunks : list (list Z)) (fl : failure) : presult :=
  let s0 := {| ps_entry := match pre with Some _ => true | None => false end;
               ps_inode := match pre with Some c => {| fi_content := c; fi_synced := c |} | None => empty_inode end;
               ps_open := false; ps_off := 0; ps_trace := [] |} in
  let '(s, failed) := run_steps steps cleanup flags tsize chunks fl s0 in
  {| pr_err := failed; pr_file := if ps_entry s then Some (ps_inode s) else None; pr_trace := rev (ps_trace s) |}.

(* FileSystemDirectory.Persist as the current source has it *)
Definition persist (pre : option (list Z)) (chunks : list (list Z)) (fl : failure) : presult :=
  persist_with persist_steps persist_cleanup persist_open_flags persist_truncate_size pre chunks fl.

(* the pinned tree (d6b63ac): no Truncate step *)
Definition pinned_steps : list (Z * Z) := [(1, 0); (3, 1); (4, 1); (5, 1)].

(* "a flush was issued after the last byte was written and before success was reported":
   the trace, read backwards from the return, meets an fsync before it meets a write/truncate *)
Fixpoint fsync_after_last_write_rev (tr_rev : list fsop) : bool :=
  match tr_rev with
  | [] => false
  | OpFsync :: _ => true
  | OpWrite _ :: _ => false
  | OpTruncate _ :: _ => false
  | OpOpen _ :: _ => false
  | _ :: t => fsync_after_last_write_rev t
  end.
Definition fsync_after_last_write (tr : list fsop) : bool := fsync_after_last_write_rev (rev tr).

(* fileName (directory_fs.go:259-261): fmt.Sprintf("%012x", id) + kind *)
Definition hex_digit (d : Z) : Z := if d <? 10 then 48 + d else 87 + d.
Fixpoint hex_digits (fuel : nat) (v : Z) (acc : list Z) : list Z :=
  match fuel with
  | O => acc
  | S f => if v <? 16 then hex_digit v :: acc else hex_digits f (v / 16) (hex_digit (v mod 16) :: acc)
  end.
Definition file_name (kind : list Z) (id : Z) : list Z :=
  let h := hex_digits 16 id [] in
  repeat 48 (12 - length h) ++ h ++ kind.

Definition fsop_eqb (a b : fsop) : bool :=
  match a, b with
  | OpOpen x, OpOpen y => x =? y
  | OpFlock, OpFlock => true
  | OpTruncate x, OpTruncate y => x =? y
  | OpWrite x, OpWrite y => x =? y
  | OpFsync, OpFsync => true
  | OpClose, OpClose => true
  | OpUnlink, OpUnlink => true
  | _, _ => false
  end.
