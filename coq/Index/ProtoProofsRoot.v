(* Index/ProtoProofsRoot.v — C11 no_needed_removal for the writer's live state: a segment file whose
   removal succeeds is not a file-backed segment of the writer's root, nor of the snapshot the persister
   has grabbed.

   Why it holds (index/persister.go persistSnapshotDirect, index/deletion.go):
   * a segment becomes file-backed in the root either by introducePersist (after the persister wrote
     its file) or as the output of a file merge: in both cases the policy has never heard of it
     (monitor condition newly_persisted_ok), so cleanupSegments, which only looks at
     knownSegmentFiles, cannot touch it;
   * it becomes known at the Commit of the first snapshot that names it; the snapshot the persister
     writes keeps every file-backed segment of the root it grabbed (monitor condition on
     PPersistStart true), so after each Commit every known file-backed root segment is named by the
     newest committed snapshot, which is live (never deletable) and keeps its liveSegments entry.
   The invariant `root_inv` below says exactly this; `live_entry p s` = some live epoch's
   liveSegments entry names s. *)
From Coq Require Import ZArith List Bool Lia Permutation Sorted.
From Coq Require Import ZifyBool.
From Bluge Require Import Base.Res Base.Corr Index.Model Index.ModelProofs Index.Trace Index.TraceProofs
  Index.Proto Index.ProtoProofsPol Index.ProtoProofsInv Index.ProtoProofsRec Index.ProtoProofsThm.
Import ListNotations.
Open Scope Z_scope.

Definition live_entry (p : pol) (s : Z) : Prop :=
  exists e ids, In e (p_live p) /\ lookup e (p_livesegs p) = Some ids /\ In s ids.

Lemma live_entry_kept : forall p s, live_entry p s -> pol_may_remove_seg p s = false.
Proof.
  intros p s [e [ids [_ [L Hs]]]]. unfold pol_may_remove_seg. apply andb_false_iff. right.
  destruct (forallb (fun es => negb (zmem s (snd es))) (p_livesegs p)) eqn:F; [|reflexivity].
  rewrite forallb_forall in F. specialize (F _ (lookup_In _ _ _ L)). simpl in F.
  apply negb_true_iff in F. apply zmem_false in F. contradiction.
Qed.

Lemma unknown_kept : forall p s, ~ In s (p_known p) -> pol_may_remove_seg p s = false.
Proof.
  intros p s H. unfold pol_may_remove_seg. apply andb_false_iff. left. apply zmem_false. exact H.
Qed.

Lemma lastn_last_In : forall {A} n (l : list A) x, (1 <= n)%nat -> In x (lastn n (l ++ [x])).
Proof.
  intros A n l x Hn. unfold lastn. rewrite app_length. simpl.
  rewrite skipn_app. apply in_app_iff. right.
  replace (length l + 1 - n - length l)%nat with O by lia. left. reflexivity.
Qed.

Record root_inv (st : pstate) : Prop := {
  rt_root : forall s, In s (persisted_ids (t_root (ps_t st))) -> In s (p_known (ps_pol st)) ->
            live_entry (ps_pol st) s;
  rt_grab : forall e G, ps_grabbed st = Some (e, G) ->
            (forall s, In s (persisted_ids (t_root (ps_t st))) -> In s (p_known (ps_pol st)) -> In s G) /\
            (forall s, In s G -> In s (p_known (ps_pol st)) -> live_entry (ps_pol st) s);
  rt_fly : forall f, In f (d_fly (ps_disk st)) -> if_snp f = true ->
           exists G, ps_grabbed st = Some (if_id f, G) /\ forall s, In s G -> In s (map fst (if_segs f));
  rt_pre : ps_epoch_n st = [] -> ps_grabbed st = None
}.

(* events that touch neither the root, nor the policy, nor the grabbed snapshot, and start no snapshot write *)
Lemma root_inv_frame : forall st st',
  t_root (ps_t st') = t_root (ps_t st) -> ps_pol st' = ps_pol st -> ps_grabbed st' = ps_grabbed st ->
  (ps_epoch_n st' = [] -> ps_epoch_n st = []) ->
  (forall f, In f (d_fly (ps_disk st')) -> if_snp f = true -> In f (d_fly (ps_disk st))) ->
  root_inv st -> root_inv st'.
Proof.
  intros st st' Hr Hp Hg He Hf [I1 I2 I3 I4]. constructor.
  - rewrite Hr, Hp. exact I1.
  - rewrite Hr, Hp, Hg. exact I2.
  - intros f Hin Hs. rewrite Hg. apply (I3 f (Hf f Hin Hs) Hs).
  - intro Hn. rewrite Hg. apply I4. apply He. exact Hn.
Qed.

Lemma persisted_ids_In : forall sn s, In s (persisted_ids sn) -> In s (map ss_id (sn_segs sn)).
Proof.
  intros sn s H. unfold persisted_ids in H. apply in_map_iff in H. destruct H as [x [<- Hx]].
  apply filter_In in Hx. apply in_map. tauto.
Qed.

Section RootSteps.
Variable table : list (list Z).

Theorem root_inv_step : forall st ev st',
  pinv table st -> root_inv st -> paccept_ev table st ev = Some st' -> root_inv st'.
Proof.
  intros st ev st' Hinv HRt H. pose proof Hinv as [HD HR]. pose proof HRt as [I1 I2 I3 I4].
  pose proof (di_pol table _ _ HD) as Hok.
  destruct ev as [e|k|epoch nacks|snp id bytes segs|snp id|snp id|snp id|snp id|k ok|].
  - (* root history *)
    destruct (pacc_PI table st e st' H) as [t' [Ha [Ht [Hd [Hp [_ [_ [_ Hrest]]]]]]]].
    destruct (pacc_PI_grab table st e st' H) as [Hg Hnew].
    destruct (root_of_ievent e) as [r|] eqn:R.
    2:{ destruct Hrest as [Hen _]. destruct (accept_nonroot _ _ _ Ha R) as [N1 _].
        apply (root_inv_frame st st'); try assumption; [rewrite Ht; exact N1 | rewrite Hen; auto | rewrite Hd; auto]. }
    destruct Hrest as [_ [Hev [Hen _]]]. destruct (accept_root _ _ _ _ Ha R) as [Hroot _].
    specialize (Hnew r eq_refl).
    assert (Hload : (exists r0, e = ELoad r0) \/ (forall r0, e <> ELoad r0)).
    { destruct e; try (right; intros r0; discriminate). left. eexists. reflexivity. }
    destruct Hload as [[r0 ->]|Hnl].
    + (* the loaded root: every segment is named by the newest snapshot file, which is live *)
      simpl in R. injection R as ->.
      unfold root_event_ok in Hev. destruct (ps_epoch_n st) as [|x en] eqn:Een; [|discriminate].
      unfold load_agrees in Hev. destruct (lookup (sn_epoch r) (d_snp (ps_disk st))) as [f0|] eqn:Lf; [|discriminate].
      apply andb_true_iff in Hev. destruct Hev as [Hmax Hsegs]. apply idel_list_eqb_true in Hsegs.
      pose proof (lookup_In _ _ _ Lf) as Hin0.
      assert (Hlive : In (sn_epoch r) (p_live (ps_pol st))).
      { assert (Hk : In (sn_epoch r) (p_deletable (ps_pol st) ++ p_live (ps_pol st))).
        { apply (po_disk _ _ Hok). rewrite snap_ids_keys. apply (in_map fst _ _ Hin0). }
        apply in_app_iff in Hk. destruct Hk as [Hk|Hk]; [|exact Hk]. exfalso.
        destruct (pol_ok_newest_live _ _ _ Hok Hk) as [e' [_ [Hlt Hin']]]. rewrite snap_ids_keys in Hin'.
        pose proof (max_epoch_ge _ _ Hin'). lia. }
      constructor.
      * intros s Hs _. rewrite Ht, Hroot in Hs. rewrite Hp. exists (sn_epoch r), (map fst (sf_segs f0)).
        split; [exact Hlive|]. split; [apply (po_segs _ _ Hok); apply snap_ids_In; exact Hin0|].
        rewrite <- Hsegs, map_map. simpl. apply persisted_ids_In. exact Hs.
      * intros e G Hgr. rewrite Hg, (I4 eq_refl) in Hgr. discriminate.
      * intros f Hf Hs. rewrite Hd in Hf. destruct (I3 f Hf Hs) as [G [HG _]]. rewrite (I4 eq_refl) in HG. discriminate.
      * intro Hn. rewrite Hen in Hn. discriminate.
    + (* any other new root: what is file-backed and known was so before *)
      assert (Hold : forall s, In s (persisted_ids (t_root (ps_t st'))) -> In s (p_known (ps_pol st')) ->
                       In s (persisted_ids (t_root (ps_t st)))).
      { intros s Hs Hk. rewrite Ht, Hroot in Hs. rewrite Hp in Hk.
        unfold newly_persisted_ok in Hnew.
        assert (Hf : forallb (fun id => zmem id (persisted_ids (t_root (ps_t st))) || negb (zmem id (p_known (ps_pol st))))
                       (persisted_ids r) = true).
        { destruct e; try exact Hnew. exfalso. apply (Hnl root'). reflexivity. }
        rewrite forallb_forall in Hf. specialize (Hf s Hs). apply orb_true_iff in Hf. destruct Hf as [Hf|Hf].
        - apply zmem_In. exact Hf.
        - apply negb_true_iff in Hf. apply zmem_false in Hf. contradiction. }
      constructor.
      * intros s Hs Hk. pose proof (Hold s Hs Hk) as Hso. rewrite Hp in *. apply I1; assumption.
      * intros e0 G Hgr. rewrite Hg in Hgr. destruct (I2 e0 G Hgr) as [A B]. rewrite Hp. split; [|exact B].
        intros s Hs Hk. apply A; [apply Hold; [exact Hs | rewrite Hp; exact Hk] | exact Hk].
      * intros f Hf Hs. rewrite Hd in Hf. rewrite Hg. apply (I3 f Hf Hs).
      * intro Hn. rewrite Hen in Hn. discriminate.
  - apply pacc_safe in H. destruct H as [_ [_ [_ ->]]]. apply (root_inv_frame st); auto.
  - (* the grab *)
    destruct (pacc_grab_when table st epoch nacks st' H) as [Hne Hnone].
    apply pacc_grab in H. destruct H as [_ [_ ->]]. constructor; simpl.
    + exact I1.
    + intros e G Hgr. injection Hgr as <- <-. split; [auto|]. intros s Hs Hk. apply I1; assumption.
    + intros f Hf Hs. rewrite (proj1 (existsb_false _ _) Hnone f Hf) in Hs. discriminate.
    + intro Hn. contradiction.
  - destruct snp.
    + destruct (pacc_start_snp_grab table st id bytes segs st' H) as [G [HG [Hsub Hg]]].
      destruct (pacc_start_snp table st id bytes segs st' H) as [n [c [_ [_ [_ [_ [_ [_ [_ [_ Hst]]]]]]]]]].
      constructor.
      * rewrite Hst. simpl. exact I1.
      * rewrite Hg. rewrite Hst. simpl. exact I2.
      * rewrite Hg. rewrite Hst. simpl. intros f [<-|Hf] Hs; simpl; [exists G; auto | apply (I3 f Hf Hs)].
      * rewrite Hg. rewrite Hst. simpl. exact I4.
    + destruct (pacc_start_seg table st id bytes segs st' H) as [_ [_ [_ ->]]].
      apply (root_inv_frame st); simpl; auto. intros f [<-|Hf] Hs; [discriminate | exact Hf].
  - destruct snp.
    + (* the commit *)
      destruct (pacc_ok_snp table st id st' H) as [f [Hf [Hs [Hid [Hd [Hp [Ht [Hen _]]]]]]]].
      pose proof (pacc_ok_snp_grab table st id st' H) as Hg.
      destruct (I3 f Hf Hs) as [G [HG Hsub]].
      destruct (I2 _ _ HG) as [A _].
      destruct (pol_commit_spec_proof (ps_pol st) id (map fst (if_segs f)) ltac:(pose proof (po_n _ _ Hok); lia))
        as [_ [C2 [_ [C4 [C5 _]]]]].
      constructor.
      * intros s Hsr Hk. rewrite Ht in Hsr. rewrite Hp in Hk |- *.
        assert (Hin : In s (map fst (if_segs f))).
        { apply C5 in Hk. destruct Hk as [Hk|Hk]; [|exact Hk]. apply Hsub. apply A; assumption. }
        exists id, (map fst (if_segs f)). split; [|split; [|exact Hin]].
        -- rewrite C2. apply lastn_last_In. pose proof (po_n _ _ Hok). lia.
        -- rewrite C4, lookup_map_set, Z.eqb_refl. reflexivity.
      * intros e G' Hgr. rewrite Hg in Hgr. discriminate.
      * intros g Hgf Hsg. rewrite Hd in Hgf. simpl in Hgf. apply fly_remove_In in Hgf. destruct Hgf as [Hgf Hne].
        exfalso. assert (f = g) by (apply (one_snapshot_in_flight (d_fly (ps_disk st))); try assumption; apply (di_one table _ _ HD)).
        subst g. apply Hne. auto.
      * intros _. exact Hg.
    + destruct (pacc_ok_seg table st id st' H) as [_ ->].
      apply (root_inv_frame st); simpl; auto. intros f Hf _. apply fly_remove_In in Hf. tauto.
  - rewrite (pacc_err table st snp id st' H).
    apply (root_inv_frame st); simpl; auto. intros f Hf _. apply fly_remove_In in Hf. tauto.
  - destruct snp.
    + (* a deletable snapshot goes: live epochs keep their entries *)
      destruct (pacc_rm_snp table st id st' H) as [Hdel ->].
      assert (Hkeep : forall s, live_entry (ps_pol st) s -> live_entry (pol_removed_snp (ps_pol st) id) s).
      { intros s [e [ids [He [L Hs]]]]. exists e, ids. simpl. split; [exact He|]. split; [|exact Hs].
        pose proof (pol_ok_deletable_older _ _ id e Hok Hdel He). rewrite lookup_map_del by lia. exact L. }
      constructor; simpl.
      * intros s Hs Hk. apply Hkeep. apply I1; assumption.
      * intros e G Hgr. destruct (I2 e G Hgr) as [A B]. split; [exact A|]. intros s Hs Hk. apply Hkeep. apply B; assumption.
      * exact I3.
      * exact I4.
    + destruct (pacc_rm_seg table st id st' H) as [_ [_ ->]].
      constructor; simpl.
      * intros s Hs Hk. apply zremove_In in Hk. apply I1; tauto.
      * intros e G Hgr. destruct (I2 e G Hgr) as [A B]. split.
        -- intros s Hs Hk. apply zremove_In in Hk. apply A; tauto.
        -- intros s Hs Hk. apply zremove_In in Hk. apply B; tauto.
      * exact I3.
      * exact I4.
  - rewrite (pacc_rmerr table st snp id st' H). apply (root_inv_frame st); simpl; auto.
  - destruct ok.
    + destruct (pacc_ack_ok table st k st' H) as [pos [_ [_ ->]]]. apply (root_inv_frame st); simpl; auto.
    + destruct (pacc_ack_err table st k st' H) as [_ ->]. exact HRt.
  - rewrite (pacc_fault table st st' H). apply (root_inv_frame st); simpl; auto.
Qed.

Theorem root_inv_run : forall evs st st',
  pinv table st -> root_inv st -> paccept_run table st evs = Some st' -> root_inv st'.
Proof.
  induction evs as [|ev t IH]; intros st st' Hinv HRt H; simpl in H.
  - injection H as <-. exact HRt.
  - destruct (paccept_ev table st ev) as [s1|] eqn:E; [|discriminate].
    apply (IH s1 st' (pinv_step table st ev s1 Hinv E) (root_inv_step st ev s1 Hinv HRt E) H).
Qed.

End RootSteps.

Lemma start_root_inv : forall table n st0, start_ok table n st0 -> root_inv st0.
Proof.
  intros table n st0 [_ [Ht [_ [_ [DK [Hg _]]]]]]. constructor.
  - rewrite Ht. simpl. intros s [].
  - intros e G Hgr. rewrite Hg in Hgr. discriminate.
  - intros f Hf. rewrite (dk_fly table _ DK) in Hf. destruct Hf.
  - intros _. exact Hg.
Qed.

Theorem run_root_inv : forall table n st0 evs st,
  start_ok table n st0 -> paccept_run table st0 evs = Some st -> root_inv st.
Proof.
  intros table n st0 evs st Hs H.
  apply (root_inv_run table evs st0 st (proj1 (start_ok_pinv table n st0 Hs)) (start_root_inv table n st0 Hs) H).
Qed.

(* ================================================================== *)
(* C11.10 for the writer's live state                                    *)
(* ================================================================== *)

(* in every state of every accepted run the policy lets go of no file-backed segment of the root and of
   no file-backed segment of the grabbed snapshot *)
Theorem live_state_protected_proof : forall table n st0 evs st,
  start_ok table n st0 -> paccept_run table st0 evs = Some st ->
  (forall s, In s (persisted_ids (t_root (ps_t st))) -> pol_may_remove_seg (ps_pol st) s = false) /\
  (forall e G s, ps_grabbed st = Some (e, G) -> In s G -> pol_may_remove_seg (ps_pol st) s = false).
Proof.
  intros table n st0 evs st Hs H. pose proof (run_root_inv table n st0 evs st Hs H) as [I1 I2 _ _]. split.
  - intros s Hsr. destruct (in_dec Z.eq_dec s (p_known (ps_pol st))) as [Hk|Hk];
      [apply live_entry_kept; apply I1; assumption | apply unknown_kept; exact Hk].
  - intros e G s Hg Hin. destruct (I2 e G Hg) as [_ B].
    destruct (in_dec Z.eq_dec s (p_known (ps_pol st))) as [Hk|Hk];
      [apply live_entry_kept; apply B; assumption | apply unknown_kept; exact Hk].
Qed.

Theorem no_needed_removal_root_proof : forall table n st0 evs1 id evs2 st,
  start_ok table n st0 ->
  paccept_run table st0 (evs1 ++ PRemoveOk false id :: evs2) = Some st ->
  exists st1, paccept_run table st0 evs1 = Some st1 /\
    ~ In id (persisted_ids (t_root (ps_t st1))) /\
    (forall e G, ps_grabbed st1 = Some (e, G) -> ~ In id G).
Proof.
  intros table n st0 evs1 id evs2 st Hs H. destruct (run_split _ _ _ _ _ _ H) as [st1 [st1' [H1 [H2 _]]]].
  exists st1. split; [exact H1|].
  destruct (live_state_protected_proof table n st0 evs1 st1 Hs H1) as [A B].
  destruct (pacc_rm_seg table st1 id st1' H2) as [Hm _]. split.
  - intro Hin. rewrite (A id Hin) in Hm. discriminate.
  - intros e G Hg Hin. rewrite (B e G id Hg Hin) in Hm. discriminate.
Qed.

(* what ps_grabbed is: the file-backed segments of the root taken by the last grab, from that grab
   until the commit of its snapshot file (or the next grab) *)
Definition keeps_grab (ev : pevent) : Prop :=
  match ev with PGrab _ _ | PPersistOk true _ => False | _ => True end.

Lemma grabbed_step : forall table st ev st', keeps_grab ev -> paccept_ev table st ev = Some st' ->
  ps_grabbed st' = ps_grabbed st.
Proof.
  intros table st ev st' Hk H.
  destruct ev as [e|k|epoch nacks|snp id bytes segs|snp id|snp id|snp id|snp id|k ok|]; simpl in Hk; try contradiction.
  - apply (pacc_PI_grab table st e st' H).
  - apply pacc_safe in H. destruct H as [_ [_ [_ ->]]]. reflexivity.
  - destruct snp.
    + destruct (pacc_start_snp_grab table st id bytes segs st' H) as [G [_ [_ Hg]]]. exact Hg.
    + destruct (pacc_start_seg table st id bytes segs st' H) as [_ [_ [_ ->]]]. reflexivity.
  - destruct snp; [contradiction|]. destruct (pacc_ok_seg table st id st' H) as [_ ->]. reflexivity.
  - rewrite (pacc_err table st snp id st' H). reflexivity.
  - destruct snp.
    + destruct (pacc_rm_snp table st id st' H) as [_ ->]. reflexivity.
    + destruct (pacc_rm_seg table st id st' H) as [_ [_ ->]]. reflexivity.
  - rewrite (pacc_rmerr table st snp id st' H). reflexivity.
  - destruct ok.
    + destruct (pacc_ack_ok table st k st' H) as [pos [_ [_ ->]]]. reflexivity.
    + destruct (pacc_ack_err table st k st' H) as [_ ->]. reflexivity.
  - rewrite (pacc_fault table st st' H). reflexivity.
Qed.

Theorem grabbed_since_proof : forall table st0 evs1 e nacks evs2 st,
  paccept_run table st0 (evs1 ++ PGrab e nacks :: evs2) = Some st ->
  (forall ev, In ev evs2 -> keeps_grab ev) ->
  exists st1, paccept_run table st0 evs1 = Some st1 /\
    ps_grabbed st = Some (e, persisted_ids (t_root (ps_t st1))) /\ e = sn_epoch (t_root (ps_t st1)).
Proof.
  intros table st0 evs1 e nacks evs2 st H Hk. destruct (run_split _ _ _ _ _ _ H) as [st1 [st1' [H1 [H2 H3]]]].
  exists st1. split; [exact H1|]. destruct (pacc_grab table st1 e nacks st1' H2) as [He [_ Hst]].
  split; [|exact He].
  assert (Hg1 : ps_grabbed st1' = Some (e, persisted_ids (t_root (ps_t st1)))) by (rewrite Hst; reflexivity).
  clear H H2 Hst. revert st1' H3 Hg1. induction evs2 as [|ev t IH]; intros s H3 Hg; simpl in H3.
  - injection H3 as <-. exact Hg.
  - destruct (paccept_ev table s ev) as [s'|] eqn:E; [|discriminate].
    apply (IH (fun ev' Hin => Hk ev' (or_intror Hin)) s' H3).
    rewrite (grabbed_step table s ev s' (Hk ev (or_introl eq_refl)) E). exact Hg.
Qed.

(* removal_only_by_policy: every removal that succeeded (or was attempted) is of a file the policy
   model marks removable: a deletable epoch, or a known segment that no liveSegments entry names *)
Theorem removal_only_by_policy_proof : forall table st0 evs1 snp id evs2 st,
  paccept_run table st0 (evs1 ++ PRemoveOk snp id :: evs2) = Some st ->
  exists st1, paccept_run table st0 evs1 = Some st1 /\
    if snp then pol_may_remove_snp (ps_pol st1) id = true /\ In id (p_deletable (ps_pol st1))
    else pol_may_remove_seg (ps_pol st1) id = true /\ In id (p_known (ps_pol st1)) /\
         forall e ids, In (e, ids) (p_livesegs (ps_pol st1)) -> ~ In id ids.
Proof.
  intros table st0 evs1 snp id evs2 st H. destruct (run_split _ _ _ _ _ _ H) as [st1 [st1' [H1 [H2 _]]]].
  exists st1. split; [exact H1|]. destruct snp.
  - destruct (pacc_rm_snp table st1 id st1' H2) as [Hd _]. split; [apply zmem_In; exact Hd | exact Hd].
  - destruct (pacc_rm_seg table st1 id st1' H2) as [Hm _]. split; [exact Hm|]. apply (may_remove_seg_spec _ _ Hm).
Qed.

Theorem removal_attempt_by_policy_proof : forall table st0 evs1 snp id evs2 st,
  paccept_run table st0 (evs1 ++ PRemoveErr snp id :: evs2) = Some st ->
  exists st1, paccept_run table st0 evs1 = Some st1 /\
    if snp then pol_may_remove_snp (ps_pol st1) id = true else pol_may_remove_seg (ps_pol st1) id = true.
Proof.
  intros table st0 evs1 snp id evs2 st H. destruct (run_split _ _ _ _ _ _ H) as [st1 [st1' [H1 [H2 _]]]].
  exists st1. split; [exact H1|]. unfold paccept_ev in H2. destruct snp.
  - destruct (pol_may_remove_snp (ps_pol st1) id); [reflexivity | discriminate].
  - destruct (pol_may_remove_seg (ps_pol st1) id); [reflexivity | discriminate].
Qed.

(* ================================================================== *)
(* non-vacuity                                                           *)
(* ================================================================== *)

From Bluge Require Import Index.ProtoProofsEx.
From Bluge Require Index.SnapshotCodec.

(* N = 1.  Batch 1 is persisted (segment 1, swapped into the root, snapshot 1, commit).  Batch 2 replaces
   the only document of segment 1, which leaves the root; it is persisted (segment 2, swap, snapshot 3,
   commit): epoch 1 becomes deletable, its file is removed, and then segment 1 — known, named by no
   remaining snapshot, not in the root — is removed.  Segment 2, file-backed in the root, cannot be. *)
Definition rx_s1p : segsnap := {| ss_id := 1; ss_docs := [(1, 10)]; ss_del := []; ss_persisted := true |}.
Definition rx_s2p : segsnap := {| ss_id := 2; ss_docs := [(2, 20)]; ss_del := []; ss_persisted := true |}.
Definition rx_b2 : batch := {| b_docs := [(2, 20)]; b_ids := [1; 2] |}.
Definition rx_bytes3 : list Z := Eval vm_compute in SnapshotCodec.encode {| SnapshotCodec.sn_segs := [ex_seg 2] |}.
Definition rx_run : list pevent :=
  [ PI (ECall 1); PI (EIntro 1 ex_b1 [] 1 ex_r1); PSafe 1; PGrab 1 1;
    PPersistStart false 1 [] []; PPersistOk false 1;
    PI (EPersistSwap [1] {| sn_epoch := 2; sn_segs := [rx_s1p] |});
    PPersistStart true 1 ex_bytes1 [(1, [])]; PPersistOk true 1; PAck 1 true;
    PI (ECall 2); PI (EIntro 2 rx_b2 [] 2 {| sn_epoch := 3; sn_segs := [ex_s2] |}); PSafe 2; PGrab 3 1;
    PPersistStart false 2 [] []; PPersistOk false 2;
    PI (EPersistSwap [2] {| sn_epoch := 4; sn_segs := [rx_s2p] |});
    PPersistStart true 3 rx_bytes3 [(2, [])]; PPersistOk true 3; PAck 2 true;
    PRemoveOk true 1; PRemoveOk false 1 ].
Definition rx_st : pstate := Eval vm_compute in run_state [] (st_fresh 1) rx_run.

Lemma root_example_proof :
  paccept_run [] (st_fresh 1) rx_run = Some rx_st /\
  persisted_ids (t_root (ps_t rx_st)) = [2] /\ d_seg (ps_disk rx_st) = [2] /\
  map fst (d_snp (ps_disk rx_st)) = [3] /\ ps_grabbed rx_st = None /\
  (* the file-backed root segment is not removable *)
  paccept_run [] (st_fresh 1) (rx_run ++ [PRemoveOk false 2]) = None /\
  (* nor was segment 1 while the root used it, although epoch 1 ... *)
  paccept_run [] (st_fresh 1) (firstn 10 rx_run ++ [PRemoveOk false 1]) = None /\
  (* a snapshot that drops a file-backed segment of the grabbed root is refused *)
  paccept_run [] (st_fresh 1) (firstn 7 rx_run ++ [PPersistStart true 1 (SnapshotCodec.encode {| SnapshotCodec.sn_segs := [] |}) []]) = None /\
  (* an id the policy still knows (segment file 1 not yet removed) cannot become file-backed in the root
     again; once the file is gone and forgotten it can *)
  paccept_run [] (st_fresh 1)
    (firstn 21 rx_run ++ [PI (ECall 3); PI (EIntro 3 ex_b1 [] 1 {| sn_epoch := 5; sn_segs := [rx_s2p; ex_s1] |});
                          PI (EPersistSwap [1] {| sn_epoch := 6; sn_segs := [rx_s2p; rx_s1p] |})]) = None /\
  paccept_run [] (st_fresh 1)
    (rx_run ++ [PI (ECall 3); PI (EIntro 3 ex_b1 [] 1 {| sn_epoch := 5; sn_segs := [rx_s2p; ex_s1] |});
                PI (EPersistSwap [1] {| sn_epoch := 6; sn_segs := [rx_s2p; rx_s1p] |})]) <> None.
Proof.
  split; [vm|]. split; [vm|]. split; [vm|]. split; [vm|]. split; [vm|]. split; [vm|]. split; [vm|]. split; [vm|].
  split; [vm|]. vm_compute. discriminate.
Qed.
