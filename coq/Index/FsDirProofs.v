(* Index/FsDirProofs.v — proofs about the Persist model (Index/FsDir.v) instantiated with the
   step list, cleanup list and open flags that T-gen reads from index/directory_fs.go. *)
From Coq Require Import ZArith List Bool Lia.
From Bluge Require Import Base.Res Base.Corr Base.Bufio Gen.ParamsFsDir Index.FsDir.
Import ListNotations.
Open Scope Z_scope.

Arguments truncate_to : simpl never.
Arguments write_at : simpl never.
Arguments ztake : simpl never.
Arguments zdrop : simpl never.
Arguments zlen : simpl never.

Lemma zlen_nonneg {A} (l : list A) : 0 <= zlen l.
Proof. unfold zlen. lia. Qed.

Lemma truncate_to_0 c : truncate_to c 0 = [].
Proof.
  unfold truncate_to, ztake.
  pose proof (zlen_nonneg c) as H.
  replace (Z.to_nat (0 - zlen c)) with 0%nat by lia. reflexivity.
Qed.

Lemma write_at_nil_0 bytes : write_at [] 0 bytes = bytes.
Proof.
  unfold write_at, ztake, zdrop. simpl.
  rewrite skipn_nil. apply app_nil_r.
Qed.

Lemma ztake_all {A} (l : list A) : ztake (zlen l) l = l.
Proof. unfold ztake, zlen. rewrite Nat2Z.id. apply firstn_all. Qed.

(* ---- the current tree ---- *)

Definition durable_exact (r : presult) (bytes : list Z) : Prop :=
  exists f, pr_file r = Some f /\ fi_content f = bytes /\ fi_synced f = bytes.

Lemma persist_ok_exact_all : forall pre chunks fl,
  pr_err (persist pre chunks fl) = false ->
  exists f, pr_file (persist pre chunks fl) = Some f /\ fi_content f = concat chunks.
Proof.
  intros pre chunks fl.
  unfold persist, persist_with, persist_steps, persist_cleanup, persist_open_flags, persist_truncate_size.
  destruct pre as [c|]; destruct fl; cbn; intros Herr; try discriminate;
    rewrite ?truncate_to_0, ?write_at_nil_0; eexists; split; reflexivity.
Qed.

Lemma persist_ok_synced_all : forall pre chunks fl,
  pr_err (persist pre chunks fl) = false ->
  (exists f, pr_file (persist pre chunks fl) = Some f /\ fi_synced f = fi_content f) /\
  fsync_after_last_write (pr_trace (persist pre chunks fl)) = true.
Proof.
  intros pre chunks fl.
  unfold persist, persist_with, persist_steps, persist_cleanup, persist_open_flags, persist_truncate_size.
  destruct pre as [c|]; destruct fl; cbn; intros Herr; try discriminate;
    (split; [eexists; split; reflexivity|]);
    rewrite ?truncate_to_0, ?write_at_nil_0;
    destruct (concat chunks); reflexivity.
Qed.

Definition untouched (pre : option (list Z)) : option finode :=
  option_map (fun c => {| fi_content := c; fi_synced := c |}) pre.

Lemma persist_err_clean_all : forall pre chunks fl,
  pr_err (persist pre chunks fl) = true ->
  (fl = FailOpen /\ pr_file (persist pre chunks fl) = untouched pre) \/
  (fl <> FailOpen /\ pr_file (persist pre chunks fl) = None).
Proof.
  intros pre chunks fl.
  unfold persist, persist_with, persist_steps, persist_cleanup, persist_open_flags, persist_truncate_size.
  destruct pre as [c|]; destruct fl; cbn; intros Herr; try discriminate;
    try (left; split; reflexivity); right; (split; [discriminate|]);
    try reflexivity; destruct (ztake k (concat chunks)); reflexivity.
Qed.

(* every failure point does produce an error (the error is not swallowed) *)
Lemma persist_fail_reported_all : forall pre chunks fl,
  fl <> NoFail -> pr_err (persist pre chunks fl) = true.
Proof.
  intros pre chunks fl.
  unfold persist, persist_with, persist_steps, persist_cleanup, persist_open_flags, persist_truncate_size.
  destruct pre as [c|]; destruct fl; cbn; intros H; try reflexivity; try congruence;
    destruct (ztake k (concat chunks)); reflexivity.
Qed.

Lemma persist_nofail_ok_all : forall pre chunks, pr_err (persist pre chunks NoFail) = false.
Proof.
  intros pre chunks.
  unfold persist, persist_with, persist_steps, persist_cleanup, persist_open_flags, persist_truncate_size.
  destruct pre as [c|]; cbn; reflexivity.
Qed.

(* ---- the flags / the truncation step matter ---- *)

(* the pinned step list (no Truncate) with the pinned flags O_CREATE|O_RDWR: success is reported
   over a longer prior file and the content is not what was written (defect D1) *)
Lemma persist_exact_refuted_pinned :
  exists pre chunks,
    let r := persist_with pinned_steps [5; 6] 66 (-1) pre chunks NoFail in
    pr_err r = false /\ exists f, pr_file r = Some f /\ fi_content f <> concat chunks.
Proof.
  exists (Some [65; 65; 65; 65; 65]), [[115; 104]; [111]].
  vm_compute. split; [reflexivity|]. eexists; split; [reflexivity|]. discriminate.
Qed.

(* without a Truncate step the result is exact whenever the flags carry O_TRUNC (and no O_EXCL /
   O_APPEND), and conversely the witness above shows it is not when they do not *)
Lemma persist_exact_otrunc : forall flags pre chunks,
  flag flags o_creat = true -> flag flags o_trunc = true ->
  flag flags o_excl = false -> flag flags o_append = false ->
  let r := persist_with pinned_steps [5; 6] flags (-1) pre chunks NoFail in
  pr_err r = false /\ exists f, pr_file r = Some f /\ fi_content f = concat chunks.
Proof.
  intros flags pre chunks Hc Ht He Ha.
  unfold persist_with, pinned_steps.
  destruct pre as [c|]; cbn; unfold do_open; cbn; rewrite ?Hc, ?Ht, ?He, ?Ha; cbn; rewrite ?Hc, ?Ht, ?He, ?Ha; cbn;
    rewrite ?write_at_nil_0; (split; [reflexivity|]); eexists; split; reflexivity.
Qed.

(* ---- satisfiable hypotheses ---- *)
Example persist_ok_example :
  pr_err (persist (Some [9; 9; 9; 9; 9; 9]) [[1]; [2; 3]] NoFail) = false /\
  option_map fi_content (pr_file (persist (Some [9; 9; 9; 9; 9; 9]) [[1]; [2; 3]] NoFail)) = Some [1; 2; 3].
Proof. vm_compute. split; reflexivity. Qed.

Example persist_err_example :
  pr_err (persist (Some [9; 9]) [[1]; [2; 3]] (FailWrite 2)) = true /\
  pr_file (persist (Some [9; 9]) [[1]; [2; 3]] (FailWrite 2)) = None.
Proof. vm_compute. split; reflexivity. Qed.

(* ---- file names ---- *)
Example file_name_snp : file_name [46; 115; 110; 112] 26 =
  [48; 48; 48; 48; 48; 48; 48; 48; 48; 48; 49; 97; 46; 115; 110; 112].
Proof. reflexivity. Qed.
