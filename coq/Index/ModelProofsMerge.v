(* Index/ModelProofsMerge.v — proofs about M-IDX, part 2 (C06): the persister's equivalent
   snapshot, and introduce_merge: it never panics, keeps the root invariant and keeps the
   logical content, whatever was deleted or dropped between planning and introduction. *)
From Coq Require Import ZArith List Bool Lia Permutation Sorting.Sorted.
From Coq Require Import ZifyBool.
From Bluge Require Import Base.Res Index.Model Index.Trace Index.ModelProofs.
Import ListNotations.
Open Scope Z_scope.

(* ================================================================== *)
(* permutations of flat_map over a partition                            *)
(* ================================================================== *)

Lemma perm_flat_map_or : forall {A B} (f : A -> list B) (p q : A -> bool) (l : list A),
  (forall a, In a l -> p a && q a = false) ->
  Permutation (flat_map f (filter (fun a => p a || q a) l))
              (flat_map f (filter p l) ++ flat_map f (filter q l)).
Proof.
  intros A B f p q l H. induction l as [|a t IH]; simpl; [constructor|].
  assert (IH' := IH (fun b Hb => H b (or_intror Hb))). clear IH.
  specialize (H a (or_introl eq_refl)).
  destruct (p a) eqn:Pa; destruct (q a) eqn:Qa; simpl in *; try discriminate.
  - rewrite <- app_assoc. apply Permutation_app_head. exact IH'.
  - rewrite IH'. apply Permutation_app_swap_app.
  - exact IH'.
Qed.

Lemma perm_flat_map_partition : forall {A B} (f : A -> list B) (p : A -> bool) (l : list A),
  Permutation (flat_map f l)
              (flat_map f (filter p l) ++ flat_map f (filter (fun a => negb (p a)) l)).
Proof.
  intros A B f p l. rewrite <- perm_flat_map_or.
  - rewrite filter_all_true; [reflexivity|]. intros a _. destruct (p a); reflexivity.
  - intros a _. destruct (p a); reflexivity.
Qed.

(* ================================================================== *)
(* distinct identifiers                                                 *)
(* ================================================================== *)

Lemma nodupZ_NoDup : forall l, nodupZ l = true <-> NoDup l.
Proof.
  induction l as [|x t IH]; simpl; split; intro H; try reflexivity; try constructor.
  - apply andb_true_iff in H. destruct H as [H _]. apply negb_true_iff in H. apply zmem_false. exact H.
  - apply andb_true_iff in H. destruct H as [_ H]. apply IH. exact H.
  - inversion H; subst. apply andb_true_iff. split; [|apply IH; assumption].
    apply negb_true_iff. apply zmem_false. assumption.
Qed.

Lemma NoDup_map_inj : forall {A} (f : A -> Z) (l : list A) a b,
  NoDup (map f l) -> In a l -> In b l -> f a = f b -> a = b.
Proof.
  intros A f l. induction l as [|x t IH]; intros a b Hnd Ha Hb He; simpl in *; [contradiction|].
  inversion Hnd as [|? ? Hx Ht]; subst.
  destruct Ha as [->|Ha]; destruct Hb as [->|Hb]; try reflexivity.
  - exfalso. apply Hx. rewrite He. apply in_map. exact Hb.
  - exfalso. apply Hx. rewrite <- He. apply in_map. exact Ha.
  - apply IH; assumption.
Qed.

Lemma NoDup_map_filter : forall {A} (f : A -> Z) (p : A -> bool) (l : list A),
  NoDup (map f l) -> NoDup (map f (filter p l)).
Proof.
  intros A f p l. induction l as [|x t IH]; simpl; intro H; [constructor|].
  inversion H as [|? ? Hx Ht]; subst. destruct (p x); simpl; [|apply IH; exact Ht].
  constructor; [|apply IH; exact Ht]. intro Hin. apply Hx.
  apply in_map_iff in Hin. destruct Hin as [y [Hy Hin]]. apply filter_In in Hin.
  apply in_map_iff. exists y. tauto.
Qed.

Lemma find_seg_Some : forall sn id s, find_seg sn id = Some s -> In s (sn_segs sn) /\ ss_id s = id.
Proof.
  intros sn id s H. unfold find_seg in H. apply find_some in H. destruct H as [H1 H2]. split; [exact H1 | lia].
Qed.

Lemma find_seg_None : forall sn id, find_seg sn id = None -> ~ In id (seg_ids sn).
Proof.
  intros sn id H Hin. unfold seg_ids in Hin. apply in_map_iff in Hin. destruct Hin as [s [He Hs]].
  unfold find_seg in H. pose proof (find_none _ _ H s Hs) as Hn. simpl in Hn. lia.
Qed.

Lemma find_seg_In : forall sn s, NoDup (seg_ids sn) -> In s (sn_segs sn) -> find_seg sn (ss_id s) = Some s.
Proof.
  intros sn s Hnd Hs. destruct (find_seg sn (ss_id s)) as [s'|] eqn:E.
  - apply find_seg_Some in E. destruct E as [E1 E2]. f_equal.
    apply (NoDup_map_inj ss_id (sn_segs sn)); assumption.
  - exfalso. apply find_seg_None in E. apply E. unfold seg_ids. apply in_map. exact Hs.
Qed.

(* ================================================================== *)
(* C06.10  the persister's equivalent snapshot                          *)
(* ================================================================== *)

Theorem equiv_snapshot_equal_proof : forall grabbed newid,
  nodupZ (seg_ids grabbed) = true ->
  Permutation (abs (equiv_snapshot grabbed newid)) (abs grabbed).
Proof.
  intros grabbed newid Hnd. apply nodupZ_NoDup in Hnd. unfold abs, equiv_snapshot. simpl sn_segs.
  rewrite flat_map_app. cbn [flat_map]. rewrite app_nil_r.
  change (live {| ss_id := newid; ss_docs := flat_map live (unpersisted grabbed); ss_del := [];
                  ss_persisted := true |})
    with (live_from 0 (flat_map live (unpersisted grabbed)) []).
  rewrite live_from_nil_del. unfold unpersisted.
  rewrite (filter_ext_in _ (fun s => negb (negb (ss_persisted s)))).
  - symmetry. rewrite (perm_flat_map_partition live (fun s => negb (ss_persisted s)) (sn_segs grabbed)).
    apply Permutation_app_comm.
  - intros s Hs. f_equal. destruct (ss_persisted s) eqn:P; simpl.
    + apply zmem_false. intro Hin. apply in_map_iff in Hin. destruct Hin as [s' [He Hs']].
      apply filter_In in Hs'. destruct Hs' as [Hs' P'].
      assert (s' = s) by (apply (NoDup_map_inj ss_id (sn_segs grabbed)); assumption).
      subst. rewrite P in P'. discriminate.
    + apply zmem_In. apply in_map. apply filter_In. split; [exact Hs | rewrite P; reflexivity].
Qed.

Lemma equiv_snapshot_dup_ids_refuted_proof :
  exists grabbed newid, snap_wf grabbed = true /\
    abs grabbed = [(1, 10); (2, 20)] /\ abs (equiv_snapshot grabbed newid) = [(2, 20)].
Proof.
  exists {| sn_epoch := 3;
            sn_segs := [ {| ss_id := 1; ss_docs := [(1, 10)]; ss_del := []; ss_persisted := true |};
                         {| ss_id := 1; ss_docs := [(2, 20)]; ss_del := []; ss_persisted := false |} ] |}, 7.
  vm_compute. auto.
Qed.

(* ================================================================== *)
(* the expected old -> new table of one merged segment                  *)
(* ================================================================== *)

Lemma live_from_cons : forall n d t del,
  live_from n (d :: t) del = if zmem n del then live_from (n + 1) t del else d :: live_from (n + 1) t del.
Proof. intros. unfold live_from. simpl. destruct (zmem n del); reflexivity. Qed.

Lemma expected_table_S : forall n k d0 start,
  expected_table n (S k) d0 start =
  if zmem n d0
  then (dropped_sentinel :: fst (expected_table (n + 1) k d0 start), snd (expected_table (n + 1) k d0 start))
  else (start :: fst (expected_table (n + 1) k d0 (start + 1)), snd (expected_table (n + 1) k d0 (start + 1))).
Proof.
  intros. simpl. destruct (zmem n d0).
  - destruct (expected_table (n + 1) k d0 start); reflexivity.
  - destruct (expected_table (n + 1) k d0 (start + 1)); reflexivity.
Qed.

Lemma expected_table_length : forall len n d0 start, length (fst (expected_table n len d0 start)) = len.
Proof.
  induction len as [|k IH]; intros n d0 start; [reflexivity|].
  rewrite expected_table_S. destruct (zmem n d0); simpl; rewrite IH; reflexivity.
Qed.

Lemma expected_table_next : forall (docs : list doc) n d0 start,
  snd (expected_table n (length docs) d0 start) = start + Z.of_nat (length (live_from n docs d0)).
Proof.
  induction docs as [|d t IH]; intros n d0 start; [simpl; lia|].
  cbn [length]. rewrite expected_table_S, live_from_cons. destruct (zmem n d0); simpl snd.
  - apply IH.
  - rewrite IH. cbn [length]. lia.
Qed.

(* new numbers of live positions lie in [start, next) *)
Lemma expected_table_range : forall (docs : list doc) n d0 start k v,
  nth_error (fst (expected_table n (length docs) d0 start)) k = Some v ->
  zmem (n + Z.of_nat k) d0 = false ->
  start <= v < snd (expected_table n (length docs) d0 start).
Proof.
  induction docs as [|d t IH]; intros n d0 start k v Hn Hz.
  - simpl in Hn. destruct k; discriminate.
  - cbn [length] in *. rewrite expected_table_S in *. destruct k as [|k].
    + replace (n + Z.of_nat 0) with n in Hz by lia. rewrite Hz in *. simpl in *. injection Hn as <-.
      rewrite expected_table_next. lia.
    + replace (n + Z.of_nat (S k)) with (n + 1 + Z.of_nat k) in Hz by lia.
      destruct (zmem n d0); simpl in Hn; simpl snd.
      * apply (IH _ _ _ _ _ Hn Hz).
      * pose proof (IH _ _ _ _ _ Hn Hz). lia.
Qed.

Lemma expected_table_inj : forall (docs : list doc) n d0 start k1 k2 v,
  nth_error (fst (expected_table n (length docs) d0 start)) k1 = Some v ->
  nth_error (fst (expected_table n (length docs) d0 start)) k2 = Some v ->
  zmem (n + Z.of_nat k1) d0 = false -> zmem (n + Z.of_nat k2) d0 = false -> k1 = k2.
Proof.
  induction docs as [|d t IH]; intros n d0 start k1 k2 v H1 H2 Z1 Z2.
  - simpl in H1. destruct k1; discriminate.
  - cbn [length] in *. rewrite expected_table_S in *.
    destruct k1 as [|k1]; destruct k2 as [|k2]; try reflexivity.
    + replace (n + Z.of_nat 0) with n in Z1 by lia. rewrite Z1 in *. simpl in H1, H2. injection H1 as <-.
      replace (n + Z.of_nat (S k2)) with (n + 1 + Z.of_nat k2) in Z2 by lia.
      pose proof (expected_table_range _ _ _ _ _ _ H2 Z2). lia.
    + replace (n + Z.of_nat 0) with n in Z2 by lia. rewrite Z2 in *. simpl in H1, H2. injection H2 as <-.
      replace (n + Z.of_nat (S k1)) with (n + 1 + Z.of_nat k1) in Z1 by lia.
      pose proof (expected_table_range _ _ _ _ _ _ H1 Z1). lia.
    + replace (n + Z.of_nat (S k1)) with (n + 1 + Z.of_nat k1) in Z1 by lia.
      replace (n + Z.of_nat (S k2)) with (n + 1 + Z.of_nat k2) in Z2 by lia.
      f_equal. destruct (zmem n d0); simpl in H1, H2; apply (IH _ _ _ _ _ _ H1 H2 Z1 Z2).
Qed.

(* live documents with two deleted sets *)
Definition live2_from (n : Z) (docs : list doc) (d0 D : list Z) : list doc :=
  map snd (filter (fun p => negb (zmem (fst p) d0) && negb (zmem (fst p) D)) (index_from n docs)).

(* the merged block of one segment, seen through a deleted set X of new numbers that
   agrees on the table's image with a set D of old numbers *)
Lemma block_live : forall docs n d0 start X D,
  (forall k v, nth_error (fst (expected_table n (length docs) d0 start)) k = Some v ->
     zmem (n + Z.of_nat k) d0 = false -> zmem v X = zmem (n + Z.of_nat k) D) ->
  live_from start (live_from n docs d0) X = live2_from n docs d0 D.
Proof.
  induction docs as [|d t IH]; intros n d0 start X D H; [reflexivity|].
  cbn [length] in H. rewrite expected_table_S in H. rewrite live_from_cons.
  unfold live2_from. cbn [index_from filter fst]. fold (live2_from (n + 1) t d0 D).
  destruct (zmem n d0) eqn:Z0; cbn [negb andb].
  - apply IH. intros k v Hk Hz. replace (n + 1 + Z.of_nat k) with (n + Z.of_nat (S k)) in * by lia.
    apply H; [exact Hk | exact Hz].
  - rewrite live_from_cons.
    assert (H0 : zmem start X = zmem n D).
    { pose proof (H 0%nat start eq_refl) as H0. replace (n + Z.of_nat 0) with n in H0 by lia.
      apply H0. exact Z0. }
    rewrite H0.
    assert (IH' : live_from (start + 1) (live_from (n + 1) t d0) X = live2_from (n + 1) t d0 D).
    { apply IH. intros k v Hk Hz. replace (n + 1 + Z.of_nat k) with (n + Z.of_nat (S k)) in * by lia.
      apply H; [exact Hk | exact Hz]. }
    rewrite IH'. destruct (zmem n D); reflexivity.
Qed.

(* ================================================================== *)
(* well-formed merge events                                             *)
(* ================================================================== *)

Definition mold := list (Z * option (list Z)).

Lemma wf_cons_none : forall id (t : mold) olddocs oldnew start,
  merge_wf_from ((id, None) :: t) olddocs oldnew start = merge_wf_from t olddocs oldnew start.
Proof. reflexivity. Qed.

Lemma wf_cons_some : forall id d0 (t : mold) olddocs oldnew start content,
  merge_wf_from ((id, Some d0) :: t) olddocs oldnew start = Some content ->
  exists docs rest,
    lookup id olddocs = Some docs /\
    lookup id oldnew = Some (fst (expected_table 0 (length docs) d0 start)) /\
    merge_wf_from t olddocs oldnew (snd (expected_table 0 (length docs) d0 start)) = Some rest /\
    content = live_at docs d0 ++ rest.
Proof.
  intros id d0 t olddocs oldnew start content H. simpl in H.
  destruct (lookup id olddocs) as [docs|]; [|discriminate].
  destruct (lookup id oldnew) as [tbl|]; [|discriminate].
  destruct (expected_table 0 (length docs) d0 start) as [exp next] eqn:E.
  destruct (list_eqbZ exp tbl) eqn:L; [|discriminate]. apply list_eqbZ_eq in L. subst tbl.
  destruct (merge_wf_from t olddocs oldnew next) as [rest|] eqn:R; [|discriminate].
  injection H as <-. exists docs, rest. rewrite E. simpl. auto.
Qed.

Lemma wf_entry : forall (old : mold) olddocs oldnew start content id d0,
  merge_wf_from old olddocs oldnew start = Some content -> In (id, Some d0) old ->
  exists docs st,
    lookup id olddocs = Some docs /\
    lookup id oldnew = Some (fst (expected_table 0 (length docs) d0 st)) /\
    start <= st /\
    snd (expected_table 0 (length docs) d0 st) <= start + Z.of_nat (length content).
Proof.
  induction old as [|[id' [d0'|]] t IH]; intros olddocs oldnew start content id d0 H Hin.
  - contradiction.
  - apply wf_cons_some in H. destruct H as [docs [rest [H1 [H2 [H3 H4]]]]].
    pose proof (expected_table_next docs 0 d0' start) as Hn.
    destruct Hin as [Hin|Hin].
    + injection Hin as -> ->. exists docs, start. repeat split; try assumption; [lia|].
      subst content. rewrite app_length, Hn. change (live_from 0 docs d0) with (live_at docs d0). lia.
    + destruct (IH _ _ _ _ _ _ H3 Hin) as [docs' [st [G1 [G2 [G3 G4]]]]].
      exists docs', st. repeat split; try assumption; [lia|].
      subst content. rewrite app_length. change (live_from 0 docs d0') with (live_at docs d0') in Hn. lia.
  - rewrite wf_cons_none in H. destruct Hin as [Hin|Hin]; [discriminate|].
    apply (IH _ _ _ _ _ _ H Hin).
Qed.

(* the new numbers of live positions of any merged segment lie inside the merged segment *)
Lemma wf_range : forall (old : mold) olddocs oldnew start content id d0 tbl k v,
  merge_wf_from old olddocs oldnew start = Some content -> In (id, Some d0) old ->
  lookup id oldnew = Some tbl -> nth_error tbl k = Some v -> zmem (Z.of_nat k) d0 = false ->
  start <= v < start + Z.of_nat (length content).
Proof.
  intros old olddocs oldnew start content id d0 tbl k v H Hin Ht Hk Hz.
  destruct (wf_entry _ _ _ _ _ _ _ H Hin) as [docs [st [G1 [G2 [G3 G4]]]]].
  rewrite Ht in G2. injection G2 as ->.
  pose proof (expected_table_range docs 0 d0 st k v Hk) as Hr. simpl in Hr. specialize (Hr Hz). lia.
Qed.

Lemma wf_table_length : forall (old : mold) olddocs oldnew start content id d0 tbl,
  merge_wf_from old olddocs oldnew start = Some content -> In (id, Some d0) old ->
  lookup id oldnew = Some tbl ->
  exists docs, lookup id olddocs = Some docs /\ length tbl = length docs.
Proof.
  intros old olddocs oldnew start content id d0 tbl H Hin Ht.
  destruct (wf_entry _ _ _ _ _ _ _ H Hin) as [docs [st [G1 [G2 _]]]].
  rewrite Ht in G2. injection G2 as ->. exists docs. split; [exact G1 | apply expected_table_length].
Qed.

(* two live positions with the same new number are the same position of the same segment *)
Lemma wf_inj : forall (old : mold) olddocs oldnew start content id1 d1 tbl1 k1 id2 d2 tbl2 k2 v,
  merge_wf_from old olddocs oldnew start = Some content -> NoDup (map fst old) ->
  In (id1, Some d1) old -> In (id2, Some d2) old ->
  lookup id1 oldnew = Some tbl1 -> lookup id2 oldnew = Some tbl2 ->
  nth_error tbl1 k1 = Some v -> nth_error tbl2 k2 = Some v ->
  zmem (Z.of_nat k1) d1 = false -> zmem (Z.of_nat k2) d2 = false ->
  id1 = id2 /\ d1 = d2 /\ k1 = k2.
Proof.
  induction old as [|[id' [d0'|]] t IH];
    intros olddocs oldnew start content id1 d1 tbl1 k1 id2 d2 tbl2 k2 v H Hnd In1 In2 T1 T2 N1 N2 Z1 Z2.
  - contradiction.
  - inversion Hnd as [|? ? Hx Hnd']; subst.
    apply wf_cons_some in H. destruct H as [docs [rest [H1 [H2 [H3 H4]]]]].
    pose proof (expected_table_next docs 0 d0' start) as Hn.
    destruct In1 as [In1|In1]; destruct In2 as [In2|In2].
    + injection In1 as -> ->. injection In2 as <- <-. rewrite T1 in T2. injection T2 as <-.
      rewrite H2 in T1. injection T1 as <-. repeat split.
      apply (expected_table_inj docs 0 d1 start k1 k2 v N1 N2); simpl; assumption.
    + injection In1 as -> ->. rewrite H2 in T1. injection T1 as <-.
      pose proof (expected_table_range docs 0 d1 start k1 v N1) as R1. simpl in R1. specialize (R1 Z1).
      pose proof (wf_range _ _ _ _ _ _ _ _ _ _ H3 In2 T2 N2 Z2) as R2. lia.
    + injection In2 as -> ->. rewrite H2 in T2. injection T2 as <-.
      pose proof (expected_table_range docs 0 d2 start k2 v N2) as R2. simpl in R2. specialize (R2 Z2).
      pose proof (wf_range _ _ _ _ _ _ _ _ _ _ H3 In1 T1 N1 Z1) as R1. lia.
    + apply (IH _ _ _ _ _ _ _ _ _ _ _ _ _ H3 Hnd' In1 In2 T1 T2 N1 N2 Z1 Z2).
  - inversion Hnd as [|? ? Hx Hnd']; subst. rewrite wf_cons_none in H.
    destruct In1 as [In1|In1]; [discriminate|]. destruct In2 as [In2|In2]; [discriminate|].
    apply (IH _ _ _ _ _ _ _ _ _ _ _ _ _ H Hnd' In1 In2 T1 T2 N1 N2 Z1 Z2).
Qed.

(* the merged content seen through a deleted set X of new numbers: per merged segment, the documents
   that were live at merge time and whose old number is not in Dof id *)
Definition entry_live (olddocs : list (Z * list doc)) (Dof : Z -> list Z) (p : Z * option (list Z)) : list doc :=
  match snd p, lookup (fst p) olddocs with
  | Some d0, Some docs => live2_from 0 docs d0 (Dof (fst p))
  | _, _ => []
  end.

Lemma content_live : forall (old : mold) olddocs oldnew start content X Dof,
  merge_wf_from old olddocs oldnew start = Some content ->
  (forall id d0 tbl k v, In (id, Some d0) old -> lookup id oldnew = Some tbl ->
     nth_error tbl k = Some v -> zmem (Z.of_nat k) d0 = false -> zmem v X = zmem (Z.of_nat k) (Dof id)) ->
  live_from start content X = flat_map (entry_live olddocs Dof) old.
Proof.
  induction old as [|[id [d0|]] t IH]; intros olddocs oldnew start content X Dof H HX.
  - simpl in H. injection H as <-. reflexivity.
  - apply wf_cons_some in H. destruct H as [docs [rest [H1 [H2 [H3 H4]]]]]. subst content.
    rewrite live_from_app. cbn [flat_map]. f_equal.
    + unfold entry_live. cbn [fst snd]. rewrite H1. rewrite live_at_from. apply block_live.
      intros k v Hk Hz. simpl in Hz. simpl. apply (HX id d0 _ k v (or_introl eq_refl) H2 Hk Hz).
    + pose proof (expected_table_next docs 0 d0 start) as Hn. rewrite live_at_from, <- Hn.
      apply (IH _ _ _ _ _ _ H3). intros id' d0' tbl k v Hin. apply HX. right. exact Hin.
  - rewrite wf_cons_none in H. cbn [flat_map]. unfold entry_live at 1. cbn [snd]. simpl app.
    apply (IH _ _ _ _ _ _ H). intros id' d0' tbl k v Hin. apply HX. right. exact Hin.
Qed.

(* ================================================================== *)
(* association lists                                                    *)
(* ================================================================== *)

Lemma lookup_In : forall {A} k (l : list (Z * A)) v, lookup k l = Some v -> In (k, v) l.
Proof.
  intros A k l v. induction l as [|[k' v'] t IH]; simpl; intro H; [discriminate|].
  destruct (k =? k') eqn:E.
  - apply Z.eqb_eq in E. injection H as ->. subst. left. reflexivity.
  - right. apply IH. exact H.
Qed.

Lemma In_lookup : forall {A} k (l : list (Z * A)) v, NoDup (map fst l) -> In (k, v) l -> lookup k l = Some v.
Proof.
  intros A k l v. induction l as [|[k' v'] t IH]; simpl; intros Hnd Hin; [contradiction|].
  inversion Hnd as [|? ? Hx Ht]; subst. destruct Hin as [Hin|Hin].
  - injection Hin as -> ->. rewrite Z.eqb_refl. reflexivity.
  - destruct (k =? k') eqn:E; [|apply IH; assumption].
    apply Z.eqb_eq in E. subst. exfalso. apply Hx. apply (in_map fst) in Hin. exact Hin.
Qed.

Lemma lookup_None : forall {A} k (l : list (Z * A)), lookup k l = None <-> ~ In k (map fst l).
Proof.
  intros A k l. induction l as [|[k' v'] t IH]; simpl; [tauto|].
  destruct (k =? k') eqn:E.
  - apply Z.eqb_eq in E. subst. split; [discriminate | intro H; exfalso; apply H; left; reflexivity].
  - rewrite IH. apply Z.eqb_neq in E. split; [intros H [H'|H']; [congruence | tauto] | tauto].
Qed.

Lemma lookup_zmem : forall {A} k (l : list (Z * A)),
  zmem k (map fst l) = match lookup k l with Some _ => true | None => false end.
Proof.
  intros A k l. destruct (lookup k l) eqn:E.
  - apply zmem_In. apply lookup_In in E. apply (in_map fst) in E. exact E.
  - apply zmem_false. apply lookup_None. exact E.
Qed.

Lemma lookup_filter_ne : forall {A} k x (l : list (Z * A)),
  lookup k (filter (fun p => negb (fst p =? x)) l) = if k =? x then None else lookup k l.
Proof.
  intros A k x l. induction l as [|[k' v'] t IH]; simpl; [destruct (k =? x); reflexivity|].
  destruct (k' =? x) eqn:E1; simpl.
  - rewrite IH. destruct (k =? x) eqn:E2; [reflexivity|].
    assert (E3 : (k =? k') = false) by lia. rewrite E3. reflexivity.
  - rewrite IH. destruct (k =? k') eqn:E3; [|reflexivity].
    assert (E2 : (k =? x) = false) by lia. rewrite E2. reflexivity.
Qed.

(* ================================================================== *)
(* the deleted set of the merged segment                                *)
(* ================================================================== *)

Definition img (tbl ks : list Z) (v : Z) : Prop :=
  exists k v', In k ks /\ nthZ tbl k = Some v' /\ v = v' mod 4294967296.

Lemma map_docnums_spec : forall tbl ks r, map_docnums tbl ks = Ok r -> forall v, In v r <-> img tbl ks v.
Proof.
  intros tbl ks. induction ks as [|k t IH]; intros r H v; simpl in H.
  - injection H as <-. split; [contradiction|]. intros [k [v' [[] _]]].
  - destruct (nthZ tbl k) as [n|] eqn:En; [|discriminate].
    destruct (map_docnums tbl t) as [r'| | |] eqn:Er; simpl in H; try discriminate.
    injection H as <-. specialize (IH r' eq_refl v). simpl. rewrite IH. split.
    + intros [<-|[k' [v' [H1 [H2 H3]]]]].
      * exists k, n. simpl. auto.
      * exists k', v'. simpl. auto.
    + intros [k' [v' [[<-|H1] [H2 H3]]]].
      * left. rewrite En in H2. injection H2 as ->. auto.
      * right. exists k', v'. auto.
Qed.

Lemma map_docnums_ok : forall tbl ks,
  (forall k, In k ks -> 0 <= k < Z.of_nat (length tbl)) -> exists r, map_docnums tbl ks = Ok r.
Proof.
  intros tbl ks. induction ks as [|k t IH]; intro H; simpl; [eexists; reflexivity|].
  assert (Hk := H k (or_introl eq_refl)).
  destruct (nthZ tbl k) as [n|] eqn:En.
  - destruct IH as [r Hr]; [intros k' Hk'; apply H; right; exact Hk'|]. rewrite Hr. simpl. eexists; reflexivity.
  - exfalso. unfold nthZ in En. assert (E : (k <? 0) = false) by lia. rewrite E in En.
    apply nth_error_None in En. lia.
Qed.

Definition scan_nd (m : merge_ev) (s : segsnap) (atmerge : option (list Z)) : res (list Z) :=
  match atmerge, ss_del s with
  | Some d0, _ :: _ =>
      let since := zdiff (ss_del s) d0 in
      match lookup (ss_id s) (m_oldnew m) with
      | None => match since with [] => Ok [] | _ => Panic 3 end
      | Some tbl => map_docnums tbl since
      end
  | _, _ => Ok []
  end.

Lemma merge_scan_cons : forall s t m (old : mold) kept nd,
  merge_scan (s :: t) m old kept nd =
  match lookup (ss_id s) old with
  | Some atmerge =>
      nd' <- scan_nd m s atmerge ;;
      merge_scan t m (filter (fun p => negb (fst p =? ss_id s)) old) kept (nd ++ nd')
  | None => if 0 <? seg_count s then merge_scan t m old (kept ++ [s]) nd else merge_scan t m old kept nd
  end.
Proof. reflexivity. Qed.

Lemma scan_nd_spec : forall m s atmerge r, scan_nd m s atmerge = Ok r ->
  forall v, In v r <->
    exists d0 tbl, atmerge = Some d0 /\ lookup (ss_id s) (m_oldnew m) = Some tbl /\
                   img tbl (zdiff (ss_del s) d0) v.
Proof.
  intros m s atmerge r H v. unfold scan_nd in H.
  destruct atmerge as [d0|].
  2:{ injection H as <-. split; [contradiction|]. intros [d0 [tbl [H _]]]. discriminate. }
  destruct (ss_del s) as [|x l] eqn:Ed.
  { injection H as <-. split; [contradiction|]. intros [d0' [tbl [_ [_ [k [v' [[] _]]]]]]]. }
  destruct (lookup (ss_id s) (m_oldnew m)) as [tbl|] eqn:El.
  - rewrite (map_docnums_spec _ _ _ H v). split.
    + intro Hi. exists d0, tbl. auto.
    + intros [d0' [tbl' [H1 [H2 H3]]]]. injection H1 as <-. injection H2 as <-. exact H3.
  - split.
    + destruct (zdiff (x :: l) d0); [|discriminate]. injection H as <-. contradiction.
    + intros [d0' [tbl' [_ [H2 _]]]]. discriminate.
Qed.

(* what merge_scan returns *)
Lemma merge_scan_spec : forall segs m (old : mold) kept nd kept' nd' rem,
  NoDup (map ss_id segs) ->
  merge_scan segs m old kept nd = Ok (kept', nd', rem) ->
  kept' = kept ++ filter (fun s => negb (zmem (ss_id s) (map fst old)) && (0 <? seg_count s)) segs /\
  rem = filter (fun p => negb (zmem (fst p) (map ss_id segs))) old /\
  (forall v, In v nd' <-> In v nd \/
     exists s d0 tbl, In s segs /\ lookup (ss_id s) old = Some (Some d0) /\
        lookup (ss_id s) (m_oldnew m) = Some tbl /\ img tbl (zdiff (ss_del s) d0) v).
Proof.
  induction segs as [|s t IH]; intros m old kept nd kept' nd' rem Hnd H.
  - simpl in H. injection H as <- <- <-. simpl. rewrite app_nil_r. split; [reflexivity|].
    split; [symmetry; apply filter_all_true; reflexivity|].
    intro v. split; [auto|]. intros [H|[s [d0 [tbl [[] _]]]]]. exact H.
  - inversion Hnd as [|? ? Hx Hnd']; subst. rewrite merge_scan_cons in H.
    cbn [filter map]. rewrite (lookup_zmem (ss_id s) old).
    destruct (lookup (ss_id s) old) as [atmerge|] eqn:El.
    + destruct (scan_nd m s atmerge) as [r| | |] eqn:Es; simpl in H; try discriminate.
      destruct (IH _ _ _ _ _ _ _ Hnd' H) as [K1 [K2 K3]]. cbn [negb andb].
      assert (Hne : forall s', In s' t -> (ss_id s' =? ss_id s) = false).
      { intros s' Hs'. apply Z.eqb_neq. intro E. apply Hx. rewrite <- E. apply in_map. exact Hs'. }
      split; [|split].
      * rewrite K1. f_equal. apply filter_ext_in. intros s' Hs'. f_equal. f_equal.
        rewrite !lookup_zmem, lookup_filter_ne, (Hne s' Hs'). reflexivity.
      * rewrite K2. rewrite filter_filter. apply filter_ext. intros [k a]. cbn [fst].
        rewrite zmem_cons. destruct (k =? ss_id s); reflexivity.
      * intro v. rewrite K3, in_app_iff, (scan_nd_spec _ _ _ _ Es v). split.
        -- intros [[Hv|Hv]|Hv]; [left; exact Hv | |].
           ++ right. destruct Hv as [d0 [tbl [-> [H2 H3]]]]. exists s, d0, tbl. simpl. auto.
           ++ right. destruct Hv as [s' [d0 [tbl [H1 [H2 [H3 H4]]]]]].
              rewrite lookup_filter_ne, (Hne s' H1) in H2. exists s', d0, tbl. simpl. auto.
        -- intros [Hv|[s' [d0 [tbl [[<-|H1] [H2 [H3 H4]]]]]]]; [auto | |].
           ++ left. right. rewrite El in H2. injection H2 as ->. exists d0, tbl. auto.
           ++ right. exists s', d0, tbl. rewrite lookup_filter_ne, (Hne s' H1). auto.
    + cbn [negb andb].
      assert (Hgen : forall kept0, merge_scan t m old kept0 nd = Ok (kept', nd', rem) ->
                rem = filter (fun p => negb (zmem (fst p) (map ss_id (s :: t)))) old /\
                (forall v, In v nd' <-> In v nd \/
                   exists s0 d0 tbl, In s0 (s :: t) /\ lookup (ss_id s0) old = Some (Some d0) /\
                     lookup (ss_id s0) (m_oldnew m) = Some tbl /\ img tbl (zdiff (ss_del s0) d0) v) /\
                kept' = kept0 ++ filter (fun s => negb (zmem (ss_id s) (map fst old)) && (0 <? seg_count s)) t).
      { intros kept0 H0. destruct (IH _ _ _ _ _ _ _ Hnd' H0) as [K1 [K2 K3]]. split; [|split].
        - rewrite K2. apply filter_ext_in. intros [k a] Hp. cbn [fst map]. rewrite zmem_cons.
          destruct (k =? ss_id s) eqn:E; [|reflexivity].
          apply Z.eqb_eq in E. subst k. exfalso. apply lookup_None in El. apply El.
          apply (in_map fst) in Hp. exact Hp.
        - intro v. rewrite K3. split.
          + intros [Hv|[s' [d0 [tbl [H1 H2]]]]]; [auto|]. right. exists s', d0, tbl. simpl. auto.
          + intros [Hv|[s' [d0 [tbl [[<-|H1] [H2 H3]]]]]]; [auto | | right; exists s', d0, tbl; auto].
            rewrite El in H2. discriminate.
        - exact K1. }
      destruct (0 <? seg_count s).
      * destruct (Hgen _ H) as [G1 [G2 G3]]. split; [|split; assumption].
        rewrite G3, <- app_assoc. reflexivity.
      * destruct (Hgen _ H) as [G1 [G2 G3]]. split; [|split; assumption]. exact G3.
Qed.

Lemma merge_obsolete_spec : forall m od (rem : mold) r, merge_obsolete m od rem = Ok r ->
  (forall id, ~ In (id, None) rem) /\
  (forall v, In v r <->
     exists id d0 docs tbl, In (id, Some d0) rem /\ lookup id od = Some docs /\
       lookup id (m_oldnew m) = Some tbl /\ img tbl (zdiff (all_docnums docs) d0) v).
Proof.
  intros m od rem. induction rem as [|[id [d0|]] t IH]; intros r H; simpl in H.
  - injection H as <-. split; [intros id []|]. intro v. split; [contradiction|].
    intros [id [d0 [docs [tbl [[] _]]]]].
  - destruct (lookup id od) as [docs|] eqn:Ed; [|discriminate].
    destruct (lookup id (m_oldnew m)) as [tbl|] eqn:Et.
    + destruct (map_docnums tbl (zdiff (all_docnums docs) d0)) as [a| | |] eqn:Ea; simpl in H; try discriminate.
      destruct (merge_obsolete m od t) as [b| | |] eqn:Eb; simpl in H; try discriminate.
      injection H as <-. destruct (IH b eq_refl) as [I1 I2]. split.
      * intros id' [Hin|Hin]; [discriminate | apply (I1 id' Hin)].
      * intro v. rewrite in_app_iff, I2, (map_docnums_spec _ _ _ Ea v). split.
        -- intros [Hv|[id' [d0' [docs' [tbl' [H1 H2]]]]]].
           ++ exists id, d0, docs, tbl. simpl. auto.
           ++ exists id', d0', docs', tbl'. simpl. auto.
        -- intros [id' [d0' [docs' [tbl' [[Hin|Hin] [H2 [H3 H4]]]]]]].
           ++ injection Hin as <- <-. rewrite Ed in H2. injection H2 as <-. rewrite Et in H3. injection H3 as <-.
              left. exact H4.
           ++ right. exists id', d0', docs', tbl'. auto.
    + destruct (zdiff (all_docnums docs) d0) eqn:Ez; [|discriminate].
      destruct (IH r H) as [I1 I2]. split.
      * intros id' [Hin|Hin]; [discriminate | apply (I1 id' Hin)].
      * intro v. rewrite I2. split.
        -- intros [id' [d0' [docs' [tbl' [H1 H2]]]]]. exists id', d0', docs', tbl'. simpl. auto.
        -- intros [id' [d0' [docs' [tbl' [[Hin|Hin] [H2 [H3 H4]]]]]]].
           ++ injection Hin as <- <-. rewrite Et in H3. discriminate.
           ++ exists id', d0', docs', tbl'. auto.
  - discriminate.
Qed.

Lemma all_docnums_range : forall docs k, In k (all_docnums docs) <-> 0 <= k < Z.of_nat (length docs).
Proof. intros. unfold all_docnums, indexed. rewrite index_from_fst_In. lia. Qed.

Lemma merge_obsolete_ok : forall m od (rem : mold),
  (forall id, ~ In (id, None) rem) ->
  (forall id d0, In (id, Some d0) rem -> exists docs tbl,
      lookup id od = Some docs /\ lookup id (m_oldnew m) = Some tbl /\ length tbl = length docs) ->
  exists r, merge_obsolete m od rem = Ok r.
Proof.
  intros m od rem. induction rem as [|[id [d0|]] t IH]; intros Hn Hs; simpl.
  - eexists; reflexivity.
  - destruct (Hs id d0 (or_introl eq_refl)) as [docs [tbl [H1 [H2 H3]]]]. rewrite H1, H2.
    destruct (map_docnums_ok tbl (zdiff (all_docnums docs) d0)) as [a Ha].
    { intros k Hk. apply zdiff_In in Hk. destruct Hk as [Hk _]. apply all_docnums_range in Hk. lia. }
    rewrite Ha. simpl.
    destruct IH as [b Hb].
    { intros id' Hin. apply (Hn id'). right. exact Hin. }
    { intros id' d0' Hin. apply (Hs id' d0'). right. exact Hin. }
    rewrite Hb. simpl. eexists; reflexivity.
  - exfalso. apply (Hn id). left. reflexivity.
Qed.

Lemma merge_scan_ok : forall segs m (old : mold) kept nd,
  (forall s d0, In s segs -> lookup (ss_id s) old = Some (Some d0) ->
     exists tbl, lookup (ss_id s) (m_oldnew m) = Some tbl /\
                 forall k, In k (ss_del s) -> 0 <= k < Z.of_nat (length tbl)) ->
  exists r, merge_scan segs m old kept nd = Ok r.
Proof.
  induction segs as [|s t IH]; intros m old kept nd H; [eexists; reflexivity|].
  rewrite merge_scan_cons. destruct (lookup (ss_id s) old) as [atmerge|] eqn:El.
  - assert (Hnd : exists r, scan_nd m s atmerge = Ok r).
    { unfold scan_nd. destruct atmerge as [d0|]; [|eexists; reflexivity].
      destruct (ss_del s) as [|x l] eqn:Ed; [eexists; reflexivity|].
      destruct (H s d0 (or_introl eq_refl) El) as [tbl [H1 H2]]. rewrite H1.
      apply map_docnums_ok. intros k Hk. apply zdiff_In in Hk. destruct Hk as [Hk _].
      apply H2. rewrite Ed. exact Hk. }
    destruct Hnd as [r Hr]. rewrite Hr. simpl. apply IH.
    intros s' d0 Hs' Hl. rewrite lookup_filter_ne in Hl.
    destruct (ss_id s' =? ss_id s); [discriminate|]. apply (H s' d0 (or_intror Hs') Hl).
  - destruct (0 <? seg_count s); apply IH; intros s' d0 Hs' Hl; apply (H s' d0 (or_intror Hs') Hl).
Qed.

(* ================================================================== *)
(* the side conditions, as propositions                                 *)
(* ================================================================== *)

Lemma merge_compat_spec : forall root m olddocs, merge_compat root m olddocs = true ->
  NoDup (map fst (m_old m)) /\ ~ In (m_id m) (seg_ids root) /\
  forall id a, In (id, a) (m_old m) ->
    exists docs, lookup id olddocs = Some docs /\
      (forall n, In n (match a with Some d0 => d0 | None => [] end) -> 0 <= n < Z.of_nat (length docs)) /\
      match find_seg root id with
      | None => a <> None
      | Some s => ss_docs s = docs /\
                  match a with
                  | Some d0 => forall x, In x d0 -> In x (ss_del s)
                  | None => seg_count s <= 0
                  end
      end.
Proof.
  intros root m olddocs H. unfold merge_compat in H.
  apply andb_true_iff in H. destruct H as [H H3]. apply andb_true_iff in H. destruct H as [H1 H2].
  split; [apply nodupZ_NoDup; exact H1|]. split; [apply zmem_false; apply negb_true_iff; exact H2|].
  intros id a Hin. rewrite forallb_forall in H3. specialize (H3 (id, a) Hin). cbn [fst snd] in H3.
  destruct (lookup id olddocs) as [docs|]; [|discriminate]. exists docs. split; [reflexivity|].
  apply andb_true_iff in H3. destruct H3 as [H4 H5]. split.
  - intros n Hn. rewrite forallb_forall in H4. specialize (H4 n Hn). lia.
  - destruct (find_seg root id) as [s|].
    + apply andb_true_iff in H5. destruct H5 as [H5 H6]. apply docs_eqb_eq in H5. split; [exact H5|].
      destruct a as [d0|].
      * intros x Hx. unfold zsubset in H6. rewrite forallb_forall in H6. apply zmem_In. apply H6. exact Hx.
      * lia.
    + destruct a; [discriminate | discriminate].
Qed.

Lemma merge_wf_spec : forall m olddocs, merge_wf m olddocs = true ->
  exists content, merge_wf_from (m_old m) olddocs (m_oldnew m) 0 = Some content /\
    Z.of_nat (length content) <= 4294967296 /\
    match m_new m with Some docs => docs = content | None => content = [] end.
Proof.
  intros m olddocs H. unfold merge_wf in H.
  destruct (merge_wf_from (m_old m) olddocs (m_oldnew m) 0) as [content|]; [|discriminate].
  exists content. split; [reflexivity|]. destruct (m_new m) as [docs|].
  - assert (H' : docs_eqb content docs && (Z.of_nat (length docs) <=? 4294967296) = true)
      by (destruct content; exact H).
    apply andb_true_iff in H'. destruct H' as [H1 H2]. apply docs_eqb_eq in H1. subst. split; [lia | reflexivity].
  - destruct content; [simpl; split; [lia | reflexivity] | discriminate].
Qed.

Lemma find_seg_not_In : forall sn id, ~ In id (seg_ids sn) -> find_seg sn id = None.
Proof.
  intros sn id H. destruct (find_seg sn id) as [s|] eqn:E; [|reflexivity].
  apply find_seg_Some in E. destruct E as [E1 E2]. exfalso. apply H. rewrite <- E2.
  unfold seg_ids. apply in_map. exact E1.
Qed.

(* going-away segments in root order vs. in the order of the merge task *)
Lemma filter_by_id : forall segs x, NoDup (map ss_id segs) ->
  flat_map live (filter (fun s => ss_id s =? x) segs)
  = match find (fun s => ss_id s =? x) segs with Some s => live s | None => [] end.
Proof.
  induction segs as [|s t IH]; intros x Hnd; simpl; [reflexivity|].
  inversion Hnd as [|? ? Hx Ht]; subst. destruct (ss_id s =? x) eqn:E.
  - simpl. rewrite filter_all_false; [simpl; apply app_nil_r|].
    intros s' Hs'. apply Z.eqb_neq. intro E'. apply Hx. apply Z.eqb_eq in E. rewrite E, <- E'.
    apply in_map. exact Hs'.
  - apply IH. exact Ht.
Qed.

Lemma going_perm : forall (old : mold) segs, NoDup (map fst old) -> NoDup (map ss_id segs) ->
  Permutation (flat_map live (filter (fun s => zmem (ss_id s) (map fst old)) segs))
              (flat_map (fun p => match find (fun s => ss_id s =? fst p) segs with
                                  | Some s => live s | None => [] end) old).
Proof.
  induction old as [|p t IH]; intros segs Ho Hs.
  - simpl. rewrite filter_all_false; [constructor | reflexivity].
  - inversion Ho as [|? ? Hx Ht]; subst. cbn [map flat_map].
    rewrite (filter_ext _ (fun s => (ss_id s =? fst p) || zmem (ss_id s) (map fst t)))
      by (intro s; apply zmem_cons).
    rewrite perm_flat_map_or.
    + rewrite filter_by_id by exact Hs. apply Permutation_app_head. apply IH; assumption.
    + intros s _. destruct (ss_id s =? fst p) eqn:E; [|reflexivity]. simpl.
      apply zmem_false. apply Z.eqb_eq in E. rewrite E. exact Hx.
Qed.

(* ================================================================== *)
(* C06.7-9  introduce_merge                                             *)
(* ================================================================== *)

Section Merge.
  Variable root : snapshot.
  Variable m : merge_ev.
  Variable olddocs : list (Z * list doc).
  Variable content : list doc.
  Hypothesis Hroot : root_ok root = true.
  Hypothesis Hcompat : merge_compat root m olddocs = true.
  Hypothesis Hwf : merge_wf_from (m_old m) olddocs (m_oldnew m) 0 = Some content.
  Hypothesis Hsmall : Z.of_nat (length content) <= 4294967296.

  (* the deleted set that matters for a merged segment: the current one if the segment is still
     in the root, every document number if it is gone *)
  Definition Dof (id : Z) : list Z :=
    match find_seg root id with
    | Some s => ss_del s
    | None => match lookup id olddocs with Some docs => all_docnums docs | None => [] end
    end.

  Let Hnd_old : NoDup (map fst (m_old m)).
  Proof. apply merge_compat_spec in Hcompat. tauto. Qed.

  Let Hnd_root : NoDup (seg_ids root).
  Proof. apply root_ok_spec in Hroot. apply nodupZ_NoDup. tauto. Qed.

  Lemma img_elim : forall id d0 tbl S v,
    In (id, Some d0) (m_old m) -> lookup id (m_oldnew m) = Some tbl -> img tbl (zdiff S d0) v ->
    exists k, nth_error tbl k = Some v /\ zmem (Z.of_nat k) d0 = false /\ In (Z.of_nat k) S.
  Proof.
    intros id d0 tbl S v Hin Ht [k0 [v0 [H1 [H2 H3]]]].
    apply zdiff_In in H1. destruct H1 as [H1 H1'].
    unfold nthZ in H2. destruct (k0 <? 0) eqn:E; [discriminate|].
    exists (Z.to_nat k0). replace (Z.of_nat (Z.to_nat k0)) with k0 by lia.
    assert (Hz : zmem k0 d0 = false) by (apply zmem_false; exact H1').
    assert (Hz' : zmem (Z.of_nat (Z.to_nat k0)) d0 = false) by (replace (Z.of_nat (Z.to_nat k0)) with k0 by lia; exact Hz).
    pose proof (wf_range _ _ _ _ _ _ _ _ _ _ Hwf Hin Ht H2 Hz') as Hr.
    rewrite Z.mod_small in H3 by lia. subst v0. auto.
  Qed.

  Lemma img_intro : forall id d0 tbl S k v,
    In (id, Some d0) (m_old m) -> lookup id (m_oldnew m) = Some tbl ->
    nth_error tbl k = Some v -> zmem (Z.of_nat k) d0 = false -> In (Z.of_nat k) S ->
    img tbl (zdiff S d0) v.
  Proof.
    intros id d0 tbl S k v Hin Ht Hk Hz HS. exists (Z.of_nat k), v. split; [|split].
    - apply zdiff_In. split; [exact HS | apply zmem_false; exact Hz].
    - unfold nthZ. assert (E : (Z.of_nat k <? 0) = false) by lia. rewrite E, Nat2Z.id. exact Hk.
    - pose proof (wf_range _ _ _ _ _ _ _ _ _ _ Hwf Hin Ht Hk Hz) as Hr. rewrite Z.mod_small by lia. reflexivity.
  Qed.

  Variables (kept : list segsnap) (nd1 nd2 : list Z) (rem : mold).
  Hypothesis Hscan : merge_scan (sn_segs root) m (m_old m) [] [] = Ok (kept, nd1, rem).
  Hypothesis Hobs : merge_obsolete m olddocs rem = Ok nd2.

  Lemma rem_In : forall p, In p rem <-> In p (m_old m) /\ ~ In (fst p) (seg_ids root).
  Proof.
    intro p. destruct (merge_scan_spec _ _ _ _ _ _ _ _ Hnd_root Hscan) as [_ [K2 _]].
    rewrite K2, filter_In, negb_true_iff, zmem_false. reflexivity.
  Qed.

  Lemma nd_In : forall v, In v (nd1 ++ nd2) <->
    exists id d0 tbl, In (id, Some d0) (m_old m) /\ lookup id (m_oldnew m) = Some tbl /\
                      img tbl (zdiff (Dof id) d0) v.
  Proof.
    intro v. destruct (merge_scan_spec _ _ _ _ _ _ _ _ Hnd_root Hscan) as [_ [_ K3]].
    destruct (merge_obsolete_spec _ _ _ _ Hobs) as [_ O2].
    rewrite in_app_iff, K3, O2. split.
    - intros [[[]|[s [d0 [tbl [H1 [H2 [H3 H4]]]]]]]|[id [d0 [docs [tbl [H1 [H2 [H3 H4]]]]]]]].
      + exists (ss_id s), d0, tbl. split; [apply lookup_In; exact H2|]. split; [exact H3|].
        unfold Dof. rewrite (find_seg_In root s Hnd_root H1). exact H4.
      + apply rem_In in H1. destruct H1 as [H1 H1']. cbn [fst] in H1'.
        exists id, d0, tbl. split; [exact H1|]. split; [exact H3|].
        unfold Dof. rewrite (find_seg_not_In _ _ H1'), H2. exact H4.
    - intros [id [d0 [tbl [H1 [H2 H3]]]]]. unfold Dof in H3.
      destruct (find_seg root id) as [s|] eqn:Ef.
      + apply find_seg_Some in Ef. destruct Ef as [E1 E2]. left. right.
        exists s, d0, tbl. rewrite E2. split; [exact E1|]. split; [apply In_lookup; assumption|]. auto.
      + right. destruct (merge_compat_spec _ _ _ Hcompat) as [_ [_ C3]].
        destruct (C3 id (Some d0) H1) as [docs [D1 _]]. rewrite D1 in H3.
        exists id, d0, docs, tbl. split; [|auto]. apply rem_In. split; [exact H1|].
        cbn [fst]. apply find_seg_None. exact Ef.
  Qed.

  Definition newdel : list Z := znorm (nd1 ++ nd2).

  Lemma newdel_agrees : forall id d0 tbl k v,
    In (id, Some d0) (m_old m) -> lookup id (m_oldnew m) = Some tbl ->
    nth_error tbl k = Some v -> zmem (Z.of_nat k) d0 = false ->
    zmem v newdel = zmem (Z.of_nat k) (Dof id).
  Proof.
    intros id d0 tbl k v Hin Ht Hk Hz. apply Bool.eq_iff_eq_true.
    unfold newdel. rewrite !zmem_In, znorm_In, nd_In. split.
    - intros [id' [d0' [tbl' [H1 [H2 H3]]]]].
      destruct (img_elim _ _ _ _ _ H1 H2 H3) as [k' [G1 [G2 G3]]].
      destruct (wf_inj _ _ _ _ _ _ _ _ _ _ _ _ _ _ Hwf Hnd_old Hin H1 Ht H2 Hk G1 Hz G2) as [-> [-> ->]].
      exact G3.
    - intro HD. exists id, d0, tbl. split; [exact Hin|]. split; [exact Ht|].
      apply (img_intro id d0 tbl _ k v); assumption.
  Qed.

  Lemma newdel_range : forall v, In v newdel -> 0 <= v < Z.of_nat (length content).
  Proof.
    intros v Hv. unfold newdel in Hv. rewrite znorm_In, nd_In in Hv.
    destruct Hv as [id [d0 [tbl [H1 [H2 H3]]]]].
    destruct (img_elim _ _ _ _ _ H1 H2 H3) as [k [G1 [G2 _]]].
    pose proof (wf_range _ _ _ _ _ _ _ _ _ _ Hwf H1 H2 G1 G2). lia.
  Qed.

  Lemma entry_live_root : forall p, In p (m_old m) ->
    entry_live olddocs Dof p = match find_seg root (fst p) with Some s => live s | None => [] end.
  Proof.
    intros [id a] Hin. cbn [fst]. unfold entry_live. cbn [fst snd].
    destruct (merge_compat_spec _ _ _ Hcompat) as [_ [_ C3]].
    destruct (C3 id a Hin) as [docs [D1 [D2 D3]]]. rewrite D1. unfold Dof. rewrite D1.
    destruct (find_seg root id) as [s|] eqn:Ef.
    - destruct D3 as [D3 D4]. destruct a as [d0|].
      + unfold live2_from, live, live_at, indexed. rewrite D3. f_equal. apply filter_ext.
        intros [k d]. cbn [fst]. destruct (zmem k (ss_del s)) eqn:E1; [apply andb_false_r|].
        rewrite andb_true_r. f_equal. apply zmem_false. intro Hk. apply D4 in Hk.
        apply zmem_false in E1. contradiction.
      + exfalso. apply find_seg_Some in Ef. destruct Ef as [E1 _].
        apply root_ok_spec in Hroot. destruct Hroot as [_ [_ R3]].
        rewrite forallb_forall in R3. specialize (R3 s E1). lia.
    - destruct a as [d0|]; [|reflexivity].
      unfold live2_from. rewrite filter_all_false; [reflexivity|].
      intros [k d] Hp. cbn [fst]. apply andb_false_iff. right. apply negb_false_iff.
      apply zmem_In. unfold all_docnums, indexed. apply (in_map fst) in Hp. exact Hp.
  Qed.

  Lemma merged_live : live_at content newdel
    = flat_map (fun p => match find_seg root (fst p) with Some s => live s | None => [] end) (m_old m).
  Proof.
    rewrite live_at_from. rewrite (content_live _ _ _ _ _ newdel Dof Hwf newdel_agrees).
    apply flat_map_ext_in. exact entry_live_root.
  Qed.

  Lemma kept_eq : kept = filter (fun s => negb (zmem (ss_id s) (map fst (m_old m)))) (sn_segs root).
  Proof.
    destruct (merge_scan_spec _ _ _ _ _ _ _ _ Hnd_root Hscan) as [K1 _]. rewrite K1. simpl.
    apply filter_ext_in. intros s Hs.
    apply root_ok_spec in Hroot. destruct Hroot as [_ [_ R3]].
    rewrite forallb_forall in R3. rewrite (R3 s Hs). apply andb_true_r.
  Qed.

  Lemma merge_content_perm : Permutation (flat_map live kept ++ live_at content newdel) (abs root).
  Proof.
    unfold abs. rewrite (perm_flat_map_partition live (fun s => zmem (ss_id s) (map fst (m_old m))) (sn_segs root)).
    rewrite <- kept_eq. rewrite Permutation_app_comm. apply Permutation_app_tail.
    rewrite merged_live. symmetry. apply going_perm; assumption.
  Qed.

  Lemma newdel_count :
    Z.of_nat (length (live_at content newdel)) = Z.of_nat (length content) - Z.of_nat (length newdel).
  Proof.
    rewrite live_at_from. apply live_from_length.
    - apply sinc_NoDup. apply sinc_znorm.
    - intros k Hk. apply newdel_range in Hk. lia.
  Qed.

  Lemma kept_ok : forall s, In s kept -> In s (sn_segs root) /\ del_ok s = true /\ 0 < seg_count s.
  Proof.
    intros s Hs. rewrite kept_eq in Hs. apply filter_In in Hs. destruct Hs as [Hs _].
    apply root_ok_spec in Hroot. destruct Hroot as [R1 [_ R3]].
    rewrite forallb_forall in R3. specialize (R3 s Hs). split; [exact Hs|].
    split; [apply (snap_wf_In root); assumption | lia].
  Qed.

  Lemma kept_ids : NoDup (map ss_id kept) /\ ~ In (m_id m) (map ss_id kept).
  Proof.
    rewrite kept_eq. split; [apply NoDup_map_filter; exact Hnd_root|].
    intro Hin. destruct (merge_compat_spec _ _ _ Hcompat) as [_ [C2 _]]. apply C2.
    apply in_map_iff in Hin. destruct Hin as [s [E Hs]]. apply filter_In in Hs.
    unfold seg_ids. apply in_map_iff. exists s. tauto.
  Qed.
End Merge.

Lemma root_ok_intro : forall e segs,
  (forall s, In s segs -> del_ok s = true /\ 0 < seg_count s) -> NoDup (map ss_id segs) ->
  root_ok {| sn_epoch := e; sn_segs := segs |} = true.
Proof.
  intros e segs H Hnd. unfold root_ok, snap_wf, seg_ids. simpl sn_segs.
  apply andb_true_iff. split; [apply andb_true_iff; split|].
  - apply forallb_forall. intros s Hs. apply H. exact Hs.
  - apply nodupZ_NoDup. exact Hnd.
  - apply forallb_forall. intros s Hs. destruct (H s Hs). lia.
Qed.

Lemma NoDup_snoc : forall (l : list Z) x, NoDup l -> ~ In x l -> NoDup (l ++ [x]).
Proof.
  intros l x Hl Hx. induction Hl as [|y t Hy Ht IH]; simpl.
  - constructor; [intros [] | constructor].
  - constructor.
    + rewrite in_app_iff. intros [H|[H|[]]]; [contradiction|]. subst. apply Hx. left. reflexivity.
    + apply IH. intro H. apply Hx. right. exact H.
Qed.

(* the shape of a successful introduce_merge *)
Lemma introduce_merge_cases : forall root m olddocs e r sk,
  root_ok root = true -> merge_wf m olddocs = true -> merge_compat root m olddocs = true ->
  introduce_merge root m olddocs e = Ok (r, sk) ->
  exists content kept nd1 nd2 rem,
    merge_wf_from (m_old m) olddocs (m_oldnew m) 0 = Some content /\
    Z.of_nat (length content) <= 4294967296 /\
    merge_scan (sn_segs root) m (m_old m) [] [] = Ok (kept, nd1, rem) /\
    merge_obsolete m olddocs rem = Ok nd2 /\
    ((r = {| sn_epoch := e;
             sn_segs := kept ++ [{| ss_id := m_id m; ss_docs := content; ss_del := znorm (nd1 ++ nd2);
                                    ss_persisted := m_new_persisted m |}] |} /\
      Z.of_nat (length (znorm (nd1 ++ nd2))) < Z.of_nat (length content) /\ sk = false)
     \/
     (r = {| sn_epoch := e; sn_segs := kept |} /\ live_at content (znorm (nd1 ++ nd2)) = [] /\ sk = true)).
Proof.
  intros root m olddocs e r sk Hroot Hwf Hcompat H.
  destruct (merge_wf_spec _ _ Hwf) as [content [Hc [Hsmall Hnew]]].
  unfold introduce_merge in H.
  destruct (merge_scan (sn_segs root) m (m_old m) [] []) as [[[kept nd1] rem]| | |] eqn:Es; simpl in H; try discriminate.
  destruct (merge_obsolete m olddocs rem) as [nd2| | |] eqn:Eo; simpl in H; try discriminate.
  exists content, kept, nd1, nd2, rem. repeat (split; [first [assumption | reflexivity]|]).
  pose proof (newdel_count root m olddocs content Hroot Hcompat Hc Hsmall kept nd1 nd2 rem Es Eo) as Hcnt.
  unfold newdel in Hcnt.
  destruct (m_new m) as [docs|].
  - subst docs. destruct (Z.of_nat (length (znorm (nd1 ++ nd2))) <? Z.of_nat (length content)) eqn:E;
      injection H as <- <-.
    + left. split; [reflexivity|]. split; [lia | reflexivity].
    + right. split; [reflexivity|]. split; [|reflexivity]. apply length_zero_nil. lia.
  - injection H as <- <-. right. subst content. split; [reflexivity|]. split; reflexivity.
Qed.

Theorem merge_intro_preserves_proof : forall root m olddocs e r sk,
  root_ok root = true -> merge_wf m olddocs = true -> merge_compat root m olddocs = true ->
  introduce_merge root m olddocs e = Ok (r, sk) ->
  Permutation (abs r) (abs root).
Proof.
  intros root m olddocs e r sk Hroot Hwf Hcompat H.
  destruct (introduce_merge_cases _ _ _ _ _ _ Hroot Hwf Hcompat H)
    as [content [kept [nd1 [nd2 [rem [Hc [Hsmall [Es [Eo Hcase]]]]]]]]].
  pose proof (merge_content_perm root m olddocs content Hroot Hcompat Hc Hsmall kept nd1 nd2 rem Es Eo) as Hp.
  unfold newdel in Hp.
  destruct Hcase as [[-> _]|[-> [Hnil _]]]; unfold abs; simpl sn_segs.
  - rewrite flat_map_app. cbn [flat_map]. rewrite app_nil_r. exact Hp.
  - rewrite Hnil, app_nil_r in Hp. exact Hp.
Qed.

Theorem merge_result_ok_proof : forall root m olddocs e r sk,
  root_ok root = true -> merge_wf m olddocs = true -> merge_compat root m olddocs = true ->
  introduce_merge root m olddocs e = Ok (r, sk) ->
  root_ok r = true.
Proof.
  intros root m olddocs e r sk Hroot Hwf Hcompat H.
  destruct (introduce_merge_cases _ _ _ _ _ _ Hroot Hwf Hcompat H)
    as [content [kept [nd1 [nd2 [rem [Hc [Hsmall [Es [Eo Hcase]]]]]]]]].
  pose proof (kept_ok root m olddocs content Hroot Hcompat kept nd1 rem Es) as Hk.
  destruct (kept_ids root m olddocs Hroot Hcompat kept nd1 rem Es) as [Hi1 Hi2].
  destruct Hcase as [[-> [Hlt _]]|[-> _]]; apply root_ok_intro.
  - intros s Hs. apply in_app_iff in Hs. destruct Hs as [Hs|[<-|[]]].
    + destruct (Hk s Hs) as [_ Hk']. exact Hk'.
    + split; [|unfold seg_count; simpl; lia].
      apply del_ok_intro; simpl; [apply sinc_znorm|].
      intros k Hk0.
      apply (newdel_range root m olddocs content Hroot Hcompat Hc Hsmall kept nd1 nd2 rem Es Eo k Hk0).
  - rewrite map_app. simpl. apply NoDup_snoc; assumption.
  - intros s Hs. destruct (Hk s Hs) as [_ Hk']. exact Hk'.
  - exact Hi1.
Qed.

Theorem merge_never_panics_proof : forall root m olddocs e,
  root_ok root = true -> merge_wf m olddocs = true -> merge_compat root m olddocs = true ->
  exists r sk, introduce_merge root m olddocs e = Ok (r, sk).
Proof.
  intros root m olddocs e Hroot Hwf Hcompat.
  destruct (merge_wf_spec _ _ Hwf) as [content [Hc [Hsmall Hnew]]].
  destruct (merge_compat_spec _ _ _ Hcompat) as [C1 [C2 C3]].
  pose proof (root_ok_spec _ Hroot) as [R1 [R2 R3]]. apply nodupZ_NoDup in R2.
  destruct (merge_scan_ok (sn_segs root) m (m_old m) [] []) as [[[kept nd1] rem] Es].
  { intros s d0 Hs Hl. apply lookup_In in Hl.
    destruct (wf_entry _ _ _ _ _ _ _ Hc Hl) as [docs [st [G1 [G2 _]]]].
    eexists. split; [exact G2|]. rewrite expected_table_length.
    destruct (C3 _ _ Hl) as [docs' [D1 [_ D3]]]. rewrite G1 in D1. injection D1 as <-.
    rewrite (find_seg_In root s R2 Hs) in D3. destruct D3 as [D3 _]. rewrite <- D3.
    intros k Hk. apply (snap_wf_In root s R1) in Hs. apply del_ok_spec in Hs. apply Hs. exact Hk. }
  destruct (merge_scan_spec _ _ _ _ _ _ _ _ R2 Es) as [_ [K2 _]].
  destruct (merge_obsolete_ok m olddocs rem) as [nd2 Eo].
  { intros id Hin. rewrite K2 in Hin. apply filter_In in Hin. destruct Hin as [Hin Hz].
    cbn [fst] in Hz. apply negb_true_iff in Hz. apply zmem_false in Hz.
    destruct (C3 _ _ Hin) as [docs [_ [_ D3]]]. rewrite (find_seg_not_In _ _ Hz) in D3. apply D3. reflexivity. }
  { intros id d0 Hin. rewrite K2 in Hin. apply filter_In in Hin. destruct Hin as [Hin _].
    destruct (wf_entry _ _ _ _ _ _ _ Hc Hin) as [docs [st [G1 [G2 _]]]].
    exists docs. eexists. split; [exact G1|]. split; [exact G2 | apply expected_table_length]. }
  unfold introduce_merge. rewrite Es. simpl. rewrite Eo. simpl.
  destruct (m_new m) as [docs|]; [|eexists; eexists; reflexivity].
  destruct (Z.of_nat (length (znorm (nd1 ++ nd2))) <? Z.of_nat (length docs)); eexists; eexists; reflexivity.
Qed.

(* ---------- C06.12 non-vacuity: a concrete merge with a delete inside the merge window ---------- *)
Definition exm_root : snapshot :=
  {| sn_epoch := 7;
     sn_segs := [ {| ss_id := 1; ss_docs := [(1, 10); (2, 20); (3, 30)]; ss_del := [1; 2]; ss_persisted := true |};
                  {| ss_id := 2; ss_docs := [(4, 40); (5, 50)]; ss_del := []; ss_persisted := true |};
                  {| ss_id := 3; ss_docs := [(2, 21); (6, 60)]; ss_del := [1]; ss_persisted := false |} ] |}.
(* planned when segment 1 had only document 1 deleted and segment 3 nothing; since then document 2 of
   segment 1 and document 1 of segment 3 were deleted *)
Definition exm_merge : merge_ev :=
  {| m_id := 9; m_old := [(1, Some [1]); (3, Some [])];
     m_oldnew := [(1, [0; dropped_sentinel; 1]); (3, [2; 3])];
     m_new := Some [(1, 10); (3, 30); (2, 21); (6, 60)]; m_new_persisted := true |}.
Definition exm_olddocs : list (Z * list doc) :=
  [(1, [(1, 10); (2, 20); (3, 30)]); (3, [(2, 21); (6, 60)])].
(* the same merge when segment 3 has been emptied and dropped meanwhile *)
Definition exm_root_gone : snapshot :=
  {| sn_epoch := 8;
     sn_segs := [ {| ss_id := 1; ss_docs := [(1, 10); (2, 20); (3, 30)]; ss_del := [1; 2]; ss_persisted := true |};
                  {| ss_id := 2; ss_docs := [(4, 40); (5, 50)]; ss_del := []; ss_persisted := true |} ] |}.

Lemma merge_example_proof :
  root_ok exm_root = true /\ merge_wf exm_merge exm_olddocs = true /\
  merge_compat exm_root exm_merge exm_olddocs = true /\
  introduce_merge exm_root exm_merge exm_olddocs 8 =
    Ok ({| sn_epoch := 8;
           sn_segs := [ {| ss_id := 2; ss_docs := [(4, 40); (5, 50)]; ss_del := []; ss_persisted := true |};
                        {| ss_id := 9; ss_docs := [(1, 10); (3, 30); (2, 21); (6, 60)]; ss_del := [1; 3];
                           ss_persisted := true |} ] |}, false) /\
  abs exm_root = [(1, 10); (4, 40); (5, 50); (2, 21)] /\
  root_ok exm_root_gone = true /\ merge_compat exm_root_gone exm_merge exm_olddocs = true /\
  introduce_merge exm_root_gone exm_merge exm_olddocs 9 =
    Ok ({| sn_epoch := 9;
           sn_segs := [ {| ss_id := 2; ss_docs := [(4, 40); (5, 50)]; ss_del := []; ss_persisted := true |};
                        {| ss_id := 9; ss_docs := [(1, 10); (3, 30); (2, 21); (6, 60)]; ss_del := [1; 2; 3];
                           ss_persisted := true |} ] |}, false).
Proof. vm_compute. repeat split; reflexivity. Qed.

(* ================================================================== *)
(* the root invariant is also kept by introduce_segment and introduce_persist *)
(* ================================================================== *)

Lemma introduce_one_Some : forall b obs s s', introduce_one b obs s = Some s' ->
  s' = seg_after b obs s /\ 0 < seg_count s'.
Proof.
  intros b obs s s' H. rewrite introduce_one_unfold in H.
  destruct (0 <? seg_count (seg_after b obs s)) eqn:E; [|discriminate]. injection H as <-. split; [reflexivity | lia].
Qed.

Lemma filter_map_In : forall {A B} (f : A -> option B) l y,
  In y (filter_map f l) <-> exists x, In x l /\ f x = Some y.
Proof.
  intros A B f l y. induction l as [|a t IH]; simpl.
  - split; [contradiction | intros [x [[] _]]].
  - destruct (f a) as [b|] eqn:E; simpl; rewrite IH; split.
    + intros [<-|[x [H1 H2]]]; [exists a; auto | exists x; auto].
    + intros [x [[<-|H1] H2]]; [left; congruence | right; exists x; auto].
    + intros [x [H1 H2]]. exists x. auto.
    + intros [x [[<-|H1] H2]]; [congruence | exists x; auto].
Qed.

Lemma introduce_ids : forall b obs segs, NoDup (map ss_id segs) ->
  NoDup (map ss_id (filter_map (introduce_one b obs) segs)) /\
  (forall x, In x (map ss_id (filter_map (introduce_one b obs) segs)) -> In x (map ss_id segs)).
Proof.
  intros b obs segs. induction segs as [|s t IH]; intro Hnd; simpl; [split; [constructor | auto]|].
  inversion Hnd as [|? ? Hx Ht]; subst. destruct (IH Ht) as [I1 I2].
  destruct (introduce_one b obs s) as [s'|] eqn:E; simpl.
  - apply introduce_one_Some in E. destruct E as [-> _]. simpl. split.
    + constructor; [|exact I1]. intro Hin. apply Hx. apply I2. exact Hin.
    + intros x [<-|Hin]; [left; reflexivity | right; apply I2; exact Hin].
  - split; [exact I1|]. intros x Hin. right. apply I2. exact Hin.
Qed.

Theorem introduce_result_ok_proof : forall root b obs newid e,
  root_ok root = true -> obs_sound root b obs = true -> zmem newid (seg_ids root) = false ->
  root_ok (introduce_segment root b obs newid e) = true.
Proof.
  intros root b obs newid e Hroot Hobs Hnew. unfold introduce_segment.
  pose proof (root_ok_spec _ Hroot) as [R1 [R2 _]]. apply nodupZ_NoDup in R2.
  destruct (introduce_ids b obs (sn_segs root) R2) as [I1 I2].
  assert (Hkept : forall s', In s' (filter_map (introduce_one b obs) (sn_segs root)) ->
                             del_ok s' = true /\ 0 < seg_count s').
  { intros s' Hs'. apply filter_map_In in Hs'. destruct Hs' as [s [Hs E]].
    apply introduce_one_Some in E. destruct E as [-> Hc]. split; [|exact Hc].
    apply seg_after_del_ok; [apply (snap_wf_In root); assumption | apply (obs_sound_delta_In root); assumption]. }
  apply root_ok_intro.
  - intros s Hs. apply in_app_iff in Hs. destruct Hs as [Hs|Hs]; [apply Hkept; exact Hs|].
    destruct (b_docs b) as [|d t]; [contradiction|]. destruct Hs as [<-|[]]. split; [reflexivity|].
    unfold seg_count. simpl. lia.
  - rewrite map_app. destruct (b_docs b) as [|d t]; simpl; [rewrite app_nil_r; exact I1|].
    apply NoDup_snoc; [exact I1|]. intro Hin. apply I2 in Hin. apply zmem_false in Hnew. contradiction.
Qed.

Theorem persist_result_ok_proof : forall root ids e,
  root_ok root = true -> root_ok (introduce_persist root ids e) = true.
Proof.
  intros root ids e Hroot. pose proof (root_ok_spec _ Hroot) as [R1 [R2 R3]]. apply nodupZ_NoDup in R2.
  destruct (persist_swap_preserves_proof root ids e) as [_ [_ [E _]]].
  unfold introduce_persist in *. simpl sn_segs in *. apply root_ok_intro.
  - intros s' Hs'. apply in_map_iff in Hs'. destruct Hs' as [s [<- Hs]].
    change (del_ok (persist_one ids s) = true /\ 0 < seg_count (persist_one ids s)).
    rewrite persist_one_del_ok, persist_one_count. split; [apply (snap_wf_In root); assumption|].
    rewrite forallb_forall in R3. specialize (R3 s Hs). lia.
  - rewrite E. exact R2.
Qed.
