(* Index/ProtoProofsTorn.v — C03.8 torn_rejected: a zero-filled file never loads (format version 0),
   a file shorter than five bytes never loads; hence `no_collision` is a real hypothesis only for
   prefixes of at least five bytes of a snapshot in flight.
   Uses Index/SnapshotCodec.v (the loader), Base/BufioProofs.v (peek_spec) and
   Index/SnapshotCodecProofs.v (short_rejected_all). *)
From Coq Require Import ZArith List Bool Lia.
From Coq Require Import ZifyBool.
From Bluge Require Import Base.Int64 Base.Res Base.Corr Base.Uvarint Base.CRC32 Base.Bufio Base.BufioProofs Gen.ParamsCodec.
From Bluge Require Import Index.Model Index.Proto Index.ProtoProofsRec.
From Bluge Require Index.SnapshotCodec Index.SnapshotCodecProofs.
Import ListNotations.
Open Scope Z_scope.

Definition all_zero (l : list Z) : Prop := Forall (fun b => b = 0) l.

Lemma all_zero_map : forall {A} (l : list A), all_zero (map (fun _ => 0) l).
Proof. intros A l. unfold all_zero. apply Forall_forall. intros x Hx. apply in_map_iff in Hx. destruct Hx as [y [<- _]]. reflexivity. Qed.

Lemma all_zero_firstn : forall n l, all_zero l -> all_zero (firstn n l).
Proof.
  intros n l H. unfold all_zero in *. rewrite Forall_forall in *. intros x Hx. apply H.
  rewrite <- (firstn_skipn n l). apply in_app_iff. left. exact Hx.
Qed.

Lemma uvarint_zero : forall l, all_zero l -> fst (uvarint l) = 0.
Proof.
  intros l H. unfold uvarint. destruct l as [|b t]; [reflexivity|]. inversion H; subst. reflexivity.
Qed.

(* the format version read from a zero-filled stream is 0 *)
Lemma peek_uvarint_zero : forall payload, all_zero payload ->
  fst (fst (SnapshotCodec.peek_uvarint (br_init payload))) = 0.
Proof.
  intros payload Hz. unfold SnapshotCodec.peek_uvarint.
  pose proof (peek_spec max_varint_len64 (br_init payload) (wf_init payload) ltac:(unfold max_varint_len64, bufsize; lia)) as Hp.
  destruct (peek max_varint_len64 (br_init payload)) as [[pk eof] r1].
  destruct Hp as (_ & _ & _ & _ & Hne & Heof).
  assert (Hpk : all_zero pk).
  { destruct eof.
    - destruct (Heof eq_refl) as [-> _]. unfold stream, br_init. simpl. exact Hz.
    - destruct (Hne eq_refl) as [-> _]. unfold stream, br_init, ztake. simpl. apply all_zero_firstn. exact Hz. }
  pose proof (uvarint_zero pk Hpk) as Hu. destruct (uvarint pk) as [v n]. simpl in *. exact Hu.
Qed.

(* ReadFrom on a stream whose version is not 1 never succeeds *)
Lemma decode_version_rejects : forall fl rb payload a,
  fst (fst (SnapshotCodec.peek_uvarint (br_init payload))) <> snapshot_format_version1 ->
  match SnapshotCodec.decode_reader fl rb (br_init payload) a with (Ok _, _) => False | _ => True end.
Proof.
  intros fl rb payload a Hv. unfold SnapshotCodec.decode_reader, SnapshotCodec.mbind, SnapshotCodec.malloc.
  destruct (SnapshotCodec.peek_uvarint (br_init payload)) as [[ver n] r1]. simpl in Hv.
  destruct (SnapshotCodec.mdiscard n r1 (a + bufsize)) as [[r2|c|c|] a']; try exact I.
  assert (E : (ver =? snapshot_format_version1) = false) by lia. rewrite E. exact I.
Qed.

Lemma load_zero_rejected : forall rb b, all_zero b -> forall s, SnapshotCodec.load rb b <> Ok s.
Proof.
  intros rb b Hz s H. unfold SnapshotCodec.load, SnapshotCodec.load_with in H.
  assert (Hp : all_zero (SnapshotCodec.payload_of b)).
  { unfold SnapshotCodec.payload_of, ztake. apply all_zero_firstn. exact Hz. }
  pose proof (decode_version_rejects SnapshotCodec.gen_flags rb (SnapshotCodec.payload_of b) 0) as Hd.
  rewrite (peek_uvarint_zero _ Hp) in Hd. specialize (Hd ltac:(unfold snapshot_format_version1; lia)).
  destruct (SnapshotCodec.decode_reader SnapshotCodec.gen_flags rb (br_init (SnapshotCodec.payload_of b)) 0) as [[[s1 r]|c|c|] a];
    [contradiction | discriminate..].
Qed.

(* C03.8 *)
Theorem torn_rejected_proof : forall table,
  (forall bytes : list Z, loads table (map (fun _ => 0) bytes) = false) /\
  (forall b, Z.of_nat (length b) < 5 -> loads table b = false).
Proof.
  intro table. split.
  - intro bytes. unfold loads.
    destruct (SnapshotCodec.load (rb_of table) (map (fun _ => 0) bytes)) as [s| | |] eqn:E; try reflexivity.
    exfalso. apply (load_zero_rejected (rb_of table) _ (all_zero_map bytes) s E).
  - intros b Hl. unfold loads.
    destruct (SnapshotCodecProofs.short_rejected_all (rb_of table) b Hl) as [c ->]. reflexivity.
Qed.

(* so the hypothesis no_collision is automatic for zero-filled, absent and full variants and for
   prefixes shorter than five bytes *)
Definition harmless (c : torn) : bool :=
  match c with TPrefix len => len <? 5 | _ => true end.

Theorem no_collision_auto_proof : forall table fl choice,
  forallb harmless choice = true -> no_collision table fl choice = true.
Proof.
  intros table fl. induction fl as [|f fl' IH]; intros choice H; [reflexivity|].
  destruct choice as [|c ch']; [reflexivity|]. simpl in H. apply andb_true_iff in H. destruct H as [Hc Hr].
  cbn [no_collision]. rewrite (IH ch' Hr), andb_true_r. destruct (if_snp f); [|reflexivity].
  destruct (torn_rejected_proof table) as [Hz Hs].
  destruct c; try reflexivity.
  - cbn [torn_bytes]. apply negb_true_iff. apply Hs. simpl in Hc.
    unfold Proto.ztake. rewrite firstn_length. lia.
  - cbn [torn_bytes]. apply negb_true_iff. apply Hz.
Qed.
