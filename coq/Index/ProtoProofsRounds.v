(* Index/ProtoProofsRounds.v — C03.7: crash / recover / continue, any number of rounds.
   next_disk        the directory a crash leaves, classified as the engine classifies it for the next
                    round (harness/engines/proto.go mdisk.image): complete files, in-flight files written
                    in full become complete, torn ones become left-over (junk) files;
   next_start       the state init_pstate (Index/ProtoCorr.v) builds on it;
   recover_then_invariant   it is a well-formed start again (start_ok), so every theorem about accepted
                    runs re-applies;
   chain / rounds_compose   over any number of rounds the directory always recovers to the abstract
                    index after G = the concatenation of the recovered prefixes of the rounds. *)
From Coq Require Import ZArith List Bool Lia Permutation Sorted.
From Coq Require Import ZifyBool.
From Bluge Require Import Base.Res Base.Corr Index.Model Index.ModelProofs Index.Trace Index.TraceProofs
  Index.Proto Index.ProtoCorr Index.ProtoProofsPol Index.ProtoProofsInv Index.ProtoProofsRec Index.ProtoProofsThm.
Import ListNotations.
Open Scope Z_scope.

Local Arguments load_one : simpl never.

(* ================================================================== *)
(* the directory after a crash                                          *)
(* ================================================================== *)

Fixpoint next_fly (fl : list inflight) (choice : list torn) (d : disk) : disk :=
  match fl, choice with
  | f :: fl', c :: ch' =>
      let d' :=
        match torn_bytes c (if_bytes f) with
        | None => d
        | Some b =>
            if if_snp f then
              match c with
              | TFull => {| d_snp := (if_id f, {| sf_bytes := b; sf_segs := if_segs f |}) :: d_snp d; d_seg := d_seg d;
                            d_fly := d_fly d; d_junk_snp := map_del (if_id f) (d_junk_snp d); d_junk_seg := d_junk_seg d |}
              | _ => {| d_snp := d_snp d; d_seg := d_seg d; d_fly := d_fly d;
                        d_junk_snp := (if_id f, b) :: map_del (if_id f) (d_junk_snp d); d_junk_seg := d_junk_seg d |}
              end
            else
              match c with
              | TFull => {| d_snp := d_snp d; d_seg := if_id f :: d_seg d; d_fly := d_fly d;
                            d_junk_snp := d_junk_snp d; d_junk_seg := d_junk_seg d |}
              | _ => {| d_snp := d_snp d; d_seg := d_seg d; d_fly := d_fly d;
                        d_junk_snp := d_junk_snp d; d_junk_seg := if_id f :: d_junk_seg d |}
              end
        end in
      next_fly fl' ch' d'
  | _, _ => d
  end.

Definition next_disk (d : disk) (choice : list torn) : disk :=
  next_fly (d_fly d) choice
    {| d_snp := d_snp d; d_seg := d_seg d; d_fly := []; d_junk_snp := d_junk_snp d; d_junk_seg := d_junk_seg d |}.

Definition next_start (table : list (list Z)) (n : Z) (st : pstate) (choice : list torn)
  (sd : list (Z * list doc)) : option pstate :=
  init_pstate {| pc_n := n; pc_table := table; pc_disk := next_disk (ps_disk st) choice; pc_segdocs := sd;
                 pc_events := []; pc_probes := [] |}.

Definition full_entry (f : inflight) : Z * snpfile := (if_id f, {| sf_bytes := if_bytes f; sf_segs := if_segs f |}).

Lemma next_fly_fly : forall fl ch d, d_fly (next_fly fl ch d) = d_fly d.
Proof.
  induction fl as [|f fl' IH]; intros ch d; [reflexivity|]. destruct ch as [|c ch']; [reflexivity|].
  cbn [next_fly]. rewrite IH. destruct (torn_bytes c (if_bytes f)); [|reflexivity].
  destruct (if_snp f); destruct c; reflexivity.
Qed.

Lemma next_fly_snp : forall fl ch d x, In x (d_snp (next_fly fl ch d)) <->
  In x (d_snp d) \/ exists f, In (f, TFull) (combine fl ch) /\ if_snp f = true /\ x = full_entry f.
Proof.
  induction fl as [|f fl' IH]; intros ch d x.
  - simpl. split; [auto | intros [H|[f [[] _]]]; exact H].
  - destruct ch as [|c ch'].
    + simpl. split; [auto | intros [H|[f0 [[] _]]]; exact H].
    + cbn [next_fly combine]. rewrite IH. clear IH.
      assert (Hskip : forall d', d_snp d' = d_snp d -> (c <> TFull \/ if_snp f = false) ->
                (In x (d_snp d') \/ (exists f0, In (f0, TFull) (combine fl' ch') /\ if_snp f0 = true /\ x = full_entry f0)) <->
                (In x (d_snp d) \/ (exists f0, In (f0, TFull) ((f, c) :: combine fl' ch') /\ if_snp f0 = true /\ x = full_entry f0))).
      { intros d' -> Hn. split.
        - intros [H|[f0 [H1 H2]]]; [left; exact H | right; exists f0; split; [right; exact H1 | exact H2]].
        - intros [H|[f0 [[Heq|H1] [H2 H3]]]]; [left; exact H | | right; exists f0; auto].
          injection Heq as <- ->. destruct Hn as [Hn|Hn]; congruence. }
      destruct (torn_bytes c (if_bytes f)) as [b|] eqn:T.
      * destruct (if_snp f) eqn:S.
        -- destruct c; try (apply Hskip; [reflexivity | left; discriminate]).
           simpl in T. injection T as <-. cbn [d_snp]. split.
           ++ intros [[<-|H]|[f0 [H1 H2]]].
              ** right. exists f. split; [left; reflexivity | auto].
              ** left. exact H.
              ** right. exists f0. split; [right; exact H1 | exact H2].
           ++ intros [H|[f0 [[Heq|H1] [H2 H3]]]].
              ** left. right. exact H.
              ** injection Heq as <-. left. left. symmetry. exact H3.
              ** right. exists f0. auto.
        -- destruct c; apply Hskip; auto.
      * destruct c; simpl in T; try discriminate. apply Hskip; [reflexivity | left; discriminate].
Qed.

Lemma next_fly_seg_mono : forall fl ch d s, In s (d_seg d) -> In s (d_seg (next_fly fl ch d)).
Proof.
  induction fl as [|f fl' IH]; intros ch d s H; [exact H|]. destruct ch as [|c ch']; [exact H|].
  cbn [next_fly]. apply IH. destruct (torn_bytes c (if_bytes f)); [|exact H].
  destruct (if_snp f); destruct c; simpl; auto.
Qed.

Lemma next_fly_junk : forall fl ch d e b, In (e, b) (d_junk_snp (next_fly fl ch d)) ->
  In (e, b) (d_junk_snp d) \/
  exists f c, In (f, c) (combine fl ch) /\ if_snp f = true /\ c <> TFull /\ torn_bytes c (if_bytes f) = Some b.
Proof.
  induction fl as [|f fl' IH]; intros ch d e b H; [left; exact H|]. destruct ch as [|c ch']; [left; exact H|].
  cbn [next_fly] in H. apply IH in H. clear IH.
  destruct H as [H|[f0 [c0 [H1 H2]]]]; [|right; exists f0, c0; split; [right; exact H1 | exact H2]].
  destruct (torn_bytes c (if_bytes f)) as [b0|] eqn:T; [|left; exact H].
  destruct (if_snp f) eqn:S.
  - destruct c; simpl in H; try discriminate.
    + destruct H as [Heq|H]; [|left; apply map_del_In in H; tauto].
      injection Heq as <- <-. right. exists f, (TPrefix len). split; [left; reflexivity|]. repeat split; [exact S | discriminate | exact T].
    + destruct H as [Heq|H]; [|left; apply map_del_In in H; tauto].
      injection Heq as <- <-. right. exists f, TZeros. split; [left; reflexivity|]. repeat split; [exact S | discriminate | exact T].
    + left. apply map_del_In in H. tauto.
  - destruct c; simpl in H; left; exact H.
Qed.

Lemma next_fly_nodup : forall fl ch d,
  NoDup (map fst (d_snp d)) -> (length (filter if_snp fl) <= 1)%nat ->
  (forall f, In f fl -> if_snp f = true -> ~ In (if_id f) (map fst (d_snp d))) ->
  NoDup (map fst (d_snp (next_fly fl ch d))).
Proof.
  induction fl as [|f fl' IH]; intros ch d Hn Hone Hnew; [exact Hn|]. destruct ch as [|c ch']; [exact Hn|].
  cbn [next_fly]. simpl in Hone.
  assert (Hnew' : forall g, In g fl' -> if_snp g = true -> ~ In (if_id g) (map fst (d_snp d))) by (intros g Hg; apply Hnew; right; exact Hg).
  destruct (torn_bytes c (if_bytes f)) as [b|] eqn:T; [|apply IH; [exact Hn | destruct (if_snp f); simpl in Hone; lia | exact Hnew']].
  destruct (if_snp f) eqn:S.
  - simpl in Hone. assert (Hnone : forall g, In g fl' -> if_snp g = true -> False).
    { intros g Hg Hs. assert (In g (filter if_snp fl')) by (apply filter_In; auto).
      destruct (filter if_snp fl'); [contradiction | simpl in Hone; lia]. }
    destruct c; apply IH; simpl; try exact Hn; try lia; try exact Hnew'.
    + constructor; [apply Hnew; [left; reflexivity | exact S] | exact Hn].
    + intros g Hg Hs. exfalso. apply (Hnone g Hg Hs).
  - destruct c; apply IH; simpl; try exact Hn; try lia; exact Hnew'.
Qed.

(* ================================================================== *)
(* C03.7a  recover_then_invariant                                        *)
(* ================================================================== *)

Section Next.
Variable table : list (list Z).
Variables (d : disk) (p : pol).
Hypothesis HD : disk_inv table d p.
Variable choice : list torn.
Hypothesis NC : no_collision table (d_fly d) choice = true.

Let nd := next_disk d choice.

Lemma next_snp_In : forall x, In x (d_snp nd) <->
  In x (d_snp d) \/ exists f, In (f, TFull) (combine (d_fly d) choice) /\ if_snp f = true /\ x = full_entry f.
Proof. intro x. unfold nd, next_disk. rewrite next_fly_snp. reflexivity. Qed.

Theorem next_disk_ok : disk_ok table nd.
Proof.
  constructor.
  - unfold nd, next_disk. rewrite next_fly_fly. reflexivity.
  - unfold nd, next_disk. apply next_fly_nodup; simpl.
    + apply (disk_inv_nodup table d p HD).
    + apply (di_one table d p HD).
    + intros f Hf Hs Hin. pose proof (di_fly_new table d p HD f (if_id f) Hf Hs Hin). lia.
  - intros e f Hin. apply next_snp_In in Hin. destruct Hin as [Hin|[g [Hc [Hs Heq]]]].
    + apply (di_snp_loads table d p HD e f Hin).
    + injection Heq as -> ->. simpl. apply (di_fly_loads table d p HD g (in_combine_l _ _ _ _ Hc) Hs).
  - intros e f s Hin Hs. unfold nd, next_disk. apply next_fly_seg_mono. simpl.
    apply next_snp_In in Hin. destruct Hin as [Hin|[g [Hc [Hsn Heq]]]].
    + apply (di_snp_segs table d p HD e f s Hin Hs).
    + injection Heq as -> ->. simpl in Hs. apply (di_fly_segs table d p HD g s (in_combine_l _ _ _ _ Hc) Hsn Hs).
  - intros e b Hin. unfold nd, next_disk in Hin. apply next_fly_junk in Hin. simpl in Hin.
    destruct Hin as [Hin|[f [c [Hc [Hs [Hne Ht]]]]]].
    + apply (di_junk table d p HD e b Hin).
    + apply (no_collision_spec table _ _ f c b NC Hc Hs Hne Ht).
Qed.

(* the files that load are the same in the crash image and in the directory of the next round *)
Lemma next_oks_same : forall e segs,
  In (e, segs) (oks table (crash_image d choice) (files_of (crash_image d choice))) <->
  exists f, In (e, f) (d_snp nd) /\ segs = sf_segs f.
Proof.
  intros e segs. pose proof (disk_inv_files table d p HD) as HF. split.
  - intro H. destruct (crash_oks_origin_full table d HF choice NC e segs H) as [[f [Hf ->]]|[f [Hc [Hs [<- ->]]]]].
    + exists f. split; [apply next_snp_In; left; exact Hf | reflexivity].
    + exists {| sf_bytes := if_bytes f; sf_segs := if_segs f |}. split; [|reflexivity].
      apply next_snp_In. right. exists f. auto.
  - intros [f [Hin ->]]. apply next_snp_In in Hin. destruct Hin as [Hin|[g [Hc [Hs Heq]]]].
    + apply (crash_oks_complete table d HF choice e f Hin).
    + injection Heq as -> ->. simpl. apply (crash_oks_fly_full table d HF choice g Hc Hs).
Qed.

(* what the crash image recovers to is the newest complete snapshot file of the next directory *)
Lemma next_newest : forall e segs, picked table (crash_image d choice) e segs ->
  (exists f, In (e, f) (d_snp nd) /\ sf_segs f = segs) /\
  forall e', In e' (map fst (d_snp nd)) -> e' <= e.
Proof.
  intros e segs [Hin Hmax]. split.
  - apply next_oks_same in Hin. destruct Hin as [f [Hf ->]]. exists f. auto.
  - intros e' He'. apply in_map_iff in He'. destruct He' as [[e0 f0] [<- Hf0]]. simpl.
    apply (Hmax e0 (sf_segs f0)). apply next_oks_same. exists f0. auto.
Qed.

End Next.

(* a correspondence case whose start directory is well-formed starts in a well-formed state: with
   `check c = true` (Index/ProtoCorr.v: the recorded events are accepted from that state) the theorems
   about accepted runs apply to the recorded run *)
Theorem init_pstate_start_ok : forall c st0,
  1 <= pc_n c -> disk_ok (pc_table c) (pc_disk c) -> init_pstate c = Some st0 ->
  start_ok (pc_table c) (pc_n c) st0 /\ ps_disk st0 = pc_disk c /\ ps_segdocs st0 = pc_segdocs c.
Proof.
  intros c st0 Hn DK H. unfold init_pstate in H.
  destruct (recover_writer (pc_table c) (pc_n c) (crash_image (pc_disk c) [])) as [s|r| |] eqn:R; try discriminate;
    injection H as <-; (split; [|split; reflexivity]); unfold start_ok; cbn [ps_t ps_base ps_safe ps_disk ps_epoch_n ps_pol ps_grabbed].
  - split; [exact Hn|]. split; [reflexivity|]. split; [reflexivity|]. split; [reflexivity|]. split; [exact DK|]. split; [reflexivity|].
    left. split; [|auto].
    destruct (crash_recover_writer (pc_table c) _ (disk_ok_files _ _ DK) [] (start_nc _ _ DK) (pc_n c)) as [_ [_ [_ [W4 _]]]].
    apply (W4 s R).
  - split; [exact Hn|]. split; [reflexivity|]. split; [reflexivity|]. split; [reflexivity|]. split; [exact DK|]. split; [reflexivity|].
    right. exists r. auto.
Qed.

Theorem check_run_invariant : forall c,
  1 <= pc_n c -> check c = true ->
  exists st0 st, init_pstate c = Some st0 /\ start_ok (pc_table c) (pc_n c) st0 /\
    paccept_run (pc_table c) st0 (pc_events c) = Some st /\ pinv (pc_table c) st.
Proof.
  intros c Hn Hc. unfold check in Hc. destruct (init_pstate c) as [st0|] eqn:I; [|discriminate].
  apply andb_true_iff in Hc. destruct Hc as [Hc _]. apply andb_true_iff in Hc. destruct Hc as [Hc Hr].
  apply andb_true_iff in Hc. destruct Hc as [Hd _].
  destruct (paccept_run (pc_table c) st0 (pc_events c)) as [st|] eqn:R; [|discriminate].
  destruct (init_pstate_start_ok c st0 Hn (disk_okb_ok _ _ Hd) I) as [Hs _].
  exists st0, st. split; [reflexivity|]. split; [exact Hs|]. split; [exact R|].
  apply (run_pinv (pc_table c) (pc_n c) st0 (pc_events c) st Hs R).
Qed.

Theorem recover_then_invariant_proof : forall table n st choice sd st0',
  1 <= n -> pinv table st ->
  no_collision table (d_fly (ps_disk st)) choice = true ->
  next_start table n st choice sd = Some st0' ->
  start_ok table n st0' /\ ps_disk st0' = next_disk (ps_disk st) choice /\ ps_segdocs st0' = sd.
Proof.
  intros table n st choice sd st0' Hn [HD _] NC H.
  pose proof (next_disk_ok table _ _ HD choice NC) as DK.
  apply (init_pstate_start_ok {| pc_n := n; pc_table := table; pc_disk := next_disk (ps_disk st) choice; pc_segdocs := sd;
                                 pc_events := []; pc_probes := [] |} st0' Hn DK H).
Qed.

(* the next round can always start when the crash image recovers *)
Lemma next_start_exists : forall table n st choice sd r,
  pinv table st -> no_collision table (d_fly (ps_disk st)) choice = true ->
  recover_writer table n (crash_image (ps_disk st) choice) = RecOk r ->
  exists st0', next_start table n st choice sd = Some st0'.
Proof.
  intros table n st choice sd r [HD HR] NC Hr.
  pose proof (next_disk_ok table _ _ HD choice NC) as DK.
  destruct (crash_recover_writer table _ (disk_inv_files table _ _ HD) choice NC n) as [_ [W2 _]].
  destruct (W2 r Hr) as [Hpick _].
  destruct (next_newest table _ _ HD choice NC _ _ Hpick) as [[f [Hf _]] _].
  destruct (crash_recover_writer table _ (disk_ok_files table _ DK) [] (start_nc table _ DK) n) as [W1 _].
  destruct W1 as [r' Hr']; [intro Hnil; rewrite Hnil in Hf; destruct Hf|].
  unfold next_start, init_pstate. cbn [pc_table pc_n pc_disk pc_segdocs]. rewrite Hr'. eexists. reflexivity.
Qed.

(* ================================================================== *)
(* C03.7b  the content a reopened writer starts from                     *)
(* ================================================================== *)

(* the newest complete snapshot file of the start directory holds the documents C (as a multiset) *)
Definition disk_content (st0 : pstate) (C : list doc) : Prop :=
  forall e f, In (e, f) (d_snp (ps_disk st0)) ->
    (forall e', In e' (map fst (d_snp (ps_disk st0))) -> e' <= e) ->
    exists c, segs_content (ps_segdocs st0) (sf_segs f) = Some c /\ Permutation c C.

Lemma segs_content_consistent : forall m segs c,
  (forall s, In s segs -> match lookup (ss_id s) m with Some d => docs_eqb d (ss_docs s) = true | None => True end) ->
  segs_content m (map (fun s => (ss_id s, ss_del s)) segs) = Some c -> c = flat_map live segs.
Proof.
  intros m segs. induction segs as [|s t IH]; intros c Hc H; simpl in *; [injection H as <-; reflexivity|].
  pose proof (Hc s (or_introl eq_refl)) as H0.
  destruct (lookup (ss_id s) m) as [docs|] eqn:L; [|discriminate].
  destruct (segs_content m (map (fun s0 => (ss_id s0, ss_del s0)) t)) as [rest|] eqn:R; [|discriminate].
  injection H as <-. apply docs_eqb_eq in H0. subst docs. rewrite (IH rest); [reflexivity | | reflexivity].
  intros s' Hs'. apply Hc. right. exact Hs'.
Qed.

Lemma segs_content_agree : forall m m' segs,
  (forall id, In id (map fst segs) -> lookup id m' = lookup id m) -> segs_content m' segs = segs_content m segs.
Proof.
  intros m m' segs. induction segs as [|[id del] t IH]; intro H; simpl; [reflexivity|].
  rewrite (H id (or_introl eq_refl)), IH; [reflexivity|]. intros id' Hid'. apply H. right. exact Hid'.
Qed.

Lemma max_entry_exists : forall (l : list (Z * snpfile)), l <> [] ->
  exists e f, In (e, f) l /\ forall e', In e' (map fst l) -> e' <= e.
Proof.
  induction l as [|[ea fa] t IH]; intro Hne; [congruence|]. destruct t as [|y t'].
  - exists ea, fa. split; [left; reflexivity|]. intros e' [<-|[]]. simpl. lia.
  - destruct (IH ltac:(discriminate)) as [e2 [f2 [H2 M2]]]. destruct (Z.le_gt_cases ea e2).
    + exists e2, f2. split; [right; exact H2|]. intros e' [<-|He']; [simpl; lia | apply M2; exact He'].
    + exists ea, fa. split; [left; reflexivity|]. intros e' [<-|He']; [simpl; lia | specialize (M2 e' He'); lia].
Qed.

(* where a run stands with respect to the content C of its start directory *)
Definition phase (table : list (list Z)) (st0 : pstate) (C : list doc) (st : pstate) : Prop :=
  (ps_epoch_n st = [] /\ ps_segdocs st = ps_segdocs st0 /\
   (forall e f, In (e, f) (d_snp (ps_disk st)) -> In (e, f) (d_snp (ps_disk st0))) /\
   (forall e f, In (e, f) (d_snp (ps_disk st0)) -> (forall e', In e' (map fst (d_snp (ps_disk st0))) -> e' <= e) ->
      In (e, f) (d_snp (ps_disk st)))) \/
  (ps_epoch_n st <> [] /\ Permutation (ps_base st) C).

Lemma phase_step : forall table st0 C st ev st',
  disk_content st0 C -> pinv table st -> paccept_ev table st ev = Some st' ->
  phase table st0 C st -> phase table st0 C st'.
Proof.
  intros table st0 C st ev st' HC Hinv H Hph. pose proof Hinv as [HD HR].
  destruct Hph as [[Hen [Hsd [Hsub Hmaxin]]]|[Hen Hb]].
  - (* the writer has not loaded yet *)
    destruct (event_cases ev) as [Hp|[[e0 ->]|[[e0 ->]|[e0 ->]]]].
    + destruct (plain_frame table st ev st' Hp H) as [_ [F2 [F3 [_ [F5 _]]]]].
      left. rewrite F2, F3, F5. auto.
    + destruct (pacc_PI table st e0 st' H) as [t' [Ha [_ [Hd [_ [_ [_ [_ Hrest]]]]]]]].
      destruct (root_of_ievent e0) as [r|] eqn:R.
      2:{ destruct Hrest as [F2 [F3 _]]. left. rewrite F2, F3, Hd. auto. }
      destruct Hrest as [Hcons [Hev [Hen' [_ Hbase]]]]. right. split; [rewrite Hen'; discriminate|].
      rewrite Hen in Hev. unfold root_event_ok in Hev.
      destruct e0; try discriminate. simpl in R. injection R as ->. rewrite Hbase.
      unfold load_agrees in Hev. destruct (lookup (sn_epoch r) (d_snp (ps_disk st))) as [f|] eqn:Lf; [|discriminate].
      apply andb_true_iff in Hev. destruct Hev as [Hmax Hsegs]. apply idel_list_eqb_true in Hsegs.
      pose proof (lookup_In _ _ _ Lf) as Hin. pose proof (Hsub _ _ Hin) as Hin0.
      assert (Hmax0 : forall e', In e' (map fst (d_snp (ps_disk st0))) -> e' <= sn_epoch r).
      { intros e' He'. apply in_map_iff in He'. destruct He' as [[e1 f1] [<- Hf1]]. simpl.
        destruct (Z.le_gt_cases e1 (sn_epoch r)) as [Hle|Hgt]; [exact Hle|]. exfalso.
        (* the newest file of the start directory is still there *)
        assert (Hex : exists e2 f2, In (e2, f2) (d_snp (ps_disk st0)) /\
                        (forall e', In e' (map fst (d_snp (ps_disk st0))) -> e' <= e2)).
        { apply max_entry_exists. intro Hnil. rewrite Hnil in Hf1. destruct Hf1. }
        destruct Hex as [e2 [f2 [H2 M2]]]. pose proof (Hmaxin e2 f2 H2 M2) as Hin2.
        pose proof (max_epoch_ge _ _ (in_map fst _ _ Hin2)) as Hle2. simpl in Hle2.
        pose proof (M2 e1 (in_map fst _ _ Hf1)) as Hle1. simpl in Hle1. lia. }
      destruct (HC (sn_epoch r) f Hin0 Hmax0) as [c [SC PC]].
      rewrite <- Hsegs, <- Hsd in SC.
      rewrite (segs_content_consistent _ _ c (fun s Hs => segs_consistent_spec _ r s Hcons Hs) SC) in PC. exact PC.
    + destruct (pacc_ok_snp table st e0 st' H) as [f [Hf [Hs _]]].
      destruct (ri_fly st HR f Hf Hs) as [m [L _]]. rewrite Hen in L. discriminate.
    + destruct (pacc_rm_snp table st e0 st' H) as [Hdel ->]. left. simpl. split; [exact Hen|]. split; [exact Hsd|]. split.
      * intros e f Hin. apply map_del_In in Hin. apply Hsub. tauto.
      * intros e f Hin0 Hmax0. apply map_del_In. simpl. split; [apply Hmaxin; assumption|].
        intros ->. destruct (pol_ok_newest_live _ _ e0 (di_pol table _ _ HD) Hdel) as [e' [_ [Hlt Hin']]].
        rewrite snap_ids_keys in Hin'. apply in_map_iff in Hin'. destruct Hin' as [[e'' f'] [Heq Hin']]. simpl in Heq. subst e''.
        pose proof (Hmax0 e' (in_map fst _ _ (Hsub _ _ Hin'))) as Hle. simpl in Hle. lia.
  - (* loaded: the base never changes again *)
    right. destruct (keys_step table st ev st' Hinv H Hen) as [Hen' _]. split; [exact Hen'|].
    destruct (event_cases ev) as [Hp|[[e0 ->]|[[e0 ->]|[e0 ->]]]].
    + destruct (plain_frame table st ev st' Hp H) as [_ [_ [_ [F4 _]]]]. rewrite F4. exact Hb.
    + destruct (pacc_PI table st e0 st' H) as [t' [_ [_ [_ [_ [_ [_ [_ Hrest]]]]]]]].
      destruct (root_of_ievent e0) as [r|] eqn:R; [|destruct Hrest as [_ [_ ->]]; exact Hb].
      destruct Hrest as [_ [Hev [_ [_ Hbase]]]]. rewrite Hbase. destruct e0; try exact Hb.
      unfold root_event_ok in Hev. destruct (ps_epoch_n st); [congruence | discriminate].
    + destruct (pacc_ok_snp table st e0 st' H) as [f [_ [_ [_ [_ [_ [_ [_ [_ [F _]]]]]]]]]]. rewrite F. exact Hb.
    + destruct (pacc_rm_snp table st e0 st' H) as [_ ->]. exact Hb.
Qed.

Lemma phase_run : forall table st0 C evs st st',
  disk_content st0 C -> pinv table st -> paccept_run table st evs = Some st' ->
  phase table st0 C st -> phase table st0 C st'.
Proof.
  intros table st0 C evs. induction evs as [|ev t IH]; intros st st' HC Hinv H Hph; simpl in H.
  - injection H as <-. exact Hph.
  - destruct (paccept_ev table st ev) as [s1|] eqn:E; [|discriminate].
    apply (IH s1 st' HC (pinv_step table st ev s1 Hinv E) H (phase_step table st0 C st ev s1 HC Hinv E Hph)).
Qed.

Lemma fold_batches_perm : forall bs A A', Permutation A A' ->
  Permutation (fold_left apply_batch bs A) (fold_left apply_batch bs A').
Proof.
  induction bs as [|b t IH]; intros A A' H; simpl; [exact H|]. apply IH. apply apply_batch_perm. exact H.
Qed.

(* a run from a start whose directory holds C: once loaded, content_at is C plus the batches *)
Theorem base_is_start_content : forall table n st0 C evs st,
  start_ok table n st0 -> disk_content st0 C -> (d_snp (ps_disk st0) = [] -> C = []) ->
  paccept_run table st0 evs = Some st -> ps_epoch_n st <> [] ->
  Permutation (ps_base st) C /\
  forall m, Permutation (content_at st m) (fold_left apply_batch (firstn m (t_batches (ps_t st))) C).
Proof.
  intros table n st0 C evs st Hstart HC Hfresh H Hne.
  destruct (start_ok_pinv table n st0 Hstart) as [Hinv0 _].
  assert (Hph0 : phase table st0 C st0).
  { destruct Hstart as [_ [_ [Hb [_ [_ [_ [[Hnil [Hen _]]|[r [_ [_ Hen]]]]]]]]]].
    - right. rewrite Hen, Hb, (Hfresh Hnil). split; [discriminate | constructor].
    - left. auto. }
  destruct (phase_run table st0 C evs st0 st HC Hinv0 H Hph0) as [[Hen _]|[_ Hb]]; [contradiction|].
  split; [exact Hb|]. intro m. unfold content_at. apply fold_batches_perm. exact Hb.
Qed.

(* ================================================================== *)
(* C03.7c  rounds_compose                                                *)
(* ================================================================== *)

(* chain st0 G: st0 is the start state of some round of a crash / recover / continue history, and G is
   the applied sequence so far: the recovered prefix of every earlier round, concatenated *)
Inductive chain (table : list (list Z)) (n : Z) : pstate -> list batch -> Prop :=
| chain_start : forall st0,
    start_ok table n st0 -> d_snp (ps_disk st0) = [] -> chain table n st0 []
| chain_round : forall st0 G evs st choice r m sd st0',
    chain table n st0 G ->
    paccept_run table st0 evs = Some st ->                        (* the round: any accepted run *)
    ps_epoch_n st <> [] ->                                        (* that got as far as loading its root *)
    no_collision table (d_fly (ps_disk st)) choice = true ->      (* the crash: any torn variant *)
    recover_writer table n (crash_image (ps_disk st) choice) = RecOk r ->
    lookup (r_epoch r) (ps_epoch_n st) = Some m ->                (* the recovered snapshot holds m batches of the round *)
    (forall id, In id (map fst (r_segs r)) -> lookup id sd = lookup id (ps_segdocs st)) ->
    next_start table n st choice sd = Some st0' ->
    chain table n st0' (G ++ firstn m (t_batches (ps_t st)))
| chain_reopen : forall st0 G evs st choice r sd st0',
    chain table n st0 G ->
    paccept_run table st0 evs = Some st ->
    ps_epoch_n st = [] ->                                         (* the crash came inside OpenWriter, before the load *)
    no_collision table (d_fly (ps_disk st)) choice = true ->
    recover_writer table n (crash_image (ps_disk st) choice) = RecOk r ->
    (forall id, In id (map fst (r_segs r)) -> lookup id sd = lookup id (ps_segdocs st)) ->
    next_start table n st choice sd = Some st0' ->
    chain table n st0' G.

Lemma fold_apply_app : forall a b A, fold_left apply_batch (a ++ b) A = fold_left apply_batch b (fold_left apply_batch a A).
Proof. intros. apply fold_left_app. Qed.

Theorem rounds_compose_proof : forall table n st0 G, chain table n st0 G ->
  start_ok table n st0 /\ disk_content st0 (apply_batches G) /\ (d_snp (ps_disk st0) = [] -> G = []).
Proof.
  intros table n st0 G Hc.
  induction Hc as [st0 Hs Hnil|st0 G evs st choice r m sd st0' Hc [IHs [IHc IHf]] Hrun Hne NC Hr Lm Hsd Hnext
                  |st0 G evs st choice r sd st0' Hc [IHs [IHc IHf]] Hrun Hnil NC Hr Hsd Hnext].
  - split; [exact Hs|]. split; [|auto]. intros e f Hin. rewrite Hnil in Hin. destruct Hin.
  - assert (Hn : 1 <= n) by (destruct IHs; assumption).
    pose proof (run_pinv table n st0 evs st IHs Hrun) as Hinv. pose proof Hinv as [HD HR].
    destruct (recover_then_invariant_proof table n st choice sd st0' Hn Hinv NC Hnext) as [Hs' [Hd' Hsd']].
    pose proof (disk_inv_files table _ _ HD) as HF.
    destruct (crash_recover_writer table _ HF choice NC n) as [_ [W2 _]].
    destruct (W2 r Hr) as [Hpick _].
    destruct (next_newest table _ _ HD choice NC _ _ Hpick) as [[f [Hf Hfs]] Hmax].
    pose proof (next_disk_ok table _ _ HD choice NC) as DK.
    split; [exact Hs'|]. split.
    + intros e f' Hin' Hmax'. rewrite Hd' in Hin', Hmax'.
      assert (e = r_epoch r).
      { pose proof (Hmax e (in_map fst _ _ Hin')) as A. pose proof (Hmax' (r_epoch r) (in_map fst _ _ Hf)) as B. simpl in A, B. lia. }
      subst e.
      assert (f' = f).
      { pose proof (lookup_NoDup _ _ f' (dk_nodup table _ DK) Hin') as L1.
        pose proof (lookup_NoDup _ _ f (dk_nodup table _ DK) Hf) as L2. congruence. }
      subst f'. rewrite Hfs, Hsd'.
      destruct (crash_content table st choice _ _ Hinv NC Hpick) as [[m' [L' [_ [[c [C1 C2]] _]]]]|[Hnil _]]; [|contradiction].
      rewrite Lm in L'. injection L' as <-.
      exists c. split; [rewrite (segs_content_agree (ps_segdocs st) sd (r_segs r) Hsd); exact C1|].
      destruct (base_is_start_content table n st0 (apply_batches G) evs st IHs IHc
                  ltac:(intro Hnil; rewrite (IHf Hnil); reflexivity) Hrun Hne) as [_ Hcont].
      eapply perm_trans; [apply same_docs_perm; exact C2|].
      eapply perm_trans; [apply Hcont|]. unfold apply_batches. rewrite fold_apply_app. apply Permutation_refl.
    + intro Hnil. exfalso. rewrite Hd' in Hnil. rewrite Hnil in Hf. destruct Hf.
  - (* a crash before the load: the newest file of the start directory is recovered again *)
    assert (Hn : 1 <= n) by (destruct IHs; assumption).
    pose proof (run_pinv table n st0 evs st IHs Hrun) as Hinv. pose proof Hinv as [HD HR].
    destruct (recover_then_invariant_proof table n st choice sd st0' Hn Hinv NC Hnext) as [Hs' [Hd' Hsd']].
    pose proof (disk_inv_files table _ _ HD) as HF.
    destruct (crash_recover_writer table _ HF choice NC n) as [_ [W2 _]].
    destruct (W2 r Hr) as [Hpick _].
    destruct (next_newest table _ _ HD choice NC _ _ Hpick) as [[f [Hf Hfs]] Hmax].
    pose proof (next_disk_ok table _ _ HD choice NC) as DK.
    destruct (start_ok_pinv table n st0 IHs) as [Hinv0 _].
    assert (Hph0 : phase table st0 (apply_batches G) st0).
    { destruct IHs as [_ [_ [Hb [_ [_ [_ [[Hnil0 [Hen _]]|[r0 [_ [_ Hen]]]]]]]]]].
      - right. rewrite Hen, Hb, (IHf Hnil0). split; [discriminate | constructor].
      - left. auto. }
    destruct (phase_run table st0 _ evs st0 st IHc Hinv0 Hrun Hph0) as [[_ [Hsd0 [Hsub Hmaxin]]]|[Hne _]]; [|contradiction].
    destruct (crash_content table st choice _ _ Hinv NC Hpick) as [[m [L _]]|[_ [f1 [Hf1 Hs1]]]]; [rewrite Hnil in L; discriminate|].
    (* the recovered file is the newest file of the start directory *)
    assert (Hin0 : In (r_epoch r, f1) (d_snp (ps_disk st0))) by (apply Hsub; exact Hf1).
    assert (Hmax0 : forall e', In e' (map fst (d_snp (ps_disk st0))) -> e' <= r_epoch r).
    { intros e' He'. destruct (max_entry_exists (d_snp (ps_disk st0))) as [e2 [f2 [H2 M2]]].
      - intro Hn0. rewrite Hn0 in Hin0. destruct Hin0.
      - pose proof (Hmaxin e2 f2 H2 M2) as Hin2. destruct Hpick as [_ Hpm].
        pose proof (Hpm e2 (sf_segs f2) (crash_oks_complete table _ HF choice e2 f2 Hin2)).
        specialize (M2 e' He'). lia. }
    destruct (IHc (r_epoch r) f1 Hin0 Hmax0) as [c [SC PC]].
    split; [exact Hs'|]. split.
    + intros e f' Hin' Hmax'. rewrite Hd' in Hin', Hmax'.
      assert (e = r_epoch r).
      { pose proof (Hmax e (in_map fst _ _ Hin')) as A. pose proof (Hmax' (r_epoch r) (in_map fst _ _ Hf)) as B. simpl in A, B. lia. }
      subst e.
      assert (f' = f).
      { pose proof (lookup_NoDup _ _ f' (dk_nodup table _ DK) Hin') as L1.
        pose proof (lookup_NoDup _ _ f (dk_nodup table _ DK) Hf) as L2. congruence. }
      subst f'. rewrite Hfs, Hsd'. exists c. split; [|exact PC].
      rewrite (segs_content_agree (ps_segdocs st) sd (r_segs r) Hsd), Hs1, Hsd0. exact SC.
    + intro Hnil'. exfalso. rewrite Hd' in Hnil'. rewrite Hnil' in Hf. destruct Hf.
Qed.

(* durability and prefix-consistency over any number of rounds: in the round started at st0 after the
   applied sequence G, every crash image recovers to apply_batches (G ++ the first m batches of the
   round), with m beyond every batch acknowledged in the round *)
Theorem rounds_durable_proof : forall table n st0 G, chain table n st0 G ->
  forall evs st choice,
  paccept_run table st0 evs = Some st -> ps_epoch_n st <> [] ->
  no_collision table (d_fly (ps_disk st)) choice = true ->
  let im := crash_image (ps_disk st) choice in
  recover_writer table n im <> RecUnknown /\
  (forall r, recover_writer table n im = RecOk r ->
     exists m c, (m <= n_intro st)%nat /\ lookup (r_epoch r) (ps_epoch_n st) = Some m /\
       segs_content (ps_segdocs st) (r_segs r) = Some c /\
       Permutation c (apply_batches (G ++ firstn m (t_batches (ps_t st)))) /\
       recover_reader table im = Some (Some (r_epoch r, r_segs r)) /\
       forall k pos, In (PAck k true) evs -> pos_of k (t_keys (ps_t st)) = Some pos -> (pos < m)%nat).
Proof.
  intros table n st0 G Hc evs st choice Hrun Hne NC im. subst im.
  destruct (rounds_compose_proof table n st0 G Hc) as [Hs [HC Hf]].
  pose proof (run_pinv table n st0 evs st Hs Hrun) as Hinv. pose proof Hinv as [HD HR].
  pose proof (disk_inv_files table _ _ HD) as HF.
  destruct (crash_recover_writer table _ HF choice NC n) as [_ [W2 [W3 _]]].
  split; [exact W3|]. intros r Hr. destruct (W2 r Hr) as [Hpick _].
  destruct (crash_content table st choice _ _ Hinv NC Hpick) as [[m [L [Hle [[c [C1 C2]] Hall]]]]|[Hnil _]]; [|contradiction].
  exists m, c. split; [exact Hle|]. split; [exact L|]. split; [exact C1|].
  destruct (base_is_start_content table n st0 (apply_batches G) evs st Hs HC
              ltac:(intro Hnil; rewrite (Hf Hnil); reflexivity) Hrun Hne) as [_ Hcont].
  split; [|split; [apply (crash_writer_reader_agree table _ HF choice NC n r Hr)|]].
  - eapply perm_trans; [apply same_docs_perm; exact C2|].
    eapply perm_trans; [apply Hcont|]. unfold apply_batches. rewrite fold_apply_app. apply Permutation_refl.
  - intros k pos Hk Hp. apply in_split in Hk. destruct Hk as [evs1 [evs2 ->]].
    destruct (ack_implies_durable_proof table n st0 Hs evs1 k evs2 st choice Hrun NC) as [r' [pos' [m' [c' [A1 [_ [A3 [A4 _]]]]]]]].
    rewrite Hp in A3. injection A3 as <-.
    (* the same recovery, hence the same m *)
    apply Hall. destruct (run_split _ _ _ _ _ _ Hrun) as [st1 [st1' [H1 [H2 H3]]]].
    pose proof (run_pinv table n st0 evs1 st1 Hs H1) as Hinv1.
    pose proof (pinv_step table st1 _ st1' Hinv1 H2) as Hinv1'.
    destruct (pacc_ack_ok table st1 k st1' H2) as [p1 [Hp1 [Hc1 Hst1']]].
    apply covered_durable in Hc1.
    assert (Hd1' : durable st1' p1) by (rewrite Hst1'; exact Hc1).
    assert (Hp1' : pos_of k (t_keys (ps_t st1')) = Some p1) by (rewrite Hst1'; exact Hp1).
    destruct (durable_run table evs2 st1' st k p1 Hinv1' H3 Hd1' Hp1') as [Hd2 Hp2].
    rewrite Hp in Hp2. injection Hp2 as <-. exact Hd2.
Qed.

(* ================================================================== *)
(* non-vacuity: two rounds                                               *)
(* ================================================================== *)

From Bluge Require Import Index.ProtoProofsEx.

(* round 1 = ex_run of Index/ProtoProofsEx.v, crash with the second snapshot torn after 5 bytes;
   round 2 reopens (loads snapshot 1 = batch 1), applies batch 3, persists, acknowledges *)
Definition ex2_dummy : recovered := {| r_epoch := 0; r_segs := []; r_pol := pol_init 1; r_next_epoch := 0; r_next_seg := 0 |}.
Definition ex2_rec : recovered :=
  Eval vm_compute in match recover_writer [] 1 (crash_image (ps_disk ex_st) [TPrefix 5]) with RecOk r => r | _ => ex2_dummy end.
Definition ex2_sd : list (Z * list doc) := [(1, [(1, 10)])].
Definition ex2_st0 : pstate :=
  Eval vm_compute in match next_start [] 1 ex_st [TPrefix 5] ex2_sd with Some s => s | None => ex_st end.

Definition ex2_s1 : segsnap := {| ss_id := 1; ss_docs := [(1, 10)]; ss_del := []; ss_persisted := true |}.
Definition ex2_s3 : segsnap := {| ss_id := 3; ss_docs := [(3, 30)]; ss_del := []; ss_persisted := false |}.
Definition ex2_b3 : batch := {| b_docs := [(3, 30)]; b_ids := [3] |}.
Definition ex2_bytes : list Z :=
  Eval vm_compute in SnapshotCodec.encode {| SnapshotCodec.sn_segs := [ex_seg 1; ex_seg 3] |}.
Definition ex2_run : list pevent :=
  [ PI (ELoad {| sn_epoch := 1; sn_segs := [ex2_s1] |});
    PI (ECall 3); PI (EIntro 3 ex2_b3 [] 3 {| sn_epoch := 2; sn_segs := [ex2_s1; ex2_s3] |}); PSafe 3; PGrab 2 1;
    PPersistStart false 3 [] []; PPersistOk false 3;
    PPersistStart true 2 ex2_bytes [(1, []); (3, [])]; PPersistOk true 2; PAck 3 true; PRemoveOk true 1 ].
Definition ex2_st : pstate := Eval vm_compute in run_state [] ex2_st0 ex2_run.

Lemma rounds_example_proof :
  chain [] 1 ex2_st0 [ex_b1] /\
  d_junk_snp (ps_disk ex2_st0) = [(2, ztake 5 ex_bytes2)] /\      (* the torn snapshot is a left-over file *)
  paccept_run [] ex2_st0 ex2_run = Some ex2_st /\ In (PAck 3 true) ex2_run /\
  no_collision [] (d_fly (ps_disk ex2_st)) [] = true /\
  (exists r, recover_writer [] 1 (crash_image (ps_disk ex2_st) []) = RecOk r /\ r_epoch r = 2 /\
             segs_content (ps_segdocs ex2_st) (r_segs r) = Some [(1, 10); (3, 30)]) /\
  apply_batches ([ex_b1] ++ firstn 1 (t_batches (ps_t ex2_st))) = [(1, 10); (3, 30)].
Proof.
  split.
  - change [ex_b1] with ([] ++ firstn 1 (t_batches (ps_t ex_st))).
    apply (chain_round [] 1 (st_fresh 1) [] ex_run ex_st [TPrefix 5] ex2_rec 1%nat ex2_sd ex2_st0).
    + apply chain_start; [apply fresh_start_ok; lia | reflexivity].
    + vm_compute; reflexivity.
    + vm_compute; discriminate.
    + vm_compute; reflexivity.
    + vm_compute; reflexivity.
    + vm_compute; reflexivity.
    + intros id [<-|[]]. vm_compute; reflexivity.
    + vm_compute; reflexivity.
  - split; [vm_compute; reflexivity|]. split; [vm_compute; reflexivity|]. split; [vm_compute; tauto|].
    split; [vm_compute; reflexivity|]. split; [|vm_compute; reflexivity].
    eexists. split; [vm_compute; reflexivity|]. split; vm_compute; reflexivity.
Qed.
