(* Index/ProtoProofsInv.v — the invariant of the protocol monitor (Index/Proto.v).
   1. inversion of every accepted event (the side conditions as facts, the successor state);
   2. `disk_inv`: structure of the directory and of the deletion policy;
      `run_inv`: what the snapshot files contain, in terms of the batches introduced so far;
   3. `start_ok`: the states a run may start from; `pinv_step`: every accepted event keeps the
      invariant; hence every state of every accepted run satisfies it (`pinv_run`). *)
From Coq Require Import ZArith List Bool Lia Permutation Sorted.
From Coq Require Import ZifyBool.
From Bluge Require Import Base.Res Base.Corr Index.Model Index.ModelProofs Index.Trace Index.TraceProofs
  Index.Proto Index.ProtoProofsPol.
Import ListNotations.
Open Scope Z_scope.

Ltac split_andb C :=
  repeat match type of C with
         | (_ && _) = true => let C' := fresh "Cnd" in apply andb_true_iff in C; destruct C as [C C']
         end.

(* ================================================================== *)
(* boolean helpers                                                      *)
(* ================================================================== *)

Lemma zlist_eqb_true : forall a b, zlist_eqb a b = true -> a = b.
Proof.
  induction a as [|x a IH]; destruct b as [|y b]; simpl; intro H; try discriminate; [reflexivity|].
  apply andb_true_iff in H. destruct H as [H1 H2]. f_equal; [lia | apply IH; exact H2].
Qed.

Lemma zlist_eqb_refl : forall a, zlist_eqb a a = true.
Proof. induction a as [|x a IH]; simpl; [reflexivity|]. rewrite Z.eqb_refl, IH. reflexivity. Qed.

Lemma idel_list_eqb_true : forall (a b : list (Z * list Z)),
  list_eqb (pair_eqb Z.eqb zlist_eqb) a b = true -> a = b.
Proof.
  induction a as [|[x1 x2] a IH]; destruct b as [|[y1 y2] b]; simpl; intro H; try discriminate; [reflexivity|].
  apply andb_true_iff in H. destruct H as [H1 H2]. unfold pair_eqb in H1. simpl in H1.
  apply andb_true_iff in H1. destruct H1 as [H1 H3]. apply zlist_eqb_true in H3.
  f_equal; [f_equal; [lia | exact H3] | apply IH; exact H2].
Qed.

Lemma list_eqbZ_refl : forall a, list_eqbZ a a = true.
Proof. intro a. apply list_eqbZ_eq. reflexivity. Qed.

Lemma docs_eqb_refl : forall a, docs_eqb a a = true.
Proof. intro a. apply docs_eqb_eq. reflexivity. Qed.

Lemma same_docs_refl : forall a, same_docs a a = true.
Proof. intro a. unfold same_docs. apply docs_eqb_refl. Qed.

Lemma existsb_false : forall {A} (f : A -> bool) l, existsb f l = false <-> forall x, In x l -> f x = false.
Proof.
  intros A f l. split.
  - intros H x Hx. destruct (f x) eqn:E; [|reflexivity].
    assert (existsb f l = true) by (apply existsb_exists; exists x; auto). congruence.
  - intro H. destruct (existsb f l) eqn:E; [|reflexivity]. apply existsb_exists in E.
    destruct E as [x [Hx Hf]]. rewrite (H x Hx) in Hf. discriminate.
Qed.

(* ---------- in-flight files ---------- *)

Lemma fly_find_spec : forall snp id l f, fly_find snp id l = Some f ->
  In f l /\ if_snp f = snp /\ if_id f = id.
Proof.
  intros snp id l f H. unfold fly_find in H. apply find_some in H. destruct H as [H1 H2].
  apply andb_true_iff in H2. destruct H2 as [H2 H3]. apply Bool.eqb_prop in H2. repeat split; [exact H1 | exact H2 | lia].
Qed.

Lemma fly_remove_In : forall snp id l g, In g (fly_remove snp id l) <-> In g l /\ ~ (if_snp g = snp /\ if_id g = id).
Proof.
  intros snp id l g. unfold fly_remove. rewrite filter_In, negb_true_iff, andb_false_iff. split.
  - intros [H1 H2]. split; [exact H1|]. intros [H3 H4]. destruct H2 as [H2|H2].
    + rewrite H3 in H2. rewrite Bool.eqb_reflx in H2. discriminate.
    + lia.
  - intros [H1 H2]. split; [exact H1|]. destruct (Bool.eqb (if_snp g) snp) eqn:E; [|left; reflexivity].
    right. apply Bool.eqb_prop in E. destruct (if_id g =? id) eqn:E2; [|reflexivity].
    exfalso. apply H2. split; [exact E | lia].
Qed.

Lemma filter_length_le : forall {A} (f : A -> bool) l, (length (filter f l) <= length l)%nat.
Proof. intros A f l. induction l as [|x t IH]; simpl; [lia|]. destruct (f x); simpl; lia. Qed.

Lemma fly_remove_snaps : forall snp id l,
  (length (filter if_snp (fly_remove snp id l)) <= length (filter if_snp l))%nat.
Proof.
  intros snp id l. unfold fly_remove. induction l as [|x t IH]; simpl; [lia|].
  destruct (negb (Bool.eqb (if_snp x) snp && (if_id x =? id))); simpl; destruct (if_snp x); simpl; lia.
Qed.

Lemma one_snapshot_in_flight : forall l f g,
  (length (filter if_snp l) <= 1)%nat -> In f l -> In g l -> if_snp f = true -> if_snp g = true -> f = g.
Proof.
  intros l f g Hl Hf Hg Sf Sg.
  assert (Ff : In f (filter if_snp l)) by (apply filter_In; auto).
  assert (Fg : In g (filter if_snp l)) by (apply filter_In; auto).
  destruct (filter if_snp l) as [|a [|b t]]; simpl in *; try lia; try contradiction.
  destruct Ff as [<-|[]]. destruct Fg as [<-|[]]. reflexivity.
Qed.

Lemma no_snapshot_in_flight : forall l, existsb if_snp l = false -> filter if_snp l = [].
Proof.
  intros l H. apply filter_all_false. intros x Hx. apply (proj1 (existsb_false if_snp l) H x Hx).
Qed.

(* ---------- max_epoch ---------- *)

Lemma max_epoch_from : forall (l : list (Z * snpfile)) m,
  m <= fold_left (fun m p => Z.max m (fst p)) l m /\
  forall e, In e (map fst l) -> e <= fold_left (fun m p => Z.max m (fst p)) l m.
Proof.
  induction l as [|[e0 f0] t IH]; intro m; simpl.
  - split; [lia | intros e []].
  - destruct (IH (Z.max m e0)) as [I1 I2]. split; [lia|].
    intros e [<-|He]; [lia | apply I2; exact He].
Qed.

Lemma max_epoch_ge : forall l e, In e (map fst l) -> e <= max_epoch l.
Proof. intros l e He. apply (proj2 (max_epoch_from l 0) e He). Qed.

(* ================================================================== *)
(* 1. inversion of accepted events                                      *)
(* ================================================================== *)

Section Inversion.
Variable table : list (list Z).

Lemma pacc_PI : forall st e st', paccept_ev table st (PI e) = Some st' ->
  exists t', accept_ev (ps_t st) e = Some t' /\ ps_t st' = t' /\
    ps_disk st' = ps_disk st /\ ps_pol st' = ps_pol st /\ ps_safe st' = ps_safe st /\
    ps_acked st' = ps_acked st /\ ps_faulted st' = ps_faulted st /\
    match root_of_ievent e with
    | Some r =>
        segs_consistent (ps_segdocs st) r = true /\
        root_event_ok (ps_epoch_n st) (ps_disk st) e r = true /\
        ps_epoch_n st' = (sn_epoch r, length (t_keys t')) :: ps_epoch_n st /\
        ps_segdocs st' = learn_segs (ps_segdocs st) r /\
        ps_base st' = (match e with ELoad _ => abs r | _ => ps_base st end)
    | None => ps_epoch_n st' = ps_epoch_n st /\ ps_segdocs st' = ps_segdocs st /\ ps_base st' = ps_base st
    end.
Proof.
  intros st e st' H. unfold paccept_ev in H.
  destruct (accept_ev (ps_t st) e) as [t'|] eqn:E; [|discriminate]. exists t'. split; [reflexivity|].
  destruct (root_of_ievent e) as [r|] eqn:R.
  - match type of H with (if ?c then _ else _) = _ => destruct c eqn:C; [|discriminate] end.
    apply andb_true_iff in C. destruct C as [C C3]. apply andb_true_iff in C. destruct C as [C1 C2].
    injection H as <-. simpl. repeat split; assumption.
  - injection H as <-. simpl. repeat split; reflexivity.
Qed.

Lemma pacc_PI_grab : forall st e st', paccept_ev table st (PI e) = Some st' ->
  ps_grabbed st' = ps_grabbed st /\
  forall r, root_of_ievent e = Some r ->
    newly_persisted_ok (p_known (ps_pol st)) (t_root (ps_t st)) e r = true.
Proof.
  intros st e st' H. unfold paccept_ev in H.
  destruct (accept_ev (ps_t st) e) as [t'|] eqn:E; [|discriminate].
  destruct (root_of_ievent e) as [r|] eqn:R.
  - match type of H with (if ?c then _ else _) = _ => destruct c eqn:C; [|discriminate] end.
    apply andb_true_iff in C. destruct C as [C C3]. injection H as <-. split; [reflexivity|].
    intros r0 Hr0. injection Hr0 as <-. exact C3.
  - injection H as <-. split; [reflexivity | discriminate].
Qed.

Lemma pacc_safe : forall st k st', paccept_ev table st (PSafe k) = Some st' ->
  In k (t_keys (ps_t st)) /\ ~ In k (ps_safe st) /\ ~ In k (ps_acked st) /\
  st' = {| ps_t := ps_t st; ps_epoch_n := ps_epoch_n st; ps_segdocs := ps_segdocs st; ps_disk := ps_disk st;
           ps_pol := ps_pol st; ps_base := ps_base st; ps_safe := ps_safe st ++ [k]; ps_acked := ps_acked st;
           ps_faulted := ps_faulted st; ps_grabbed := ps_grabbed st |}.
Proof.
  intros st k st' H. unfold paccept_ev in H.
  match type of H with (if ?c then _ else _) = _ => destruct c eqn:C; [|discriminate] end.
  injection H as <-. split_andb C. apply negb_true_iff in Cnd, Cnd0.
  repeat split; [apply zmem_In; exact C | apply zmem_false; exact Cnd0 | apply zmem_false; exact Cnd].
Qed.

Lemma pacc_grab : forall st e nacks st', paccept_ev table st (PGrab e nacks) = Some st' ->
  e = sn_epoch (t_root (ps_t st)) /\ nacks = Z.of_nat (length (ps_safe st)) /\
  st' = {| ps_t := ps_t st; ps_epoch_n := ps_epoch_n st; ps_segdocs := ps_segdocs st; ps_disk := ps_disk st;
           ps_pol := ps_pol st; ps_base := ps_base st; ps_safe := []; ps_acked := ps_acked st;
           ps_faulted := ps_faulted st; ps_grabbed := Some (e, persisted_ids (t_root (ps_t st))) |}.
Proof.
  intros st e nacks st' H. unfold paccept_ev in H.
  match type of H with (if ?c then _ else _) = _ => destruct c eqn:C; [|discriminate] end.
  injection H as <-. apply andb_true_iff in C. destruct C as [C _]. apply andb_true_iff in C. destruct C as [C _].
  apply andb_true_iff in C. destruct C as [C1 C2]. repeat split; lia.
Qed.

(* the persister grabs once the root is loaded and while it is not writing a snapshot *)
Lemma pacc_grab_when : forall st e nacks st', paccept_ev table st (PGrab e nacks) = Some st' ->
  ps_epoch_n st <> [] /\ existsb if_snp (d_fly (ps_disk st)) = false.
Proof.
  intros st e nacks st' H. unfold paccept_ev in H.
  match type of H with (if ?c then _ else _) = _ => destruct c eqn:C; [|discriminate] end.
  apply andb_true_iff in C. destruct C as [C C4]. apply andb_true_iff in C. destruct C as [C C3].
  split; [destruct (ps_epoch_n st); [discriminate | discriminate] | apply negb_true_iff; exact C4].
Qed.

Lemma pacc_start_snp : forall st epoch bytes segs st',
  paccept_ev table st (PPersistStart true epoch bytes segs) = Some st' ->
  let d := ps_disk st in
  exists n content,
    lookup epoch (ps_epoch_n st) = Some n /\ segs_content (ps_segdocs st) segs = Some content /\
    (forall s, In s (map fst segs) -> In s (d_seg d)) /\
    same_docs content (content_at st n) = true /\
    ~ In epoch (map fst (d_snp d)) /\ max_epoch (d_snp d) < epoch /\
    existsb if_snp (d_fly d) = false /\
    loaded_ids table bytes = Some (map fst segs) /\
    st' = with_disk st {| d_snp := d_snp d; d_seg := d_seg d;
                          d_fly := {| if_snp := true; if_id := epoch; if_bytes := bytes; if_segs := segs |} :: d_fly d;
                          d_junk_snp := map_del epoch (d_junk_snp d); d_junk_seg := d_junk_seg d |}.
Proof.
  intros st epoch bytes segs st' H d. unfold paccept_ev in H. fold d in H.
  destruct (lookup epoch (ps_epoch_n st)) as [n|] eqn:L; [|discriminate].
  destruct (segs_content (ps_segdocs st) segs) as [content|] eqn:SC; [|discriminate].
  match type of H with (if ?c then _ else _) = _ => destruct c eqn:C; [|discriminate] end.
  injection H as <-. exists n, content.
  apply andb_true_iff in C. destruct C as [C C7]. apply andb_true_iff in C. destruct C as [C C6].
  apply andb_true_iff in C. destruct C as [C C5]. apply andb_true_iff in C. destruct C as [C C4].
  apply andb_true_iff in C. destruct C as [C C3]. apply andb_true_iff in C. destruct C as [C1 C2].
  destruct (loaded_ids table bytes) as [ids|] eqn:LI; [|discriminate].
  apply list_eqbZ_eq in C7. subst ids.
  apply negb_true_iff in C3, C5.
  repeat split; try reflexivity; try assumption.
  - intros s Hs. rewrite forallb_forall in C1. apply in_map_iff in Hs. destruct Hs as [x [<- Hx]].
    apply zmem_In. apply C1. exact Hx.
  - intro Hin. apply in_map_iff in Hin. destruct Hin as [x [Hx1 Hx2]].
    pose proof (proj1 (existsb_false _ _) C3 x Hx2) as Hf. simpl in Hf. lia.
  - lia.
Qed.

(* the snapshot written is the grabbed one and keeps every file-backed segment of the grabbed root *)
Lemma pacc_start_snp_grab : forall st epoch bytes segs st',
  paccept_ev table st (PPersistStart true epoch bytes segs) = Some st' ->
  exists G, ps_grabbed st = Some (epoch, G) /\ (forall s, In s G -> In s (map fst segs)) /\
            ps_grabbed st' = ps_grabbed st.
Proof.
  intros st epoch bytes segs st' H. unfold paccept_ev in H.
  destruct (lookup epoch (ps_epoch_n st)) as [n|] eqn:L; [|discriminate].
  destruct (segs_content (ps_segdocs st) segs) as [content|] eqn:SC; [|discriminate].
  match type of H with (if ?c then _ else _) = _ => destruct c eqn:C; [|discriminate] end.
  injection H as <-.
  apply andb_true_iff in C. destruct C as [C _]. apply andb_true_iff in C. destruct C as [_ C6].
  destruct (ps_grabbed st) as [[ge G]|] eqn:Gr; [|discriminate].
  apply andb_true_iff in C6. destruct C6 as [Ce CG]. assert (ge = epoch) by lia. subst ge.
  exists G. split; [reflexivity|]. split; [|simpl; exact Gr].
  intros s Hs. rewrite forallb_forall in CG. apply zmem_In. apply CG. exact Hs.
Qed.

Lemma pacc_start_seg : forall st id bytes segs st',
  paccept_ev table st (PPersistStart false id bytes segs) = Some st' ->
  let d := ps_disk st in
  ~ In id (d_junk_seg d) /\
  (forall e f, In (e, f) (d_snp d) -> ~ In id (map fst (sf_segs f))) /\
  (forall f, In f (d_fly d) -> if_snp f = true -> ~ In id (map fst (if_segs f))) /\
  st' = with_disk st (mkdisk d (d_snp d) (zremove id (d_seg d))
                        ({| if_snp := false; if_id := id; if_bytes := bytes; if_segs := [] |} :: d_fly d)).
Proof.
  intros st id bytes segs st' H d. unfold paccept_ev in H. fold d in H.
  match type of H with (if ?c then _ else _) = _ => destruct c eqn:C; [|discriminate] end.
  injection H as <-. split_andb C. apply negb_true_iff in C, Cnd, Cnd0.
  repeat split.
  - apply zmem_false. exact C.
  - intros e f Hin. apply zmem_false. apply (proj1 (existsb_false _ _) Cnd0 (e, f) Hin).
  - intros f Hin Hs. apply zmem_false. pose proof (proj1 (existsb_false _ _) Cnd f Hin) as Hf.
    simpl in Hf. rewrite Hs in Hf. exact Hf.
Qed.

Lemma pacc_ok_snp : forall st epoch st', paccept_ev table st (PPersistOk true epoch) = Some st' ->
  let d := ps_disk st in
  exists f, In f (d_fly d) /\ if_snp f = true /\ if_id f = epoch /\
    ps_disk st' = mkdisk d ((epoch, {| sf_bytes := if_bytes f; sf_segs := if_segs f |}) :: d_snp d)
                         (d_seg d) (fly_remove true epoch (d_fly d)) /\
    ps_pol st' = pol_commit (ps_pol st) epoch (map fst (if_segs f)) /\
    ps_t st' = ps_t st /\ ps_epoch_n st' = ps_epoch_n st /\ ps_segdocs st' = ps_segdocs st /\
    ps_base st' = ps_base st /\ ps_safe st' = ps_safe st /\ ps_acked st' = ps_acked st /\
    ps_faulted st' = ps_faulted st.
Proof.
  intros st epoch st' H d. unfold paccept_ev in H. fold d in H.
  destruct (fly_find true epoch (d_fly d)) as [f|] eqn:F; [|discriminate].
  injection H as <-. exists f. apply fly_find_spec in F. destruct F as [F1 [F2 F3]].
  simpl. repeat split; assumption.
Qed.

Lemma pacc_ok_snp_grab : forall st epoch st', paccept_ev table st (PPersistOk true epoch) = Some st' ->
  ps_grabbed st' = None.
Proof.
  intros st epoch st' H. unfold paccept_ev in H.
  destruct (fly_find true epoch (d_fly (ps_disk st))); [|discriminate]. injection H as <-. reflexivity.
Qed.

Lemma pacc_ok_seg : forall st id st', paccept_ev table st (PPersistOk false id) = Some st' ->
  let d := ps_disk st in
  (exists f, In f (d_fly d) /\ if_snp f = false /\ if_id f = id) /\
  st' = with_disk st (mkdisk d (d_snp d) (id :: d_seg d) (fly_remove false id (d_fly d))).
Proof.
  intros st id st' H d. unfold paccept_ev in H. fold d in H.
  destruct (fly_find false id (d_fly d)) as [f|] eqn:F; [|discriminate].
  injection H as <-. split; [|reflexivity]. exists f. apply fly_find_spec in F. exact F.
Qed.

Lemma pacc_err : forall st snp id st', paccept_ev table st (PPersistErr snp id) = Some st' ->
  let d := ps_disk st in
  st' = set_faulted (with_disk st (mkdisk d (d_snp d) (d_seg d) (fly_remove snp id (d_fly d)))).
Proof. intros st snp id st' H d. unfold paccept_ev in H. injection H as <-. reflexivity. Qed.

Lemma pacc_rm_snp : forall st epoch st', paccept_ev table st (PRemoveOk true epoch) = Some st' ->
  let d := ps_disk st in
  In epoch (p_deletable (ps_pol st)) /\
  st' = with_pol (with_disk st (mkdisk d (map_del epoch (d_snp d)) (d_seg d) (d_fly d)))
                 (pol_removed_snp (ps_pol st) epoch).
Proof.
  intros st epoch st' H d. unfold paccept_ev in H. fold d in H.
  destruct (pol_may_remove_snp (ps_pol st) epoch) eqn:C; [|discriminate].
  injection H as <-. split; [|reflexivity]. apply zmem_In. exact C.
Qed.

Lemma pacc_rm_seg : forall st id st', paccept_ev table st (PRemoveOk false id) = Some st' ->
  let d := ps_disk st in
  pol_may_remove_seg (ps_pol st) id = true /\
  (forall f, In f (d_fly d) -> if_snp f = true -> ~ In id (map fst (if_segs f))) /\
  st' = with_pol (with_disk st (mkdisk d (d_snp d) (zremove id (d_seg d)) (d_fly d)))
                 (pol_removed_seg (ps_pol st) id).
Proof.
  intros st id st' H d. unfold paccept_ev in H. fold d in H.
  match type of H with (if ?c then _ else _) = _ => destruct c eqn:C; [|discriminate] end.
  injection H as <-. split_andb C. apply negb_true_iff in Cnd. repeat split; [exact C|].
  intros f Hin Hs. apply zmem_false. pose proof (proj1 (existsb_false _ _) Cnd f Hin) as Hf.
  simpl in Hf. rewrite Hs in Hf. exact Hf.
Qed.

Lemma pacc_rmerr : forall st snp id st', paccept_ev table st (PRemoveErr snp id) = Some st' ->
  st' = set_faulted st.
Proof.
  intros st snp id st' H. unfold paccept_ev in H. destruct snp.
  - destruct (pol_may_remove_snp (ps_pol st) id); [injection H as <-; reflexivity | discriminate].
  - destruct (pol_may_remove_seg (ps_pol st) id); [injection H as <-; reflexivity | discriminate].
Qed.

Lemma pacc_ack_ok : forall st k st', paccept_ev table st (PAck k true) = Some st' ->
  exists pos, pos_of k (t_keys (ps_t st)) = Some pos /\ covered st pos = true /\
  st' = {| ps_t := ps_t st; ps_epoch_n := ps_epoch_n st; ps_segdocs := ps_segdocs st; ps_disk := ps_disk st;
           ps_pol := ps_pol st; ps_base := ps_base st; ps_safe := ps_safe st; ps_acked := zadd k (ps_acked st);
           ps_faulted := ps_faulted st; ps_grabbed := ps_grabbed st |}.
Proof.
  intros st k st' H. unfold paccept_ev in H.
  destruct (pos_of k (t_keys (ps_t st))) as [pos|] eqn:P; [|discriminate].
  destruct (covered st pos) eqn:C; [|discriminate]. injection H as <-. exists pos. auto.
Qed.

Lemma pacc_ack_err : forall st k st', paccept_ev table st (PAck k false) = Some st' ->
  ps_faulted st = true /\ st' = st.
Proof.
  intros st k st' H. unfold paccept_ev in H. destruct (ps_faulted st); [|discriminate].
  injection H as <-. auto.
Qed.

Lemma pacc_fault : forall st st', paccept_ev table st PFault = Some st' -> st' = set_faulted st.
Proof. intros st st' H. unfold paccept_ev in H. injection H as <-. reflexivity. Qed.

End Inversion.

(* ================================================================== *)
(* segment documents known to the monitor                               *)
(* ================================================================== *)

Definition learn_step (m : list (Z * list doc)) (s : segsnap) : list (Z * list doc) :=
  match lookup (ss_id s) m with Some _ => m | None => (ss_id s, ss_docs s) :: m end.

Lemma learn_segs_fold : forall m sn, learn_segs m sn = fold_left learn_step (sn_segs sn) m.
Proof. reflexivity. Qed.

Lemma learn_step_keep : forall m s id d, lookup id m = Some d -> lookup id (learn_step m s) = Some d.
Proof.
  intros m s id d H. unfold learn_step. destruct (lookup (ss_id s) m) eqn:E; [exact H|].
  simpl. destruct (id =? ss_id s) eqn:E2; [|exact H].
  assert (id = ss_id s) by lia. subst. congruence.
Qed.

Lemma learn_list_keep : forall segs m id d, lookup id m = Some d -> lookup id (fold_left learn_step segs m) = Some d.
Proof.
  induction segs as [|s t IH]; intros m id d H; simpl; [exact H|]. apply IH. apply learn_step_keep. exact H.
Qed.

Lemma learn_segs_keep : forall m sn id d, lookup id m = Some d -> lookup id (learn_segs m sn) = Some d.
Proof. intros. rewrite learn_segs_fold. apply learn_list_keep. assumption. Qed.

Lemma learn_list_root : forall segs m,
  NoDup (map ss_id segs) ->
  (forall s, In s segs -> match lookup (ss_id s) m with Some d => docs_eqb d (ss_docs s) = true | None => True end) ->
  forall s, In s segs -> lookup (ss_id s) (fold_left learn_step segs m) = Some (ss_docs s).
Proof.
  induction segs as [|s0 t IH]; intros m Hnd Hc s Hs; simpl in *; [contradiction|].
  inversion Hnd as [|x y Hx Hy]; subst.
  assert (H0 : lookup (ss_id s0) (learn_step m s0) = Some (ss_docs s0)).
  { unfold learn_step. pose proof (Hc s0 (or_introl eq_refl)) as C0.
    destruct (lookup (ss_id s0) m) as [d|] eqn:E.
    - rewrite E. apply docs_eqb_eq in C0. subst. reflexivity.
    - simpl. rewrite Z.eqb_refl. reflexivity. }
  destruct Hs as [<-|Hs].
  - apply learn_list_keep. exact H0.
  - apply IH; [exact Hy | | exact Hs].
    intros s' Hs'. pose proof (Hc s' (or_intror Hs')) as C'.
    assert (Hne : ss_id s' <> ss_id s0).
    { intro Heq. apply Hx. rewrite <- Heq. apply in_map. exact Hs'. }
    unfold learn_step. destruct (lookup (ss_id s0) m); [exact C'|].
    simpl. assert (E : (ss_id s' =? ss_id s0) = false) by lia. rewrite E. exact C'.
Qed.

Lemma segs_consistent_spec : forall m r s, segs_consistent m r = true -> In s (sn_segs r) ->
  match lookup (ss_id s) m with Some d => docs_eqb d (ss_docs s) = true | None => True end.
Proof.
  intros m r s H Hs. unfold segs_consistent in H. rewrite forallb_forall in H. specialize (H s Hs).
  destruct (lookup (ss_id s) m); [exact H | exact I].
Qed.

Lemma learn_segs_root : forall m r, root_ok r = true -> segs_consistent m r = true ->
  forall s, In s (sn_segs r) -> lookup (ss_id s) (learn_segs m r) = Some (ss_docs s).
Proof.
  intros m r Hr Hc. rewrite learn_segs_fold. apply learn_list_root.
  - apply root_ok_spec in Hr. destruct Hr as [_ [Hn _]]. apply ModelProofsMerge.nodupZ_NoDup in Hn. exact Hn.
  - intros s Hs. apply (segs_consistent_spec m r s Hc Hs).
Qed.

Lemma segs_content_keep : forall m m' segs c,
  (forall id d, lookup id m = Some d -> lookup id m' = Some d) ->
  segs_content m segs = Some c -> segs_content m' segs = Some c.
Proof.
  intros m m' segs. induction segs as [|[id del] t IH]; intros c Hk H; simpl in *; [exact H|].
  destruct (lookup id m) as [docs|] eqn:E; [|discriminate].
  destruct (segs_content m t) as [rest|] eqn:E2; [|discriminate].
  rewrite (Hk id docs E), (IH rest Hk eq_refl). exact H.
Qed.

Lemma segs_content_root : forall m segs,
  (forall s, In s segs -> lookup (ss_id s) m = Some (ss_docs s)) ->
  segs_content m (map (fun s => (ss_id s, ss_del s)) segs) = Some (flat_map live segs).
Proof.
  intros m segs. induction segs as [|s t IH]; intro H; simpl; [reflexivity|].
  rewrite (H s (or_introl eq_refl)), IH; [reflexivity|]. intros s' Hs'. apply H. right. exact Hs'.
Qed.

(* ================================================================== *)
(* root events of the history monitor                                   *)
(* ================================================================== *)

Lemma accept_nonroot : forall t e t', accept_ev t e = Some t' -> root_of_ievent e = None ->
  t_root t' = t_root t /\ t_keys t' = t_keys t /\ t_batches t' = t_batches t.
Proof.
  intros t e t' H R. destruct e; simpl in R; try discriminate.
  - apply accept_call_inv in H. destruct H as [_ ->]. auto.
  - apply accept_ret_inv in H. destruct H as [_ [_ [_ ->]]]. auto.
  - apply accept_observe_inv in H. destruct H as [_ [_ [_ [_ [_ ->]]]]]. auto.
Qed.

Lemma accept_root : forall t e t' r, accept_ev t e = Some t' -> root_of_ievent e = Some r ->
  t_root t' = r /\ root_ok r = true.
Proof.
  intros t e t' r H R. destruct e; simpl in R; try discriminate; injection R as <-.
  - apply accept_intro_inv in H. destruct H as [_ [_ [H3 [_ [_ [_ ->]]]]]]. auto.
  - apply accept_persist_inv in H. destruct H as [_ [H2 ->]]. auto.
  - apply accept_merge_inv in H. destruct H as [_ [_ [_ [H4 ->]]]]. auto.
  - apply accept_load_inv in H. destruct H as [_ [H2 ->]]. auto.
Qed.

Lemma accept_root_epoch : forall t e t' r, accept_ev t e = Some t' -> root_of_ievent e = Some r ->
  (forall r', e <> ELoad r') -> sn_epoch (t_root t) < sn_epoch r.
Proof.
  intros t e t' r H R Hn. destruct e; simpl in R; try discriminate; injection R as <-.
  - simpl in H. match type of H with (if ?c then _ else _) = _ => destruct c eqn:C; [|discriminate] end.
    split_andb C. lia.
  - simpl in H. match type of H with (if ?c then _ else _) = _ => destruct c eqn:C; [|discriminate] end.
    split_andb C. lia.
  - unfold accept_ev in H. match type of H with (if ?c then _ else _) = _ => destruct c eqn:C; [|discriminate] end.
    split_andb C. lia.
  - exfalso. apply (Hn root'). reflexivity.
Qed.

(* ================================================================== *)
(* 2. the invariant                                                      *)
(* ================================================================== *)

Definition snap_ids (d : disk) : list (Z * list Z) :=
  map (fun ef => (fst ef, map fst (sf_segs (snd ef)))) (d_snp d).

Lemma snap_ids_keys : forall d, map fst (snap_ids d) = map fst (d_snp d).
Proof. intro d. unfold snap_ids. rewrite map_map. reflexivity. Qed.

Lemma snap_ids_In : forall d e f, In (e, f) (d_snp d) -> In (e, map fst (sf_segs f)) (snap_ids d).
Proof. intros d e f H. unfold snap_ids. apply in_map_iff. exists (e, f). auto. Qed.

Lemma snap_ids_del : forall e l,
  map (fun ef : Z * snpfile => (fst ef, map fst (sf_segs (snd ef)))) (map_del e l) =
  map_del e (map (fun ef : Z * snpfile => (fst ef, map fst (sf_segs (snd ef)))) l).
Proof.
  intros e l. unfold map_del. induction l as [|[e0 f0] t IH]; simpl; [reflexivity|].
  destruct (negb (e0 =? e)); simpl; rewrite IH; reflexivity.
Qed.

Definition en_rel (a b : Z * nat) : Prop := fst b < fst a /\ (snd b <= snd a)%nat.
Definition en_sorted (en : list (Z * nat)) : Prop := StronglySorted en_rel en.

Definition content_ok (st : pstate) (n : nat) (segs : list (Z * list Z)) : Prop :=
  exists c, segs_content (ps_segdocs st) segs = Some c /\ same_docs c (content_at st n) = true.

Section Invariant.
Variable table : list (list Z).

Record disk_inv (d : disk) (p : pol) : Prop := {
  di_pol : pol_ok p (snap_ids d);
  di_one : (length (filter if_snp (d_fly d)) <= 1)%nat;
  di_fly_new : forall f e, In f (d_fly d) -> if_snp f = true -> In e (map fst (d_snp d)) -> e < if_id f;
  di_fly_seg : forall f, In f (d_fly d) -> if_snp f = false -> ~ In (if_id f) (d_seg d);
  di_snp_segs : forall e f s, In (e, f) (d_snp d) -> In s (map fst (sf_segs f)) -> In s (d_seg d);
  di_fly_segs : forall f s, In f (d_fly d) -> if_snp f = true -> In s (map fst (if_segs f)) -> In s (d_seg d);
  di_snp_loads : forall e f, In (e, f) (d_snp d) -> loaded_ids table (sf_bytes f) = Some (map fst (sf_segs f));
  di_fly_loads : forall f, In f (d_fly d) -> if_snp f = true ->
                 loaded_ids table (if_bytes f) = Some (map fst (if_segs f));
  di_junk : forall e b, In (e, b) (d_junk_snp d) -> loads table b = false
}.

Record run_inv (st : pstate) : Prop := {
  ri_t : inv (ps_t st);
  ri_sorted : en_sorted (ps_epoch_n st);
  ri_head : match ps_epoch_n st with
            | [] => t_keys (ps_t st) = [] /\ t_batches (ps_t st) = []
            | (e, n) :: _ => e = sn_epoch (t_root (ps_t st)) /\ n = n_intro st
            end;
  ri_snp : forall e f, In (e, f) (d_snp (ps_disk st)) ->
           match lookup e (ps_epoch_n st) with
           | Some n => content_ok st n (sf_segs f)
           | None => forall e' n', In (e', n') (ps_epoch_n st) -> e < e'
           end;
  ri_fly : forall f, In f (d_fly (ps_disk st)) -> if_snp f = true ->
           exists n, lookup (if_id f) (ps_epoch_n st) = Some n /\ content_ok st n (if_segs f);
  ri_live : ps_epoch_n st <> [] -> d_snp (ps_disk st) <> [] ->
            exists e f n, In (e, f) (d_snp (ps_disk st)) /\ lookup e (ps_epoch_n st) = Some n;
  ri_safe : forall k, In k (ps_safe st) -> In k (t_keys (ps_t st));
  ri_safe_nodup : NoDup (ps_safe st)
}.

Definition pinv (st : pstate) : Prop := disk_inv (ps_disk st) (ps_pol st) /\ run_inv st.

(* ---------- consequences ---------- *)

Lemma disk_inv_nodup : forall d p, disk_inv d p -> NoDup (map fst (d_snp d)).
Proof. intros d p H. rewrite <- snap_ids_keys. apply (po_nodup _ _ (di_pol d p H)). Qed.

Lemma en_sorted_head : forall e n en e' n', en_sorted ((e, n) :: en) -> In (e', n') ((e, n) :: en) ->
  e' <= e /\ (n' <= n)%nat.
Proof.
  intros e n en e' n' H [Heq|Hin].
  - injection Heq as -> ->. lia.
  - inversion H as [|x y Hs Hf]; subst. rewrite Forall_forall in Hf. specialize (Hf _ Hin).
    unfold en_rel in Hf. simpl in Hf. lia.
Qed.

Lemma run_inv_n_le : forall st e n, run_inv st -> In (e, n) (ps_epoch_n st) ->
  (n <= n_intro st)%nat /\ e <= sn_epoch (t_root (ps_t st)).
Proof.
  intros st e n H Hin. pose proof (ri_head st H) as Hh. pose proof (ri_sorted st H) as Hs.
  destruct (ps_epoch_n st) as [|[e0 n0] en]; [destruct Hin|]. destruct Hh as [-> ->].
  destruct (en_sorted_head _ _ _ _ _ Hs Hin). split; assumption.
Qed.

(* epochs and batch counts grow together *)
Lemma en_sorted_mono : forall en e1 n1 e2 n2, en_sorted en ->
  lookup e1 en = Some n1 -> lookup e2 en = Some n2 -> e1 <= e2 -> (n1 <= n2)%nat.
Proof.
  induction en as [|[e n] t IH]; intros e1 n1 e2 n2 Hs H1 H2 Hle; simpl in *; [discriminate|].
  inversion Hs as [|x y Hs' Hf]; subst. rewrite Forall_forall in Hf.
  destruct (e1 =? e) eqn:E1; destruct (e2 =? e) eqn:E2.
  - injection H1 as <-. injection H2 as <-. lia.
  - injection H1 as <-. apply lookup_In in H2. specialize (Hf _ H2). unfold en_rel in Hf. simpl in Hf. lia.
  - injection H2 as <-. apply lookup_In in H1. specialize (Hf _ H1). unfold en_rel in Hf. simpl in Hf. lia.
  - apply (IH e1 n1 e2 n2 Hs' H1 H2 Hle).
Qed.

Lemma content_ok_ext : forall st st' n segs,
  ps_segdocs st' = ps_segdocs st -> t_batches (ps_t st') = t_batches (ps_t st) -> ps_base st' = ps_base st ->
  content_ok st n segs -> content_ok st' n segs.
Proof.
  intros st st' n segs H1 H2 H3 [c [C1 C2]]. exists c. unfold content_at in *. rewrite H1, H2, H3. auto.
Qed.

(* ---------- frame: events that touch neither the history nor what is known about snapshots ---------- *)

Lemma run_inv_frame : forall st st',
  inv (ps_t st') -> t_root (ps_t st') = t_root (ps_t st) -> t_keys (ps_t st') = t_keys (ps_t st) ->
  t_batches (ps_t st') = t_batches (ps_t st) ->
  ps_epoch_n st' = ps_epoch_n st -> ps_segdocs st' = ps_segdocs st ->
  ps_base st' = ps_base st -> ps_safe st' = ps_safe st ->
  d_snp (ps_disk st') = d_snp (ps_disk st) ->
  (forall f, In f (d_fly (ps_disk st')) -> if_snp f = true -> In f (d_fly (ps_disk st))) ->
  run_inv st -> run_inv st'.
Proof.
  intros st st' Hinv Hr Hk Hbs Hen Hsd Hb Hsafe Hsnp Hfly [I1 I2 I3 I4 I5 IL I6 I7].
  assert (Hco : forall n segs, content_ok st n segs -> content_ok st' n segs).
  { intros n segs. apply content_ok_ext; assumption. }
  constructor.
  - exact Hinv.
  - rewrite Hen. exact I2.
  - rewrite Hen, Hk, Hbs, Hr. unfold n_intro. rewrite Hk. exact I3.
  - intros e f Hin. rewrite Hen. rewrite Hsnp in Hin. specialize (I4 e f Hin).
    destruct (lookup e (ps_epoch_n st)); [apply Hco; exact I4 | exact I4].
  - intros f Hin Hs. rewrite Hen. destruct (I5 f (Hfly f Hin Hs) Hs) as [n [L C]]. exists n. split; [exact L | apply Hco; exact C].
  - rewrite Hen, Hsnp. exact IL.
  - rewrite Hsafe, Hk. exact I6.
  - rewrite Hsafe. exact I7.
Qed.

(* the same with an unchanged history *)
Lemma run_inv_frame_t : forall st st',
  ps_t st' = ps_t st -> ps_epoch_n st' = ps_epoch_n st -> ps_segdocs st' = ps_segdocs st ->
  ps_base st' = ps_base st -> ps_safe st' = ps_safe st ->
  d_snp (ps_disk st') = d_snp (ps_disk st) ->
  (forall f, In f (d_fly (ps_disk st')) -> if_snp f = true -> In f (d_fly (ps_disk st))) ->
  run_inv st -> run_inv st'.
Proof.
  intros st st' Ht Hen Hsd Hb Hsafe Hsnp Hfly I. apply (run_inv_frame st st'); try assumption; try (rewrite Ht; reflexivity).
  rewrite Ht. apply (ri_t st I).
Qed.

(* ================================================================== *)
(* disk_inv is kept by every directory event                            *)
(* ================================================================== *)

Lemma disk_inv_start_snp : forall d p epoch bytes segs,
  disk_inv d p ->
  (forall s, In s (map fst segs) -> In s (d_seg d)) ->
  max_epoch (d_snp d) < epoch -> existsb if_snp (d_fly d) = false ->
  loaded_ids table bytes = Some (map fst segs) ->
  disk_inv {| d_snp := d_snp d; d_seg := d_seg d;
              d_fly := {| if_snp := true; if_id := epoch; if_bytes := bytes; if_segs := segs |} :: d_fly d;
              d_junk_snp := map_del epoch (d_junk_snp d); d_junk_seg := d_junk_seg d |} p.
Proof.
  intros d p epoch bytes segs [H1 H2 H3 H4 H5 H6 H7 H8 H9] Hsegs Hmax Hnone Hload.
  pose proof (proj1 (existsb_false _ _) Hnone) as Hno.
  constructor; simpl.
  - exact H1.
  - rewrite (no_snapshot_in_flight _ Hnone). simpl. lia.
  - intros f e [<-|Hf] Hs He; simpl.
    + pose proof (max_epoch_ge _ _ He). lia.
    + rewrite (Hno f Hf) in Hs. discriminate.
  - intros f [<-|Hf] Hs; simpl in *; [discriminate | apply H4; assumption].
  - exact H5.
  - intros f s [<-|Hf] Hs Hin; simpl in *; [apply Hsegs; exact Hin | apply (H6 f); assumption].
  - exact H7.
  - intros f [<-|Hf] Hs; simpl in *; [exact Hload | apply H8; assumption].
  - intros e b Hin. apply map_del_In in Hin. apply (H9 e b). tauto.
Qed.

Lemma disk_inv_start_seg : forall d p id bytes,
  disk_inv d p ->
  (forall e f, In (e, f) (d_snp d) -> ~ In id (map fst (sf_segs f))) ->
  (forall f, In f (d_fly d) -> if_snp f = true -> ~ In id (map fst (if_segs f))) ->
  disk_inv (mkdisk d (d_snp d) (zremove id (d_seg d))
              ({| if_snp := false; if_id := id; if_bytes := bytes; if_segs := [] |} :: d_fly d)) p.
Proof.
  intros d p id bytes [H1 H2 H3 H4 H5 H6 H7 H8 H9] Hsnp Hfly.
  constructor; simpl.
  - exact H1.
  - exact H2.
  - intros f e [<-|Hf] Hs He; simpl in *; [discriminate | apply H3; assumption].
  - intros f [<-|Hf] Hs; simpl in *; rewrite zremove_In; [tauto|]. intros [Hin _]. apply (H4 f Hf Hs Hin).
  - intros e f s Hin Hs. apply zremove_In. split; [apply (H5 e f); assumption|].
    intros ->. apply (Hsnp e f Hin Hs).
  - intros f s [<-|Hf] Hs Hin; simpl in *; [discriminate|]. apply zremove_In. split; [apply (H6 f); assumption|].
    intros ->. apply (Hfly f Hf Hs Hin).
  - exact H7.
  - intros f [<-|Hf] Hs; simpl in *; [discriminate | apply H8; assumption].
  - exact H9.
Qed.

Lemma disk_inv_ok_snp : forall d p f,
  disk_inv d p -> In f (d_fly d) -> if_snp f = true ->
  disk_inv (mkdisk d ((if_id f, {| sf_bytes := if_bytes f; sf_segs := if_segs f |}) :: d_snp d)
                     (d_seg d) (fly_remove true (if_id f) (d_fly d)))
           (pol_commit p (if_id f) (map fst (if_segs f))).
Proof.
  intros d p f [H1 H2 H3 H4 H5 H6 H7 H8 H9] Hf Hs.
  assert (Hnone : forall g, In g (fly_remove true (if_id f) (d_fly d)) -> if_snp g = true -> False).
  { intros g Hg Hsg. apply fly_remove_In in Hg. destruct Hg as [Hg Hne].
    assert (f = g) by (apply (one_snapshot_in_flight (d_fly d)); assumption). subst g. apply Hne. auto. }
  constructor; simpl.
  - unfold snap_ids. simpl. apply pol_ok_commit; [exact H1|].
    intros e' He'. fold (snap_ids d) in He'. rewrite snap_ids_keys in He'. apply (H3 f e' Hf Hs He').
  - pose proof (fly_remove_snaps true (if_id f) (d_fly d)). lia.
  - intros g e Hg Hsg. exfalso. apply (Hnone g Hg Hsg).
  - intros g Hg Hsg. apply fly_remove_In in Hg. apply H4; tauto.
  - intros e g s [Heq|Hin] Hin2.
    + injection Heq as <- <-. simpl in Hin2. apply (H6 f s Hf Hs Hin2).
    + apply (H5 e g s Hin Hin2).
  - intros g s Hg Hsg. exfalso. apply (Hnone g Hg Hsg).
  - intros e g [Heq|Hin].
    + injection Heq as <- <-. simpl. apply (H8 f Hf Hs).
    + apply (H7 e g Hin).
  - intros g Hg Hsg. exfalso. apply (Hnone g Hg Hsg).
  - exact H9.
Qed.

Lemma disk_inv_ok_seg : forall d p id,
  disk_inv d p -> disk_inv (mkdisk d (d_snp d) (id :: d_seg d) (fly_remove false id (d_fly d))) p.
Proof.
  intros d p id [H1 H2 H3 H4 H5 H6 H7 H8 H9].
  constructor; simpl.
  - exact H1.
  - pose proof (fly_remove_snaps false id (d_fly d)). lia.
  - intros f e Hf. apply fly_remove_In in Hf. apply H3. tauto.
  - intros f Hf Hs. apply fly_remove_In in Hf. destruct Hf as [Hf Hne]. intros [Heq|Hin].
    + apply Hne. auto.
    + apply (H4 f Hf Hs Hin).
  - intros e f s Hin Hs. right. apply (H5 e f s Hin Hs).
  - intros f s Hf Hs Hin. apply fly_remove_In in Hf. right. apply (H6 f s); tauto.
  - exact H7.
  - intros f Hf. apply fly_remove_In in Hf. apply H8. tauto.
  - exact H9.
Qed.

Lemma disk_inv_err : forall d p snp id,
  disk_inv d p -> disk_inv (mkdisk d (d_snp d) (d_seg d) (fly_remove snp id (d_fly d))) p.
Proof.
  intros d p snp id [H1 H2 H3 H4 H5 H6 H7 H8 H9].
  constructor; simpl; try assumption.
  - pose proof (fly_remove_snaps snp id (d_fly d)). lia.
  - intros f e Hf. apply fly_remove_In in Hf. apply H3. tauto.
  - intros f Hf. apply fly_remove_In in Hf. apply H4. tauto.
  - intros f s Hf. apply fly_remove_In in Hf. apply H6. tauto.
  - intros f Hf. apply fly_remove_In in Hf. apply H8. tauto.
Qed.

Lemma disk_inv_rm_snp : forall d p e,
  disk_inv d p -> In e (p_deletable p) ->
  disk_inv (mkdisk d (map_del e (d_snp d)) (d_seg d) (d_fly d)) (pol_removed_snp p e).
Proof.
  intros d p e [H1 H2 H3 H4 H5 H6 H7 H8 H9] He.
  constructor; simpl; try assumption.
  - unfold snap_ids. simpl. rewrite snap_ids_del. apply pol_ok_removed_snp; assumption.
  - intros f e' Hf Hs He'. apply map_del_keys in He'. apply (H3 f e'); tauto.
  - intros e' f s Hin. apply map_del_In in Hin. apply (H5 e' f s). tauto.
  - intros e' f Hin. apply map_del_In in Hin. apply (H7 e' f). tauto.
Qed.

Lemma disk_inv_rm_seg : forall d p id,
  disk_inv d p -> pol_may_remove_seg p id = true ->
  (forall f, In f (d_fly d) -> if_snp f = true -> ~ In id (map fst (if_segs f))) ->
  disk_inv (mkdisk d (d_snp d) (zremove id (d_seg d)) (d_fly d)) (pol_removed_seg p id).
Proof.
  intros d p id [H1 H2 H3 H4 H5 H6 H7 H8 H9] Hm Hfly.
  constructor; simpl; try assumption.
  - apply pol_ok_removed_seg; assumption.
  - intros f Hf Hs Hin. apply zremove_In in Hin. apply (H4 f Hf Hs). tauto.
  - intros e f s Hin Hs. apply zremove_In. split; [apply (H5 e f s Hin Hs)|].
    intros ->. apply (may_remove_seg_not_named p (snap_ids d) id e (map fst (sf_segs f)) H1 Hm); [|exact Hs].
    apply snap_ids_In. exact Hin.
  - intros f s Hf Hs Hin. apply zremove_In. split; [apply (H6 f s Hf Hs Hin)|].
    intros ->. apply (Hfly f Hf Hs Hin).
Qed.

End Invariant.

(* ================================================================== *)
(* run_inv is kept by every event                                       *)
(* ================================================================== *)

Lemma firstn_app_le : forall {A} n (l l' : list A), (n <= length l)%nat -> firstn n (l ++ l') = firstn n l.
Proof.
  intros A n l l' H. rewrite firstn_app. replace (n - length l)%nat with O by lia. simpl. apply app_nil_r.
Qed.

Lemma lookup_cons_ne : forall {A} k k0 (v0 : A) l, k <> k0 -> lookup k ((k0, v0) :: l) = lookup k l.
Proof. intros A k k0 v0 l H. simpl. assert (E : (k =? k0) = false) by lia. rewrite E. reflexivity. Qed.

Section Steps.
Variable table : list (list Z).

Lemma run_inv_PI : forall st e st', pinv table st -> paccept_ev table st (PI e) = Some st' -> run_inv st'.
Proof.
  intros st e st' [HD HR] H.
  destruct (pacc_PI table st e st' H) as [t' [Ha [Ht [Hd [Hp [Hsafe [_ [_ Hrest]]]]]]]].
  pose proof (accept_ev_inv _ _ _ (ri_t st HR) Ha) as Hinv'.
  destruct (root_of_ievent e) as [r|] eqn:R.
  2:{ destruct Hrest as [Hen [Hsd Hb]].
      destruct (accept_nonroot _ _ _ Ha R) as [N1 [N2 N3]].
      apply (run_inv_frame st st'); try (rewrite Ht); try assumption; rewrite Hd; auto. }
  destruct Hrest as [Hcons [Hev [Hen [Hsd Hb]]]].
  destruct (accept_root _ _ _ _ Ha R) as [Hroot Hrok].
  destruct HR as [I1 I2 I3 I4 I5 IL I6 I7].
  assert (Hload : (exists r0, e = ELoad r0) \/ (forall r0, e <> ELoad r0)).
  { destruct e; try (right; intros r0; discriminate). left. eexists. reflexivity. }
  destruct Hload as [[r0 ->]|Hnl].
  - (* the writer loads the newest complete snapshot *)
    simpl in R. injection R as ->.
    unfold root_event_ok in Hev. destruct (ps_epoch_n st) as [|x en] eqn:Een; [|discriminate].
    destruct I3 as [K0 B0].
    apply accept_load_inv in Ha. destruct Ha as [_ [_ Ht']].
    unfold load_agrees in Hev. destruct (lookup (sn_epoch r) (d_snp (ps_disk st))) as [f0|] eqn:Lf; [|discriminate].
    apply andb_true_iff in Hev. destruct Hev as [Hmax Hsegs]. apply idel_list_eqb_true in Hsegs.
    assert (Hk' : t_keys (ps_t st') = []) by (rewrite Ht, Ht'; reflexivity).
    assert (Hb' : t_batches (ps_t st') = []) by (rewrite Ht, Ht'; reflexivity).
    assert (Hr' : t_root (ps_t st') = r) by (rewrite Ht, Ht'; reflexivity).
    constructor.
    + rewrite Ht. exact Hinv'.
    + rewrite Hen. constructor; [constructor | constructor].
    + rewrite Hen, Hr'. unfold n_intro. rewrite Hk', Ht'. auto.
    + intros e f Hin. rewrite Hd in Hin. rewrite Hen. simpl.
      destruct (e =? sn_epoch r) eqn:E.
      * assert (e = sn_epoch r) by lia. subst e.
        rewrite (lookup_NoDup _ _ f (disk_inv_nodup table _ _ HD) Hin) in Lf. injection Lf as ->.
        exists (abs r). split.
        -- rewrite Hsd, <- Hsegs. apply segs_content_root. apply learn_segs_root; assumption.
        -- unfold content_at. rewrite Hb, Ht, Ht'. simpl. apply same_docs_refl.
      * intros e' n' [Heq|[]]. injection Heq as <- <-.
        pose proof (max_epoch_ge (d_snp (ps_disk st)) e (in_map fst _ _ Hin)) as Hle. simpl in Hle. lia.
    + intros f Hin Hs. rewrite Hd in Hin. destruct (I5 f Hin Hs) as [n [L _]]. discriminate.
    + intros _ _. exists (sn_epoch r), f0, (length (t_keys t')). rewrite Hd, Hen. split; [apply lookup_In; exact Lf|].
      simpl. rewrite Z.eqb_refl. reflexivity.
    + intros k Hk. rewrite Hsafe in Hk. specialize (I6 k Hk). rewrite K0 in I6. destruct I6.
    + rewrite Hsafe. exact I7.
  - (* introduction, persist swap, merge: a newer epoch *)
    pose proof (accept_root_epoch _ _ _ _ Ha R Hnl) as Hep.
    pose proof (accept_ev_grows _ _ _ Ha Hnl) as [ks [bs [G1 [G2 [G3 _]]]]].
    assert (Hne : ps_epoch_n st <> []).
    { intro Hnil. rewrite Hnil in Hev. unfold root_event_ok in Hev. destruct e; try discriminate.
      exfalso. apply (Hnl root'). reflexivity. }
    assert (Hbase : ps_base st' = ps_base st).
    { rewrite Hb. destruct e; try reflexivity. exfalso. apply (Hnl root'). reflexivity. }
    destruct (ps_epoch_n st) as [|[e0 n0] en] eqn:Een; [congruence|]. destruct I3 as [He0 Hn0].
    assert (Hold : forall e' n', In (e', n') ((e0, n0) :: en) -> e' < sn_epoch r /\ (n' <= length (t_keys t'))%nat).
    { intros e' n' Hin. destruct (en_sorted_head _ _ _ _ _ I2 Hin) as [A B]. split; [lia|].
      rewrite G1, app_length. unfold n_intro in Hn0. lia. }
    assert (Hlen : length (t_keys (ps_t st)) = length (t_batches (ps_t st))) by (apply (inv_len _ I1)).
    assert (Hco : forall n segs, (n <= n0)%nat -> content_ok st n segs -> content_ok st' n segs).
    { intros n segs Hn [c [C1 C2]]. exists c. split.
      - rewrite Hsd. apply (segs_content_keep (ps_segdocs st)); [|exact C1].
        intros id d. apply learn_segs_keep.
      - unfold content_at in *. rewrite Hbase, Ht, G2, firstn_app_le; [exact C2|].
        unfold n_intro in Hn0. lia. }
    constructor.
    + rewrite Ht. exact Hinv'.
    + rewrite Hen. constructor; [exact I2|]. apply Forall_forall. intros [e' n'] Hin.
      unfold en_rel. simpl. apply (Hold e' n' Hin).
    + rewrite Hen, Ht, Hroot. unfold n_intro. rewrite Ht. auto.
    + intros e1 f Hin. rewrite Hd in Hin. rewrite Hen. specialize (I4 e1 f Hin).
      destruct (lookup e1 ((e0, n0) :: en)) as [n|] eqn:L.
      * pose proof (lookup_In _ _ _ L) as Hin1. destruct (Hold e1 n Hin1) as [A _].
        rewrite lookup_cons_ne by lia. rewrite L. apply Hco; [|exact I4].
        destruct (en_sorted_head _ _ _ _ _ I2 Hin1). assumption.
      * assert (A : e1 < e0) by (apply (I4 e0 n0); left; reflexivity).
        rewrite lookup_cons_ne by lia. rewrite L.
        intros e' n' [Heq|Hin']; [injection Heq as <- <-; lia | apply (I4 e' n' Hin')].
    + intros f Hin Hs. rewrite Hd in Hin. destruct (I5 f Hin Hs) as [n [L C]].
      pose proof (lookup_In _ _ _ L) as Hin1. destruct (Hold _ n Hin1) as [A _].
      exists n. rewrite Hen, lookup_cons_ne by lia. split; [exact L|]. apply Hco; [|exact C].
      destruct (en_sorted_head _ _ _ _ _ I2 Hin1). assumption.
    + intros _ Hne'. rewrite Hd in Hne'. destruct (IL ltac:(discriminate) Hne') as [e1 [f1 [n1 [Hin1 L1]]]].
      exists e1, f1, n1. rewrite Hd, Hen. split; [exact Hin1|].
      pose proof (lookup_In _ _ _ L1) as Hin2. destruct (Hold e1 n1 Hin2) as [A _].
      rewrite lookup_cons_ne by lia. exact L1.
    + intros k Hk. rewrite Hsafe in Hk. rewrite Ht, G1. apply in_app_iff. left. apply I6. exact Hk.
    + rewrite Hsafe. exact I7.
Qed.

(* every other event leaves the history, the epochs and the segment documents alone *)
Lemma run_inv_step : forall st ev st', pinv table st -> paccept_ev table st ev = Some st' -> run_inv st'.
Proof.
  intros st ev st' Hinv H. pose proof Hinv as [HD HR].
  destruct ev as [e|k|epoch nacks|snp id bytes segs|snp id|snp id|snp id|snp id|k ok|].
  - apply (run_inv_PI st e st' Hinv H).
  - apply pacc_safe in H. destruct H as [H1 [H2 [_ ->]]]. destruct HR as [I1 I2 I3 I4 I5 IL I6 I7].
    constructor; simpl; try assumption.
    + intros k' Hk'. apply in_app_iff in Hk'. destruct Hk' as [Hk'|[<-|[]]]; [apply I6; exact Hk' | exact H1].
    + apply NoDup_snocZ; assumption.
  - apply pacc_grab in H. destruct H as [_ [_ ->]]. destruct HR as [I1 I2 I3 I4 I5 IL I6 I7].
    constructor; simpl; try assumption; [intros k [] | constructor].
  - destruct snp.
    + destruct (pacc_start_snp table st id bytes segs st' H) as [n [content [L [SC [_ [SD [_ [_ [_ [_ ->]]]]]]]]]].
      destruct HR as [I1 I2 I3 I4 I5 IL I6 I7]. constructor; simpl; try assumption.
      intros f [<-|Hf] Hs; simpl.
      * exists n. split; [exact L|]. exists content. auto.
      * apply (I5 f Hf Hs).
    + destruct (pacc_start_seg table st id bytes segs st' H) as [_ [_ [_ ->]]].
      apply (run_inv_frame_t st); simpl; auto. intros f [<-|Hf] Hs; [discriminate | exact Hf].
  - destruct snp.
    + destruct (pacc_ok_snp table st id st' H) as [f [Hf [Hs [Hid [Hd [Hp [Ht [Hen [Hsd [Hb [Hsafe _]]]]]]]]]]].
      destruct HR as [I1 I2 I3 I4 I5 IL I6 I7].
      assert (Hco : forall n segs, content_ok st n segs -> content_ok st' n segs).
      { intros n segs. apply content_ok_ext; try assumption. rewrite Ht. reflexivity. }
      constructor.
      * rewrite Ht. exact I1.
      * rewrite Hen. exact I2.
      * rewrite Hen, Ht. unfold n_intro. rewrite Ht. exact I3.
      * intros e g Hin. rewrite Hd in Hin. simpl in Hin. rewrite Hen. destruct Hin as [Heq|Hin].
        -- injection Heq as <- <-. simpl. destruct (I5 f Hf Hs) as [n [L C]]. rewrite Hid in L. rewrite L. apply Hco. exact C.
        -- specialize (I4 e g Hin). destruct (lookup e (ps_epoch_n st)); [apply Hco; exact I4 | exact I4].
      * intros g Hg Hsg. rewrite Hd in Hg. simpl in Hg. apply fly_remove_In in Hg. destruct Hg as [Hg _].
        rewrite Hen. destruct (I5 g Hg Hsg) as [n [L C]]. exists n. split; [exact L | apply Hco; exact C].
      * intros _ _. destruct (I5 f Hf Hs) as [n [L _]]. rewrite Hid in L.
        exists id, {| sf_bytes := if_bytes f; sf_segs := if_segs f |}, n. rewrite Hd, Hen. split; [left; reflexivity | exact L].
      * rewrite Hsafe, Ht. exact I6.
      * rewrite Hsafe. exact I7.
    + destruct (pacc_ok_seg table st id st' H) as [_ ->].
      apply (run_inv_frame_t st); simpl; auto. intros f Hf _. apply fly_remove_In in Hf. tauto.
  - rewrite (pacc_err table st snp id st' H).
    apply (run_inv_frame_t st); simpl; auto. intros f Hf _. apply fly_remove_In in Hf. tauto.
  - destruct snp.
    + destruct (pacc_rm_snp table st id st' H) as [Hdel ->].
      destruct HR as [I1 I2 I3 I4 I5 IL I6 I7]. constructor; simpl; try assumption.
      * intros e f Hin. apply map_del_In in Hin. apply (I4 e f). tauto.
      * intros Hne _.
        destruct (pol_ok_newest_live _ _ id (di_pol table _ _ HD) Hdel) as [e' [_ [Hlt Hin']]].
        rewrite snap_ids_keys in Hin'. apply in_map_iff in Hin'. destruct Hin' as [[e'' f'] [Heq Hin']]. simpl in Heq. subst e''.
        assert (Hne' : d_snp (ps_disk st) <> []) by (intro Hnil; rewrite Hnil in Hin'; destruct Hin').
        destruct (IL Hne Hne') as [e1 [f1 [n1 [Hin1 L1]]]].
        destruct (Z.eq_dec e1 id) as [->|Hneq].
        -- pose proof (I4 e' f' Hin') as C'. destruct (lookup e' (ps_epoch_n st)) as [n'|] eqn:L'.
           ++ exists e', f', n'. split; [|exact L']. apply map_del_In. simpl. split; [exact Hin' | lia].
           ++ exfalso. pose proof (C' id n1 (lookup_In _ _ _ L1)). lia.
        -- exists e1, f1, n1. split; [|exact L1]. apply map_del_In. simpl. auto.
    + destruct (pacc_rm_seg table st id st' H) as [_ [_ ->]].
      apply (run_inv_frame_t st); simpl; auto.
  - rewrite (pacc_rmerr table st snp id st' H). apply (run_inv_frame_t st); simpl; auto.
  - destruct ok.
    + destruct (pacc_ack_ok table st k st' H) as [pos [_ [_ ->]]]. apply (run_inv_frame_t st); simpl; auto.
    + destruct (pacc_ack_err table st k st' H) as [_ ->]. exact HR.
  - rewrite (pacc_fault table st st' H). apply (run_inv_frame_t st); simpl; auto.
Qed.

Lemma disk_inv_step : forall st ev st', pinv table st -> paccept_ev table st ev = Some st' ->
  disk_inv table (ps_disk st') (ps_pol st').
Proof.
  intros st ev st' [HD HR] H.
  destruct ev as [e|k|epoch nacks|snp id bytes segs|snp id|snp id|snp id|snp id|k ok|].
  - destruct (pacc_PI table st e st' H) as [t' [_ [_ [Hd [Hp _]]]]]. rewrite Hd, Hp. exact HD.
  - apply pacc_safe in H. destruct H as [_ [_ [_ ->]]]. exact HD.
  - apply pacc_grab in H. destruct H as [_ [_ ->]]. exact HD.
  - destruct snp.
    + destruct (pacc_start_snp table st id bytes segs st' H) as [n [content [_ [_ [S1 [_ [_ [S2 [S3 [S4 ->]]]]]]]]]].
      simpl. apply disk_inv_start_snp; assumption.
    + destruct (pacc_start_seg table st id bytes segs st' H) as [_ [S1 [S2 ->]]].
      simpl. apply disk_inv_start_seg; assumption.
  - destruct snp.
    + destruct (pacc_ok_snp table st id st' H) as [f [Hf [Hs [Hid [Hd [Hp _]]]]]].
      rewrite Hd, Hp, <- Hid. apply disk_inv_ok_snp; assumption.
    + destruct (pacc_ok_seg table st id st' H) as [_ ->]. simpl. apply disk_inv_ok_seg. exact HD.
  - rewrite (pacc_err table st snp id st' H). simpl. apply disk_inv_err. exact HD.
  - destruct snp.
    + destruct (pacc_rm_snp table st id st' H) as [S1 ->]. simpl. apply disk_inv_rm_snp; assumption.
    + destruct (pacc_rm_seg table st id st' H) as [S1 [S2 ->]]. simpl. apply disk_inv_rm_seg; assumption.
  - rewrite (pacc_rmerr table st snp id st' H). exact HD.
  - destruct ok.
    + destruct (pacc_ack_ok table st k st' H) as [pos [_ [_ ->]]]. exact HD.
    + destruct (pacc_ack_err table st k st' H) as [_ ->]. exact HD.
  - rewrite (pacc_fault table st st' H). exact HD.
Qed.

Theorem pinv_step : forall st ev st', pinv table st -> paccept_ev table st ev = Some st' -> pinv table st'.
Proof.
  intros st ev st' Hinv H. split; [apply (disk_inv_step st ev st' Hinv H) | apply (run_inv_step st ev st' Hinv H)].
Qed.

Theorem pinv_run : forall evs st st', pinv table st -> paccept_run table st evs = Some st' -> pinv table st'.
Proof.
  induction evs as [|e t IH]; intros st st' Hinv H; simpl in H.
  - injection H as <-. exact Hinv.
  - destruct (paccept_ev table st e) as [s1|] eqn:E; [|discriminate].
    apply (IH s1 st'); [apply (pinv_step st e s1 Hinv E) | exact H].
Qed.

Lemma paccept_run_app : forall a b st st',
  paccept_run table st (a ++ b) = Some st' <->
  exists s1, paccept_run table st a = Some s1 /\ paccept_run table s1 b = Some st'.
Proof.
  induction a as [|e t IH]; intros b st st'; simpl.
  - split; [intro H; exists st; auto | intros [s1 [H1 H2]]; injection H1 as ->; exact H2].
  - destruct (paccept_ev table st e) as [s0|]; [apply IH|].
    split; [discriminate | intros [s1 [H1 _]]; discriminate].
Qed.

End Steps.
