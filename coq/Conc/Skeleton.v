(* Conc/Skeleton.v — finite control skeleton of the writer's three loops and Close (model
   only; proofs in SkeletonProofs.v).

   Four communicating automata, written after the Go source:
     I  introducerLoop              index/introducer.go:43-82   (+ introduceSegment 84-179,
                                    introducePersist 181-237, introduceMerge 241-336)
     P  persisterLoop               index/persister.go:26-150   (+ pausePersisterForMergerCatchUp
                                    152-217, persistSnapshot* 219-339, prepareIntroducePersist
                                    341-379, mergeSegmentBases merge.go:290-362)
     M  mergerLoop                  index/merge.go:27-87        (+ planMergeAtSnapshot 89-125,
                                    executeMergeTask 127-215)
     C  Writer.close                index/writer.go:202-223
   Channels: introductions / persists / merges are unbuffered (rendezvous);
   introducerNotifier / persisterNotifier are buffered with capacity 1; the epoch watchers'
   notifyCh are only ever closed; persist.applied is only closed; sm.notifyCh is an
   unbuffered send answered by the waiting requester; closeCh is closed once by C.
   (Capacities are read from the code: Gen.ParamsConc.chan_makes, checked in sites_match.)

   Abstraction.  Blocking points are exact: a receive/send is enabled exactly when the
   channel state / the partner's control point allows it.  Data (epochs, segment lists,
   file counts, errors of directory operations) is abstracted to nondeterministic choice at
   the non-blocking control points, so the skeleton over-approximates the control flow
   while the enabledness of every blocking operation is modelled faithfully.  Loops over
   finite data (segments to persist, files to remove) are single steps whose observable
   event stands for one or more occurrences (the trace checker collapses repetitions).
   Application goroutines inside Batch are an environment that may offer an introduction
   at any time before Close begins, and never afterwards ("callers have returned"). *)
From Coq Require Import List Bool Arith NArith PArith FMapPositive.
Import ListNotations.

Inductive thread := ThI | ThP | ThM | ThC.

Inductive ipc := I_sel | I_seg | I_persist | I_mergeP | I_mergeM | I_notify | I_exit | I_done.

Inductive ppc :=
| P_start | P_sel | P_pause | P_branch | P_nap | P_cleanup2 | P_stats2 | P_slow | P_slow_sel
| P_slow_stats | P_grab | P_persist | P_mb_persist | P_mb_load | P_mb_send | P_mb_wait
| P_direct | P_d_load | P_pip_send | P_pip_wait | P_snap | P_persisted | P_after_ev
| P_rewatch | P_cleanup | P_err | P_closed_err | P_exit | P_done
| P_pause_st | P_slow_st | P_fire_ev.   (* the observable event FOLLOWS the watcher notification *)

Inductive mpc :=
| M_start | M_sel | M_plan | M_task | M_load | M_ev_start | M_send | M_wait | M_ev_intro
| M_next | M_progress | M_rewatch | M_err | M_exit | M_done.

Inductive cpc := C_idle | C_closing | C_wait | C_root | C_unlocked | C_done.

(* an epoch watcher: no outstanding watcher / notified (WFired), sitting in the buffered
   notifier channel (WBuf), held in the receiver's watcher list (WListed) *)
Inductive wst := WFired | WBuf | WListed.

Record state := mk_state {
  si : ipc; sp : ppc; sm : mpc; sc : cpc;
  pw : wst;        (* the persister's watcher at the introducer *)
  mw : wst;        (* the merger's watcher at the persister *)
  papp : bool      (* persist.applied has been closed by the introducer *)
}.

Scheme Equality for thread.
Scheme Equality for ipc.
Scheme Equality for ppc.
Scheme Equality for mpc.
Scheme Equality for cpc.
Scheme Equality for wst.

Definition state_beq (a b : state) : bool :=
  ipc_beq (si a) (si b) && ppc_beq (sp a) (sp b) && mpc_beq (sm a) (sm b) && cpc_beq (sc a) (sc b) &&
  wst_beq (pw a) (pw b) && wst_beq (mw a) (mw b) && Bool.eqb (papp a) (papp b).

(* observable control-point events (recorded by the harness through public seams: the
   wrapping Directory, EventCallback), by role *)
Inductive obs :=
| OP_Stats | OP_PersistSeg | OP_LoadSeg | OP_PersistSnap | OP_Remove | OP_EvPersisterProgress
| OM_PersistSeg | OM_LoadSeg | OM_EvMergeStart | OM_EvMergeIntro | OM_EvMergerProgress
| OC_EvCloseStart | OC_Unlock | OC_EvClose.
Scheme Equality for obs.

(* the blocking sites of the code (rows of Gen.ParamsConc.select_sites of kind select /
   send / recv / wg_wait); see SkeletonProofs.site_table for the correspondence *)
Inductive site :=
| S_NotifyUsAfter            (* communication.go: select { <-closeCh ; w <- ew } *)
| S_intro_select             (* introducerLoop select *)
| S_introSeg_send_applied    (* introduceSegment: next.applied <- err *)
| S_introMerge_send_notify   (* introduceMerge: nextMerge.notifyCh <- status *)
| S_merger_select            (* mergerLoop select *)
| S_exec_select              (* executeMergeTask select { closeCh ; merges <- sm } *)
| S_exec_recv_notify         (* executeMergeTask <-sm.notifyCh *)
| S_mb_select                (* mergeSegmentBases select { closeCh ; merges <- sm } *)
| S_mb_recv_notify           (* mergeSegmentBases <-sm.notifyCh *)
| S_pers_select              (* persisterLoop select *)
| S_pers_send_ack            (* persisterLoop ch <- err (buffered, capacity 1) *)
| S_nap_select               (* pausePersisterForMergerCatchUp select with time.After *)
| S_slow_select              (* pausePersisterForMergerCatchUp select in the catch-up loop *)
| S_pip_send_select          (* prepareIntroducePersist select { closeCh ; persists <- persist } *)
| S_pip_recv_applied         (* prepareIntroducePersist <-persist.applied (the introducer answers) *)
| S_close_wait               (* Writer.close asyncTasks.Wait *)
| S_caller_send_intro        (* prepareSegment s.introductions <- introduction (environment) *)
| S_caller_recv_applied      (* prepareSegment <-introduction.applied (environment) *)
| S_caller_recv_persisted.   (* prepareSegment <-introduction.persisted (environment) *)
Scheme Equality for site.

Record trans := mk_trans {
  t_thread : thread;
  t_close : bool;               (* this is the `case <-s.closeCh` alternative of a select *)
  t_sites : list site;          (* blocking sites exercised (both ends of a rendezvous) *)
  t_obs : option obs;
  t_partner : option thread;    (* the other end of a rendezvous *)
  t_to : state
}.

Definition closed (s : state) : bool :=
  match sc s with C_idle | C_closing => false | _ => true end.

Definition callers_active (s : state) : bool :=
  match sc s with C_idle => true | _ => false end.

Definition set_i (s : state) (x : ipc) := mk_state x (sp s) (sm s) (sc s) (pw s) (mw s) (papp s).
Definition set_p (s : state) (x : ppc) := mk_state (si s) x (sm s) (sc s) (pw s) (mw s) (papp s).
Definition set_m (s : state) (x : mpc) := mk_state (si s) (sp s) x (sc s) (pw s) (mw s) (papp s).
Definition set_c (s : state) (x : cpc) := mk_state (si s) (sp s) (sm s) x (pw s) (mw s) (papp s).
Definition set_pw (s : state) (x : wst) := mk_state (si s) (sp s) (sm s) (sc s) x (mw s) (papp s).
Definition set_mw (s : state) (x : wst) := mk_state (si s) (sp s) (sm s) (sc s) (pw s) x (papp s).
Definition set_papp (s : state) (x : bool) := mk_state (si s) (sp s) (sm s) (sc s) (pw s) (mw s) x.

Definition when {A} (b : bool) (l : list A) : list A := if b then l else [].

Definition tau (th : thread) (to : state) : trans := mk_trans th false [] None None to.
Definition ev (th : thread) (o : obs) (to : state) : trans := mk_trans th false [] (Some o) None to.
Definition cl (th : thread) (st : site) (to : state) : trans := mk_trans th true [st] None None to.
Definition blk (th : thread) (st : site) (to : state) : trans := mk_trans th false [st] None None to.
Definition rdv (th : thread) (sts : list site) (p : thread) (to : state) : trans :=
  mk_trans th false sts None (Some p) to.

(* NotifySatisfiedWatchers on a list holding the merger's watcher: it is notified or stays *)
Definition maybe_fire_mw (s : state) : list state :=
  match mw s with WListed => [s; set_mw s WFired] | _ => [s] end.

(* ---- introducerLoop (introducer.go:43-82) *)
Definition succs_I (s : state) : list trans :=
  match si s with
  | I_sel =>
      (* select { <-s.closeCh ; <-introducerNotifier ; <-merges ; <-introductions ; <-persists } *)
      when (closed s) [cl ThI S_intro_select (set_i s I_exit)]
      ++ when (wst_beq (pw s) WBuf) [blk ThI S_intro_select (set_pw (set_i s I_notify) WListed)]
      ++ when (ppc_beq (sp s) P_mb_send) [rdv ThI [S_intro_select; S_mb_select] ThP (set_p (set_i s I_mergeP) P_mb_wait)]
      ++ when (mpc_beq (sm s) M_send) [rdv ThI [S_intro_select; S_exec_select] ThM (set_m (set_i s I_mergeM) M_wait)]
      ++ when (callers_active s) [blk ThI S_intro_select (set_i s I_seg)]
      ++ when (ppc_beq (sp s) P_pip_send) [rdv ThI [S_intro_select; S_pip_send_select] ThP (set_papp (set_p (set_i s I_persist) P_pip_wait) false)]
  | I_seg =>
      (* introduceSegment: error path sends on next.applied (the caller is receiving) and
         `continue OUTER`; success closes next.applied *)
      [blk ThI S_introSeg_send_applied (set_i s I_sel); tau ThI (set_i s I_notify)]
  | I_persist =>
      (* introducePersist: replaceRoot; close(persist.applied) *)
      [tau ThI (set_papp (set_i s I_notify) true)]
  | I_mergeP =>
      (* introduceMerge: nextMerge.notifyCh <- status ; the persister waits in mergeSegmentBases *)
      when (ppc_beq (sp s) P_mb_wait) [rdv ThI [S_introMerge_send_notify; S_mb_recv_notify] ThP (set_p (set_i s I_notify) P_direct)]
  | I_mergeM =>
      when (mpc_beq (sm s) M_wait) [rdv ThI [S_introMerge_send_notify; S_exec_recv_notify] ThM (set_m (set_i s I_notify) M_ev_intro)]
  | I_notify =>
      (* NotifySatisfiedWatchers(currentEpoch) *)
      match pw s with
      | WListed => [tau ThI (set_pw (set_i s I_sel) WFired); tau ThI (set_i s I_sel)]
      | _ => [tau ThI (set_i s I_sel)]
      end
  | I_exit => [tau ThI (set_i s I_done)]     (* s.asyncTasks.Done() *)
  | I_done => []
  end.

(* ---- persisterLoop (persister.go:26-150) *)
Definition succs_P (s : state) : list trans :=
  match sp s with
  | P_start =>
      (* NotifyUsAfter(0): select { <-closeCh ; w <- ew } on the capacity-1 notifier *)
      when (closed s) [cl ThP S_NotifyUsAfter (set_p s P_exit)]
      ++ when (negb (wst_beq (pw s) WBuf)) [blk ThP S_NotifyUsAfter (set_pw (set_p s P_sel) WBuf)]
  | P_sel =>
      when (closed s) [cl ThP S_pers_select (set_p s P_exit)]
      ++ when (wst_beq (mw s) WBuf) [blk ThP S_pers_select (set_mw s WListed)]
      ++ when (wst_beq (pw s) WFired) [blk ThP S_pers_select (set_p s P_pause)]
  | P_pause =>
      (* persister.go:155-158: NotifySatisfiedWatchers FIRST (the merger may run at once),
         then directory.Stats() — two steps, the merger's events may fall in between *)
      map (fun s' => tau ThP (set_p s' P_pause_st)) (maybe_fire_mw s)
  | P_pause_st => [ev ThP OP_Stats (set_p s P_branch)]
  | P_branch => [tau ThP (set_p s P_nap); tau ThP (set_p s P_cleanup2); tau ThP (set_p s P_slow)]
  | P_nap =>
      (* select { <-s.closeCh ; <-time.After ; ew := <-persisterNotifier } then return *)
      when (closed s) [cl ThP S_nap_select (set_p s P_grab)]
      ++ [blk ThP S_nap_select (set_p s P_grab)]
      ++ when (wst_beq (mw s) WBuf)
           (map (fun s' => blk ThP S_nap_select (set_p s' P_grab)) (maybe_fire_mw (set_mw s WListed)))
  | P_cleanup2 => [tau ThP (set_p s P_stats2); ev ThP OP_Remove (set_p s P_stats2)]
  | P_stats2 => [ev ThP OP_Stats (set_p s P_slow)]
  | P_slow => [tau ThP (set_p s P_grab); tau ThP (set_p s P_slow_sel)]
  | P_slow_sel =>
      when (closed s) [cl ThP S_slow_select (set_p s P_grab)]
      ++ when (wst_beq (mw s) WBuf) [blk ThP S_slow_select (set_mw (set_p s P_slow_stats) WListed)]
  | P_slow_stats => map (fun s' => tau ThP (set_p s' P_slow_st)) (maybe_fire_mw s)   (* persister.go:211 *)
  | P_slow_st => [ev ThP OP_Stats (set_p s P_slow)]                                  (* persister.go:213 *)
  | P_grab => [tau ThP (set_p s P_persist); tau ThP (set_p s P_rewatch)]
  | P_persist => [tau ThP (set_p s P_mb_persist); tau ThP (set_p s P_direct)]
  | P_mb_persist =>
      [ev ThP OP_PersistSeg (set_p s P_mb_load); tau ThP (set_p s P_err)]
      ++ when (closed s) [tau ThP (set_p s P_closed_err)]
  | P_mb_load => [ev ThP OP_LoadSeg (set_p s P_mb_send); tau ThP (set_p s P_err)]
  | P_mb_send => when (closed s) [cl ThP S_mb_select (set_p s P_closed_err)]
  | P_mb_wait => []
  | P_direct => [tau ThP (set_p s P_snap); ev ThP OP_PersistSeg (set_p s P_d_load); tau ThP (set_p s P_err)]
  | P_d_load => [ev ThP OP_LoadSeg (set_p s P_pip_send); tau ThP (set_p s P_err)]
  | P_pip_send => when (closed s) [cl ThP S_pip_send_select (set_p s P_closed_err)]
  | P_pip_wait =>
      (* <-persist.applied: no closeCh alternative; the introducer closes it at the end of
         introducePersist *)
      when (papp s) [blk ThP S_pip_recv_applied (set_p s P_snap)]
  | P_snap => [ev ThP OP_PersistSnap (set_p s P_persisted); tau ThP (set_p s P_err)]
  | P_persisted =>
      (* acks closed; callbacks; every persist watcher notified; fireEvent(PersisterProgress) *)
      (* persister.go:121-128: the watchers are closed BEFORE the event is fired *)
      [tau ThP (set_p (match mw s with WListed => set_mw s WFired | _ => s end) P_fire_ev)]
  | P_fire_ev => [ev ThP OP_EvPersisterProgress (set_p s P_after_ev)]
  | P_after_ev => [tau ThP (set_p s P_sel); tau ThP (set_p s P_rewatch)]
  | P_rewatch =>
      when (closed s) [cl ThP S_NotifyUsAfter (set_p s P_exit)]
      ++ when (negb (wst_beq (pw s) WBuf)) [blk ThP S_NotifyUsAfter (set_pw (set_p s P_cleanup) WBuf)]
  | P_cleanup => [tau ThP (set_p s P_sel); ev ThP OP_Remove (set_p s P_sel)]
  | P_err =>
      (* `ch <- err` on the capacity-1 ack channels never blocks; fireAsyncError; continue OUTER *)
      [mk_trans ThP false [S_pers_send_ack] None None (set_p s P_sel)]
  | P_closed_err => [mk_trans ThP false [S_pers_send_ack] None None (set_p s P_exit)]
  | P_exit => [tau ThP (set_p s P_done)]    (* deferred s.asyncTasks.Done() *)
  | P_done => []
  end.

(* ---- mergerLoop (merge.go:27-87) *)
Definition succs_M (s : state) : list trans :=
  match sm s with
  | M_start =>
      when (closed s) [cl ThM S_NotifyUsAfter (set_m s M_exit)]
      ++ when (negb (wst_beq (mw s) WBuf)) [blk ThM S_NotifyUsAfter (set_mw (set_m s M_sel) WBuf)]
  | M_sel =>
      when (closed s) [cl ThM S_merger_select (set_m s M_exit)]
      ++ when (wst_beq (mw s) WFired) [blk ThM S_merger_select (set_m s M_plan)]
  | M_plan =>
      [tau ThM (set_m s M_rewatch); tau ThM (set_m s M_task); tau ThM (set_m s M_progress); tau ThM (set_m s M_err)]
  | M_task =>
      [ev ThM OM_PersistSeg (set_m s M_load); tau ThM (set_m s M_ev_start); tau ThM (set_m s M_progress); tau ThM (set_m s M_err)]
      ++ when (closed s) [tau ThM (set_m s M_exit)]
  | M_load => [ev ThM OM_LoadSeg (set_m s M_ev_start); tau ThM (set_m s M_err)]
  | M_ev_start => [ev ThM OM_EvMergeStart (set_m s M_send)]
  | M_send => when (closed s) [cl ThM S_exec_select (set_m s M_exit)]
  | M_wait => []
  | M_ev_intro => [ev ThM OM_EvMergeIntro (set_m s M_next)]
  | M_next => [tau ThM (set_m s M_task); tau ThM (set_m s M_progress)]
  | M_progress => [ev ThM OM_EvMergerProgress (set_m s M_rewatch)]
  | M_rewatch =>
      when (closed s) [cl ThM S_NotifyUsAfter (set_m s M_exit)]
      ++ when (negb (wst_beq (mw s) WBuf)) [blk ThM S_NotifyUsAfter (set_mw (set_m s M_sel) WBuf)]
  | M_err => [tau ThM (set_m s M_sel)]
  | M_exit => [tau ThM (set_m s M_done)]    (* deferred s.asyncTasks.Done() *)
  | M_done => []
  end.

(* ---- Writer.close (writer.go:202-223) *)
Definition loops_done (s : state) : bool :=
  ipc_beq (si s) I_done && ppc_beq (sp s) P_done && mpc_beq (sm s) M_done.

Definition succs_C (s : state) : list trans :=
  match sc s with
  | C_idle =>
      (* Close may begin once no caller is inside Batch *)
      when (negb (ipc_beq (si s) I_seg)) [ev ThC OC_EvCloseStart (set_c s C_closing)]
  | C_closing => [tau ThC (set_c s C_wait)]                       (* close(s.closeCh) *)
  | C_wait => when (loops_done s) [blk ThC S_close_wait (set_c s C_root)]   (* s.asyncTasks.Wait() *)
  | C_root => [ev ThC OC_Unlock (set_c s C_unlocked)]             (* replaceRoot(nil); directory.Unlock() *)
  | C_unlocked => [ev ThC OC_EvClose (set_c s C_done)]
  | C_done => []
  end.

Definition succs (s : state) : list trans := succs_I s ++ succs_P s ++ succs_M s ++ succs_C s.

Definition init_state : state := mk_state I_sel P_start M_start C_idle WFired WFired false.

Definition final (s : state) : bool := loops_done s && cpc_beq (sc s) C_done.

(* a thread has its closeCh alternative enabled *)
Definition has_close_alt (s : state) (th : thread) : bool :=
  existsb (fun tr => t_close tr && thread_beq (t_thread tr) th) (succs s).

(* a step that declines an enabled closeCh alternative: Go's select chooses uniformly
   among the ready cases, so each such step had probability at most 4/5 *)
Definition declines (s : state) (tr : trans) : bool :=
  negb (t_close tr) &&
  (has_close_alt s (t_thread tr) ||
   match t_partner tr with Some p => has_close_alt s p | None => false end).

Definition nd_succs (s : state) : list state :=
  map t_to (filter (fun tr => negb (declines s tr)) (succs s)).

(* ---- finite exploration (state sets as buckets in a positive map) *)
Definition ipc_idx (x : ipc) : N :=
  match x with I_sel => 0 | I_seg => 1 | I_persist => 2 | I_mergeP => 3 | I_mergeM => 4 | I_notify => 5 | I_exit => 6 | I_done => 7 end.
Definition ppc_idx (x : ppc) : N :=
  match x with
  | P_start => 0 | P_sel => 1 | P_pause => 2 | P_branch => 3 | P_nap => 4 | P_cleanup2 => 5 | P_stats2 => 6
  | P_slow => 7 | P_slow_sel => 8 | P_slow_stats => 9 | P_grab => 10 | P_persist => 11 | P_mb_persist => 12
  | P_mb_load => 13 | P_mb_send => 14 | P_mb_wait => 15 | P_direct => 16 | P_d_load => 17 | P_pip_send => 18
  | P_pip_wait => 19 | P_snap => 20 | P_persisted => 21 | P_after_ev => 22 | P_rewatch => 23 | P_cleanup => 24
  | P_err => 25 | P_closed_err => 26 | P_exit => 27 | P_done => 28
  | P_pause_st => 29 | P_slow_st => 30 | P_fire_ev => 31
  end.
Definition mpc_idx (x : mpc) : N :=
  match x with
  | M_start => 0 | M_sel => 1 | M_plan => 2 | M_task => 3 | M_load => 4 | M_ev_start => 5 | M_send => 6
  | M_wait => 7 | M_ev_intro => 8 | M_next => 9 | M_progress => 10 | M_rewatch => 11 | M_err => 12
  | M_exit => 13 | M_done => 14
  end.
Definition cpc_idx (x : cpc) : N :=
  match x with C_idle => 0 | C_closing => 1 | C_wait => 2 | C_root => 3 | C_unlocked => 4 | C_done => 5 end.
Definition wst_idx (x : wst) : N := match x with WFired => 0 | WBuf => 1 | WListed => 2 end.

Definition enc (s : state) : positive :=
  N.succ_pos
    ((((((ipc_idx (si s) * 32 + ppc_idx (sp s)) * 15 + mpc_idx (sm s)) * 6 + cpc_idx (sc s)) * 3
        + wst_idx (pw s)) * 3 + wst_idx (mw s)) * 2 + (if papp s then 1 else 0))%N.

Definition sset := PositiveMap.t (list state).

Definition memb (s : state) (m : sset) : bool :=
  match PositiveMap.find (enc s) m with
  | Some b => existsb (state_beq s) b
  | None => false
  end.

Definition sadd (s : state) (m : sset) : sset :=
  match PositiveMap.find (enc s) m with
  | Some b => PositiveMap.add (enc s) (s :: b) m
  | None => PositiveMap.add (enc s) [s] m
  end.

Definition all_states (m : sset) : list state := flat_map snd (PositiveMap.elements m).

Definition expand (frontier : list state) (seen : sset) : list state * sset :=
  fold_left (fun acc s =>
    fold_left (fun acc' tr =>
      let s' := t_to tr in
      if memb s' (snd acc') then acc' else (s' :: fst acc', sadd s' (snd acc')))
      (succs s) acc) frontier ([], seen).

Fixpoint bfs (fuel : nat) (frontier : list state) (seen : sset) : option sset :=
  match frontier with
  | [] => Some seen
  | _ =>
      match fuel with
      | O => None
      | S f => let r := expand frontier seen in bfs f (fst r) (snd r)
      end
  end.

Definition from_opt (o : option sset) : sset :=
  match o with Some m => m | None => PositiveMap.empty (list state) end.

Definition reach_opt : option sset :=
  bfs 1000 [init_state] (sadd init_state (PositiveMap.empty (list state))).

Definition reach_set : sset := from_opt reach_opt.

(* ---- ranking certificate for the graph without declining steps *)
Definition rmap := PositiveMap.t (list (state * nat)).

Definition rlookup (s : state) (m : rmap) : option nat :=
  match PositiveMap.find (enc s) m with
  | Some b => match find (fun p => state_beq s (fst p)) b with Some p => Some (snd p) | None => None end
  | None => None
  end.

Definition rinsert (s : state) (r : nat) (m : rmap) : rmap :=
  match PositiveMap.find (enc s) m with
  | Some b => PositiveMap.add (enc s) ((s, r) :: b) m
  | None => PositiveMap.add (enc s) [(s, r)] m
  end.

Fixpoint dfs_rank (fuel : nat) (s : state) (memo : rmap) : option (rmap * nat) :=
  match rlookup s memo with
  | Some r => Some (memo, r)
  | None =>
      match fuel with
      | O => None
      | S f =>
          let fix go (l : list state) (memo : rmap) (mx : nat) : option (rmap * nat) :=
            match l with
            | [] => Some (memo, mx)
            | s' :: t =>
                match dfs_rank f s' memo with
                | None => None
                | Some (memo', r) => go t memo' (Nat.max mx (S r))
                end
            end in
          match go (nd_succs s) memo O with
          | None => None
          | Some (memo', r) => Some (rinsert s r memo', r)
          end
      end
  end.

Definition closed_states : list state := filter closed (all_states reach_set).

Definition rank_table : option rmap :=
  fold_left (fun acc s =>
    match acc with
    | None => None
    | Some memo => match dfs_rank 400 s memo with Some (memo', _) => Some memo' | None => None end
    end) closed_states (Some (PositiveMap.empty (list (state * nat)))).

Definition rank_of (m : rmap) (s : state) : nat :=
  match rlookup s m with Some r => r | None => O end.

(* ---- trace acceptance (nondeterministic simulation over state sets) *)
Definition tau_succs (s : state) : list state :=
  map t_to (filter (fun tr => match t_obs tr with None => true | Some _ => false end) (succs s)).

Definition obs_succs (o : obs) (s : state) : list state :=
  map t_to (filter (fun tr => match t_obs tr with Some o' => obs_beq o o' | None => false end) (succs s)).

(* closure of a set of states under unobservable steps *)
Fixpoint tau_close (fuel : nat) (frontier : list state) (seen : sset) : sset :=
  match frontier with
  | [] => seen
  | _ =>
      match fuel with
      | O => seen
      | S f =>
          let r := fold_left (fun acc s =>
                     fold_left (fun acc' s' => if memb s' (snd acc') then acc' else (s' :: fst acc', sadd s' (snd acc')))
                               (tau_succs s) acc) frontier ([], seen) in
          tau_close f (fst r) (snd r)
      end
  end.

Definition set_of (l : list state) : sset := fold_left (fun m s => if memb s m then m else sadd s m) l (PositiveMap.empty _).

Definition tclose (l : list state) : list state := all_states (tau_close 200 l (set_of l)).

Definition step_obs (cur : list state) (o : obs) : list state :=
  tclose (all_states (set_of (flat_map (obs_succs o) cur))).

Fixpoint run_trace (cur : list state) (tr : list obs) : bool :=
  match tr with
  | [] => match cur with [] => false | _ => true end
  | o :: t => match cur with [] => false | _ => run_trace (step_obs cur o) t end
  end.

(* repetitions of a data-loop event of the same thread are one skeleton step: drop an
   event when the previous event OF THE SAME THREAD is the same repeatable event *)
Definition obs_thread (o : obs) : thread :=
  match o with
  | OP_Stats | OP_PersistSeg | OP_LoadSeg | OP_PersistSnap | OP_Remove | OP_EvPersisterProgress => ThP
  | OM_PersistSeg | OM_LoadSeg | OM_EvMergeStart | OM_EvMergeIntro | OM_EvMergerProgress => ThM
  | OC_EvCloseStart | OC_Unlock | OC_EvClose => ThC
  end.

Definition repeatable (o : obs) : bool :=
  match o with OP_PersistSeg | OP_LoadSeg | OP_Remove => true | _ => false end.

Fixpoint collapse (lastP : option obs) (tr : list obs) : list obs :=
  match tr with
  | [] => []
  | o :: t =>
      match obs_thread o with
      | ThP =>
          if repeatable o && match lastP with Some o' => obs_beq o o' | None => false end
          then collapse lastP t
          else o :: collapse (Some o) t
      | _ => o :: collapse lastP t
      end
  end.

Definition accepts_trace (tr : list obs) : bool :=
  run_trace (tclose [init_state]) (collapse None tr).
