(* Conc/SkeletonProofs.v — theorems about the control skeleton of Conc/Skeleton.v.

   reach_closed        the computed set R contains every reachable state (BFS inside Coq; the
                       fuel is shown sufficient by the closure check); |R| stated
   close_no_deadlock   no reachable non-final state lacks a successor
   nd_paths_bounded    after Close, every path that never declines an enabled closeCh
                       alternative has length <= 30 (ranking certificate, checked)
   close_terminates    every run that declines only finitely often reaches
                       "all three loops done, Close returned"
   partner_answers     whenever a goroutine waits on sm.notifyCh the introducer is inside
                       introduceMerge for that request (and vice versa)
   notifier_never_full the send alternative of NotifyUsAfter is always enabled
   sites_match         the skeleton's blocking points are exactly the blocking rows of
                       Gen.ParamsConc.select_sites, with the same closeCh alternatives *)
From Coq Require Import List Bool Arith NArith PArith FMapPositive String Lia ZArith.
From Bluge Require Import Gen.ParamsConc Conc.Skeleton.
Import ListNotations.
Local Open Scope nat_scope.

(* ---- decidable equality of states *)
Lemma state_beq_eq : forall a b, state_beq a b = true -> a = b.
Proof.
  intros [i1 p1 m1 c1 w1 v1 a1] [i2 p2 m2 c2 w2 v2 a2]. unfold state_beq. simpl.
  rewrite !andb_true_iff. intros [[[[[[Hi Hp] Hm] Hc] Hw] Hv] Ha].
  apply internal_ipc_dec_bl in Hi. apply internal_ppc_dec_bl in Hp. apply internal_mpc_dec_bl in Hm.
  apply internal_cpc_dec_bl in Hc. apply internal_wst_dec_bl in Hw. apply internal_wst_dec_bl in Hv.
  apply Bool.eqb_prop in Ha. subst. reflexivity.
Qed.

Lemma memb_In : forall s m, memb s m = true -> In s (all_states m).
Proof.
  intros s m H. unfold memb in H.
  destruct (PositiveMap.find (enc s) m) as [b|] eqn:F; [|discriminate].
  apply existsb_exists in H. destruct H as [x [Hx Heq]]. apply state_beq_eq in Heq. subst x.
  apply PositiveMap.elements_correct in F.
  unfold all_states. apply in_flat_map. exists (enc s, b). split; assumption.
Qed.

(* ---- the computed reachable set *)
Definition R : sset := Eval vm_compute in reach_set.
Definition states : list state := Eval vm_compute in all_states R.

Lemma states_eq : states = all_states R.
Proof. vm_compute. reflexivity. Qed.

Inductive reach : state -> Prop :=
| reach_init : reach init_state
| reach_step s tr : reach s -> In tr (succs s) -> reach (t_to tr).

Definition closure_check : bool :=
  memb init_state R && forallb (fun s => forallb (fun tr => memb (t_to tr) R) (succs s)) states.

Lemma closure_check_ok : closure_check = true.
Proof. vm_compute. reflexivity. Qed.

Theorem reach_closed : forall s, reach s -> In s states.
Proof.
  assert (H : forall s, reach s -> memb s R = true).
  { pose proof closure_check_ok as C. unfold closure_check in C. apply andb_true_iff in C. destruct C as [C0 C1].
    rewrite forallb_forall in C1.
    intros s Hr. induction Hr as [| s tr Hr IH Hin]; [exact C0|].
    rewrite states_eq in C1. specialize (C1 s (memb_In _ _ IH)).
    rewrite forallb_forall in C1. apply C1. exact Hin. }
  intros s Hr. rewrite states_eq. apply memb_In. apply H. exact Hr.
Qed.

Lemma states_size : N.of_nat (List.length states) = 10341%N.
Proof. vm_compute. reflexivity. Qed.

(* lifting a boolean check over the computed set to all reachable states *)
Lemma lift_check : forall chk : state -> bool,
  forallb chk states = true -> forall s, reach s -> chk s = true.
Proof. intros chk H s Hr. rewrite forallb_forall in H. apply H. apply reach_closed. exact Hr. Qed.

(* ---- no deadlock *)
Definition is_nil {A} (l : list A) : bool := match l with [] => true | _ => false end.

Lemma no_deadlock_check : forallb (fun s => final s || negb (is_nil (succs s))) states = true.
Proof. vm_compute. reflexivity. Qed.

Theorem close_no_deadlock_all : forall s, reach s -> final s = false -> exists tr, In tr (succs s).
Proof.
  intros s Hr Hf. pose proof (lift_check _ no_deadlock_check s Hr) as H. simpl in H.
  rewrite Hf in H. simpl in H. destruct (succs s) as [|tr l]; [discriminate|].
  exists tr. left. reflexivity.
Qed.

(* ---- after Close: the graph without declining steps is acyclic *)
Definition ranks_from (o : option rmap) : rmap :=
  match o with Some m => m | None => PositiveMap.empty (list (state * nat)) end.
Definition ranks : rmap := Eval vm_compute in ranks_from rank_table.
Definition rk (s : state) : nat := rank_of ranks s.

Lemma rank_check :
  forallb (fun s => negb (closed s) || forallb (fun s' => (rk s' <? rk s)%nat) (nd_succs s)) states = true.
Proof. vm_compute. reflexivity. Qed.

Lemma rank_bound_check : forallb (fun s => (rk s <=? 30)%nat) states = true.
Proof. vm_compute. reflexivity. Qed.

Lemma closed_stable_check :
  forallb (fun s => negb (closed s) || forallb (fun tr => closed (t_to tr)) (succs s)) states = true.
Proof. vm_compute. reflexivity. Qed.

Lemma nd_stuck_check :
  forallb (fun s => negb (closed s) || final s || negb (is_nil (nd_succs s))) states = true.
Proof. vm_compute. reflexivity. Qed.

Lemma nd_succ_is_succ : forall s s', In s' (nd_succs s) -> exists tr, In tr (succs s) /\ t_to tr = s'.
Proof.
  intros s s' H. unfold nd_succs in H. apply in_map_iff in H. destruct H as [tr [Ht Hin]].
  apply filter_In in Hin. exists tr. tauto.
Qed.

Lemma nd_succ_reach : forall s s', reach s -> In s' (nd_succs s) -> reach s'.
Proof.
  intros s s' Hr H. destruct (nd_succ_is_succ _ _ H) as [tr [Hin Ht]]. subst s'. eapply reach_step; eassumption.
Qed.

Lemma nd_succ_closed : forall s s', reach s -> closed s = true -> In s' (nd_succs s) -> closed s' = true.
Proof.
  intros s s' Hr Hc H. destruct (nd_succ_is_succ _ _ H) as [tr [Hin Ht]]. subst s'.
  pose proof (lift_check _ closed_stable_check s Hr) as C. simpl in C. rewrite Hc in C. simpl in C.
  rewrite forallb_forall in C. apply C. exact Hin.
Qed.

Lemma nd_succ_rank : forall s s', reach s -> closed s = true -> In s' (nd_succs s) -> (rk s' < rk s)%nat.
Proof.
  intros s s' Hr Hc H. pose proof (lift_check _ rank_check s Hr) as C. simpl in C. rewrite Hc in C. simpl in C.
  rewrite forallb_forall in C. apply Nat.ltb_lt. apply C. exact H.
Qed.

Fixpoint is_nd_path (s : state) (l : list state) : Prop :=
  match l with
  | [] => True
  | s' :: t => In s' (nd_succs s) /\ is_nd_path s' t
  end.

Theorem nd_paths_bounded_all : forall l s, reach s -> closed s = true -> is_nd_path s l -> (List.length l <= 30)%nat.
Proof.
  assert (H : forall l s, reach s -> closed s = true -> is_nd_path s l -> (List.length l <= rk s)%nat).
  { induction l as [|s' t IH]; intros s Hr Hc Hp; simpl; [lia|].
    destruct Hp as [Hin Hp].
    pose proof (nd_succ_rank _ _ Hr Hc Hin) as Hlt.
    pose proof (IH s' (nd_succ_reach _ _ Hr Hin) (nd_succ_closed _ _ Hr Hc Hin) Hp). lia. }
  intros l s Hr Hc Hp. pose proof (H l s Hr Hc Hp) as H1.
  pose proof (lift_check _ rank_bound_check s Hr) as B. simpl in B. apply Nat.leb_le in B. lia.
Qed.

Theorem nd_stuck_is_final : forall s, reach s -> closed s = true -> nd_succs s = [] -> final s = true.
Proof.
  intros s Hr Hc Hn. pose proof (lift_check _ nd_stuck_check s Hr) as C. simpl in C.
  rewrite Hc, Hn in C. simpl in C. destruct (final s); [reflexivity|discriminate].
Qed.

(* runs: infinite sequences of states that follow the step relation, stuttering only where
   nothing is enabled *)
Definition is_run (run : nat -> state) : Prop :=
  run O = init_state /\
  forall i, (exists tr, In tr (succs (run i)) /\ t_to tr = run (S i)) \/
            (succs (run i) = [] /\ run (S i) = run i).

(* from step N on the run never declines an enabled closeCh alternative *)
Definition declines_finitely (run : nat -> state) : Prop :=
  exists N, forall i, (N <= i)%nat ->
    In (run (S i)) (nd_succs (run i)) \/ (succs (run i) = [] /\ run (S i) = run i).

Lemma run_reach : forall run, is_run run -> forall i, reach (run i).
Proof.
  intros run [H0 Hs] i. induction i as [|i IH].
  - rewrite H0. constructor.
  - destruct (Hs i) as [[tr [Hin Ht]] | [_ He]].
    + rewrite <- Ht. eapply reach_step; eassumption.
    + rewrite He. exact IH.
Qed.

Lemma run_closed_mono : forall run, is_run run -> forall i, closed (run i) = true -> forall j, (i <= j)%nat -> closed (run j) = true.
Proof.
  intros run Hrun i Hc j Hij. induction Hij as [|j Hij IH]; [exact Hc|].
  destruct Hrun as [H0 Hs]. destruct (Hs j) as [[tr [Hin Ht]] | [_ He]].
  - rewrite <- Ht. pose proof (lift_check _ closed_stable_check (run j) (run_reach run (conj H0 Hs) j)) as C.
    simpl in C. rewrite IH in C. simpl in C. rewrite forallb_forall in C. apply C. exact Hin.
  - rewrite He. exact IH.
Qed.

Lemma last_cons_default : forall (l : list state) a d, last (a :: l) d = last l a.
Proof.
  induction l as [|b l IH]; intros a d; [reflexivity|].
  change (last (a :: b :: l) d) with (last (b :: l) d). rewrite (IH b d), (IH b a). reflexivity.
Qed.

Theorem close_terminates_all :
  forall run, is_run run -> (exists i, closed (run i) = true) -> declines_finitely run ->
  exists k, final (run k) = true.
Proof.
  intros run Hrun [i0 Hc0] [N HN].
  set (n0 := Nat.max i0 N).
  assert (Hc : forall j, (n0 <= j)%nat -> closed (run j) = true).
  { intros j Hj. apply (run_closed_mono run Hrun i0 Hc0). unfold n0 in Hj. lia. }
  (* either some state within the next 31 steps has no successor at all, or we would get a
     non-declining path of length 31 *)
  assert (Hstep : forall k, (exists j, (n0 <= j)%nat /\ (j < n0 + k)%nat /\ succs (run j) = []) \/
                            (exists l, List.length l = k /\ is_nd_path (run n0) l /\ last l (run n0) = run (n0 + k)%nat)).
  { induction k as [|k IH].
    - right. exists []. simpl. rewrite Nat.add_0_r. auto.
    - destruct IH as [[j [Hj1 [Hj2 Hj3]]] | [l [Hl [Hp Hlast]]]].
      + left. exists j. repeat split; try assumption; lia.
      + destruct (HN (n0 + k)) as [Hnd | [He _]]; [unfold n0; lia| |].
        * right. exists (l ++ [run (S (n0 + k))])%list. split; [rewrite app_length; simpl; lia|]. split.
          -- clear Hl. revert Hp Hlast Hnd. generalize (run n0) as s0. induction l as [|a l IHl]; intros s0 Hp Hlast Hnd; simpl in *.
             ++ subst. split; [exact Hnd|exact I].
             ++ destruct Hp as [Ha Hp]. split; [exact Ha|]. apply IHl; try assumption.
                rewrite <- Hlast. symmetry. apply last_cons_default.
          -- rewrite last_last. f_equal. lia.
        * left. exists (n0 + k). repeat split; try lia. exact He. }
  destruct (Hstep 31) as [[j [Hj1 [Hj2 Hj3]]] | [l [Hl [Hp _]]]].
  - exists j. pose proof (run_reach run Hrun j) as Hr.
    destruct (final (run j)) eqn:F; [reflexivity|].
    destruct (close_no_deadlock_all _ Hr F) as [tr Hin]. rewrite Hj3 in Hin. destruct Hin.
  - pose proof (nd_paths_bounded_all l (run n0) (run_reach run Hrun n0) (Hc n0 (le_n _)) Hp). lia.
Qed.

(* ---- "partner must answer": the waits without a closeCh alternative *)
Lemma partner_check :
  forallb (fun s =>
    Bool.eqb (mpc_beq (sm s) M_wait) (ipc_beq (si s) I_mergeM) &&
    Bool.eqb (ppc_beq (sp s) P_mb_wait) (ipc_beq (si s) I_mergeP) &&
    (negb (ppc_beq (sp s) P_pip_wait) || ipc_beq (si s) I_persist || papp s)) states = true.
Proof. vm_compute. reflexivity. Qed.

Theorem partner_answers_all : forall s, reach s ->
  (sm s = M_wait <-> si s = I_mergeM) /\ (sp s = P_mb_wait <-> si s = I_mergeP) /\
  (sp s = P_pip_wait -> si s = I_persist \/ papp s = true).
Proof.
  intros s Hr. pose proof (lift_check _ partner_check s Hr) as C. simpl in C.
  apply andb_true_iff in C. destruct C as [C C3].
  apply andb_true_iff in C. destruct C as [C1 C2].
  apply Bool.eqb_prop in C1. apply Bool.eqb_prop in C2.
  split; [|split]; [split; intros H | split; intros H | intros H].
  - rewrite H in C1. simpl in C1. symmetry in C1. apply internal_ipc_dec_bl in C1. exact C1.
  - rewrite H in C1. simpl in C1. apply internal_mpc_dec_bl in C1. exact C1.
  - rewrite H in C2. simpl in C2. symmetry in C2. apply internal_ipc_dec_bl in C2. exact C2.
  - rewrite H in C2. simpl in C2. apply internal_ppc_dec_bl in C2. exact C2.
  - rewrite H in C3. simpl in C3. apply orb_true_iff in C3. destruct C3 as [C3|C3].
    + left. apply internal_ipc_dec_bl in C3. exact C3.
    + right. exact C3.
Qed.

(* the capacity-1 notifier channels are empty whenever NotifyUsAfter is called: its send
   alternative is always enabled (the notify send is never conditional on the partner) *)
Lemma notifier_check :
  forallb (fun s =>
    (negb (ppc_beq (sp s) P_start || ppc_beq (sp s) P_rewatch) || negb (wst_beq (pw s) WBuf)) &&
    (negb (mpc_beq (sm s) M_start || mpc_beq (sm s) M_rewatch) || negb (wst_beq (mw s) WBuf))) states = true.
Proof. vm_compute. reflexivity. Qed.

Theorem notifier_never_full_all : forall s, reach s ->
  ((sp s = P_start \/ sp s = P_rewatch) -> pw s <> WBuf) /\
  ((sm s = M_start \/ sm s = M_rewatch) -> mw s <> WBuf).
Proof.
  intros s Hr. pose proof (lift_check _ notifier_check s Hr) as C. simpl in C.
  apply andb_true_iff in C. destruct C as [C1 C2].
  split; intros H E.
  - rewrite E in C1. destruct H as [H|H]; rewrite H in C1; discriminate.
  - rewrite E in C2. destruct H as [H|H]; rewrite H in C2; discriminate.
Qed.

(* ---- sites_match: the generated table against the skeleton *)
Local Open Scope string_scope.

(* function, kind, cases, nesting depth (number of enclosing if / for / switch / select-clause /
   closure bodies: a send that becomes conditional changes it) *)
Definition site_key : Type := string * site_kind * list (string * chan_dir) * Z.
Definition row_key (r : site_row) : site_key := (s_func r, s_kind r, s_cases r, s_nest r).

Inductive site_class :=
| Blocking (st : site)            (* a blocking point of the skeleton *)
| NonBlocking.                    (* close(), WaitGroup.Add/Done: never block *)

(* the expected table, in the order of the generated one *)
Definition expected_sites : list (site_key * site_class) := [
  (("epochWatchers.NotifySatisfiedWatchers", SClose, [("w.notifyCh", DRecv)], 2%Z), NonBlocking);
  (("watcherChan.NotifyUsAfter", SSelect, [("closeCh", DRecv); ("w", DSend)], 0%Z), Blocking S_NotifyUsAfter);
  (("Writer.introducerLoop", SSelect, [("s.closeCh", DRecv); ("introducerNotifier", DRecv); ("merges", DRecv);
      ("introductions", DRecv); ("persists", DRecv)], 1%Z), Blocking S_intro_select);
  (("Writer.introducerLoop", SWgDone, [("s.asyncTasks", DRecv)], 0%Z), NonBlocking);
  (("Writer.introduceSegment", SSend, [("next.applied", DSend)], 3%Z), Blocking S_introSeg_send_applied);
  (("Writer.introduceSegment", SClose, [("next.applied", DRecv)], 3%Z), NonBlocking);
  (("Writer.introduceSegment", SClose, [("next.applied", DRecv)], 0%Z), NonBlocking);
  (("Writer.introducePersist", SClose, [("persist.applied", DRecv)], 0%Z), NonBlocking);
  (("Writer.introduceMerge", SSend, [("nextMerge.notifyCh", DSend)], 0%Z), Blocking S_introMerge_send_notify);
  (("Writer.introduceMerge", SClose, [("nextMerge.notifyCh", DRecv)], 0%Z), NonBlocking);
  (("Writer.mergerLoop", SWgDone, [("s.asyncTasks", DRecv)], 0%Z), NonBlocking);
  (("Writer.mergerLoop", SSelect, [("s.closeCh", DRecv); ("ew.notifyCh", DRecv)], 1%Z), Blocking S_merger_select);
  (("Writer.executeMergeTask", SSelect, [("s.closeCh", DRecv); ("merges", DSend)], 0%Z), Blocking S_exec_select);
  (("Writer.executeMergeTask", SRecv, [("sm.notifyCh", DRecv)], 0%Z), Blocking S_exec_recv_notify);
  (("Writer.mergeSegmentBases", SSelect, [("s.closeCh", DRecv); ("merges", DSend)], 0%Z), Blocking S_mb_select);
  (("Writer.mergeSegmentBases", SRecv, [("sm.notifyCh", DRecv)], 0%Z), Blocking S_mb_recv_notify);
  (("Writer.persisterLoop", SWgDone, [("s.asyncTasks", DRecv)], 0%Z), NonBlocking);
  (("Writer.persisterLoop", SSelect, [("s.closeCh", DRecv); ("persisterNotifier", DRecv);
      ("introducerEpochWatcher.notifyCh", DRecv)], 1%Z), Blocking S_pers_select);
  (("Writer.persisterLoop", SSend, [("ch", DSend)], 5%Z), Blocking S_pers_send_ack);
  (("Writer.persisterLoop", SClose, [("ch", DRecv)], 4%Z), NonBlocking);
  (("Writer.persisterLoop", SClose, [("ew.notifyCh", DRecv)], 4%Z), NonBlocking);
  (("Writer.pausePersisterForMergerCatchUp", SSelect, [("s.closeCh", DRecv);
      ("time.After(time.Millisecond * time.Duration(s.config.PersisterNapTimeMSec))", DRecv);
      ("persisterNotifier", DRecv)], 1%Z), Blocking S_nap_select);
  (("Writer.pausePersisterForMergerCatchUp", SSelect, [("s.closeCh", DRecv); ("persisterNotifier", DRecv)], 1%Z), Blocking S_slow_select);
  (("Writer.prepareIntroducePersist", SSelect, [("s.closeCh", DRecv); ("persists", DSend)], 0%Z), Blocking S_pip_send_select);
  (("Writer.prepareIntroducePersist", SRecv, [("persist.applied", DRecv)], 0%Z), Blocking S_pip_recv_applied);
  (("OpenWriter", SWgAdd, [("rv.asyncTasks", DRecv)], 0%Z), NonBlocking);
  (("OpenWriter", SWgAdd, [("rv.asyncTasks", DRecv)], 0%Z), NonBlocking);
  (("OpenWriter", SWgAdd, [("rv.asyncTasks", DRecv)], 0%Z), NonBlocking);
  (("Writer.close", SClose, [("s.closeCh", DRecv)], 0%Z), NonBlocking);
  (("Writer.close", SWgWait, [("s.asyncTasks", DRecv)], 0%Z), Blocking S_close_wait);
  (("Writer.prepareSegment", SSend, [("s.introductions", DSend)], 0%Z), Blocking S_caller_send_intro);
  (("Writer.prepareSegment", SRecv, [("introduction.applied", DRecv)], 0%Z), Blocking S_caller_recv_applied);
  (("Writer.prepareSegment", SRecv, [("introduction.persisted", DRecv)], 1%Z), Blocking S_caller_recv_persisted)
].

(* blocking sites without a closeCh alternative, and why they cannot block forever *)
Inductive no_close_reason :=
| PartnerAnswers     (* the partner is at the matching operation whenever this one waits
                        (partner_answers_all); derived from the code: the introducer sends on
                        notifyCh at the end of introduceMerge unconditionally *)
| BufferedOnce       (* capacity-1 channel receiving at most one value (chan_makes) *)
| CallerSide         (* executed by / answered by an application goroutine inside Batch,
                        which the property excludes once Close begins *)
| WaitsForLoops.     (* asyncTasks.Wait: released when the three loops are done *)

Definition no_close_sites : list (site * no_close_reason) := [
  (S_introSeg_send_applied, CallerSide);
  (S_introMerge_send_notify, PartnerAnswers);
  (S_exec_recv_notify, PartnerAnswers);
  (S_mb_recv_notify, PartnerAnswers);
  (S_pip_recv_applied, PartnerAnswers);
  (S_pers_send_ack, BufferedOnce);
  (S_close_wait, WaitsForLoops);
  (S_caller_send_intro, CallerSide);
  (S_caller_recv_applied, CallerSide);
  (S_caller_recv_persisted, CallerSide)
].

(* sites exercised by the environment only (the skeleton has no caller automaton) *)
Definition env_sites : list site := [S_caller_send_intro; S_caller_recv_applied; S_caller_recv_persisted].

Definition has_close_case (k : site_key) : bool :=
  existsb (fun c => (String.eqb (fst c) "s.closeCh" || String.eqb (fst c) "closeCh") &&
                    match snd c with DRecv => true | DSend => false end) (snd (fst k)).

Definition blocking_sites : list (site * site_key) :=
  flat_map (fun e => match snd e with Blocking st => [(st, fst e)] | NonBlocking => [] end) expected_sites.

Definition site_mem (st : site) (l : list site) : bool := existsb (site_beq st) l.

(* sites used by some transition of some reachable state, and those used by a closeCh
   alternative *)
Definition used_sites : list site :=
  Eval vm_compute in
    fold_left (fun acc s => fold_left (fun acc' tr =>
      fold_left (fun a st => if site_mem st a then a else st :: a) (t_sites tr) acc') (succs s) acc) states [].

Definition close_sites : list site :=
  Eval vm_compute in
    fold_left (fun acc s => fold_left (fun acc' tr =>
      if t_close tr then fold_left (fun a st => if site_mem st a then a else st :: a) (t_sites tr) acc' else acc')
      (succs s) acc) states [].

Definition sites_sets_ok : bool :=
  (* every blocking row is used by the skeleton or belongs to the environment *)
  forallb (fun p => site_mem (fst p) used_sites || site_mem (fst p) env_sites) blocking_sites &&
  (* every site the skeleton uses is a blocking row *)
  forallb (fun st => existsb (fun p => site_beq st (fst p)) blocking_sites) used_sites &&
  (* the closeCh alternatives agree: row has a closeCh case <-> the skeleton has a close step there *)
  forallb (fun p => Bool.eqb (has_close_case (snd p)) (site_mem (fst p) close_sites)) blocking_sites &&
  (* every blocking row has a closeCh case or is in the justified list, and not both *)
  forallb (fun p => Bool.eqb (has_close_case (snd p))
                             (negb (existsb (fun q => site_beq (fst p) (fst q)) no_close_sites))) blocking_sites.

Definition expected_chan_makes : list (string * string * Z) := [
  ("watcherChan.NotifyUsAfter", "notifyCh", 1%Z);
  ("Writer.executeMergeTask", "notifyCh", 0%Z);
  ("Writer.mergeSegmentBases", "notifyCh", 0%Z);
  ("Writer.prepareIntroducePersist", "applied", 0%Z);
  ("OpenWriter", "closeCh", 0%Z);
  ("OpenWriter", "rv.introductions", 0%Z);
  ("OpenWriter", "persistsCh", 0%Z);
  ("OpenWriter", "mergesCh", 0%Z);
  ("OpenWriter", "introducerNotifier", 1%Z);
  ("OpenWriter", "persistNotifier", 1%Z);
  ("Writer.prepareSegment", "applied", 0%Z);
  ("Writer.prepareSegment", "introduction.persisted", 1%Z)
].

Definition count_calls (caller callee : string) : nat :=
  List.length (filter (fun c => String.eqb (c_caller c) caller && String.eqb (c_callee c) callee) calls).

Definition notify_calls_ok : bool :=
  Nat.eqb (count_calls "Writer.persisterLoop" "watcherChan.NotifyUsAfter") 2 &&
  Nat.eqb (count_calls "Writer.mergerLoop" "watcherChan.NotifyUsAfter") 2 &&
  Nat.eqb (List.length (filter (fun c => String.eqb (c_callee c) "watcherChan.NotifyUsAfter") calls)) 4.

(* each loop signals asyncTasks.Done exactly once on every exit path: either the Done is
   deferred as the first statement, or the function has no return statement and ends
   with the Done *)
Definition exit_ok (e : exit_row) : bool :=
  Z.eqb (e_dones e) 1 &&
  (e_done_deferred_first e || (Z.eqb (e_returns e) 0 && e_done_last e)).

Definition loop_exits_ok : bool :=
  forallb exit_ok loop_exits &&
  Nat.eqb (List.length loop_exits) 3.

Lemma sites_rows_eq : map row_key select_sites = map fst expected_sites.
Proof. vm_compute. reflexivity. Qed.

Lemma sites_sets_ok_computed : sites_sets_ok = true.
Proof. vm_compute. reflexivity. Qed.

Lemma chan_makes_eq : chan_makes = expected_chan_makes.
Proof. vm_compute. reflexivity. Qed.

Lemma notify_calls_computed : notify_calls_ok = true.
Proof. vm_compute. reflexivity. Qed.

Lemma loop_exits_computed : loop_exits_ok = true.
Proof. vm_compute. reflexivity. Qed.

Theorem sites_match_all :
  map row_key select_sites = map fst expected_sites /\
  sites_sets_ok = true /\
  chan_makes = expected_chan_makes /\
  notify_calls_ok = true /\
  loop_exits_ok = true.
Proof.
  split; [|split; [|split; [|split]]].
  - exact sites_rows_eq.
  - exact sites_sets_ok_computed.
  - exact chan_makes_eq.
  - exact notify_calls_computed.
  - exact loop_exits_computed.
Qed.

(* non-vacuity of close_terminates: a reachable state just after close(closeCh) from which a
   path that never declines leads to the final state *)
Definition just_closed : state := set_c init_state C_wait.

Fixpoint greedy (n : nat) (s : state) : list state :=
  match n with
  | O => []
  | S k => match nd_succs s with [] => [] | s' :: _ => s' :: greedy k s' end
  end.

Lemma just_closed_reach : reach just_closed.
Proof.
  apply (reach_step (set_c init_state C_closing) (tau ThC just_closed)).
  - apply (reach_step init_state (ev ThC OC_EvCloseStart (set_c init_state C_closing))).
    + constructor.
    + vm_compute. tauto.
  - vm_compute. tauto.
Qed.

Example closing_run_exists :
  reach just_closed /\ closed just_closed = true /\
  exists l, is_nd_path just_closed l /\ final (last l just_closed) = true.
Proof.
  split; [exact just_closed_reach|]. split; [reflexivity|].
  exists (greedy 60 just_closed). vm_compute. repeat split; auto 40.
Qed.
