(* Conc/Lockset.v — a generic thread system for the lock discipline of C15 (model only,
   proofs in LocksetProofs.v).

   Threads run programs given as labelled transition systems over thread-local states.
   Global state: the local state of every thread, which threads have been started, the
   state of every (reader/writer) lock, and for every memory cell a ghost phase: a cell is
   first private to its creator and is published once (ghost action APublish).
   Memory contents are not modelled: a data race is a property of which accesses are
   simultaneously enabled, not of the values.

   Semantics of locks (small but real): acquiring blocks while the lock is held
   incompatibly (the acquire step simply is not enabled), only a holder can release.

   What a program *claims* at a local state — the set of locks it holds (`held`, the
   lexical lockset) and the cells it treats as still private (`priv`) — is static data of
   the program; LocksetProofs.v shows that for well-formed programs the claims are true
   in every reachable global state, and derives race freedom from the discipline. *)
From Coq Require Import List Bool Arith.
Import ListNotations.

Inductive lmode := MShared | MExcl.   (* RLock / Lock *)

Definition lmode_eqb (a b : lmode) : bool :=
  match a, b with MShared, MShared | MExcl, MExcl => true | _, _ => false end.

Section System.
  Variables tid lock cell : Type.
  Variable tid_eq_dec : forall a b : tid, {a = b} + {a <> b}.
  Variable lock_eq_dec : forall a b : lock, {a = b} + {a <> b}.
  Variable cell_eq_dec : forall a b : cell, {a = b} + {a <> b}.

  Inductive action :=
  | AAcq (l : lock) (m : lmode)
  | ARel (l : lock) (m : lmode)
  | ARead (x : cell)              (* plain read *)
  | AWrite (x : cell)             (* plain write *)
  | AAtomic (x : cell)            (* sync/atomic operation *)
  | ASpawn (t : tid)
  | APublish (x : cell)           (* ghost: x leaves the exclusive phase of its creator *)
  | ATau.

  Inductive lock_state :=
  | LFree
  | LExcl (t : tid)
  | LShared (ts : list tid).      (* multiset of readers, never empty *)

  Inductive phase := PhPrivate (t : tid) | PhPublished.

  (* A program: local states, labelled transitions, the lexical lockset and the private
     claims of each local state, the initial local state of each thread. *)
  Record program := mk_program {
    lstate : Type;
    next : tid -> lstate -> action -> lstate -> Prop;
    held : lstate -> list (lock * lmode);
    priv : lstate -> cell -> bool;
    linit : tid -> lstate;
    creator : cell -> tid;
    pmain : tid -> bool;          (* the threads that exist at the start *)
  }.

  Variable P : program.

  Record gstate := mk_gstate {
    loc : tid -> lstate P;
    started : tid -> bool;
    locks : lock -> lock_state;
    ph : cell -> phase;
  }.

  Definition upd {A B} (dec : forall a b : A, {a = b} + {a <> b}) (f : A -> B) (a : A) (v : B) : A -> B :=
    fun a' => if dec a' a then v else f a'.

  Fixpoint remove_one (t : tid) (ts : list tid) : list tid :=
    match ts with
    | [] => []
    | u :: r => if tid_eq_dec u t then r else u :: remove_one t r
    end.

  (* effect of an action of thread t on the locks; None = not enabled (blocks) *)
  Definition lock_effect (t : tid) (a : action) (lk : lock -> lock_state) : option (lock -> lock_state) :=
    match a with
    | AAcq l MExcl =>
        match lk l with LFree => Some (upd lock_eq_dec lk l (LExcl t)) | _ => None end
    | AAcq l MShared =>
        match lk l with
        | LFree => Some (upd lock_eq_dec lk l (LShared [t]))
        | LShared ts => Some (upd lock_eq_dec lk l (LShared (t :: ts)))
        | LExcl _ => None
        end
    | ARel l MExcl =>
        match lk l with
        | LExcl t' => if tid_eq_dec t' t then Some (upd lock_eq_dec lk l LFree) else None
        | _ => None
        end
    | ARel l MShared =>
        match lk l with
        | LShared ts =>
            if in_dec tid_eq_dec t ts
            then Some (upd lock_eq_dec lk l (match remove_one t ts with [] => LFree | r => LShared r end))
            else None
        | _ => None
        end
    | _ => Some lk
    end.

  Definition phase_effect (t : tid) (a : action) (p : cell -> phase) : option (cell -> phase) :=
    match a with
    | APublish x =>
        match p x with
        | PhPrivate t' => if tid_eq_dec t' t then Some (upd cell_eq_dec p x PhPublished) else None
        | PhPublished => None
        end
    | _ => Some p
    end.

  Definition spawn_effect (a : action) (st : tid -> bool) : option (tid -> bool) :=
    match a with
    | ASpawn t' => if st t' then None else Some (upd tid_eq_dec st t' true)
    | _ => Some st
    end.

  Inductive step : gstate -> gstate -> Prop :=
  | step_thread g t a s' lk' p' st' :
      started g t = true ->
      next P t (loc g t) a s' ->
      lock_effect t a (locks g) = Some lk' ->
      phase_effect t a (ph g) = Some p' ->
      spawn_effect a (started g) = Some st' ->
      step g (mk_gstate (upd tid_eq_dec (loc g) t s') st' lk' p').

  Definition initial (g : gstate) : Prop :=
    (forall t, loc g t = linit P t) /\
    (forall l, locks g l = LFree) /\
    (forall x, ph g x = PhPrivate (creator P x)) /\
    (forall t, started g t = pmain P t).

  Inductive reachable : gstate -> Prop :=
  | reach_init g : initial g -> reachable g
  | reach_step g g' : reachable g -> step g g' -> reachable g'.

  (* ---- data race: two different started threads are both enabled on plain accesses to
     the same cell, at least one of them a write *)
  Definition plain_access (a : action) (x : cell) (w : bool) : Prop :=
    (a = ARead x /\ w = false) \/ (a = AWrite x /\ w = true).

  Definition enabled_access (g : gstate) (t : tid) (x : cell) (w : bool) : Prop :=
    started g t = true /\ exists a s', next P t (loc g t) a s' /\ plain_access a x w.

  Definition race (g : gstate) (x : cell) : Prop :=
    exists t1 t2 w1 w2, t1 <> t2 /\ enabled_access g t1 x w1 /\ enabled_access g t2 x w2 /\ (w1 = true \/ w2 = true).

  (* ---- the discipline *)
  Inductive pol := PolGuard (l : lock) | PolOwner (t : tid) | PolFrozen | PolAtomicOnly.
  Variable policy : cell -> pol.

  (* static well-formedness of the program's claims *)
  Definition wf_program : Prop :=
    (forall t, held P (linit P t) = []) /\
    (forall t x, priv P (linit P t) x = true -> t = creator P x) /\
    (forall t s a s', next P t s a s' ->
       (* lexical lockset follows acquire/release in program order *)
       match a with
       | AAcq l m => held P s' = (l, m) :: held P s
       | ARel l m => exists h1 h2, held P s = h1 ++ (l, m) :: h2 /\ held P s' = h1 ++ h2
       | _ => held P s' = held P s
       end /\
       (* private claims are never regained; publishing ends the claim *)
       (forall x, priv P s' x = true -> priv P s x = true) /\
       match a with
       | APublish x => priv P s x = true /\ priv P s' x = false
       | _ => True
       end).

  (* the discipline, stated on the program text: every plain access is either to a cell
     claimed private, or satisfies the policy of the cell *)
  Definition disciplined : Prop :=
    forall t s a s' x w, next P t s a s' -> plain_access a x w ->
      priv P s x = true \/
      match policy x with
      | PolGuard l => In (l, MExcl) (held P s) \/ (w = false /\ In (l, MShared) (held P s))
      | PolOwner o => t = o
      | PolFrozen => w = false
      | PolAtomicOnly => False
      end.

  (* publication safety: a thread that accesses a cell it does not claim private does so
     only after the cell was published (references reach other threads only through
     synchronising operations executed after the creator finished initialising) *)
  Definition publication_safe : Prop :=
    forall g, reachable g -> forall t a s' x w,
      started g t = true -> next P t (loc g t) a s' -> plain_access a x w ->
      priv P (loc g t) x = false ->
      ph g x = PhPublished.

End System.

Arguments AAcq {tid lock cell} l m.
Arguments ARel {tid lock cell} l m.
Arguments ARead {tid lock cell} x.
Arguments AWrite {tid lock cell} x.
Arguments AAtomic {tid lock cell} x.
Arguments ASpawn {tid lock cell} t.
Arguments APublish {tid lock cell} x.
Arguments ATau {tid lock cell}.
Arguments LFree {tid}.
Arguments LExcl {tid} t.
Arguments LShared {tid} ts.
Arguments PhPrivate {tid} t.
Arguments PhPublished {tid}.
Arguments lstate {tid lock cell} p.
Arguments next {tid lock cell} p _ _ _ _.
Arguments held {tid lock cell} p _.
Arguments priv {tid lock cell} p _ _.
Arguments linit {tid lock cell} p _.
Arguments creator {tid lock cell} p _.
Arguments pmain {tid lock cell} p _.
Arguments loc {tid lock cell P} g _.
Arguments started {tid lock cell P} g _.
Arguments locks {tid lock cell P} g _.
Arguments ph {tid lock cell P} g _.
Arguments plain_access {tid lock cell} a x w.
Arguments PolGuard {tid lock} l.
Arguments PolOwner {tid lock} t.
Arguments PolFrozen {tid lock}.
Arguments PolAtomicOnly {tid lock}.
