(* Conc/Roles.v — HAND-WRITTEN role table and guard assignment for the generated access
   table Gen/ParamsConc.v (definitions only; proofs in Conc/Discipline.v).

   Thread classes.  TOpener is the goroutine running OpenWriter up to the three `go`
   statements (index/writer.go:126-131); TIntroducer / TPersister / TMerger are the three
   loops (one goroutine each per Writer: `spawns` has exactly one go statement for each, in
   OpenWriter); TCaller is any goroutine of the application (Batch, Reader, searches on a
   reader, Stats, MemoryUsed, Close, OpenReader, analysis workers).

   role_table: which classes may execute a function.  Functions that are not listed may
   run in every class (most conservative).  The table is validated against the generated
   call graph by `roles_consistent` (every callee allows at least the classes of each of
   its callers; escaping closures may run anywhere; exported functions allow TCaller).

   policy_table: the guard of each field, read off the code:
     Writer.root / rootPersisted / persistedCallbacks   rootLock (writer.go:43-49;
         replaceRoot introducer.go:338-356, persisterLoop persister.go:65-76,
         currentSnapshot writer.go:388-399 under RLock)
     Writer.nextSegmentID                                sync/atomic after open
         (writer.go:294, merge.go:137, merge.go:299); plain in OpenWriter before the loops
     Writer.stats                                        only as a path to its counters
     Stats.*                                             sync/atomic
     Writer.config/deletionPolicy/directory/segPlugin/introductions/closeCh
                                                         written while the Writer is private
                                                         (OpenWriter/OpenReader), then frozen
     Snapshot.parent/segment/offsets/epoch/size/creator  written only while the Snapshot is
                                                         a fresh local of its constructor
                                                         (introduce*, loadSnapshot, ...),
                                                         frozen once published
     Snapshot.refs                                       Snapshot.m  (snapshot.go:65-86)
     Snapshot.fieldTFRs                                  Snapshot.m2 (snapshot.go:388-427)
     closeOnLastRefCounter.refs                          closeOnLastRefCounter.m
     closeOnLastRefCounter.closer                        frozen after the literal
     KeepNLatestDeletionPolicy.*                         owned by the persister goroutine
         after open (persister.go:142,184,336); by the opener before (writer.go:113,164) *)
From Coq Require Import List Bool String Ascii Arith.
From Bluge Require Import Gen.ParamsConc.
Import ListNotations.
Open Scope string_scope.

Inductive tclass := TOpener | TIntroducer | TPersister | TMerger | TCaller.

Definition tclass_eqb (a b : tclass) : bool :=
  match a, b with
  | TOpener, TOpener | TIntroducer, TIntroducer | TPersister, TPersister
  | TMerger, TMerger | TCaller, TCaller => true
  | _, _ => false
  end.

Definition all_classes : list tclass := [TOpener; TIntroducer; TPersister; TMerger; TCaller].

Definition role_table : list (string * list tclass) := [
  ("OpenWriter", [TOpener]);
  ("Writer.loadSnapshots", [TOpener]);
  ("Writer.introducerLoop", [TIntroducer]);
  ("Writer.introduceSegment", [TIntroducer]);
  ("Writer.introducePersist", [TIntroducer]);
  ("Writer.introduceMerge", [TIntroducer]);
  ("Writer.persisterLoop", [TPersister]);
  ("Writer.pausePersisterForMergerCatchUp", [TPersister]);
  ("Writer.persistSnapshot", [TPersister]);
  ("Writer.persistSnapshotMaybeMerge", [TPersister]);
  ("Writer.persistSnapshotDirect", [TPersister]);
  ("Writer.prepareIntroducePersist", [TPersister]);
  ("Writer.mergeSegmentBases", [TPersister]);
  ("Writer.mergerLoop", [TMerger]);
  ("Writer.planMergeAtSnapshot", [TMerger]);
  ("Writer.executeMergeTask", [TMerger]);
  ("Writer.planSegmentsToMerge", [TMerger]);
  ("Writer.merge", [TPersister; TMerger]);
  ("KeepNLatestDeletionPolicy.Commit", [TOpener; TPersister]);
  ("KeepNLatestDeletionPolicy.Cleanup", [TOpener; TPersister]);
  ("KeepNLatestDeletionPolicy.cleanupSnapshots", [TOpener; TPersister]);
  ("KeepNLatestDeletionPolicy.cleanupSegments", [TOpener; TPersister])
].

Fixpoint assoc {A} (k : string) (l : list (string * A)) : option A :=
  match l with
  | [] => None
  | (k', v) :: t => if String.eqb k k' then Some v else assoc k t
  end.

Definition classes_of_func (f : string) : list tclass :=
  match assoc f role_table with Some cs => cs | None => all_classes end.

Definition closure_escaping (k : closure_kind) : bool :=
  match k with CEscaping => true | _ => false end.

Definition classes_of_row (r : access_row) : list tclass :=
  if closure_escaping (a_closure r) then all_classes else classes_of_func (a_func r).

(* the goroutine entry points: (function, its class) *)
Definition loop_entries : list (string * tclass) := [
  ("Writer.introducerLoop", TIntroducer);
  ("Writer.persisterLoop", TPersister);
  ("Writer.mergerLoop", TMerger)
].

(* exported functions that are entry points of a class other than TCaller, or are only
   called by the writer itself (the deletion policy is driven by the writer) *)
Definition exported_exempt : list string := [
  "OpenWriter"; "KeepNLatestDeletionPolicy.Commit"; "KeepNLatestDeletionPolicy.Cleanup"
].

(* ---- guard assignment *)
Inductive fpolicy := FGuarded (lockname : string) | FOwner (c : tclass) | FFrozen | FAtomic | FPathOnly.

Definition policy_table : list (string * list (string * fpolicy)) := [
  ("Writer", [
     ("stats", FPathOnly);
     ("nextSegmentID", FAtomic);
     ("config", FFrozen); ("deletionPolicy", FFrozen); ("directory", FFrozen);
     ("segPlugin", FFrozen); ("introductions", FFrozen); ("closeCh", FFrozen);
     ("root", FGuarded "Writer.rootLock");
     ("rootPersisted", FGuarded "Writer.rootLock");
     ("persistedCallbacks", FGuarded "Writer.rootLock") ]);
  ("Snapshot", [
     ("parent", FFrozen); ("segment", FFrozen); ("offsets", FFrozen); ("epoch", FFrozen);
     ("size", FFrozen); ("creator", FFrozen);
     ("refs", FGuarded "Snapshot.m");
     ("fieldTFRs", FGuarded "Snapshot.m2") ]);
  ("closeOnLastRefCounter", [
     ("closer", FFrozen);
     ("refs", FGuarded "closeOnLastRefCounter.m") ]);
  ("KeepNLatestDeletionPolicy", [
     ("n", FFrozen);
     ("liveEpochs", FOwner TPersister); ("deletableEpochs", FOwner TPersister);
     ("liveSegments", FOwner TPersister); ("knownSegmentFiles", FOwner TPersister) ])
].

Definition field_policy (st fld : string) : option fpolicy :=
  if String.eqb st "Stats" then Some FAtomic
  else match assoc st policy_table with
       | Some fs => assoc fld fs
       | None => None
       end.

(* methods that are only ever called on an object that is still private to the caller
   (constructor helpers), with the name of their receiver.  Validated on the generated
   call table by ctor_helpers_ok. *)
Definition ctor_helpers : list (string * string) := [
  ("Snapshot.updateSize", "i");
  ("Snapshot.ReadFrom", "i");
  ("Snapshot.readFromVersion1", "i")
].

Definition is_path (r : access_row) : bool := match a_kind r with KPath => true | _ => false end.
Definition is_lit (r : access_row) : bool := match a_kind r with KLit => true | _ => false end.

Definition closure_none (k : closure_kind) : bool := match k with CNone => true | _ => false end.

Definition in_ctor_helper (r : access_row) : bool :=
  match assoc (a_func r) ctor_helpers with
  | Some recv => String.eqb (a_base r) recv && closure_none (a_closure r)
  | None => false
  end.

(* the access is lexically to an object that no other thread can reach yet *)
Definition row_lex_excl (r : access_row) : bool := is_lit r || a_fresh r || in_ctor_helper r.

(* the lock `lname` of the accessed object itself is held (exclusively if needed) *)
Definition has_lock (r : access_row) (lname : string) (need_excl : bool) : bool :=
  existsb (fun h => String.eqb (hl_base h) (a_base r) && String.eqb (hl_name h) lname &&
                    (hl_excl h || negb need_excl)) (a_locks r).

Definition is_caller (c : tclass) : bool := match c with TCaller => true | _ => false end.

(* the access is allowed on a published object when made by a thread of class c *)
Definition shared_ok (r : access_row) (c : tclass) : bool :=
  match field_policy (a_struct r) (a_field r) with
  | Some (FGuarded l) => has_lock r l (a_write r)
  | Some (FOwner o) => tclass_eqb c o && negb (is_caller o)
  | Some FFrozen => negb (a_write r)
  | Some FAtomic => false        (* a plain access to an atomic-only cell *)
  | Some FPathOnly => false      (* the whole embedded struct read or written plainly *)
  | None => false
  end.

(* When must the program claim the cell private?  When the translator says the base is a
   fresh local / literal / constructor helper, or when the opener thread makes an access
   that would not be allowed on a published object. *)
Definition needs_priv (r : access_row) (c : tclass) : bool :=
  row_lex_excl r || (tclass_eqb c TOpener && negb (shared_ok r c)).

Definition row_ok_for (r : access_row) (c : tclass) : bool :=
  a_atomic r || is_path r || row_lex_excl r || shared_ok r c || tclass_eqb c TOpener.

Definition known_field (r : access_row) : bool :=
  match field_policy (a_struct r) (a_field r) with Some _ => true | None => false end.

Definition row_ok (r : access_row) : bool :=
  known_field r && forallb (row_ok_for r) (classes_of_row r).

(* ---- validation of the role table against the generated call graph *)
Definition subset_classes (a b : list tclass) : bool :=
  forallb (fun x => existsb (tclass_eqb x) b) a.

Definition call_ok (c : call_row) : bool :=
  subset_classes (if closure_escaping (c_closure c) then all_classes else classes_of_func (c_caller c))
                 (classes_of_func (c_callee c)).

Fixpoint has_dot (s : string) : bool :=
  match s with
  | EmptyString => false
  | String c r => Ascii.eqb c "."%char || has_dot r
  end.

Fixpoint last_comp (s : string) : string :=
  match s with
  | EmptyString => EmptyString
  | String c r =>
      if has_dot s then (if Ascii.eqb c "."%char && negb (has_dot r) then r else last_comp r) else s
  end.

Definition is_exported (f : string) : bool :=
  match last_comp f with
  | String c _ => let n := nat_of_ascii c in ((65 <=? n) && (n <=? 90))%nat
  | EmptyString => false
  end.

Definition exported_ok (f : string) : bool :=
  negb (is_exported f) || existsb (tclass_eqb TCaller) (classes_of_func f) ||
  existsb (String.eqb f) exported_exempt.

Definition all_funcs : list string :=
  map a_func accesses ++ map c_caller calls ++ map c_callee calls.

Definition named_spawns : list (string * string) :=
  map (fun c => (c_caller c, c_callee c))
      (filter (fun c => negb (String.eqb (c_callee c) "<closure>")) spawns).

Definition spawn_ok (c : call_row) : bool :=
  String.eqb (c_callee c) "<closure>" ||
  (String.eqb (c_caller c) "OpenWriter" && closure_none (c_closure c) &&
   match assoc (c_callee c) loop_entries with
   | Some cl => match classes_of_func (c_callee c) with
                | [cl'] => tclass_eqb cl cl'
                | _ => false
                end
   | None => false
   end).

Definition count_spawn (f : string) : nat :=
  List.length (filter (fun c => String.eqb (c_callee c) f) spawns).

Definition roles_consistent : bool :=
  forallb call_ok calls &&
  forallb exported_ok all_funcs &&
  forallb spawn_ok spawns &&
  forallb (fun e => Nat.eqb (count_spawn (fst e)) 1) loop_entries &&
  (* nobody calls a loop function directly *)
  forallb (fun c => match assoc (c_callee c) loop_entries with Some _ => false | None => true end) calls.

Definition ctor_helpers_ok : bool :=
  forallb (fun c =>
    match assoc (c_callee c) ctor_helpers with
    | None => true
    | Some _ =>
        closure_none (c_closure c) &&
        (c_recv_fresh c ||
         (c_recv_own c && match assoc (c_caller c) ctor_helpers with Some _ => true | None => false end))
    end) calls.

(* every entry of the policy table is exercised by at least one row *)
Definition policy_covered : bool :=
  forallb (fun sp =>
    forallb (fun fp => existsb (fun r => String.eqb (a_struct r) (fst sp) && String.eqb (a_field r) (fst fp)) accesses)
            (snd sp)) policy_table.

(* ---- reference hand-off (a LIFETIME rule, outside the data-race theorem): a new reference
   on a Snapshot may only be taken (Snapshot.addRef) by the function that created it (the
   receiver is a fresh local, the creator owns the initial reference), or on the snapshot
   read from X.root while X.rootLock is held (read or write mode): between reading the root
   pointer and taking the reference the introducer must not be able to replace the root and
   drop its last reference (index/writer.go currentSnapshot, index/persister.go:65-76). *)
Definition addref_ok (r : addref_row) : bool :=
  closure_none (r_closure r) &&
  (r_fresh r ||
   (negb (String.eqb (r_root_of r) "") &&
    existsb (fun h => String.eqb (hl_base h) (r_root_of r) && String.eqb (hl_name h) "Writer.rootLock") (r_locks r))).

Definition has_addref (fn : string) (from_root : bool) : bool :=
  existsb (fun r => String.eqb (r_func r) fn && Bool.eqb (negb (String.eqb (r_root_of r) "")) from_root) snapshot_addrefs.

Definition addrefs_ok : bool :=
  forallb addref_ok snapshot_addrefs &&
  has_addref "Writer.currentSnapshot" true && has_addref "Writer.persisterLoop" true.

Definition bad_rows : list access_row := filter (fun r => negb (row_ok r)) accesses.
