(* Conc/DisciplineExample.v — the hypotheses of writer_fields_race_free are satisfiable on a
   non-trivial instance: a three-thread program in which the opener publishes Writer.root and
   starts the introducer and a caller; the introducer writes Writer.root under rootLock
   (row of Writer.replaceRoot), the caller reads it under the read lock (row of
   Writer.currentSnapshot).  The program is well formed, publication safe and covered by the
   generated table, hence race free. *)
From Coq Require Import List Bool String Arith Lia.
From Bluge Require Import Gen.ParamsConc Conc.Lockset Conc.LocksetProofs Conc.Roles Conc.Discipline.
Import ListNotations.
Local Open Scope string_scope.

Definition x_root : wcell := (0, "Writer", "root").
Definition l_root : wlock := (0, "Writer.rootLock").

(* local state: (program kind, program counter); kind 0 opener, 1 introducer, 2 caller, 3 idle *)
Definition ex_kind (t : wtid) : nat :=
  match t with Opener => 0 | Introducer => 1 | Caller 0 => 2 | _ => 3 end.

Inductive ex_next : wtid -> nat * nat -> action wtid wlock wcell -> nat * nat -> Prop :=
| ex_o0 : ex_next Opener (0, 0) (APublish x_root) (0, 1)
| ex_o1 : ex_next Opener (0, 1) (ASpawn Introducer) (0, 2)
| ex_o2 : ex_next Opener (0, 2) (ASpawn (Caller 0)) (0, 3)
| ex_i0 : ex_next Introducer (1, 0) (AAcq l_root MExcl) (1, 1)
| ex_i1 : ex_next Introducer (1, 1) (AWrite x_root) (1, 2)
| ex_i2 : ex_next Introducer (1, 2) (ARel l_root MExcl) (1, 3)
| ex_c0 : ex_next (Caller 0) (2, 0) (AAcq l_root MShared) (2, 1)
| ex_c1 : ex_next (Caller 0) (2, 1) (ARead x_root) (2, 2)
| ex_c2 : ex_next (Caller 0) (2, 2) (ARel l_root MShared) (2, 3).

Definition ex_held (s : nat * nat) : list (wlock * lmode) :=
  match s with
  | (1, 1) | (1, 2) => [(l_root, MExcl)]
  | (2, 1) | (2, 2) => [(l_root, MShared)]
  | _ => []
  end.

Definition ex_priv (s : nat * nat) (x : wcell) : bool :=
  match s with
  | (0, 0) => if wcell_eq_dec x x_root then true else false
  | _ => false
  end.

Definition ex_prog : program wtid wlock wcell :=
  mk_program wtid wlock wcell (nat * nat)%type ex_next ex_held ex_priv
             (fun t => (ex_kind t, 0)) (fun _ => Opener)
             (fun t => match t with Opener => true | _ => false end).

Lemma ex_wf : wf_program wtid wlock wcell ex_prog.
Proof.
  split; [|split].
  - intros t. destruct t as [| | | |[|n]]; reflexivity.
  - intros t x H. simpl in H. destruct t as [| | | |[|n]]; simpl in H; try discriminate. reflexivity.
  - intros t s a s' H. simpl in H. destruct H; simpl; (split; [|split]);
      try reflexivity; try (intros x Hx; simpl in *; try discriminate; assumption); try exact I.
    + split; reflexivity.
    + exists [], []. split; reflexivity.
    + exists [], []. split; reflexivity.
Qed.

Notation ex_reachable := (reachable wtid wlock wcell wtid_eq_dec wlock_eq_dec wcell_eq_dec ex_prog).

(* the introducer and the caller run only after the opener has published the cell *)
Definition ex_inv (g : gstate wtid wlock wcell ex_prog) : Prop :=
  (forall t, fst (loc g t) = ex_kind t) /\
  ((snd (loc g Opener) = 0 /\ started g Introducer = false /\ started g (Caller 0) = false) \/
   ph g x_root = PhPublished).

Lemma ex_inv_reach : forall g, ex_reachable g -> ex_inv g.
Proof.
  intros g Hr. induction Hr as [g [Hl [_ [_ Hs]]] | g g' Hr IH Hstep].
  - split.
    + intros t. rewrite Hl. reflexivity.
    + left. rewrite Hl, !Hs. simpl. auto.
  - destruct IH as [Hk Hp].
    destruct Hstep as [g t a s' lk' p' st' Hst Hnext Hlk Hph Hsp].
    simpl in Hnext. split.
    + intros u. simpl. unfold upd. destruct (wtid_eq_dec u t) as [E|N]; [subst u|apply Hk].
      pose proof (Hk t) as Ht. destruct Hnext; reflexivity.
    + simpl. remember (loc g t) as s0 eqn:Es.
      destruct Hnext; simpl in Hlk, Hph, Hsp;
        try (inversion Hph; subst p'; clear Hph);
        try (inversion Hsp; subst st'; clear Hsp).
      * (* publish *)
        right. destruct (ph g x_root) as [tc|]; [|discriminate].
        destruct (wtid_eq_dec tc Opener); [|discriminate]. inversion Hph. unfold upd.
        destruct (wcell_eq_dec x_root x_root); [reflexivity|congruence].
      * (* spawn introducer: the opener is at pc 1, so the cell is published *)
        destruct Hp as [[H0 _]|Hp]; [rewrite <- Es in H0; simpl in H0; discriminate|].
        right. destruct (started g Introducer); [discriminate|]. inversion Hsp. exact Hp.
      * destruct Hp as [[H0 _]|Hp]; [rewrite <- Es in H0; simpl in H0; discriminate|].
        right. destruct (started g (Caller 0)); [discriminate|]. inversion Hsp. exact Hp.
      * destruct Hp as [[H0 [H1 _]]|Hp]; [congruence|right; exact Hp].
      * destruct Hp as [[H0 [H1 _]]|Hp]; [congruence|right; exact Hp].
      * destruct Hp as [[H0 [H1 _]]|Hp]; [congruence|right; exact Hp].
      * destruct Hp as [[H0 [_ H2]]|Hp]; [congruence|right; exact Hp].
      * destruct Hp as [[H0 [_ H2]]|Hp]; [congruence|right; exact Hp].
      * destruct Hp as [[H0 [_ H2]]|Hp]; [congruence|right; exact Hp].
Qed.

Lemma ex_publication_safe :
  publication_safe wtid wlock wcell wtid_eq_dec wlock_eq_dec wcell_eq_dec ex_prog.
Proof.
  intros g Hr t a s' x w Hst Hnext Hacc Hpriv.
  destruct (ex_inv_reach g Hr) as [_ Hp].
  simpl in Hnext. destruct Hnext; destruct Hacc as [[Ha Hw]|[Ha Hw]]; try discriminate; inversion Ha; subst x.
  - destruct Hp as [[_ [H1 H2]]|Hp]; [congruence|exact Hp].
  - destruct Hp as [[_ [H1 H2]]|Hp]; [congruence|exact Hp].
Qed.

Definition row_write_root : access_row :=
  match find (fun r => String.eqb (a_struct r) "Writer" && String.eqb (a_field r) "root" &&
                       String.eqb (a_func r) "Writer.replaceRoot" && a_write r) accesses with
  | Some r => r
  | None => mk_access "" "" "" false false KSel "" false CNone [] ""
  end.

Definition row_read_root : access_row :=
  match find (fun r => String.eqb (a_struct r) "Writer" && String.eqb (a_field r) "root" &&
                       String.eqb (a_func r) "Writer.currentSnapshot" && negb (a_write r)) accesses with
  | Some r => r
  | None => mk_access "" "" "" false false KSel "" false CNone [] ""
  end.

Lemma row_write_root_in : In row_write_root accesses.
Proof.
  unfold row_write_root.
  destruct (find _ accesses) as [r|] eqn:F; [apply find_some in F; tauto|].
  vm_compute in F. discriminate.
Qed.

Lemma row_read_root_in : In row_read_root accesses.
Proof.
  unfold row_read_root.
  destruct (find _ accesses) as [r|] eqn:F; [apply find_some in F; tauto|].
  vm_compute in F. discriminate.
Qed.

Lemma row_write_root_facts :
  a_struct row_write_root = "Writer" /\ a_field row_write_root = "root" /\ a_write row_write_root = true /\
  a_atomic row_write_root = false /\ is_path row_write_root = false /\
  existsb (tclass_eqb TIntroducer) (classes_of_row row_write_root) = true /\
  needs_priv row_write_root TIntroducer = false /\
  forallb (fun h => negb (String.eqb (hl_base h) (a_base row_write_root)) ||
                    (String.eqb (hl_name h) "Writer.rootLock" && hl_excl h)) (a_locks row_write_root) = true.
Proof. vm_compute. repeat split; reflexivity. Qed.

Lemma row_read_root_facts :
  a_struct row_read_root = "Writer" /\ a_field row_read_root = "root" /\ a_write row_read_root = false /\
  a_atomic row_read_root = false /\ is_path row_read_root = false /\
  existsb (tclass_eqb TCaller) (classes_of_row row_read_root) = true /\
  needs_priv row_read_root TCaller = false /\
  forallb (fun h => negb (String.eqb (hl_base h) (a_base row_read_root)) ||
                    (String.eqb (hl_name h) "Writer.rootLock" && negb (hl_excl h))) (a_locks row_read_root) = true.
Proof. vm_compute. repeat split; reflexivity. Qed.

Lemma existsb_class_In : forall c l, existsb (tclass_eqb c) l = true -> In c l.
Proof.
  intros c l H. apply existsb_exists in H. destruct H as [x [Hx He]].
  assert (c = x) by (destruct c, x; simpl in He; congruence). subst. exact Hx.
Qed.

Lemma ex_table_covers : table_covers ex_prog.
Proof.
  intros t s a s' o st fld w Hnext Hacc. simpl in Hnext.
  destruct Hnext; destruct Hacc as [[Ha Hw]|[Ha Hw]]; try discriminate; inversion Ha; subst o st fld w.
  - (* the introducer's write *)
    destruct row_write_root_facts as [F1 [F2 [F3 [F4 [F5 [F6 [F7 F8]]]]]]].
    exists row_write_root. split; [exact row_write_root_in|].
    repeat (split; [assumption|]). split; [apply existsb_class_In; exact F6|]. split.
    + intros h Hh Hb. rewrite forallb_forall in F8. specialize (F8 h Hh).
      apply String.eqb_eq in Hb. rewrite Hb in F8. simpl in F8.
      apply andb_true_iff in F8. destruct F8 as [Hn He]. apply String.eqb_eq in Hn.
      rewrite Hn, He. simpl. left. reflexivity.
    + simpl. rewrite F7. discriminate.
  - (* the caller's read *)
    destruct row_read_root_facts as [F1 [F2 [F3 [F4 [F5 [F6 [F7 F8]]]]]]].
    exists row_read_root. split; [exact row_read_root_in|].
    repeat (split; [assumption|]). split; [apply existsb_class_In; exact F6|]. split.
    + intros h Hh Hb. rewrite forallb_forall in F8. specialize (F8 h Hh).
      apply String.eqb_eq in Hb. rewrite Hb in F8. simpl in F8.
      apply andb_true_iff in F8. destruct F8 as [Hn He]. apply String.eqb_eq in Hn.
      apply negb_true_iff in He. rewrite Hn, He. simpl. left. reflexivity.
    + simpl. rewrite F7. discriminate.
Qed.

(* the instance is not trivial: a state is reachable in which the introducer is about to
   write the root while the caller is started too *)
Example instance_satisfies_hypotheses :
  wf_program wtid wlock wcell ex_prog /\
  publication_safe wtid wlock wcell wtid_eq_dec wlock_eq_dec wcell_eq_dec ex_prog /\
  table_covers ex_prog /\
  (exists s s', next ex_prog Introducer s (AWrite x_root) s') /\
  (exists s s', next ex_prog (Caller 0) s (ARead x_root) s').
Proof.
  split; [exact ex_wf|]. split; [exact ex_publication_safe|]. split; [exact ex_table_covers|].
  split; [exists (1, 1), (1, 2); constructor | exists (2, 1), (2, 2); constructor].
Qed.
