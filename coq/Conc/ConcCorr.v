(* Conc/ConcCorr.v — correspondence cases of engine `conc` (C15).

   CTrace tr: the control-point events recorded in one scenario of the real writer (role of
   the calling goroutine determined from its stack: persisterLoop / mergerLoop / Close), in
   their global order: directory operations of the persister and merger (Stats, Persist
   segment, Load segment, Persist snapshot, Remove), EventCallback kinds (PersisterProgress,
   MergeTaskIntroductionStart, MergeTaskIntroduction, MergerProgress, CloseStart, Close),
   directory Unlock by Close.  The case checks that the sequence is a path of the skeleton
   (Skeleton.accepts_trace); a scenario that ran Close to completion must in addition end
   in the skeleton's final state (CTraceClosed). *)
From Coq Require Import List Bool.
From Bluge Require Import Base.Corr Conc.Skeleton.
Import ListNotations.

Inductive case :=
| CTrace (tr : list obs)
| CTraceClosed (tr : list obs).

Definition ends_final (tr : list obs) : bool :=
  let fix go (cur : list state) (t : list obs) : list state :=
    match t with
    | [] => cur
    | o :: r => match cur with [] => [] | _ => go (step_obs cur o) r end
    end in
  existsb final (go (tclose [init_state]) (collapse None tr)).

Definition check (c : case) : bool :=
  match c with
  | CTrace tr => accepts_trace tr
  | CTraceClosed tr => ends_final tr
  end.

Definition mismatches (l : list case) : list nat := failing check l.
