(* Conc/ConcCorr.v — correspondence cases of engine `conc` (C15).

   CTrace tr: the control-point events recorded in one scenario of the real writer (role of
   the calling goroutine determined from its stack: persisterLoop / mergerLoop / Close), in
   their global order: directory operations of the persister and merger (Stats, Persist
   segment, Load segment, Persist snapshot, Remove), EventCallback kinds (PersisterProgress,
   MergeTaskIntroductionStart, MergeTaskIntroduction, MergerProgress, CloseStart, Close),
   directory Unlock by Close.  The case checks that the sequence is a path of the skeleton
   (Skeleton.accepts_trace); a scenario that ran Close to completion must in addition end
   in the skeleton's final state (CTraceClosed). *)
From Coq Require Import List Bool.
From Bluge Require Import Base.Corr Conc.Skeleton.
Import ListNotations.

Inductive case :=
| CTrace (tr : list obs)
| CTraceClosed (tr : list obs).

Definition ends_final (tr : list obs) : bool :=
  let fix go (cur : list state) (t : list obs) : list state :=
    match t with
    | [] => cur
    | o :: r => match cur with [] => [] | _ => go (step_obs cur o) r end
    end in
  existsb final (go (tclose [init_state]) (collapse None tr)).

Definition check (c : case) : bool :=
  match c with
  | CTrace tr => accepts_trace tr
  | CTraceClosed tr => ends_final tr
  end.

Definition mismatches (l : list case) : list nat := failing check l.

(* diagnostic: the position (in the collapsed trace) and the event at which the set of
   skeleton states compatible with the trace becomes empty; None when the whole trace is a
   path.  For CTraceClosed a trace that is a path but does not end in the final state gives
   (length, None). *)
Fixpoint reject_from (cur : list state) (n : nat) (t : list obs) : option (nat * option obs) :=
  match t with
  | [] => None
  | o :: r =>
      match step_obs cur o with
      | [] => Some (n, Some o)
      | nxt => reject_from nxt (S n) r
      end
  end.

Definition first_reject (c : case) : option (nat * option obs) :=
  match c with
  | CTrace tr => reject_from (tclose [init_state]) O (collapse None tr)
  | CTraceClosed tr =>
      match reject_from (tclose [init_state]) O (collapse None tr) with
      | Some r => Some r
      | None => if ends_final tr then None else Some (List.length (collapse None tr), None)
      end
  end.

Definition collapsed (c : case) : list obs :=
  match c with CTrace tr | CTraceClosed tr => collapse None tr end.
