(* Conc/Discipline.v — the generated access table satisfies the lock discipline, and the
   discipline gives race freedom on the tabulated fields by instantiating
   LocksetProofs.lockset_sound_all.

   What the instantiation assumes (hypotheses of writer_fields_race_free_all):
     - the program is well formed in the sense of Lockset.wf_program (its lexical locksets
       follow its acquire/release actions; private claims end at publication);
     - publication safety (Lockset.publication_safe);
     - table_covers: every plain access the program can make to a tabulated field is
       described by a row of Gen.ParamsConc.accesses — same struct/field/read-write, made by
       a thread whose class the role table allows for the row's function, while holding (on
       the accessed object) the locks the row lists, and on a private object whenever the
       row says so.  This is the statement "the translator's lexical lock analysis is
       right and the hand-written role table is right"; it is trusted (the role table is
       additionally validated against the generated call graph: roles_consistent_holds,
       and at run time by the race detector of engine conc). *)
From Coq Require Import List Bool String Arith Lia.
From Bluge Require Import Gen.ParamsConc Conc.Lockset Conc.LocksetProofs Conc.Roles.
Import ListNotations.
Open Scope string_scope.

(* ---- the table checks (computed) *)

Lemma rows_ok_computed : forallb row_ok accesses = true.
Proof. vm_compute. reflexivity. Qed.

Lemma roles_consistent_computed : roles_consistent = true.
Proof. vm_compute. reflexivity. Qed.

Lemma ctor_helpers_computed : ctor_helpers_ok = true.
Proof. vm_compute. reflexivity. Qed.

Lemma policy_covered_computed : policy_covered = true.
Proof. vm_compute. reflexivity. Qed.

Lemma addrefs_computed : addrefs_ok = true.
Proof. vm_compute. reflexivity. Qed.

Lemma table_size_computed : (500 <=? List.length accesses)%nat = true.
Proof. vm_compute. reflexivity. Qed.

Theorem discipline_holds_all :
  (forall r, In r accesses -> row_ok r = true) /\
  roles_consistent = true /\ ctor_helpers_ok = true /\ policy_covered = true /\
  (500 <= List.length accesses)%nat /\
  addrefs_ok = true.
Proof.
  split; [|split; [|split; [|split; [|split]]]].
  - apply forallb_forall. exact rows_ok_computed.
  - exact roles_consistent_computed.
  - exact ctor_helpers_computed.
  - exact policy_covered_computed.
  - apply Nat.leb_le. exact table_size_computed.
  - exact addrefs_computed.
Qed.

(* non-vacuity: rows the discipline is really about are present in the table *)
Definition has_row (st fld fn : string) (w at_ : bool) (lk : option (string * bool)) : bool :=
  existsb (fun r => String.eqb (a_struct r) st && String.eqb (a_field r) fld && String.eqb (a_func r) fn &&
                    Bool.eqb (a_write r) w && Bool.eqb (a_atomic r) at_ &&
                    match lk with
                    | None => match a_locks r with [] => true | _ => false end
                    | Some (l, e) => has_lock r l e
                    end) accesses.

Lemma table_nonvacuous_computed :
  has_row "Writer" "root" "Writer.replaceRoot" true false (Some ("Writer.rootLock", true)) &&
  has_row "Writer" "root" "Writer.currentSnapshot" false false (Some ("Writer.rootLock", false)) &&
  has_row "Writer" "rootPersisted" "Writer.persisterLoop" true false (Some ("Writer.rootLock", true)) &&
  has_row "Writer" "nextSegmentID" "Writer.prepareSegment" true true None &&
  has_row "Snapshot" "refs" "Snapshot.decRef" true false (Some ("Snapshot.m", true)) &&
  has_row "Snapshot" "fieldTFRs" "Snapshot.recyclePostingsIterator" true false (Some ("Snapshot.m2", true)) &&
  has_row "closeOnLastRefCounter" "refs" "closeOnLastRefCounter.DecRef" true false (Some ("closeOnLastRefCounter.m", true)) &&
  has_row "KeepNLatestDeletionPolicy" "liveEpochs" "KeepNLatestDeletionPolicy.Commit" true false None &&
  has_row "Stats" "TotBatches" "Writer.Batch" true true None &&
  has_row "Stats" "TotBatches" "Writer.Stats" false true None = true.
Proof. vm_compute. reflexivity. Qed.

(* ---- instantiation of the generic thread system *)

Inductive wtid := Opener | Introducer | Persister | Merger | Caller (n : nat).

Definition class_of (t : wtid) : tclass :=
  match t with
  | Opener => TOpener | Introducer => TIntroducer | Persister => TPersister
  | Merger => TMerger | Caller _ => TCaller
  end.

Definition tid_of_class (c : tclass) : wtid :=
  match c with
  | TOpener => Opener | TIntroducer => Introducer | TPersister => Persister
  | TMerger => Merger | TCaller => Caller 0
  end.

(* a cell: object identity, struct name, field name; a lock: object identity, lock name *)
Definition wcell : Type := nat * string * string.
Definition wlock : Type := nat * string.

Definition wtid_eq_dec (a b : wtid) : {a = b} + {a <> b}.
Proof. decide equality. apply Nat.eq_dec. Defined.
Definition wlock_eq_dec (a b : wlock) : {a = b} + {a <> b}.
Proof. decide equality; [apply string_dec | apply Nat.eq_dec]. Defined.
Definition wcell_eq_dec (a b : wcell) : {a = b} + {a <> b}.
Proof. decide equality; [apply string_dec | decide equality; [apply string_dec | apply Nat.eq_dec]]. Defined.

Definition mode_of (excl : bool) : lmode := if excl then MExcl else MShared.

Definition policy_of_cell (x : wcell) : pol wtid wlock :=
  match x with
  | (o, st, fld) =>
      match field_policy st fld with
      | Some (FGuarded ln) => PolGuard (o, ln)
      | Some (FOwner c) => PolOwner (tid_of_class c)
      | Some FFrozen => PolFrozen
      | _ => PolAtomicOnly
      end
  end.

Section Instance.
  Variable P : program wtid wlock wcell.

  Definition table_covers : Prop :=
    forall t s a s' o st fld w,
      next P t s a s' -> plain_access a (o, st, fld) w ->
      exists r, In r accesses /\
        a_struct r = st /\ a_field r = fld /\ a_write r = w /\ a_atomic r = false /\ is_path r = false /\
        In (class_of t) (classes_of_row r) /\
        (forall h, In h (a_locks r) -> hl_base h = a_base r ->
                   In ((o, hl_name h), mode_of (hl_excl h)) (held P s)) /\
        (needs_priv r (class_of t) = true -> priv P s (o, st, fld) = true).

  Lemma tclass_eqb_eq : forall a b, tclass_eqb a b = true -> a = b.
  Proof. destruct a, b; simpl; congruence. Qed.

  Lemma class_of_owner : forall t c, class_of t = c -> is_caller c = false -> t = tid_of_class c.
  Proof. intros t c H Hc. destruct t; simpl in H; subst c; simpl in *; congruence. Qed.

  Lemma table_gives_discipline :
    table_covers -> disciplined wtid wlock wcell P policy_of_cell.
  Proof.
    intros Hcov t s a s' [[o st] fld] w Hnext Hacc.
    destruct (Hcov _ _ _ _ _ _ _ _ Hnext Hacc) as [r [Hin [Hst [Hfld [Hw [Hat [Hpath [Hcls [Hlocks Hpriv]]]]]]]]].
    pose proof (proj1 discipline_holds_all r Hin) as Hok.
    unfold row_ok in Hok. apply andb_true_iff in Hok. destruct Hok as [_ Hall].
    rewrite forallb_forall in Hall. specialize (Hall _ Hcls).
    unfold row_ok_for in Hall. rewrite Hat, Hpath in Hall. simpl in Hall.
    destruct (needs_priv r (class_of t)) eqn:Hnp.
    - left. apply Hpriv. reflexivity.
    - right. unfold needs_priv in Hnp. apply orb_false_iff in Hnp. destruct Hnp as [Hlex Hop].
      rewrite Hlex in Hall. simpl in Hall.
      assert (Hsh : shared_ok r (class_of t) = true).
      { destruct (shared_ok r (class_of t)) eqn:E; [reflexivity|].
        simpl in Hall. rewrite Hall in Hop. simpl in Hop. discriminate. }
      clear Hall Hop.
      unfold shared_ok in Hsh. unfold policy_of_cell. rewrite Hst, Hfld in Hsh.
      destruct (field_policy st fld) as [[ln | c | | | ]|]; try discriminate.
      + (* guarded *)
        unfold has_lock in Hsh. apply existsb_exists in Hsh. destruct Hsh as [h [Hh Hc]].
        apply andb_true_iff in Hc. destruct Hc as [Hc Hmode].
        apply andb_true_iff in Hc. destruct Hc as [Hbase Hname].
        apply String.eqb_eq in Hbase. apply String.eqb_eq in Hname.
        pose proof (Hlocks h Hh Hbase) as Hheld. rewrite Hname in Hheld.
        destruct (hl_excl h); simpl in *.
        * left. exact Hheld.
        * right. rewrite Hw in Hmode. destruct w; [discriminate|]. split; [reflexivity|exact Hheld].
      + (* owner *)
        apply andb_true_iff in Hsh. destruct Hsh as [Hc Hnc].
        apply tclass_eqb_eq in Hc. apply negb_true_iff in Hnc.
        apply class_of_owner; assumption.
      + (* frozen *)
        rewrite Hw in Hsh. destruct w; [discriminate|reflexivity].
  Qed.

  Theorem writer_fields_race_free_all :
    wf_program wtid wlock wcell P ->
    publication_safe wtid wlock wcell wtid_eq_dec wlock_eq_dec wcell_eq_dec P ->
    table_covers ->
    forall g, reachable wtid wlock wcell wtid_eq_dec wlock_eq_dec wcell_eq_dec P g ->
    forall x, ~ race wtid wlock wcell P g x.
  Proof.
    intros Hwf Hps Hcov. apply (lockset_sound_all wtid wlock wcell wtid_eq_dec wlock_eq_dec wcell_eq_dec P policy_of_cell Hwf).
    - apply table_gives_discipline. exact Hcov.
    - exact Hps.
  Qed.
End Instance.
