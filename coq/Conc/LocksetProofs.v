(* Conc/LocksetProofs.v — soundness of the lock discipline of Conc/Lockset.v.

   lock_claims_true : in every reachable state of a well-formed program the lexical
     lockset of each thread agrees exactly (as multisets) with the state of the locks —
     this is where the semantics of acquire (blocks while held) and release (holder only)
     is used.
   priv_claims_true : a cell claimed private by a thread is in its private phase.
   lockset_sound_all : well-formed + disciplined + publication-safe ==> no reachable
     state has a data race on any cell. *)
From Coq Require Import List Bool Arith Lia.
From Bluge Require Import Conc.Lockset.
Import ListNotations.

Section Proofs.
  Variables tid lock cell : Type.
  Variable tid_eq_dec : forall a b : tid, {a = b} + {a <> b}.
  Variable lock_eq_dec : forall a b : lock, {a = b} + {a <> b}.
  Variable cell_eq_dec : forall a b : cell, {a = b} + {a <> b}.
  Variable P : program tid lock cell.
  Variable policy : cell -> pol tid lock.

  Notation gstate := (gstate tid lock cell P).
  Notation step := (step tid lock cell tid_eq_dec lock_eq_dec cell_eq_dec P).
  Notation reachable := (reachable tid lock cell tid_eq_dec lock_eq_dec cell_eq_dec P).
  Notation initial := (initial tid lock cell P).
  Notation race := (race tid lock cell P).
  Notation wf_program := (wf_program tid lock cell P).
  Notation disciplined := (disciplined tid lock cell P policy).
  Notation publication_safe := (publication_safe tid lock cell tid_eq_dec lock_eq_dec cell_eq_dec P).
  Notation remove_one := (remove_one tid tid_eq_dec).

  Definition lmode_eq_dec (a b : lmode) : {a = b} + {a <> b}.
  Proof. decide equality. Qed.

  Definition lm_eq_dec (a b : lock * lmode) : {a = b} + {a <> b}.
  Proof. decide equality; try apply lmode_eq_dec; try apply lock_eq_dec. Qed.

  Definition cnt (h : list (lock * lmode)) (l : lock) (m : lmode) : nat := count_occ lm_eq_dec h (l, m).

  Lemma cnt_cons : forall l0 m0 h l m,
    cnt ((l0, m0) :: h) l m =
    (if lock_eq_dec l0 l then if lmode_eq_dec m0 m then 1 else 0 else 0) + cnt h l m.
  Proof.
    intros l0 m0 h l m. unfold cnt. simpl.
    destruct (lm_eq_dec (l0, m0) (l, m)) as [E | N].
    - inversion E; subst. destruct (lock_eq_dec l l); [|congruence]. destruct (lmode_eq_dec m m); [|congruence]. lia.
    - destruct (lock_eq_dec l0 l); [|lia]. destruct (lmode_eq_dec m0 m); [|lia]. subst. congruence.
  Qed.

  Lemma cnt_app_mid : forall h1 h2 l0 m0 l m,
    cnt (h1 ++ (l0, m0) :: h2) l m =
    cnt (h1 ++ h2) l m + (if lock_eq_dec l0 l then if lmode_eq_dec m0 m then 1 else 0 else 0).
  Proof.
    intros h1 h2 l0 m0 l m. unfold cnt. rewrite !count_occ_app.
    fold (cnt ((l0, m0) :: h2) l m). rewrite cnt_cons. unfold cnt. lia.
  Qed.

  Lemma cnt_in : forall h l m, In (l, m) h -> cnt h l m >= 1.
  Proof. intros h l m H. unfold cnt. apply (count_occ_In lm_eq_dec) in H. lia. Qed.

  Lemma count_remove_one : forall t ts u,
    In t ts ->
    count_occ tid_eq_dec (remove_one t ts) u + (if tid_eq_dec t u then 1 else 0) = count_occ tid_eq_dec ts u.
  Proof.
    intros t ts u. induction ts as [|a r IH]; simpl; intros Hin; [tauto|].
    destruct (tid_eq_dec a t) as [E | N].
    - subst a. destruct (tid_eq_dec t u); lia.
    - destruct Hin as [E | Hin]; [congruence|]. specialize (IH Hin). simpl.
      destruct (tid_eq_dec a u); destruct (tid_eq_dec t u); subst; try congruence; lia.
  Qed.

  (* the lexical lockset of every thread is exactly its share of the lock state *)
  Definition lock_inv (g : gstate) : Prop :=
    forall t l,
      cnt (held P (loc g t)) l MExcl =
        match locks g l with LExcl t' => if tid_eq_dec t' t then 1 else 0 | _ => 0 end /\
      cnt (held P (loc g t)) l MShared =
        match locks g l with LShared ts => count_occ tid_eq_dec ts t | _ => 0 end.

  Definition priv_inv (g : gstate) : Prop :=
    forall t x, priv P (loc g t) x = true -> ph g x = PhPrivate t.

  Lemma lock_inv_init : forall g, wf_program -> initial g -> lock_inv g.
  Proof.
    intros g [Hh _] [Hl [Hk _]] t l. rewrite Hl, Hh, Hk. unfold cnt. simpl. split; reflexivity.
  Qed.

  Lemma priv_inv_init : forall g, wf_program -> initial g -> priv_inv g.
  Proof.
    intros g [_ [Hp _]] [Hl [_ [Hc _]]] t x Hpr. rewrite Hl in Hpr. apply Hp in Hpr. rewrite Hc. congruence.
  Qed.

  Ltac upd_cases :=
    unfold upd in *;
    repeat match goal with
    | |- context [if ?d ?a ?b then _ else _] => destruct (d a b); subst; try congruence
    | H : context [if ?d ?a ?b then _ else _] |- _ => destruct (d a b); subst; try congruence
    end.

  Lemma lock_inv_step : forall g g', wf_program -> lock_inv g -> step g g' -> lock_inv g'.
  Proof.
    intros g g' [_ [_ Hwf]] Hinv Hstep.
    destruct Hstep as [g t a s' lk' p' st' Hst Hnext Hlk Hph Hsp].
    destruct (Hwf _ _ _ _ Hnext) as [Hheld _]. clear Hwf.
    intros u l. simpl.
    replace (upd tid_eq_dec (loc g) t s' u) with (if tid_eq_dec u t then s' else loc g u) by reflexivity.
    destruct (Hinv u l) as [Ie Is]. destruct (Hinv t l) as [Te Ts].
    destruct a as [l0 m | l0 m | x | x | x | t' | x | ]; simpl in Hlk;
      try (inversion Hlk; subst lk'; clear Hlk;
           destruct (tid_eq_dec u t) as [E|N]; [subst u; rewrite Hheld|]; split; assumption).
    - (* acquire *)
      destruct m.
      + (* shared *)
        destruct (locks g l0) as [| tx | ts] eqn:L0; try discriminate.
        * inversion Hlk; subst lk'; clear Hlk.
          destruct (tid_eq_dec u t) as [E|N].
          -- subst u. rewrite Hheld, !cnt_cons. unfold upd.
             destruct (lock_eq_dec l l0) as [El|Nl].
             ++ subst l0. rewrite L0 in *. destruct (lock_eq_dec l l); [|congruence].
                destruct (lmode_eq_dec MShared MExcl); [discriminate|].
                destruct (lmode_eq_dec MShared MShared); [|congruence]. simpl.
                destruct (tid_eq_dec t t); [|congruence]. split; lia.
             ++ destruct (lock_eq_dec l0 l); [congruence|]. split; simpl; assumption.
          -- unfold upd. destruct (lock_eq_dec l l0) as [El|Nl].
             ++ subst l0. rewrite L0 in *. simpl. destruct (tid_eq_dec t u); [congruence|]. split; lia.
             ++ split; assumption.
        * inversion Hlk; subst lk'; clear Hlk.
          destruct (tid_eq_dec u t) as [E|N].
          -- subst u. rewrite Hheld, !cnt_cons. unfold upd.
             destruct (lock_eq_dec l l0) as [El|Nl].
             ++ subst l0. rewrite L0 in *. destruct (lock_eq_dec l l); [|congruence].
                destruct (lmode_eq_dec MShared MExcl); [discriminate|].
                destruct (lmode_eq_dec MShared MShared); [|congruence]. simpl.
                destruct (tid_eq_dec t t); [|congruence]. split; lia.
             ++ destruct (lock_eq_dec l0 l); [congruence|]. split; simpl; assumption.
          -- unfold upd. destruct (lock_eq_dec l l0) as [El|Nl].
             ++ subst l0. rewrite L0 in *. simpl. destruct (tid_eq_dec t u); [congruence|]. split; lia.
             ++ split; assumption.
      + (* exclusive *)
        destruct (locks g l0) as [| tx | ts] eqn:L0; try discriminate.
        inversion Hlk; subst lk'; clear Hlk.
        destruct (tid_eq_dec u t) as [E|N].
        * subst u. rewrite Hheld, !cnt_cons. unfold upd.
          destruct (lock_eq_dec l l0) as [El|Nl].
          -- subst l0. rewrite L0 in *. destruct (lock_eq_dec l l); [|congruence].
             destruct (lmode_eq_dec MExcl MShared); [discriminate|].
             destruct (lmode_eq_dec MExcl MExcl); [|congruence]. simpl.
             destruct (tid_eq_dec t t); [|congruence]. split; lia.
          -- destruct (lock_eq_dec l0 l); [congruence|]. split; simpl; assumption.
        * unfold upd. destruct (lock_eq_dec l l0) as [El|Nl].
          -- subst l0. rewrite L0 in *. simpl. destruct (tid_eq_dec t u); [congruence|]. split; lia.
          -- split; assumption.
    - (* release *)
      destruct Hheld as [h1 [h2 [Hh Hh']]].
      destruct m.
      + (* shared *)
        destruct (locks g l0) as [| tx | ts] eqn:L0; try discriminate.
        destruct (in_dec tid_eq_dec t ts) as [Hin|]; [|discriminate].
        inversion Hlk; subst lk'; clear Hlk.
        pose proof (count_remove_one t ts u Hin) as Hc.
        destruct (tid_eq_dec u t) as [E|N].
        * subst u. rewrite Hh'. rewrite Hh in Te, Ts. rewrite cnt_app_mid in Te, Ts.
          unfold upd. destruct (lock_eq_dec l l0) as [El|Nl].
          -- subst l0. rewrite L0 in *. destruct (lock_eq_dec l l); [|congruence].
             destruct (lmode_eq_dec MShared MExcl); [discriminate|].
             destruct (lmode_eq_dec MShared MShared); [|congruence].
             destruct (tid_eq_dec t t); [|congruence].
             destruct (remove_one t ts) eqn:R; simpl in *; split; lia.
          -- destruct (lock_eq_dec l0 l); [congruence|]. split; lia.
        * unfold upd. destruct (lock_eq_dec l l0) as [El|Nl].
          -- subst l0. rewrite L0 in *. destruct (tid_eq_dec t u); [congruence|].
             destruct (remove_one t ts) eqn:R; simpl in *; split; lia.
          -- split; assumption.
      + (* exclusive *)
        destruct (locks g l0) as [| tx | ts] eqn:L0; try discriminate.
        destruct (tid_eq_dec tx t) as [Et|]; [subst tx|discriminate].
        inversion Hlk; subst lk'; clear Hlk.
        destruct (tid_eq_dec u t) as [E|N].
        * subst u. rewrite Hh'. rewrite Hh in Te, Ts. rewrite cnt_app_mid in Te, Ts.
          unfold upd. destruct (lock_eq_dec l l0) as [El|Nl].
          -- subst l0. rewrite L0 in *. destruct (lock_eq_dec l l); [|congruence].
             destruct (lmode_eq_dec MExcl MShared); [discriminate|].
             destruct (lmode_eq_dec MExcl MExcl); [|congruence].
             destruct (tid_eq_dec t t); [|congruence]. split; lia.
          -- destruct (lock_eq_dec l0 l); [congruence|]. split; lia.
        * unfold upd. destruct (lock_eq_dec l l0) as [El|Nl].
          -- subst l0. rewrite L0 in *. destruct (tid_eq_dec t u); [congruence|]. split; lia.
          -- split; assumption.
  Qed.

  Lemma priv_inv_step : forall g g', wf_program -> priv_inv g -> step g g' -> priv_inv g'.
  Proof.
    intros g g' [_ [_ Hwf]] Hinv Hstep.
    destruct Hstep as [g t a s' lk' p' st' Hst Hnext Hlk Hph Hsp].
    destruct (Hwf _ _ _ _ Hnext) as [_ [Hmono Hpub]]. clear Hwf.
    intros u x. simpl. unfold upd at 1.
    destruct (tid_eq_dec u t) as [E|N].
    - subst u. intros Hp.
      destruct a; simpl in Hph; try (inversion Hph; subst p'; apply Hinv, Hmono, Hp).
      destruct (ph g x0) as [tc|] eqn:Px; [|discriminate].
      destruct (tid_eq_dec tc t); [subst tc|discriminate].
      inversion Hph; subst p'. unfold upd. destruct (cell_eq_dec x x0) as [Ex|Nx].
      + subst x0. destruct Hpub as [_ Hf]. congruence.
      + apply Hinv, Hmono, Hp.
    - intros Hp. pose proof (Hinv u x Hp) as Hu.
      destruct a; simpl in Hph; try (inversion Hph; subst p'; exact Hu).
      destruct (ph g x0) as [tc|] eqn:Px; [|discriminate].
      destruct (tid_eq_dec tc t); [subst tc|discriminate].
      inversion Hph; subst p'. unfold upd. destruct (cell_eq_dec x x0) as [Ex|Nx]; [|exact Hu].
      subst x0. rewrite Hu in Px. inversion Px. congruence.
  Qed.

  Theorem lock_claims_true : forall g, wf_program -> reachable g -> lock_inv g.
  Proof.
    intros g Hwf Hr. induction Hr as [g Hi | g g' Hr IH Hs].
    - apply lock_inv_init; assumption.
    - eapply lock_inv_step; eassumption.
  Qed.

  Theorem priv_claims_true : forall g, wf_program -> reachable g -> priv_inv g.
  Proof.
    intros g Hwf Hr. induction Hr as [g Hi | g g' Hr IH Hs].
    - apply priv_inv_init; assumption.
    - eapply priv_inv_step; eassumption.
  Qed.

  (* mutual exclusion as seen through the lexical locksets *)
  Lemma excl_excludes : forall g t1 t2 l m,
    lock_inv g -> t1 <> t2 ->
    In (l, MExcl) (held P (loc g t1)) -> In (l, m) (held P (loc g t2)) -> False.
  Proof.
    intros g t1 t2 l m Hinv Hne H1 H2.
    apply cnt_in in H1. apply cnt_in in H2.
    destruct (Hinv t1 l) as [E1 _]. destruct (Hinv t2 l) as [E2 S2].
    destruct (locks g l) as [| tx | ts]; try lia.
    destruct (tid_eq_dec tx t1); [subst tx|lia].
    destruct m; [lia|]. destruct (tid_eq_dec t1 t2); [congruence|lia].
  Qed.

  Theorem lockset_sound_all :
    wf_program -> disciplined -> publication_safe ->
    forall g, reachable g -> forall x, ~ race g x.
  Proof.
    intros Hwf Hd Hps g Hr x [t1 [t2 [w1 [w2 [Hne [[S1 [a1 [s1 [N1 A1]]]] [[S2 [a2 [s2 [N2 A2]]]] Hw]]]]]]].
    pose proof (lock_claims_true g Hwf Hr) as HL.
    pose proof (priv_claims_true g Hwf Hr) as HP.
    pose proof (Hd _ _ _ _ _ _ N1 A1) as D1.
    pose proof (Hd _ _ _ _ _ _ N2 A2) as D2.
    destruct (priv P (loc g t1) x) eqn:P1; destruct (priv P (loc g t2) x) eqn:P2.
    - pose proof (HP _ _ P1) as Q1. pose proof (HP _ _ P2) as Q2. congruence.
    - pose proof (HP _ _ P1) as Q1. pose proof (Hps g Hr _ _ _ _ _ S2 N2 A2 P2) as Q2. congruence.
    - pose proof (HP _ _ P2) as Q2. pose proof (Hps g Hr _ _ _ _ _ S1 N1 A1 P1) as Q1. congruence.
    - destruct D1 as [D1|D1]; [congruence|]. destruct D2 as [D2|D2]; [congruence|].
      destruct (policy x) as [l | o | | ].
      + destruct Hw as [Hw|Hw]; subst.
        * destruct D1 as [D1|[D1 _]]; [|discriminate].
          destruct D2 as [D2|[_ D2]]; eapply (excl_excludes g t1 t2); eauto.
        * destruct D2 as [D2|[D2 _]]; [|discriminate].
          destruct D1 as [D1|[_ D1]]; eapply (excl_excludes g t2 t1); eauto.
      + congruence.
      + destruct Hw; subst; discriminate.
      + exact D1.
  Qed.

End Proofs.
