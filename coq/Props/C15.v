(* Props/C15.v — Writer and Reader are safe for concurrent use and Close terminates.
   Only statements, each closed by `exact`, with Print Assumptions beneath.

   FULL STATEMENT OF THE PROPERTY (properties.jsonl C15), not provable as a whole inside Coq:
     "A Writer may be used from any number of goroutines at once for batches and for
      obtaining Readers, and a Reader may serve any number of concurrent searches, without
      any data race.  Closing a writer whose callers have returned always terminates, also
      while merges and persists are in progress, and leaves an index that reopens with
      everything acknowledged."
   What is proved here:
     - lockset_sound: the generic lock discipline excludes data races (full, generic);
     - discipline_holds: every row of the regenerated access table obeys the discipline, the
       hand-written role table is consistent with the regenerated call graph (full);
     - writer_fields_race_free_partial: hence no race on the tabulated struct fields, for
       every program covered by the table (PARTIAL: memory not reached through the tabulated
       fields — slice elements, maps, roaring bitmaps, ice internals — and the Go memory
       model are only observed by the race detector of engine conc; the lexical lock
       analysis of the translator and the role table are hypotheses, see table_covers);
     - sites_match / close_no_deadlock / close_terminates_partial: over the finite control
       skeleton of the three loops and Close (PARTIAL: the skeleton is tied to the code by
       sites_match and by trace inclusion of recorded runs, not by a refinement proof;
       termination is under the assumption that an enabled closeCh alternative is declined
       only finitely often, which holds with probability 1 for Go's uniform select). *)
From Coq Require Import List Bool String Arith ZArith.
From Bluge Require Import Gen.ParamsConc Conc.Lockset Conc.LocksetProofs Conc.Roles Conc.Discipline
  Conc.DisciplineExample Conc.Skeleton Conc.SkeletonProofs.
Import ListNotations.

(* (a) the generic thread system: well-formed claims + discipline + publication safety
   exclude every data race in every reachable state *)
Theorem lockset_sound :
  forall (tid lock cell : Type)
         (tid_eq_dec : forall a b : tid, {a = b} + {a <> b})
         (lock_eq_dec : forall a b : lock, {a = b} + {a <> b})
         (cell_eq_dec : forall a b : cell, {a = b} + {a <> b})
         (P : program tid lock cell) (policy : cell -> pol tid lock),
    wf_program tid lock cell P ->
    disciplined tid lock cell P policy ->
    publication_safe tid lock cell tid_eq_dec lock_eq_dec cell_eq_dec P ->
    forall g, reachable tid lock cell tid_eq_dec lock_eq_dec cell_eq_dec P g ->
    forall x, ~ race tid lock cell P g x.
Proof. exact lockset_sound_all. Qed.
Print Assumptions lockset_sound.

(* the lexical lockset of every thread agrees with the real state of the locks: acquire
   blocks while held, release only by a holder *)
Theorem lock_claims_hold :
  forall (tid lock cell : Type)
         (tid_eq_dec : forall a b : tid, {a = b} + {a <> b})
         (lock_eq_dec : forall a b : lock, {a = b} + {a <> b})
         (cell_eq_dec : forall a b : cell, {a = b} + {a <> b})
         (P : program tid lock cell) g,
    wf_program tid lock cell P ->
    reachable tid lock cell tid_eq_dec lock_eq_dec cell_eq_dec P g ->
    lock_inv tid lock cell tid_eq_dec lock_eq_dec P g.
Proof. exact lock_claims_true. Qed.
Print Assumptions lock_claims_hold.

(* (b) every row of the generated table satisfies the discipline; the role table is
   consistent with the generated call graph and go statements; constructor helpers are only
   called on private objects; every policy entry is exercised; the table has >= 500 rows
   (834 on the pinned tree) *)
Theorem discipline_holds :
  (forall r, In r accesses -> row_ok r = true) /\
  roles_consistent = true /\ ctor_helpers_ok = true /\ policy_covered = true /\
  (500 <= List.length accesses)%nat /\
  (* reference hand-off: every Snapshot.addRef is by the creator of the snapshot or on the
     root read under rootLock (table snapshot_addrefs; a lifetime rule, not a data-race rule) *)
  addrefs_ok = true.
Proof. exact discipline_holds_all. Qed.
Print Assumptions discipline_holds.

Example table_nonvacuous :
  has_row "Writer" "root" "Writer.replaceRoot" true false (Some ("Writer.rootLock", true)) &&
  has_row "Writer" "root" "Writer.currentSnapshot" false false (Some ("Writer.rootLock", false)) &&
  has_row "Writer" "rootPersisted" "Writer.persisterLoop" true false (Some ("Writer.rootLock", true)) &&
  has_row "Writer" "nextSegmentID" "Writer.prepareSegment" true true None &&
  has_row "Snapshot" "refs" "Snapshot.decRef" true false (Some ("Snapshot.m", true)) &&
  has_row "Snapshot" "fieldTFRs" "Snapshot.recyclePostingsIterator" true false (Some ("Snapshot.m2", true)) &&
  has_row "closeOnLastRefCounter" "refs" "closeOnLastRefCounter.DecRef" true false (Some ("closeOnLastRefCounter.m", true)) &&
  has_row "KeepNLatestDeletionPolicy" "liveEpochs" "KeepNLatestDeletionPolicy.Commit" true false None &&
  has_row "Stats" "TotBatches" "Writer.Batch" true true None &&
  has_row "Stats" "TotBatches" "Writer.Stats" false true None = true.
Proof. exact table_nonvacuous_computed. Qed.
Print Assumptions table_nonvacuous.

(* instantiation: threads = opener / introducer / persister / merger / callers, cells =
   (object, struct, field), locks = (object, lock name).  For every program all of whose
   plain accesses to tabulated fields are described by rows of the table (table_covers),
   no reachable state has a data race on a tabulated field. *)
Theorem writer_fields_race_free_partial :
  forall P : program wtid wlock wcell,
    wf_program wtid wlock wcell P ->
    publication_safe wtid wlock wcell wtid_eq_dec wlock_eq_dec wcell_eq_dec P ->
    table_covers P ->
    forall g, reachable wtid wlock wcell wtid_eq_dec wlock_eq_dec wcell_eq_dec P g ->
    forall x, ~ race wtid wlock wcell P g x.
Proof. exact writer_fields_race_free_all. Qed.
Print Assumptions writer_fields_race_free_partial.

(* the hypotheses of writer_fields_race_free_partial are satisfiable on a non-trivial program:
   the opener publishes Writer.root and starts the introducer and a caller; the introducer
   writes the root under rootLock (the row of Writer.replaceRoot), the caller reads it under
   the read lock (the row of Writer.currentSnapshot) *)
Example race_free_hypotheses_satisfiable :
  wf_program wtid wlock wcell ex_prog /\
  publication_safe wtid wlock wcell wtid_eq_dec wlock_eq_dec wcell_eq_dec ex_prog /\
  table_covers ex_prog /\
  (exists s s', next ex_prog Introducer s (AWrite x_root) s') /\
  (exists s s', next ex_prog (Caller 0) s (ARead x_root) s').
Proof. exact instance_satisfies_hypotheses. Qed.
Print Assumptions race_free_hypotheses_satisfiable.

(* (c) the blocking points of the skeleton are exactly the blocking rows of the generated
   select-site table, with the same closeCh alternatives; channel capacities, the calls of
   NotifyUsAfter and the placement of asyncTasks.Done are as the skeleton assumes *)
Theorem sites_match :
  map row_key select_sites = map fst expected_sites /\
  sites_sets_ok = true /\
  chan_makes = expected_chan_makes /\
  notify_calls_ok = true /\
  loop_exits_ok = true.
Proof. exact sites_match_all. Qed.
Print Assumptions sites_match.

(* the reachable set of the skeleton, computed inside Coq (10341 states), contains every
   reachable state *)
Theorem skeleton_reach_closed :
  (forall s, reach s -> In s states) /\ N.of_nat (List.length states) = 10341%N.
Proof. exact (conj reach_closed states_size). Qed.
Print Assumptions skeleton_reach_closed.

(* the waits that have no closeCh alternative are answered: a goroutine waits on
   sm.notifyCh exactly while the introducer is inside introduceMerge for its request, and
   on persist.applied only while the introducer is inside introducePersist (or has closed it) *)
Theorem partner_answers :
  forall s, reach s ->
    (sm s = M_wait <-> si s = I_mergeM) /\ (sp s = P_mb_wait <-> si s = I_mergeP) /\
    (sp s = P_pip_wait -> si s = I_persist \/ papp s = true).
Proof. exact partner_answers_all. Qed.
Print Assumptions partner_answers.

(* the notify send of NotifyUsAfter is never blocked by a full notifier channel *)
Theorem notifier_never_full :
  forall s, reach s ->
    ((sp s = P_start \/ sp s = P_rewatch) -> pw s <> WBuf) /\
    ((sm s = M_start \/ sm s = M_rewatch) -> mw s <> WBuf).
Proof. exact notifier_never_full_all. Qed.
Print Assumptions notifier_never_full.

(* no reachable non-final state of the skeleton lacks a successor *)
Theorem close_no_deadlock :
  forall s, reach s -> final s = false -> exists tr, In tr (succs s).
Proof. exact close_no_deadlock_all. Qed.
Print Assumptions close_no_deadlock.

(* after Close, a path that never declines an enabled closeCh alternative has at most 30
   steps, and where it stops all three loops are done and Close has returned *)
Theorem close_bounded_without_declines :
  (forall l s, reach s -> closed s = true -> is_nd_path s l -> (List.length l <= 30)%nat) /\
  (forall s, reach s -> closed s = true -> nd_succs s = [] -> final s = true).
Proof. exact (conj nd_paths_bounded_all nd_stuck_is_final). Qed.
Print Assumptions close_bounded_without_declines.

(* every run of the skeleton in which Close begins and an enabled closeCh alternative is
   declined only finitely often reaches the final state *)
Theorem close_terminates_partial :
  forall run, is_run run -> (exists i, closed (run i) = true) -> declines_finitely run ->
  exists k, final (run k) = true.
Proof. exact close_terminates_all. Qed.
Print Assumptions close_terminates_partial.

(* the hypotheses of close_terminates are satisfiable: a reachable state just after
   close(closeCh) with a non-declining path to the final state *)
Example closing_run_exists :
  reach just_closed /\ closed just_closed = true /\
  exists l, is_nd_path just_closed l /\ final (last l just_closed) = true.
Proof. exact SkeletonProofs.closing_run_exists. Qed.
Print Assumptions closing_run_exists.
