(* Props/C08.v — Search answers depend only on the logical documents, not the layout.
   Only statements, each closed by `exact`, with Print Assumptions beneath. *)
From Coq Require Import ZArith List Permutation.
From Bluge Require Import Base.Res Search.Numeric Search.Postings Search.Searchers Search.Semantics
  Search.Layout Search.LayoutProofs Search.SearchersProofsSnap Search.SearchersProofsExact.
Import ListNotations.
Open Scope Z_scope.

(* two layouts with the same multiset of live documents select the same documents (hence the
   same stored fields) and the same ids, for every query *)
Theorem layout_independent_denotation : forall q sn1 sn2,
  Permutation (logical sn1) (logical sn2) ->
  Permutation (matched_docs q sn1) (matched_docs q sn2) /\ Permutation (sem_ids q sn1) (sem_ids q sn2).
Proof. intros q sn1 sn2 H. split; [exact (matched_docs_layout_independent q sn1 sn2 H)|exact (sem_ids_layout_independent q sn1 sn2 H)]. Qed.
Print Assumptions layout_independent_denotation.

(* any aggregation that is insensitive to the order of the matches has the same value *)
Theorem layout_independent_aggregations : forall (A : Type) (agg : list doc -> A) q sn1 sn2,
  (forall l l', Permutation l l' -> agg l = agg l') ->
  Permutation (logical sn1) (logical sn2) -> agg (matched_docs q sn1) = agg (matched_docs q sn2).
Proof. exact @aggregation_layout_independent. Qed.
Print Assumptions layout_independent_aggregations.

(* under a sort whose keys distinguish all matches the order is identical *)
Theorem layout_independent_sort_order : forall key q sn1 sn2,
  Permutation (logical sn1) (logical sn2) ->
  (forall x y, In x (sem_ids q sn1) -> In y (sem_ids q sn1) -> key x = key y -> x = y) ->
  sort_by key (sem_ids q sn1) = sort_by key (sem_ids q sn2).
Proof. exact sort_order_layout_independent. Qed.
Print Assumptions layout_independent_sort_order.

(* no pending deletions: the collection statistics summed over the segments and the document
   frequencies are those of the logical content *)
Theorem stats_sum_layout_indep : forall f t sn1 sn2,
  no_pending_deletes sn1 -> no_pending_deletes sn2 ->
  Permutation (logical sn1) (logical sn2) ->
  cs_docs (collection_stats f sn1) = cs_docs (collection_stats f sn2) /\
  cs_sumtf (collection_stats f sn1) = cs_sumtf (collection_stats f sn2) /\
  doc_freq f t sn1 = doc_freq f t sn2.
Proof. exact stats_layout_independent. Qed.
Print Assumptions stats_sum_layout_indep.

Theorem scores_equal_no_deletes : forall (score_fn : Z -> Z -> Z -> Z -> Z -> Z) f t d sn1 sn2,
  no_pending_deletes sn1 -> no_pending_deletes sn2 ->
  Permutation (logical sn1) (logical sn2) ->
  term_score score_fn sn1 f t d = term_score score_fn sn2 f t d.
Proof. exact term_scores_equal_no_deletes. Qed.
Print Assumptions scores_equal_no_deletes.

Example stats_hypotheses_hold_on_two_layouts :
  exists sn1 sn2, sn1 <> sn2 /\ no_pending_deletes sn1 /\ no_pending_deletes sn2 /\
                  Permutation (logical sn1) (logical sn2) /\ length sn1 <> length sn2.
Proof. exact stats_hypotheses_satisfiable. Qed.
Print Assumptions stats_hypotheses_hold_on_two_layouts.

Example stats_need_no_pending_deletes :
  exists sn1 sn2, Permutation (logical sn1) (logical sn2) /\
                  cs_docs (collection_stats 0 sn1) <> cs_docs (collection_stats 0 sn2).
Proof. exact stats_differ_with_pending_deletes. Qed.
Print Assumptions stats_need_no_pending_deletes.

(* MultiSearch over a partition of the documents into several indexes selects the documents
   the single index selects *)
Theorem multisearch_concat : forall q sns sn,
  Permutation (flat_map logical sns) (logical sn) ->
  Permutation (flat_map (sem_ids q) sns) (sem_ids q sn).
Proof. exact sem_ids_multisearch. Qed.
Print Assumptions multisearch_concat.

(* score_mode_none_same_set, full statement:
     forall sn q, answer sn copts_score_none q = answer sn copts_default q   (as sets)
   is refuted by the model (and by the implementation: known finding score-none-drops-min-should) *)
Theorem score_mode_none_same_set_refuted :
  exists sn q, answer sn copts_default q = Ok [1] /\ answer sn copts_score_none q = Ok [1; 2] /\ sem_ids q sn = [1].
Proof. exists none_sn, none_q. exact score_mode_none_counterexample. Qed.
Print Assumptions score_mode_none_same_set_refuted.

(* layout_independent_matches at the level of the searcher state machines (full statement: for
   every query; proved for the fragment C07's search_exact_partial covers: boolean queries over
   term clauses, options copts_plain) *)
Theorem layout_independent_matches_partial : forall sn1 sn2 musts shoulds nots ms,
  wf_sn sn1 -> wf_sn sn2 -> 0 <= ms -> (musts <> [] \/ shoulds <> []) ->
  (length shoulds <= 10)%nat -> (length nots <= 10)%nat ->
  Permutation (logical sn1) (logical sn2) ->
  exists ids1 ids2,
    answer sn1 copts_plain (flatq musts shoulds nots ms) = Ok ids1 /\
    answer sn2 copts_plain (flatq musts shoulds nots ms) = Ok ids2 /\ Permutation ids1 ids2.
Proof. exact layout_independent_matches_flat. Qed.
Print Assumptions layout_independent_matches_partial.

(* optimisations_same_set (full statement: every optimisation switch of index.Config leaves
   every answer unchanged); proved for the conjunction push-down on the fragment of C07's
   search_exact_partial.  The unadorned rewrites only act under scoring "none", where the set is
   NOT preserved in general (score_mode_none_same_set_refuted). *)
Theorem optimisations_same_set_partial : forall sn musts shoulds nots ms,
  wf_sn sn -> 0 <= ms -> (musts <> [] \/ shoulds <> []) ->
  (length shoulds <= 10)%nat -> (length nots <= 10)%nat ->
  answer sn copts_default (flatq musts shoulds nots ms) = answer sn copts_plain (flatq musts shoulds nots ms).
Proof. exact optimisation_same_answer_flat. Qed.
Print Assumptions optimisations_same_set_partial.

(* layout_independent_matches for arbitrarily nested boolean queries over term / match-none clauses
   (C07 search_exact_nested_partial): two well-formed layouts with the same logical content give
   Ok answers that are permutations of each other.  Full statement (every query kind, default
   options): open with the leaves C07 does not cover yet. *)
From Bluge Require Import Search.SearchersProofsGeneral.
Theorem layout_independent_matches_nested_partial : forall sn1 sn2 q d,
  wf_sn sn1 -> wf_sn sn2 -> qok d q -> (2 * d + 1 <= depth_fuel q)%nat ->
  Permutation (logical sn1) (logical sn2) ->
  exists ids1 ids2,
    answer sn1 copts_plain q = Ok ids1 /\ answer sn2 copts_plain q = Ok ids2 /\ Permutation ids1 ids2.
Proof. exact layout_independent_matches_nested. Qed.
Print Assumptions layout_independent_matches_nested_partial.
