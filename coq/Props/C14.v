(* Props/C14.v — I/O failures are reported, contained and recovered from.
   Only statements, each closed by `exact`, with Print Assumptions beneath.
   Model: Index/Proto.v (monitor over recorded runs with fault events PPersistErr / PRemoveErr /
   PFault and error acknowledgements PAck k false); proofs: Index/ProtoProofsThm.v, ProtoProofsEx.v.
   Liveness ("does not hang", "the error is surfaced within the call") is observed by the engine
   (oracles no-recovery-after-fault, scenario-hang, fault surfacing), not proved here. *)
From Coq Require Import ZArith List Bool.
From Bluge Require Import Base.Res Index.Model Index.Trace Index.Proto Index.ProtoProofsPol Index.ProtoProofsInv
  Index.ProtoProofsRec Index.ProtoProofsThm Index.ProtoProofsEx.
Import ListNotations.
Open Scope Z_scope.

(* 13. a failed Persist, a failed Remove, a failed Load/List change neither the history monitor's
   state (root, abstract index, batches: what open and new readers answer) nor the complete files,
   the policy, the epochs; a failed Persist only takes its own file out of flight *)
Theorem fault_contained : forall table st ev st', fault_event ev -> paccept_ev table st ev = Some st' ->
  ps_t st' = ps_t st /\
  d_snp (ps_disk st') = d_snp (ps_disk st) /\ d_seg (ps_disk st') = d_seg (ps_disk st) /\
  ps_pol st' = ps_pol st /\ ps_epoch_n st' = ps_epoch_n st /\ ps_base st' = ps_base st /\
  ps_faulted st' = true /\
  match ev with
  | PPersistErr snp id =>
      (forall f, In f (d_fly (ps_disk st')) <-> In f (d_fly (ps_disk st)) /\ ~ (if_snp f = snp /\ if_id f = id))
  | _ => d_fly (ps_disk st') = d_fly (ps_disk st)
  end.
Proof. exact fault_contained_proof. Qed.
Print Assumptions fault_contained.

(* 13b. after a failed Persist nothing of that name is in flight (no crash image contains a torn
   variant of it); if its write had started, no complete file of that name exists either *)
Theorem no_partial_item : forall table st snp id st',
  pinv table st -> paccept_ev table st (PPersistErr snp id) = Some st' ->
  (forall f, In f (d_fly (ps_disk st')) -> ~ (if_snp f = snp /\ if_id f = id)) /\
  ((exists f, In f (d_fly (ps_disk st)) /\ if_snp f = snp /\ if_id f = id) ->
     if snp then ~ In id (map fst (d_snp (ps_disk st'))) else ~ In id (d_seg (ps_disk st'))).
Proof. exact no_partial_item_proof. Qed.
Print Assumptions no_partial_item.

(* 16. an error acknowledgement is accepted only after something failed *)
Theorem ack_error_only_after_fault : forall table st k st',
  paccept_ev table st (PAck k false) = Some st' -> ps_faulted st = true /\ st' = st.
Proof. exact ack_error_only_after_fault_proof. Qed.
Print Assumptions ack_error_only_after_fault.

Theorem ack_error_run : forall table evs1 k evs2 st0 st,
  ps_faulted st0 = false -> paccept_run table st0 (evs1 ++ PAck k false :: evs2) = Some st ->
  exists ev, In ev evs1 /\ fault_event ev.
Proof. exact ack_error_run_proof. Qed.
Print Assumptions ack_error_run.

(* 14. the first (any) successful acknowledgement, whatever fault events and error acknowledgements
   the run contains before or after it, implies durability of EVERY batch introduced at or before the
   acknowledged one (p1 <= p2) — including those whose own call returned the error: whenever the
   machine dies afterwards, with any torn variant of the files in flight, OpenWriter and OpenReader
   succeed and expose the state after a prefix of m batches with p1 < m *)
Theorem retry_covers_all : forall table n st0, start_ok table n st0 ->
  forall evs1 k2 evs2 st2 choice,
  paccept_run table st0 (evs1 ++ PAck k2 true :: evs2) = Some st2 ->
  no_collision table (d_fly (ps_disk st2)) choice = true ->
  let im := crash_image (ps_disk st2) choice in
  exists r p2 m c,
    recover_writer table n im = RecOk r /\
    recover_reader table im = Some (Some (r_epoch r, r_segs r)) /\
    pos_of k2 (t_keys (ps_t st2)) = Some p2 /\ (m <= n_intro st2)%nat /\
    segs_content (ps_segdocs st2) (r_segs r) = Some c /\ same_docs c (content_at st2 m) = true /\
    forall k1 p1, pos_of k1 (t_keys (ps_t st2)) = Some p1 -> (p1 <= p2)%nat -> (p1 < m)%nat.
Proof. exact retry_covers_all_proof. Qed.
Print Assumptions retry_covers_all.

(* 15. crash_props_with_faults: C02 ack_implies_durable, C03 recover_prefix and C11 retention are
   stated over all accepted runs; nothing in them excludes fault events.  The instance below is a run
   with a failed segment persist, the error acknowledgement of batch 1, a failed directory listing,
   the retry and the acknowledgement of batch 2: reopening yields both batches. *)
Example fault_example :
    start_ok [] 2 (st_fresh 2) /\
    paccept_run [] (st_fresh 2) (firstn 19 ex_fault_run) = Some ex_fault_st /\
    In (PAck 1 false) ex_fault_run /\ In (PPersistErr false 1) ex_fault_run /\ In PFault ex_fault_run /\
    ps_faulted ex_fault_st = true /\
    pos_of 1 (t_keys (ps_t ex_fault_st)) = Some O /\ pos_of 2 (t_keys (ps_t ex_fault_st)) = Some 1%nat /\
    no_collision [] (d_fly (ps_disk ex_fault_st)) [] = true /\
    (exists r, recover_writer [] 2 (crash_image (ps_disk ex_fault_st) []) = RecOk r /\ r_epoch r = 2 /\
               segs_content (ps_segdocs ex_fault_st) (r_segs r) = Some [(1, 10); (2, 20)] /\
               content_at ex_fault_st 2 = [(1, 10); (2, 20)]) /\
    paccept_run [] (st_fresh 2) ex_fault_run = None.
Proof. exact fault_example_proof. Qed.
Print Assumptions fault_example.

Theorem crash_props_with_faults : forall table n st0, start_ok table n st0 ->
  forall evs st choice,
  (exists ev, In ev evs /\ fault_event ev) ->
  paccept_run table st0 evs = Some st ->
  no_collision table (d_fly (ps_disk st)) choice = true ->
  let im := crash_image (ps_disk st) choice in
  (* atomicity and prefix consistency (C03) *)
  recover_writer table n im <> RecUnknown /\
  (forall r, recover_writer table n im = RecOk r ->
     recover_reader table im = Some (Some (r_epoch r, r_segs r)) /\
     (ps_epoch_n st <> [] ->
        exists m c, (m <= n_intro st)%nat /\ segs_content (ps_segdocs st) (r_segs r) = Some c /\
                    same_docs c (content_at st m) = true)) /\
  (* retention (C11) *)
  (Nat.min (Z.to_nat n) (length (d_snp (ps_disk st0)) + length (commits_of evs)) <= length (d_snp (ps_disk st)))%nat /\
  (* durability (C02) of every batch acknowledged in the run *)
  (forall k, In (PAck k true) evs ->
     exists r pos m, recover_writer table n im = RecOk r /\ pos_of k (t_keys (ps_t st)) = Some pos /\ (pos < m <= n_intro st)%nat /\
       exists c, segs_content (ps_segdocs st) (r_segs r) = Some c /\ same_docs c (content_at st m) = true).
Proof. exact crash_props_with_faults_proof. Qed.
Print Assumptions crash_props_with_faults.
