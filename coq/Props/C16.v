(* Props/C16.v — Aggregations are exact over the whole match set.
   Only statements, each closed by `exact`, with Print Assumptions beneath. *)
From Coq Require Import ZArith QArith List.
From Bluge Require Import Base.Res Gen.ParamsTopN Search.Sort Search.TopN Search.Aggs Search.AggsProofs.
Import ListNotations.
Open Scope Z_scope.

(* for every size n, offset / After key / Before key, sort order and aggregation tree: when
   TopNSearch returns, its root bucket holds exactly the aggregations of the complete match
   list (what AllMatches computes) *)
Theorem aggs_ignore_paging : forall aggs n order p hits results cs,
  topn_aggs aggs n order p hits = Ok (results, cs) -> cs = aggs_of aggs hits.
Proof. exact aggs_ignore_paging_all. Qed.
Print Assumptions aggs_ignore_paging.

(* the same for the collector called directly with any size, skip, search-after key and direction *)
Theorem aggs_ignore_paging_collector : forall aggs size skip order reverse after hits results cs,
  direct_aggs aggs size skip order reverse after hits = Ok (results, cs) -> cs = aggs_of aggs hits.
Proof. exact aggs_ignore_paging_direct. Qed.
Print Assumptions aggs_ignore_paging_collector.

(* the hypothesis is satisfiable: a search with from = 1, n = 1 returns one hit and the full aggregations *)
Example aggs_ignore_paging_nonvacuous :
  rmap snd (topn_aggs ex_aggs 1 ex_order (PFrom 1) ex_hits) = Ok [KVal (XFin 3); KVal (XFin 12); KVal (XFin 8)] /\
  aggs_of ex_aggs ex_hits = [KVal (XFin 3); KVal (XFin 12); KVal (XFin 8)] /\
  rmap (fun r => map h_doc (fst r)) (topn_aggs ex_aggs 1 ex_order (PFrom 1) ex_hits) = Ok [7].
Proof. exact aggs_ignore_paging_ex. Qed.
Print Assumptions aggs_ignore_paging_nonvacuous.
