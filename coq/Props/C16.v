(* Props/C16.v — Aggregations are exact over the whole match set.
   Only statements, each closed by `exact`, with Print Assumptions beneath. *)
From Coq Require Import ZArith QArith List.
From Bluge Require Import Base.Res Gen.ParamsTopN Search.Sort Search.TopN Search.Aggs Search.AggsProofs.
Import ListNotations.
Open Scope Z_scope.

(* for every size n, offset / After key / Before key, sort order and aggregation tree: when
   TopNSearch returns, its root bucket holds exactly the aggregations of the complete match
   list (what AllMatches computes) *)
Theorem aggs_ignore_paging : forall aggs n order p hits results cs,
  topn_aggs aggs n order p hits = Ok (results, cs) -> cs = aggs_of aggs hits.
Proof. exact aggs_ignore_paging_all. Qed.
Print Assumptions aggs_ignore_paging.

(* the same for the collector called directly with any size, skip, search-after key and direction *)
Theorem aggs_ignore_paging_collector : forall aggs size skip order reverse after hits results cs,
  direct_aggs aggs size skip order reverse after hits = Ok (results, cs) -> cs = aggs_of aggs hits.
Proof. exact aggs_ignore_paging_direct. Qed.
Print Assumptions aggs_ignore_paging_collector.

(* the hypothesis is satisfiable: a search with from = 1, n = 1 returns one hit and the full aggregations *)
Example aggs_ignore_paging_nonvacuous :
  rmap snd (topn_aggs ex_aggs 1 ex_order (PFrom 1) ex_hits) = Ok [KVal (XFin 3); KVal (XFin 12); KVal (XFin 8)] /\
  aggs_of ex_aggs ex_hits = [KVal (XFin 3); KVal (XFin 12); KVal (XFin 8)] /\
  rmap (fun r => map h_doc (fst r)) (topn_aggs ex_aggs 1 ex_order (PFrom 1) ex_hits) = Ok [7].
Proof. exact aggs_ignore_paging_ex. Qed.
Print Assumptions aggs_ignore_paging_nonvacuous.

(* the root bucket is the list of its calculators, each run over the matched documents *)
Theorem aggs_of_per_calculator : forall aggs hits,
  aggs_of aggs hits = map (fun p => run_one (snd p) (matched aggs hits)) aggs.
Proof. exact aggs_of_each. Qed.
Print Assumptions aggs_of_per_calculator.

(* CountMatches = number of matched documents *)
Theorem count_exact : forall ms,
  exists q, run_one a_count ms = KVal (XFin q) /\ (q == inject_Z (Z.of_nat (length ms)))%Q.
Proof. exact count_exact_all. Qed.
Print Assumptions count_exact.

(* Sum over finite values = exact rational sum of every value of every matched document *)
Theorem sum_exact : forall s ms qs, all_numbers s ms = map XFin qs ->
  exists q, run_one (a_sum s) ms = KVal (XFin q) /\ (q == sumQ qs)%Q.
Proof. exact sum_exact_all. Qed.
Print Assumptions sum_exact.

Theorem min_exact : forall s ms qs, all_numbers s ms = map XFin qs ->
  (qs = [] -> run_one (a_min s) ms = KVal (XInf false)) /\
  (qs <> [] -> exists m, run_one (a_min s) ms = KVal (XFin m) /\ In m qs /\ forall q, In q qs -> (m <= q)%Q).
Proof. exact min_exact_all. Qed.
Print Assumptions min_exact.

Theorem max_exact : forall s ms qs, all_numbers s ms = map XFin qs ->
  (qs = [] -> run_one (a_max s) ms = KVal (XInf true)) /\
  (qs <> [] -> exists m, run_one (a_max s) ms = KVal (XFin m) /\ In m qs /\ forall q, In q qs -> (q <= m)%Q).
Proof. exact max_exact_all. Qed.
Print Assumptions max_exact.

(* Avg: numerator = sum of the values, denominator = their number; NaN (0/0) without values *)
Theorem avg_exact : forall s ms qs, all_numbers s ms = map XFin qs ->
  exists a b, run_one (AWAvg s None) ms = KWAvg (XFin a) (XFin b) /\ (a == sumQ qs)%Q /\
              (b == inject_Z (Z.of_nat (length qs)))%Q /\
              (qs = [] -> calc_value (KWAvg (XFin a) (XFin b)) = XNaN).
Proof. exact avg_exact_all. Qed.
Print Assumptions avg_exact.

(* WeightedAvg: sum of value * document weight over sum of weights (weight = the document's
   first weight value, 1 when it has none), exact; the metric is their quotient *)
Theorem wavg_exact : forall s w ms pq,
  weighted_values s w ms = map (fun p => (XFin (fst p), XFin (snd p))) pq ->
  exists a b, run_one (AWAvg s w) ms = KWAvg (XFin a) (XFin b) /\ (a == sum_vw pq)%Q /\ (b == sum_w pq)%Q /\
              (~ (b == 0)%Q -> xq_equiv (calc_value (KWAvg (XFin a) (XFin b))) (XFin (sum_vw pq / sum_w pq))).
Proof. exact wavg_exact_all. Qed.
Print Assumptions wavg_exact.

(* terms: total = matches; one bucket per distinct term of the matched documents; the bucket of
   nm holds the nested calculators (count first, then the nested metrics) run over exactly the
   matched documents carrying nm *)
Theorem terms_counts_exact : forall t size subs ms,
  exists bks, run_one (ATerms t size subs) ms = KTerms bks (Z.of_nat (length ms)) /\
    NoDup (map fst bks) /\
    (forall nm, In nm (map fst bks) <-> exists h, In h ms /\ In nm (tvalues t h)) /\
    (forall nm cs, In (nm, cs) bks -> cs = run_subs subs (terms_members t nm ms)).
Proof. exact terms_counts_exact_all. Qed.
Print Assumptions terms_counts_exact.

(* nested calculators are the plain calculators run on the bucket's documents, so count_exact,
   sum_exact, ... apply to them *)
Theorem nested_metrics_exact : forall subs l, run_subs subs l = map (fun p => run_one (snd p) l) subs.
Proof. exact run_subs_each. Qed.
Print Assumptions nested_metrics_exact.

(* single-valued field, any distinct returned names: matches - sum of returned counts = number of
   matches in no returned bucket (check_obs ties Other() to the left-hand side) *)
Theorem terms_other_exact : forall t names ms, NoDup names ->
  (forall h, In h ms -> (length (tvalues t h) <= 1)%nat) ->
  Z.of_nat (length ms) - sum_counts t names ms = Z.of_nat (length (filter (fun h => negb (in_names t names h)) ms)).
Proof. exact terms_other_exact_all. Qed.
Print Assumptions terms_other_exact.

(* numeric ranges: bucket [low, high) = nested calculators over the documents with a value v,
   low <= v < high, once per such value *)
Theorem range_counts_exact : forall s ranges subs ms,
  run_one (ARange s ranges subs) ms =
  KBuckets (map (fun r => run_subs subs (range_members in_range (numbers s) r ms)) ranges).
Proof. exact range_counts_exact_all. Qed.
Print Assumptions range_counts_exact.

Theorem date_range_counts_exact : forall f ranges subs ms,
  run_one (ADateRange f ranges subs) ms =
  KBuckets (map (fun r => run_subs subs (range_members in_date_range (dates f) r ms)) ranges).
Proof. exact date_range_counts_exact_all. Qed.
Print Assumptions date_range_counts_exact.

(* the sketches are fed exactly the matched values, in hit order (hyperloglog / t-digest are
   parameters: whatever they compute, they compute it on this list) *)
Theorem cardinality_fed_exactly : forall t ms, run_one (ACard t) ms = KFedT (flat_map (tvalues t) ms).
Proof. exact cardinality_fed_exactly_all. Qed.
Print Assumptions cardinality_fed_exactly.

Theorem quantile_fed_exactly : forall s ms, run_one (AQuant s) ms = KFedN (all_numbers s ms).
Proof. exact quantile_fed_exactly_all. Qed.
Print Assumptions quantile_fed_exactly.

(* ---------- Merge: shards aggregated separately, then Bucket.Merge (aggregations.go:76-84) ----------
   bluge.MultiSearch itself does not merge: multisearch.go runs one collector over the concatenated
   searchers, which aggs_ignore_paging covers.  Merge is the API for callers who aggregate shards
   on their own.  merge_exact, calculator by calculator: *)

Theorem merge_sum_exact : forall s ms1 ms2 q1 q2,
  all_numbers s ms1 = map XFin q1 -> all_numbers s ms2 = map XFin q2 ->
  exists q q', merge (a_sum s) (run_one (a_sum s) ms1) (run_one (a_sum s) ms2) = KVal (XFin q) /\
               run_one (a_sum s) (ms1 ++ ms2) = KVal (XFin q') /\
               (q == sumQ (q1 ++ q2))%Q /\ (q' == sumQ (q1 ++ q2))%Q.
Proof. exact merge_sum_exact_all. Qed.
Print Assumptions merge_sum_exact.

Theorem merge_count_exact : forall ms1 ms2,
  exists q, merge a_count (run_one a_count ms1) (run_one a_count ms2) = KVal (XFin q) /\
            (q == inject_Z (Z.of_nat (length (ms1 ++ ms2))))%Q.
Proof. exact merge_count_exact_all. Qed.
Print Assumptions merge_count_exact.

(* the merged Min / Max meet the specification min_exact / max_exact give for the concatenation *)
Theorem merge_min_exact : forall s ms1 ms2 q1 q2,
  all_numbers s ms1 = map XFin q1 -> all_numbers s ms2 = map XFin q2 ->
  let v := merge (a_min s) (run_one (a_min s) ms1) (run_one (a_min s) ms2) in
  (q1 ++ q2 = [] -> v = KVal (XInf false)) /\
  (q1 ++ q2 <> [] -> exists m, v = KVal (XFin m) /\ In m (q1 ++ q2) /\ forall q, In q (q1 ++ q2) -> (m <= q)%Q).
Proof. exact merge_min_exact_all. Qed.
Print Assumptions merge_min_exact.

Theorem merge_max_exact : forall s ms1 ms2 q1 q2,
  all_numbers s ms1 = map XFin q1 -> all_numbers s ms2 = map XFin q2 ->
  let v := merge (a_max s) (run_one (a_max s) ms1) (run_one (a_max s) ms2) in
  (q1 ++ q2 = [] -> v = KVal (XInf true)) /\
  (q1 ++ q2 <> [] -> exists m, v = KVal (XFin m) /\ In m (q1 ++ q2) /\ forall q, In q (q1 ++ q2) -> (q <= m)%Q).
Proof. exact merge_max_exact_all. Qed.
Print Assumptions merge_max_exact.

(* Avg (w = None) and WeightedAvg: numerator and denominator of the concatenation *)
Theorem merge_wavg_exact : forall s w ms1 ms2 p1 p2,
  weighted_values s w ms1 = map (fun p => (XFin (fst p), XFin (snd p))) p1 ->
  weighted_values s w ms2 = map (fun p => (XFin (fst p), XFin (snd p))) p2 ->
  exists a b, merge (AWAvg s w) (run_one (AWAvg s w) ms1) (run_one (AWAvg s w) ms2) = KWAvg (XFin a) (XFin b) /\
              (a == sum_vw (p1 ++ p2))%Q /\ (b == sum_w (p1 ++ p2))%Q.
Proof. exact merge_wavg_exact_all. Qed.
Print Assumptions merge_wavg_exact.

(* sketches: the merged calculator stands for a sketch fed the concatenation; for the real
   hyperloglog / t-digest this is the hypothesis sketch_merge of AggsProofs.SketchMerge
   (smerge (sketch a) (sketch b) = sketch (a ++ b)); the engine compares with a sketch fed directly *)
Theorem merge_cardinality_exact : forall t ms1 ms2,
  merge (ACard t) (run_one (ACard t) ms1) (run_one (ACard t) ms2) = run_one (ACard t) (ms1 ++ ms2).
Proof. exact merge_card_exact_all. Qed.
Print Assumptions merge_cardinality_exact.

Theorem merge_quantile_exact : forall s ms1 ms2,
  merge (AQuant s) (run_one (AQuant s) ms1) (run_one (AQuant s) ms2) = run_one (AQuant s) (ms1 ++ ms2).
Proof. exact merge_quant_exact_all. Qed.
Print Assumptions merge_quantile_exact.

(* ranges: bucket-wise merge of the two shards' nested calculators over the shard's part of the
   bucket (the bucket of the concatenation is the concatenation of the parts: range_members_app) *)
Theorem merge_range_exact : forall s ranges subs ms1 ms2,
  merge (ARange s ranges subs) (run_one (ARange s ranges subs) ms1) (run_one (ARange s ranges subs) ms2) =
  KBuckets (map (fun r => merge_subs subs (run_subs subs (range_members in_range (numbers s) r ms1))
                                          (run_subs subs (range_members in_range (numbers s) r ms2))) ranges).
Proof. exact merge_range_exact_all. Qed.
Print Assumptions merge_range_exact.

Theorem merge_date_range_exact : forall f ranges subs ms1 ms2,
  merge (ADateRange f ranges subs) (run_one (ADateRange f ranges subs) ms1) (run_one (ADateRange f ranges subs) ms2) =
  KBuckets (map (fun r => merge_subs subs (run_subs subs (range_members in_date_range (dates f) r ms1))
                                          (run_subs subs (range_members in_date_range (dates f) r ms2))) ranges).
Proof. exact merge_date_range_exact_all. Qed.
Print Assumptions merge_date_range_exact.

(* terms, untrimmed shards: total = matches of the concatenation; one bucket per term of either
   shard; the bucket of a term of both shards is the merge of the shards' nested calculators;
   `other` then follows from total and the returned counts as for a single search (check_obs) *)
Theorem merge_terms_exact : forall t size subs ms1 ms2,
  exists bks1 bks2 bks,
    run_one (ATerms t size subs) ms1 = KTerms bks1 (Z.of_nat (length ms1)) /\
    run_one (ATerms t size subs) ms2 = KTerms bks2 (Z.of_nat (length ms2)) /\
    merge (ATerms t size subs) (KTerms bks1 (Z.of_nat (length ms1))) (KTerms bks2 (Z.of_nat (length ms2))) =
      KTerms bks (Z.of_nat (length (ms1 ++ ms2))) /\
    NoDup (map fst bks) /\
    (forall nm, In nm (map fst bks) <-> exists h, In h (ms1 ++ ms2) /\ In nm (tvalues t h)) /\
    (forall nm cs, In (nm, cs) bks ->
       let c1 := run_subs subs (terms_members t nm ms1) in
       let c2 := run_subs subs (terms_members t nm ms2) in
       (In nm (map fst bks1) /\ In nm (map fst bks2) /\ cs = merge_subs subs c1 c2) \/
       (In nm (map fst bks1) /\ ~ In nm (map fst bks2) /\ cs = c1) \/
       (~ In nm (map fst bks1) /\ In nm (map fst bks2) /\ cs = c2)).
Proof. exact merge_terms_exact_all. Qed.
Print Assumptions merge_terms_exact.

(* with a trimmed side (Finish keeps `size` buckets, terms.go:141-145) the statement is false, as
   for every distributed terms aggregation: a:2 b:1 trimmed to [a] merged with b:2 reports b = 2,
   the concatenation has b = 3.  Replayed on the implementation: known finding
   C16-merge-terms-trimmed. *)
Example merge_terms_trimmed_refuted :
  let a := ATerms (VSField 0) 1 [(count_id, a_count)] in
  let s1 := [mk_term_hit 1 97; mk_term_hit 2 97; mk_term_hit 3 98] in
  let s2 := [mk_term_hit 1 98; mk_term_hit 2 98] in
  let f1 := finish_with a (run_one a s1) (OTerms [([97], [])] 1) in
  let f2 := finish_with a (run_one a s2) (OTerms [([98], [])] 0) in
  merge a f1 f2 = KTerms [([97], [KVal (XFin 2)]); ([98], [KVal (XFin 2)])] 5 /\
  run_one a (s1 ++ s2) = KTerms [([97], [KVal (XFin 2)]); ([98], [KVal (XFin 3)])] 5.
Proof. exact terms_merge_trimmed_ex. Qed.
Print Assumptions merge_terms_trimmed_refuted.
