(* Props/C12.v — Snapshot files round-trip and every damaged file is rejected safely.
   Only statements, each closed by `exact`, with Print Assumptions beneath.
   encode = Snapshot.WriteTo, decode = Snapshot.ReadFrom, load = loadSnapshot (limit to len-4,
   CRC over the bytes pulled, trailer compare), load_dir_* = OpenReader / OpenWriter's choice
   among the snapshot files; all from Index/SnapshotCodec.v, with the decoder's behaviour flags
   and constants re-read from the Go source by T-gen on every run. *)
From Coq Require Import ZArith List Bool.
From Bluge Require Import Base.Int64 Base.Res Base.Uvarint Base.CRC32 Base.CRC32Proofs Base.Bufio
  Gen.ParamsCodec Index.SnapshotCodec Index.SnapshotCodecProofs.
Import ListNotations.
Open Scope Z_scope.

(* ---- round trip ----
   for every snapshot value (any number of segments < 2^63, ids < 2^64, versions < 2^32, any type
   string, deleted bytes that are nil or what roaring itself writes for a non-empty bitmap):
   loading the written file gives back the same segments, types, versions and deleted sets *)
Theorem roundtrip : forall (rb : list Z -> option (list Z)) (s : snapshot),
  snapshot_wf s -> Forall (del_canonical rb) (sn_segs s) -> load rb (encode s) = Ok s.
Proof. exact roundtrip_all. Qed.
Print Assumptions roundtrip.

(* the same with roaring as an abstract codec: for every type of bitmaps whose reader inverts its
   writer (the only hypothesis about the library) *)
Theorem roundtrip_bitmaps : forall (B : Type) (rb_write : B -> list Z) (rb_read : list Z -> option B)
    (rb_empty : B -> bool),
  (forall b, rb_read (rb_write b) = Some b) ->
  forall gs : list (aseg B),
    Forall (aseg_ok B rb_write rb_empty) gs -> zlen gs < two63 ->
    load (rb_of B rb_write rb_read rb_empty) (encode {| sn_segs := map (conc B rb_write) gs |})
    = Ok {| sn_segs := map (conc B rb_write) gs |}.
Proof. exact roundtrip_abstract. Qed.
Print Assumptions roundtrip_bitmaps.

Example roundtrip_nontrivial :
  let big := repeat 7 5000 in
  let s := {| sn_segs := [ {| sg_id := 18446744073709551615; sg_type := [105; 99; 101]; sg_ver := 1; sg_del := big |};
                           {| sg_id := 0; sg_type := [97; 98]; sg_ver := 4294967295; sg_del := [] |} ] |} in
  load (fun b => Some b) (encode s) = Ok s.
Proof. exact roundtrip_instance. Qed.
Print Assumptions roundtrip_nontrivial.

(* ---- acceptance is sound: whatever loads has a trailer, decodes (without the trailer) to
   exactly that state, and its trailer is the CRC-32 of the bytes the decoder pulled ---- *)
Theorem accept_sound : forall rb b s, load rb b = Ok s ->
  crc_width <= zlen b /\
  exists r a, decode_reader gen_flags rb (br_init (payload_of b)) 0 = (Ok (s, r), a) /\
    put_be32 (crc32 (ztake (zlen (payload_of b) - zlen (br_rest r)) (payload_of b))) = trailer_of b.
Proof. exact accept_sound_all. Qed.
Print Assumptions accept_sound.

Theorem accept_decodes : forall rb b s, load rb b = Ok s -> decode rb (payload_of b) = Ok s.
Proof. exact accept_sound_decode. Qed.
Print Assumptions accept_decodes.

(* ---- the checksum: inverting any single bit of any byte string changes crc32.Update ---- *)
Theorem crc_single_bit : forall (crc : Z) (m : list Z) (i : nat) (j : Z),
  (i < length m)%nat -> 0 <= j < 8 -> crc32_update crc (flip_bit m i j) <> crc32_update crc m.
Proof. exact crc32_update_single_bit. Qed.
Print Assumptions crc_single_bit.

(* Go's table-driven crc32.Update (simpleUpdate over IEEETable) computes the bit-serial CRC:
   256-entry vm_compute sweep of the table lifted with forallb_forall + linearity *)
Theorem crc_table_form : forall crc p, in32 crc -> Forall (fun b => 0 <= b < 256) p ->
  crc32_update_tab crc p = crc32_update crc p.
Proof. exact crc32_update_tab_eq. Qed.
Print Assumptions crc_table_form.

(* hence: every single-bit flip of every byte of a file that loads is rejected with an error,
   for files of at most one read buffer (4096 bytes + trailer): a flip in the trailer directly, a
   flip in the payload because the decoder has pulled — and the checksum covers — all of it.
   (For larger files the decoder can stop before the last buffer is pulled; accept_sound is the
   statement that holds there, see docs/C12.md "Partial".) *)
Theorem bitflip_rejected : forall rb b (i : nat) j,
  bytes_ok b = true -> zlen b <= bufsize + 4 -> (i < length b)%nat -> 0 <= j < 8 ->
  (exists s, load rb b = Ok s) -> exists c, load rb (flip_bit b i j) = Err c.
Proof. exact bitflip_rejected_small_all. Qed.
Print Assumptions bitflip_rejected.

(* ---- short files: fewer than 5 bytes never load (4-byte trailer + the version byte) ---- *)
Theorem short_rejected : forall rb b, zlen b < 5 -> exists c, load rb b = Err c.
Proof. exact short_rejected_all. Qed.
Print Assumptions short_rejected.

(* ... and 5 is exact: the version byte followed by its own CRC loads as the empty snapshot,
   although it is not the encoding of any snapshot (model finding, see docs/C12.md) *)
Example five_bytes_accepted : forall rb,
  load rb [1; 165; 5; 223; 27] = Ok {| sn_segs := [] |} /\ encode {| sn_segs := [] |} <> [1; 165; 5; 223; 27].
Proof. exact min_accept_example. Qed.
Print Assumptions five_bytes_accepted.

(* ---- fallback: both openers pick the first (= newest) snapshot file that loads ---- *)
Theorem fallback : forall rb files e s,
  load_dir_reader rb files = Some (e, s) <->
  exists pre f post, files = pre ++ (e, f) :: post /\ load rb f = Ok s /\
                     Forall (fun ef => ~ loads rb (snd ef)) pre.
Proof. exact load_dir_reader_spec. Qed.
Print Assumptions fallback.

Theorem fallback_writer_agrees : forall rb files, load_dir_writer rb files = load_dir_reader rb files.
Proof. exact load_dir_writer_reader. Qed.
Print Assumptions fallback_writer_agrees.

Theorem fallback_damaged_newest : forall rb e1 bad e0 good s,
  ~ loads rb bad -> load rb good = Ok s ->
  load_dir_reader rb [(e1, bad); (e0, good)] = Some (e0, s) /\
  load_dir_writer rb [(e1, bad); (e0, good)] = Some (e0, s).
Proof. exact fallback_older. Qed.
Print Assumptions fallback_damaged_newest.

(* ---- allocation: the decoder of the pinned tree (flags of d6b63ac) asks make() for what a
   damaged length says — refuted with two witnesses (defect D3) ---- *)
Theorem alloc_refuted : forall rb,
  (exists b, zlen b = 24 /\ fst (load_with pinned_flags rb b) = Panic panic_makeslice /\
             1000000 * zlen b < snd (load_with pinned_flags rb b)) /\
  (exists b, zlen b = 21 /\ (exists c, fst (load_with pinned_flags rb b) = Err c) /\
             1000000 * zlen b < snd (load_with pinned_flags rb b)).
Proof. exact alloc_refuted_pinned. Qed.
Print Assumptions alloc_refuted.

(* ---- the repaired decoder, on EVERY byte string: ReadFrom ends with a value or an error (no
   panic; the loops' fuel is never exhausted) ---- *)
Theorem decode_total : forall rb b, (exists s, decode rb b = Ok s) \/ (exists c, decode rb b = Err c).
Proof. exact decode_total_all. Qed.
Print Assumptions decode_total.

(* ... loadSnapshot likewise, and the total size it requests from make() is at most the size of
   the file plus two 4096-byte buffers plus 8 (proportional to the input, constant 1) *)
Theorem alloc_bounded : forall rb b,
  ((exists s, load rb b = Ok s) \/ (exists c, load rb b = Err c)) /\
  0 <= load_alloc rb b <= zlen b + 2 * bufsize + 8.
Proof. exact load_total_alloc_all. Qed.
Print Assumptions alloc_bounded.

(* the flags T-gen reads from the current source are those of the repaired decoder *)
Theorem decoder_flags_repaired : gen_flags = fixed_flags.
Proof. exact gen_flags_fixed. Qed.
Print Assumptions decoder_flags_repaired.
