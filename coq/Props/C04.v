(* Props/C04.v — A Reader is an immutable point-in-time view until it is closed.
   Only statements, each closed by `exact`, with Print Assumptions beneath.
   Model: Index/Refs.v — the reference counting of index/snapshot.go (addRef/decRef) and
   index/segment_plugin.go (closeOnLastRefCounter): state = handle table (refs, open?, number of Close
   calls) + snapshot table (refs, listed handles); operations RNew / RAddRef / RDecRef; rstep returns
   None for an operation that is not well-formed (releasing a reference nobody holds, building from a
   snapshot nobody holds).  reader_frozen is stated over the root-history monitor of Index/Trace.v.
   Proofs: Index/RefsProofs.v.
   Memory safety of mmap itself is run-time behaviour: the theorems are about the counting logic;
   that held readers of the implementation never fault and never change their answers is what the
   engine's held-reader oracle observes. *)
From Coq Require Import ZArith List Bool Permutation.
From Bluge Require Import Base.Res Index.Model Index.Trace Index.TraceProofs Index.Refs Index.RefsProofs.
Import ListNotations.
Open Scope Z_scope.

(* in every reachable state every handle listed by a snapshot with refs > 0 has refs > 0, is open and
   was never closed *)
Theorem refs_invariant : forall ops st, rrun rinit ops = Some st ->
  forall k s h, lookup k (r_snaps st) = Some s -> 0 < rs_refs s -> In h (rs_handles s) ->
  exists hd, lookup h (r_handles st) = Some hd /\ 0 < h_refs hd /\ h_open hd = true /\ h_closes hd = 0%nat.
Proof. exact refs_invariant_proof. Qed.
Print Assumptions refs_invariant.

(* a reader = a holder of one reference of snapshot k.  As long as it has not released it (the DecRefs
   of k since are fewer than the references k had plus the AddRefs since), whatever operations happen
   (new roots, the old root released, other readers coming and going), every read through k touches
   open handles only, and k lists the handles it listed *)
Theorem reader_never_faults : forall ops1 ops2 st1 st2 k s1,
  rrun rinit ops1 = Some st1 -> lookup k (r_snaps st1) = Some s1 ->
  rrun st1 ops2 = Some st2 ->
  count_ops (is_decref k) ops2 < rs_refs s1 + count_ops (is_addref k) ops2 ->
  read_ok st2 k = true /\
  exists s2, lookup k (r_snaps st2) = Some s2 /\ rs_handles s2 = rs_handles s1 /\ 0 < rs_refs s2 /\
    forall h, In h (rs_handles s2) ->
      exists hd, lookup h (r_handles st2) = Some hd /\ 0 < h_refs hd /\ h_open hd = true.
Proof. exact reader_never_faults_proof. Qed.
Print Assumptions reader_never_faults.

(* no handle is ever closed twice, open = never closed; and when every snapshot has been released
   (refs 0) every handle has been closed exactly once *)
Theorem handles_balanced : forall ops st, rrun rinit ops = Some st ->
  (forall id hd, lookup id (r_handles st) = Some hd -> (h_closes hd <= 1)%nat /\ (h_open hd = true <-> h_closes hd = 0%nat)) /\
  ((forall k s, lookup k (r_snaps st) = Some s -> rs_refs s = 0) ->
   forall id hd, lookup id (r_handles st) = Some hd -> h_open hd = false /\ h_closes hd = 1%nat /\ h_refs hd = 0).
Proof. exact handles_balanced_proof. Qed.
Print Assumptions handles_balanced.

(* operations never change the handle list of an existing snapshot; its count moves by the AddRef and
   DecRef operations on it only *)
Theorem cow_roots : forall ops st st' k s, rrun st ops = Some st' -> lookup k (r_snaps st) = Some s ->
  exists s', lookup k (r_snaps st') = Some s' /\ rs_handles s' = rs_handles s /\
             rs_refs s' = rs_refs s + count_ops (is_addref k) ops - count_ops (is_decref k) ops.
Proof. exact cow_roots_proof. Qed.
Print Assumptions cow_roots.

(* non-vacuity: root 1 (handle 10), a reader on it, root 2 (10, 11), root 1 released by replaceRoot,
   root 3 (11 only, after a merge), root 2 released: handle 10 stays open for the reader alone; when the
   reader closes, 10 is closed (once) and 11 is not; after Close of the writer all are closed once;
   a double release and a build from a released snapshot are not well-formed *)
Example refs_example :
  (exists st, rrun rinit refs_ops = Some st /\ read_ok st 1 = true /\
     lookup 10 (r_handles st) = Some {| h_refs := 1; h_open := true; h_closes := 0 |}) /\
  (exists st, rrun rinit (refs_ops ++ [RDecRef 1]) = Some st /\ read_ok st 1 = false /\
     lookup 10 (r_handles st) = Some {| h_refs := 0; h_open := false; h_closes := 1 |} /\
     lookup 11 (r_handles st) = Some {| h_refs := 1; h_open := true; h_closes := 0 |}) /\
  (exists st, rrun rinit (refs_ops ++ [RDecRef 1; RDecRef 3]) = Some st /\
     forallb (fun p => negb (h_open (snd p)) && Nat.eqb (h_closes (snd p)) 1) (r_handles st) = true) /\
  rrun rinit (refs_ops ++ [RDecRef 1; RDecRef 1]) = None /\
  rrun rinit (refs_ops ++ [RDecRef 1; RNew 4 1 [10] []]) = None.
Proof. exact refs_example_proof. Qed.
Print Assumptions refs_example.

(* reader_frozen.  A Reader holds a Snapshot value; snapshots are immutable values (in Gallina by
   construction; in Go by copy-on-write, Props/C01.v introduce_refines and C06 build new values).  An
   observation the monitor validates at position |pre| equals the observables of the root at that
   position = the abstract index after the batches introduced so far, and any other observation
   validated at the same position — e.g. by the same held reader after any number of later batches,
   merges, persists, removals (the engine files a held reader's later reads under the epoch of its
   snapshot) — agrees with it: later events cannot matter. *)
Theorem reader_frozen : forall pre o post st,
  accept_run init_state (pre ++ EObserve o :: post) = Some st ->
  exists stn, accept_run init_state pre = Some stn /\
    o_epoch o = sn_epoch (t_root stn) /\ o_count o = snap_count (t_root stn) /\
    o_matchall o = match_all (t_root stn) /\ map snd (o_matchall o) = abs (t_root stn) /\
    Permutation (map snd (o_matchall o)) (fold_left apply_batch (t_batches stn) (loaded pre)) /\
    (forall p, In p (o_lookups o) -> Permutation (snd p) (lookup_id (t_root stn) (fst p))) /\
    (forall o2 post2 st2, accept_run init_state (pre ++ EObserve o2 :: post2) = Some st2 ->
       o_epoch o2 = o_epoch o /\ o_count o2 = o_count o /\ o_matchall o2 = o_matchall o /\
       forall id l1 l2, In (id, l1) (o_lookups o) -> In (id, l2) (o_lookups o2) -> Permutation l1 l2).
Proof. exact reader_frozen_proof. Qed.
Print Assumptions reader_frozen.
