(* Props/C05.v — Concurrent batches are linearizable; readers see a prefix (M-IDX part).
   Only statements, each closed by `exact`, with Print Assumptions beneath.
   Monitor: Index/Trace.v (accept_run over ECall/ERet/EIntro/EPersistSwap/EMerge/EObserve);
   proofs: Index/ModelProofs.v, Index/TraceProofs.v. *)
From Coq Require Import ZArith List Bool Permutation.
From Bluge Require Import Base.Res Index.Model Index.Trace Index.ModelProofs Index.ModelProofsBatch
  Index.ModelProofsMerge Index.TraceProofs.
Import ListNotations.
Open Scope Z_scope.

(* 13. obsoletes precomputed against any earlier root (sound entries for some segments, none
   for the others, in any order) give the very snapshot that recomputing everything gives *)
Theorem stale_prepare_harmless : forall root b obs newid e,
  obs_sound root b obs = true ->
  introduce_segment root b obs newid e = introduce_segment root b [] newid e.
Proof. exact stale_prepare_harmless_proof. Qed.
Print Assumptions stale_prepare_harmless.

(* 14. the introduction order is a linearization: (a) keys are introduced once and every call
   that returned nil was introduced; (b) if k1 returned before k2 was called then k1 precedes k2
   in the introduction order; (c) the root holds the batches applied in that order *)
Theorem introductions_linearize : forall evs st,
  accept_run init_state evs = Some st -> no_load evs ->
  (NoDup (t_keys st) /\ length (t_keys st) = length (t_batches st) /\
   forall k, In (ERet k true) evs -> In k (t_keys st)) /\
  (forall pre k1 ok mid k2 post, evs = pre ++ [ERet k1 ok] ++ mid ++ [ECall k2] ++ post ->
     In k1 (t_keys st) -> In k2 (t_keys st) ->
     exists l1 l2 l3, t_keys st = l1 ++ k1 :: l2 ++ k2 :: l3) /\
  Permutation (abs (t_root st)) (apply_batches (t_batches st)).
Proof. exact introductions_linearize_proof. Qed.
Print Assumptions introductions_linearize.

(* 15. what a reader observes (match-all, count, lookups by id) is the abstract index after the
   batches introduced before it, a prefix of the final introduction order, and that prefix
   contains every batch acknowledged before the observation *)
Theorem reader_is_prefix : forall pre o post st,
  accept_run init_state (pre ++ EObserve o :: post) = Some st -> no_load (pre ++ EObserve o :: post) ->
  exists stn,
    accept_run init_state pre = Some stn /\
    Permutation (map snd (o_matchall o)) (apply_batches (t_batches stn)) /\
    map snd (o_matchall o) = abs (t_root stn) /\
    o_count o = Z.of_nat (length (apply_batches (t_batches stn))) /\
    (forall id ds, In (id, ds) (o_lookups o) ->
       Permutation ds (filter (fun d => doc_id d =? id) (apply_batches (t_batches stn)))) /\
    (exists ks bs, t_keys st = t_keys stn ++ ks /\ t_batches st = t_batches stn ++ bs /\ length ks = length bs) /\
    length (t_keys stn) = length (t_batches stn) /\
    (forall k, In (ERet k true) pre -> In k (t_keys stn)).
Proof. exact reader_is_prefix_proof. Qed.
Print Assumptions reader_is_prefix.

(* non-vacuity *)
Example stale_example :
  obs_sound ex_r2 ex_b3 ex_obs3 = true /\
  introduce_segment ex_r2 ex_b3 ex_obs3 3 3 = introduce_segment ex_r2 ex_b3 [] 3 3.
Proof. exact stale_example_proof. Qed.
Print Assumptions stale_example.

Example linearization_example :
  no_load tx_trace /\
  exists st, accept_run init_state tx_trace = Some st /\
    t_keys st = [1; 2; 3; 4; 5] /\
    t_batches st = [ex_b1; ex_b2; ex_b3; tx_b4; tx_b5] /\
    seg_ids (t_root st) = [9] /\
    abs (t_root st) = [(2, 21); (5, 50)] /\
    apply_batches (t_batches st) = [(2, 21); (5, 50)].
Proof. exact trace_example_proof. Qed.
Print Assumptions linearization_example.
