(* Props/C07.v — Every query returns exactly the documents its meaning selects.
   Only statements, each closed by `exact`, with Print Assumptions beneath. *)
From Coq Require Import ZArith List.
From Bluge Require Import Base.Res Search.Numeric Search.Postings Search.Searchers Search.Semantics Search.SearchersProofs.
Import ListNotations.
Open Scope Z_scope.

Example run_boolean_on_example_index :
  run ex_sn copts_default ex_q1 = Ok [0; 2] /\ sem_numbers ex_q1 ex_sn = [0; 2].
Proof. exact ex_run_boolean. Qed.
Print Assumptions run_boolean_on_example_index.

Example deleted_document_never_returned :
  run ex_sn copts_default (QTerm 0 t_ba) = Ok [0; 3; 4] /\ sem_ids (QTerm 0 t_ba) ex_sn = [1; 4; 5].
Proof. exact ex_deleted_skipped. Qed.
Print Assumptions deleted_document_never_returned.

Example advance_crosses_segments :
  (s <- compile ex_sn copts_default (QTerm 0 t_ab) ;; run_script 100 10 s [ONext; OAdvance 3; ONext]) = Ok [Some 0; Some 3; None].
Proof. exact ex_advance_across_segments. Qed.
Print Assumptions advance_crosses_segments.

Example sloppy_phrase_on_example_index :
  run ex_sn copts_default (QPhrase 0 [[t_ab]; [t_ab]] 1) = Ok [2] /\
  run ex_sn copts_default (QPhrase 0 [[t_ab]; [t_ab]] 0) = Ok [] /\
  sem_numbers (QPhrase 0 [[t_ab]; [t_ab]] 1) ex_sn = [2].
Proof. exact ex_phrase_slop. Qed.
Print Assumptions sloppy_phrase_on_example_index.
